(* L0: SeriesColumns inside the positional reference model.
   A series column `s` of depth d is read as d FloatColumn pseudo-columns
   s#0 .. s#(d-1) (sample j of row i = cell i of s#j).  '#' cannot occur in a
   column name, so pseudo-names never clash with real ones.  Every operation of
   the alphabet that moves, selects, merges, resizes, deletes or concatenates
   rows then applies to series cells unchanged (Spec.step), and the operations
   that are specific to series columns are finite sequences of alphabet
   operations (expand).  Concatenation of different depths is the union of
   pseudo-columns with NaN defaults: exactly "padded with NaN to the larger
   depth".  Hand-written, depends on nothing generated.  Definitions only. *)
From Coq Require Import ZArith NArith List Bool String Ascii Arith.
From DM Require Import Base.PyVal Spec.Nf Spec.Table Spec.Ops.
Import ListNotations.
Open Scope string_scope.

(* ---------- pseudo-column names *)
Definition digit (n : nat) : ascii := ascii_of_nat (48 + n).
Fixpoint nat_str_fuel (fuel n : nat) (acc : string) : string :=
  match fuel with
  | O => acc
  | S f => let acc' := String (digit (n mod 10)) acc in
           if Nat.eqb (n / 10) 0 then acc' else nat_str_fuel f (n / 10) acc'
  end.
Definition nat_str (n : nat) : string := nat_str_fuel (S n) n "".
Definition sname (n : string) (j : nat) : string := n ++ "#" ++ nat_str j.

(* ---------- the value of a series assignment, classified by its shape *)
Inductive svalue :=
  | SVScalar (v : pyv)                       (* every addressed sample *)
  | SVSeries (vs : list pyv)                 (* one depth-long series, for every addressed row *)
  | SVPerRow (vs : list pyv)                 (* one number per addressed row, for all its samples *)
  | SVMatrix (rows : list (list pyv)).       (* addressed rows x depth *)

Definition nth_pyv (j : nat) (l : list pyv) : pyv := nth j l PNone.

Definition sample_rhs (v : svalue) (j : nat) : rhs :=
  match v with
  | SVScalar x => RScalar x
  | SVSeries vs => RScalar (nth_pyv j vs)
  | SVPerRow vs => RSeq vs
  | SVMatrix rows => RSeq (map (nth_pyv j) rows)
  end.

(* the shape must fit the depth *)
Definition svalue_fits (v : svalue) (d : nat) : bool :=
  match v with
  | SVSeries vs => Nat.eqb (List.length vs) d
  | SVMatrix rows => forallb (fun r => Nat.eqb (List.length r) d) rows
  | _ => true
  end.

Inductive sop :=
  | SPlain (o : op)
  | SNew (t : nat) (name : string) (depth old_depth : nat)                   (* dm[name] = SeriesColumn(depth) *)
  | SSet (t : nat) (name : string) (depth : nat) (a : addr) (v : svalue)     (* dm[name][a] = v *)
  | SSetSample (t : nat) (name : string) (a : addr) (js : list nat) (r : rhs)(* dm[name][a, j] / [a, j1:j2] = v *)
  | SSetDepth (t : nat) (name : string) (old new : nat)                      (* dm[name].depth = new *)
  | SRename (t : nat) (old new : string) (depth : nat) (ident : bool)
  | SDelCol (t : nat) (name : string) (depth : nat)
  | SCopyCol (t : nat) (name : string) (old_depth : nat) (t2 : nat) (name2 : string) (depth : nat)
  | SConcatRow (t t2 : nat) (i : Z)                 (* P[t] << P[t2][i] (i normalised): the one-row table first, then << *)
  | SConcatDict (t : nat) (n : nat) (cols : list (string * list pyv))
                                                   (* P[t] << {name: values, ...}: the table _fromdict builds (n = longest value), then << *)
  | SRefused (t : nat) (e : exn)       (* a malformed series assignment: raises (class as observed), changes nothing *)
  | SOut.                                                                    (* a step the encoding does not cover *)

Definition upto (d : nat) : list nat := seq 0 d.

(* npool: the number of pool members before the operation (the index the next new table gets) *)
Definition expand (npool : nat) (so : sop) : list op :=
  match so with
  | SConcatRow t t2 i => [OSlice t2 (Some i) (Some (i + 1)%Z); OConcat t npool]
  | SConcatDict t n cols =>
      ONew n
      :: flat_map (fun '(name, vs) => [OSetColKind npool name KMixed;
                                       OSetCell npool name (ASlice None (Some (Z.of_nat (List.length vs)))) (RSeq vs)]) cols
      ++ [OConcat t npool]
  | SPlain o => [o]
  | SNew t name d d0 =>
      map (fun j => OSetColKind t (sname name j) KFloat) (upto d)
      ++ map (fun j => ODelCol t (sname name j)) (seq d (d0 - d))
  | SSet t name d a v =>
      if svalue_fits v d
      then map (fun j => OSetCell t (sname name j) a (sample_rhs v j)) (upto (Nat.max 1 d))
      else [OSetLength t (-1)]            (* shapes the encoding does not cover: out of model *)
  | SSetSample t name a js r => map (fun j => OSetCell t (sname name j) a r) js
  | SSetDepth t name d0 d =>
      map (fun j => OSetColKind t (sname name j) KFloat) (seq d0 (d - d0))
      ++ map (fun j => ODelCol t (sname name j)) (seq d (d0 - d))
  | SRename t old new d ident => map (fun j => ORename t (sname old j) (sname new j) ident) (upto (Nat.max 1 d))
  | SDelCol t name d => map (fun j => ODelCol t (sname name j)) (upto (Nat.max 1 d))
  | SCopyCol t name d0 t2 name2 d =>
      map (fun j => OSetColFromCol t (sname name j) t2 (sname name2 j)) (upto (Nat.max 1 d))
      ++ map (fun j => ODelCol t (sname name j)) (seq d (d0 - d))
  | SRefused _ _ => []
  | SOut => [OSetLength 0 (-1)]
  end.

(* a composite operation: the alphabet operations in order; the first exception (or out-of-model step) ends it *)
Fixpoint run_ops (w : world) (ops : list op) : world * outcome :=
  match ops with
  | [] => (w, OkUnit)
  | [o] => step w o
  | o :: r => let '(w', out) := step w o in
              match out with
              | OkUnit | OkNew => run_ops w' r
              | _ => (w', out)
              end
  end.

Definition sstep (w : world) (so : sop) : world * outcome :=
  match so with
  | SRefused _ e => (w, Err e)
  | _ => run_ops w (expand (List.length (pool w)) so)
  end.
Definition srun (sops : list sop) (w : world) : world := fold_left (fun w so => fst (sstep w so)) sops w.

Definition starget (so : sop) : option nat :=
  match so with
  | SPlain o =>
      match o with
      | OSetColKind t _ _ | OSetCol t _ _ | OSetColFromCol t _ _ _ | OSetCell t _ _ _
      | OSetLength t _ | ODelRows t _ | ODelCol t _ | ORename t _ _ _ | OSetSorted t _
      | OSetColFromSlice t _ _ _ => Some t
      | _ => None
      end
  | SNew t _ _ _ | SSet t _ _ _ _ | SSetSample t _ _ _ _ | SSetDepth t _ _ _ | SRename t _ _ _ _
  | SDelCol t _ _ | SCopyCol t _ _ _ _ _ | SRefused t _ => Some t
  | SConcatRow _ _ _ | SConcatDict _ _ _ | SOut => None
  end.
