(* L0 spec for C20, call histories in which a call may RAISE: written from the property text, depends on nothing
   generated, contains no proofs.  Extends the acceptor of Spec/Memo.v by one observation, "the call raised".

   exn a = None:        the body returns f a for the argument list a;
   exn a = Some true:   the body raises for a (it runs, up to the raise);
   exn a = Some false:  evaluating a callable argument of a raises (lazy mode: the body does not run; in a non-lazy
                        instance callables are not evaluated and the call is an ordinary one).

   What the property fixes for such a call ("after clear() exactly the next call re-executes", "the body runs at most
   once per distinct argument list", "callable arguments are evaluated only when the body actually runs"):
     - a call whose key is stored (and that does not follow clear()) is served from the store: it cannot raise;
     - otherwise the call is the re-execution: nothing is stored (there is no value), the entries of all other
       argument lists stay, and -- being the next call after clear() -- it uses the clear() up: the call after it is
       an ordinary call again.  The entry of its own key was dropped before the lookup, as for every call after clear();
     - a raise inside the body is observed with the body having run and, in lazy mode, all callables evaluated; a raise
       of a callable argument with the body not having run and at most all callables evaluated. *)
From Coq Require Import ZArith List Bool.
From DM Require Import Spec.Memo.
Import ListNotations.
Open Scope Z_scope.

Section MemoExnSpec.
  Variables (A K V F : Type).
  Variable f : A -> V.
  Variable exn : A -> option bool.
  Variable key_of : A -> K.
  Variable thunks : A -> nat.
  Variable size : V -> Z.
  Variables (keqb : K -> K -> bool) (veqb : V -> V -> bool) (feqb : F -> F -> bool).

  (* Some b: the call raises unless it is served from the store; b = the body runs *)
  Definition raises_at (o : opts K F) (a : A) : option bool :=
    match exn a with
    | Some true => Some true
    | Some false => if lazy o then Some false else None
    | None => None
    end.

  (* what is observed at a call that raised *)
  Record xevent := { x_ran : bool; x_forced : nat; x_keys : list K; x_csize : Z; x_files : list K }.
  Inductive xtev := XT (t : tev A K V F) | XRaise (i : nat) (a : A) (ob : xevent).

  Definition is_some {X} (o : option X) : bool := match o with Some _ => true | None => false end.

  (* one observed raising call against the spec: None = rejected *)
  Definition spec_raise (o : opts K F) (st : inst K V) (d : list (F * K * V)) (a : A) (ob : xevent)
    : option (inst K V * list (F * K * V)) :=
    let k := key A K F key_of o a in
    let fo := folder o in
    let mem1 := if ign st then remove K V keqb k (cache st) else cache st in
    let d1 := if ign st then dremove K V F keqb feqb fo k d else d in
    let stored := if persistent o then dlookup K V F keqb feqb fo k d1 else lookup K V keqb k mem1 in
    match stored, raises_at o a with
    | None, Some body_ran =>
        if Bool.eqb (x_ran ob) body_ran
           && (if body_ran then Nat.eqb (x_forced ob) (if lazy o then thunks a else 0%nat)
               else Nat.leb (x_forced ob) (thunks a))
           && keys_eqb K keqb (x_keys ob) (map fst mem1) && Z.eqb (x_csize ob) (total K V size mem1)
           && same_keys K keqb (x_files ob) (dkeys K V F feqb fo d1)
        then Some ({| cache := mem1; ign := false |}, d1) else None
    | _, _ => None
    end.

  (* the acceptor; a call that RETURNS although its body ran and raises for these arguments is rejected *)
  Fixpoint accept_x (w : world K V F) (tr : list xtev) : bool :=
    match tr with
    | [] => true
    | XT (TNew o) :: r => accept_x {| insts := insts w ++ [(o, fresh)]; disk := disk w |} r
    | XT (TClear i) :: r =>
        match nth_error (insts w) i with
        | Some (o, st) => accept_x (upd K V F w i o {| cache := cache st; ign := true |} (disk w)) r
        | None => accept_x w r
        end
    | XT (TCall i a ob) :: r =>
        match nth_error (insts w) i with
        | Some (o, st) =>
            match spec_call A K V F f key_of thunks size keqb veqb feqb o st (disk w) a ob with
            | Some (st', d') =>
                if e_ran ob && is_some (raises_at o a) then false else accept_x (upd K V F w i o st' d') r
            | None => false
            end
        | None => accept_x w r
        end
    | XRaise i a ob :: r =>
        match nth_error (insts w) i with
        | Some (o, st) =>
            match spec_raise o st (disk w) a ob with
            | Some (st', d') => accept_x (upd K V F w i o st' d') r
            | None => false
            end
        | None => accept_x w r
        end
    end.
End MemoExnSpec.

Arguments x_ran {K}. Arguments x_forced {K}. Arguments x_keys {K}. Arguments x_csize {K}. Arguments x_files {K}.
Arguments XT {A K V F}. Arguments XRaise {A K V F}.
