(* L0 for C13, SeriesColumn part: series o x with a scalar, a per-row operand (one value per row), a per-sample
   operand (one value per sample) or a full matrix; every sample is sample o x (resp. x o sample) in float64. *)
From Coq Require Import ZArith List Bool String.
From DM Require Import Base.PyVal Spec.Nf Spec.Arith.
Import ListNotations.

Inductive soperand := SScalar (x : num) | SVec (xs : list num) | SMat (xss : list (list num)).
(* a series column: depth, row ids, one list of samples per row *)
Record scolumn := SCol { sdepth : nat; sids : list N; srows : list (list fl) }.

Fixpoint all_len {A : Type} (n : nat) (l : list (list A)) : bool :=
  match l with [] => true | r :: t => Nat.eqb (List.length r) n && all_len n t end.

Section Series.
  Variable num_op : binop -> num -> num -> num.

  Definition scell (op : binop) (refl : bool) (c : fl) (x : num) : fl :=
    let '(a, b) := ordered refl (NFlt c) (NFlt (num_fl x)) in num_fl (num_op op a b).
  Definition srow_scalar (op : binop) (refl : bool) (row : list fl) (x : num) : list fl :=
    map (fun c => scell op refl c x) row.
  Definition srow_vec (op : binop) (refl : bool) (row : list fl) (xs : list num) : list fl :=
    map2 (scell op refl) row xs.

  (* a 1-D operand as long as the column is per row; otherwise, as long as the depth, per sample *)
  Definition spec_series (op : binop) (refl : bool) (c : scolumn) (o : soperand) : res scolumn :=
    let n := List.length (srows c) in
    match o with
    | SScalar x => Ok (SCol (sdepth c) (sids c) (map (fun row => srow_scalar op refl row x) (srows c)))
    | SVec xs =>
        if Nat.eqb (List.length xs) n then Ok (SCol (sdepth c) (sids c) (map2 (srow_scalar op refl) (srows c) xs))
        else if Nat.eqb (List.length xs) (sdepth c)
        then Ok (SCol (sdepth c) (sids c) (map (fun row => srow_vec op refl row xs) (srows c)))
        else Raise ValueError
    | SMat xss =>
        if Nat.eqb (List.length xss) n && all_len (sdepth c) xss
        then Ok (SCol (sdepth c) (sids c) (map2 (srow_vec op refl) (srows c) xss))
        else Raise ValueError
    end.
End Series.

(* judged samples: those on which the instance in use is defined (defd); for the exact instance: those it computes *)
Definition scell_defined_gen (defd : binop -> num -> num -> bool) (op : binop) (refl : bool) (c : fl) (x : num) : bool :=
  let '(a, b) := ordered refl (NFlt c) (NFlt (num_fl x)) in defd op a b.
Definition scell_defined := scell_defined_gen op_defined.
Definition fl_opt_eqv (d : bool) (a b : fl) : bool := negb d || fl_eqv a b.
Fixpoint rows_eqv_mask (m : list (list bool)) (a b : list (list fl)) : bool :=
  match m, a, b with
  | [], [], [] => true
  | mr :: m', ar :: a', br :: b' =>
      Nat.eqb (List.length ar) (List.length br) && forallb (fun x => x) (map2 (fun d p => fl_opt_eqv d (fst p) (snd p)) mr (combine ar br))
      && rows_eqv_mask m' a' b'
  | _, _, _ => false
  end.
Definition series_mask_gen (defd : binop -> num -> num -> bool) (op : binop) (refl : bool) (c : scolumn) (o : soperand) : list (list bool) :=
  match spec_series (fun o' a b => if defd o' a b then NFlt (FFin false 1 0) else NFlt (FZero false)) op refl c o with
  | Ok r => map (map (fun f => match f with FFin _ _ _ => true | _ => false end)) (srows r)
  | Raise _ => []
  end.
Definition series_mask := series_mask_gen op_defined.
Definition srescol_eqv_mask (m : list (list bool)) (spec observed : res scolumn) : bool :=
  match spec, observed with
  | Ok x, Ok y => Nat.eqb (sdepth x) (sdepth y) && ids_eqb (sids x) (sids y) && rows_eqv_mask m (srows x) (srows y)
  | Raise e1, Raise e2 => exn_eqb e1 e2
  | _, _ => false
  end.
