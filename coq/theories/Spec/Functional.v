(* L0 for C19: map_, filter_ and setcol, written from the property text.
   A table is a row count, a default column type and a list of named, typed
   columns of cells (by value: no row ids, no owners, no shared columns --
   aliasing and ownership are audited on the Python side).  Hand-written,
   depends on nothing generated.  Definitions only. *)
From Coq Require Import ZArith List Bool String.
From DM Require Import Base.PyVal Spec.Nf Spec.Table.
Import ListNotations.
Open Scope nat_scope.

Record col := { cname : string; ckind : kind; ccells : list val }.
(* tcols is in creation order (the order of DataMatrix._cols); names are distinct *)
Record tab := { tlen : nat; tdflt : kind; tcols : list col }.

Definition with_cells (c : col) (xs : list val) : col := {| cname := cname c; ckind := ckind c; ccells := xs |}.
Definition with_cols (t : tab) (cs : list col) : tab := {| tlen := tlen t; tdflt := tdflt t; tcols := cs |}.
Definition tab_names (t : tab) : list string := map cname (tcols t).
Definition find_col (n : string) (cs : list col) : option col := find (fun c => String.eqb n (cname c)) cs.
Definition has_col (n : string) (cs : list col) : bool := match find_col n cs with Some _ => true | None => false end.
Definition cell_at (j : nat) (c : col) : val := nth j (ccells c) VNone.

(* dict item assignment on the ordered column dict: an existing name keeps its place, a new name goes last *)
Fixpoint put (c : col) (cs : list col) : list col :=
  match cs with
  | [] => [c]
  | x :: r => if String.eqb (cname c) (cname x) then c :: r else x :: put c r
  end.

(* a derived table (copy, selection) has MixedColumn as default column type *)
Definition derived (t : tab) : tab := {| tlen := tlen t; tdflt := KMixed; tcols := tcols t |}.

(* ---------- rows as keyword dicts.  A dict is represented by its items in ascending key order
   (sorted(names), code point order); the same representation is used for every table. *)
Fixpoint ins_name (n : string) (l : list string) : list string :=
  match l with
  | [] => [n]
  | m :: r => if str_leb n m then n :: l else m :: ins_name n r
  end.
Definition sort_names (l : list string) : list string := fold_right ins_name [] l.

Definition row := list (string * val).          (* what the row function receives: f applied to the row as keywords *)
Definition upd := list (string * pyv).          (* what it returns: a dict of Python objects, in its own key order *)

Definition read_row (t : tab) (j : nat) : row :=
  map (fun n => (n, match find_col n (tcols t) with Some c => cell_at j c | None => VNone end))
      (sort_names (tab_names t)).

(* dict.__setitem__ / dict.update on an insertion-ordered dict *)
Fixpoint dict_set {A} (k : string) (v : A) (d : list (string * A)) : list (string * A) :=
  match d with
  | [] => [(k, v)]
  | (k', v') :: r => if String.eqb k k' then (k', v) :: r else (k', v') :: dict_set k v r
  end.
Definition dict_update {A} (d u : list (string * A)) : list (string * A) :=
  fold_left (fun acc kv => dict_set (fst kv) (snd kv) acc) u d.
Definition row_dict (r : row) : upd := map (fun kv => (fst kv, pyv_of_val (snd kv))) r.

Fixpoint map_res {A B} (f : A -> res B) (l : list A) : res (list B) :=
  match l with
  | [] => Ok []
  | a :: r => bind (f a) (fun b => bind (map_res f r) (fun bs => Ok (b :: bs)))
  end.

(* ---------- map_(f, dm): row j of the result is row j of the SOURCE updated with f of that source row;
   a key that names no column becomes a new MixedColumn that is '' in the rows whose f did not return it.
   Cells are stored in the normal form of their column (Spec/Nf.v); a value the column type rejects makes
   the call raise.  The result is built row by row on a copy t of the source. *)
Definition new_col (n : nat) (name : string) : col :=
  {| cname := name; ckind := KMixed; ccells := repeat (default_cell KMixed) n |}.
Definition add_missing (ks : list string) (t : tab) : tab :=
  fold_left (fun t' k => if has_col k (tcols t') then t' else with_cols t' (tcols t' ++ [new_col (tlen t') k])) ks t.
Definition set_cell_of (d : upd) (j : nat) (c : col) : res col :=
  match lookup (cname c) d with
  | Some v => bind (nf (ckind c) v) (fun x => Ok (with_cells c (set_nth j x (ccells c))))
  | None => Ok c
  end.
Definition set_row (t : tab) (j : nat) (d : upd) : res tab :=
  bind (map_res (set_cell_of d j) (tcols t)) (fun cs => Ok (with_cols t cs)).
(* the source row j as a dict, updated with what f returns for it *)
Definition upd_row (f : row -> upd) (src : tab) (j : nat) : upd :=
  dict_update (row_dict (read_row src j)) (f (read_row src j)).
Definition map_row (f : row -> upd) (src t : tab) (j : nat) : res tab :=
  let d := upd_row f src j in set_row (add_missing (map fst d) t) j d.
Definition map_dm (f : row -> upd) (src : tab) : res tab :=
  fold_left (fun acc j => bind acc (fun t' => map_row f src t' j)) (seq 0 (tlen src)) (Ok (derived src)).

(* map_(g, column): a new column of the same type holding g(cell).  A MixedColumn keeps the computed
   object as it is; a numeric column converts it to its dtype (numbers only; None is NaN in a
   FloatColumn).  OtherError = the value is outside what this spec speaks about. *)
Definition mapped_cell (k : kind) (v : pyv) : res val :=
  match k, v with
  | KMixed, PInt z => Ok (VInt z)
  | KMixed, PFloat f => Ok (VFlt f)
  | KMixed, PStr s _ _ => Ok (VStr s)
  | KMixed, PNone => Ok VNone
  | KFloat, (PInt z | PNpInt z) => Ok (VFlt (round53 z))
  | KFloat, PBool b => Ok (VFlt (if b then FFin false 1 0 else FZero false))
  | KFloat, (PFloat f | PNpFloat _ f) => Ok (VFlt f)
  | KFloat, PNone => Ok (VFlt FNan)
  | KInt, (PInt z | PNpInt z) => Ok (VInt z)
  | KInt, PBool b => Ok (VInt (if b then 1 else 0)%Z)
  | KInt, (PFloat f | PNpFloat _ f) =>
      match f with FNan => Raise ValueError | FInf _ => Raise OverflowError | _ => Ok (VInt (fl_trunc f)) end
  | _, _ => Raise OtherError
  end.
Definition map_col (g : val -> pyv) (c : col) : res col :=
  bind (map_res (fun v => mapped_cell (ckind c) (g v)) (ccells c)) (fun xs => Ok (with_cells c xs)).

(* ---------- filter_: exactly the rows / cells for which f is true, in source order *)
Definition kept_rows (f : row -> bool) (t : tab) : list nat := filter (fun j => f (read_row t j)) (seq 0 (tlen t)).
Definition select_pos (ps : list nat) (c : col) : col := with_cells c (map (fun p => cell_at p c) ps).
Definition filter_dm (f : row -> bool) (t : tab) : tab :=
  let ps := kept_rows f t in
  {| tlen := List.length ps; tdflt := KMixed; tcols := map (select_pos ps) (tcols t) |}.
Definition filter_col (g : val -> bool) (c : col) : col := with_cells c (filter g (ccells c)).

(* ---------- setcol(dm, name, value): a copy of dm with that column set as dm[name] = value sets it.
   A column type creates an empty column; a column object gives a column of its type with its cells;
   a scalar is broadcast and a sequence applied in order (Spec/Table.rhs_cells) into the existing
   column of that name, or into a new column of the table's default type. *)
Inductive cvalue := CVScalar (v : pyv) | CVSeq (vs : list pyv) | CVCol (k : kind) (cells : list val) | CVType (k : kind).
Definition kind_for (t : tab) (n : string) : kind :=
  match find_col n (tcols t) with Some c => ckind c | None => tdflt t end.
Definition assign (t : tab) (n : string) (v : cvalue) : res tab :=
  let mk k xs := with_cols t (put {| cname := n; ckind := k; ccells := xs |} (tcols t)) in
  match v with
  | CVType k => Ok (mk k (repeat (default_cell k) (tlen t)))
  | CVCol k cells =>
      if Nat.eqb (List.length cells) (tlen t)
      then bind (coerce_all k (map pyv_of_val cells)) (fun xs => Ok (mk k xs))
      else Raise ValueError
  | CVScalar x => let k := kind_for t n in bind (rhs_cells k (tlen t) (RScalar x)) (fun xs => Ok (mk k xs))
  | CVSeq xs => let k := kind_for t n in bind (rhs_cells k (tlen t) (RSeq xs)) (fun ys => Ok (mk k ys))
  end.
Definition setcol (t : tab) (n : string) (v : cvalue) : res tab := assign t n v.

(* ---------- well-formed tables *)
Definition twf (t : tab) : Prop :=
  NoDup (tab_names t) /\ Forall (fun c => List.length (ccells c) = tlen t) (tcols t).
(* every cell is a normal form of its column type *)
Definition col_normal (c : col) : Prop := Forall (fun x => nf (ckind c) (pyv_of_val x) = Ok x) (ccells c).
