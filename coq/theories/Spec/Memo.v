(* L0 spec for C20 (fnc.memoize), written from the property text; depends on
   nothing generated, contains no proofs.

   A world is a list of memoize instances (all wrapping the same body f) and
   one disk (folder, key) -> value.  Arguments are taken up to the property's
   argument equivalence (one element of A per class), so key_of is injective
   on A.  The spec is an ACCEPTOR of observed traces: the only freedom it
   leaves to an implementation is which entries of the in-memory cache are
   evicted at a store, and it constrains that freedom by the two clauses of
   the property (evicted entries are the oldest ones; the sum of sizes after
   the call is at most max_size).  Everything else is determined:
     - a call whose key is stored (in memory, or in the folder when
       persistent) and that does not follow clear() must be served from the
       store: the body does not run, no thunk is evaluated;
     - otherwise the body runs exactly once, on the forced arguments when
       lazy, and the result is stored as the newest entry;
     - clear() affects exactly the next call: the entry of that call's key is
       dropped (memory and folder) before the lookup, so it re-executes;
     - without an explicit key the returned value is f(args), always. *)
From Coq Require Import ZArith List Bool.
Import ListNotations.
Open Scope Z_scope.

Section MemoSpec.
  Variables (A K V F : Type).
  Variable f : A -> V.              (* the wrapped body, on argument classes *)
  Variable key_of : A -> K.         (* argument-derived key (md5 of the serialised call) *)
  Variable thunks : A -> nat.       (* number of callables inside the argument list *)
  Variable size : V -> Z.           (* sys.getsizeof(pickle.dumps(v)) *)
  Variables (keqb : K -> K -> bool) (veqb : V -> V -> bool) (feqb : F -> F -> bool).

  Record opts := { persistent : bool; xkey : option K; lazy : bool; max_size : Z; folder : F }.
  Record inst := { cache : list (K * V); ign : bool }.          (* insertion-ordered; clear() pending *)
  Record world := { insts : list (opts * inst); disk : list (F * K * V) }.
  Inductive op := ONew (o : opts) | OCall (i : nat) (a : A) | OClear (i : nat).

  (* what is observed at a call *)
  Record event := { e_ret : V; e_ran : bool; e_forced : nat;
                    e_keys : list K;      (* keys of the in-memory cache after the call, oldest first *)
                    e_csize : Z;          (* cache_size after the call *)
                    e_files : list K }.   (* files in the instance's folder after the call *)

  Inductive tev := TNew (o : opts) | TClear (i : nat) | TCall (i : nat) (a : A) (ob : event).

  Definition fresh : inst := {| cache := []; ign := false |}.
  Definition w0 : world := {| insts := []; disk := [] |}.

  (* ---- finite maps as association lists ---- *)
  Fixpoint lookup (k : K) (m : list (K * V)) : option V :=
    match m with [] => None | (k', v) :: r => if keqb k k' then Some v else lookup k r end.
  Fixpoint remove (k : K) (m : list (K * V)) : list (K * V) :=
    match m with [] => [] | (k', v) :: r => if keqb k k' then remove k r else (k', v) :: remove k r end.
  Definition at_ (fo : F) (k : K) (e : F * K * V) : bool :=
    let '(fo', k', _) := e in feqb fo fo' && keqb k k'.
  Fixpoint dlookup (fo : F) (k : K) (d : list (F * K * V)) : option V :=
    match d with [] => None | e :: r => if at_ fo k e then Some (snd e) else dlookup fo k r end.
  Fixpoint dremove (fo : F) (k : K) (d : list (F * K * V)) : list (F * K * V) :=
    match d with [] => [] | e :: r => if at_ fo k e then dremove fo k r else e :: dremove fo k r end.
  Fixpoint dkeys (fo : F) (d : list (F * K * V)) : list K :=
    match d with [] => [] | (fo', k, _) :: r => if feqb fo fo' then k :: dkeys fo r else dkeys fo r end.
  Definition total (m : list (K * V)) : Z := fold_right (fun e s => size (snd e) + s) 0 m.

  Fixpoint set_nth {X} (n : nat) (x : X) (l : list X) : list X :=
    match l, n with
    | [], _ => []
    | _ :: r, O => x :: r
    | y :: r, S n' => y :: set_nth n' x r
    end.

  Fixpoint keys_eqb (a b : list K) : bool :=
    match a, b with
    | [], [] => true
    | x :: a', y :: b' => keqb x y && keys_eqb a' b'
    | _, _ => false
    end.
  Definition kmem (k : K) (l : list K) : bool := existsb (keqb k) l.
  Definition same_keys (a b : list K) : bool :=
    forallb (fun k => kmem k b) a && forallb (fun k => kmem k a) b && Nat.eqb (length a) (length b).

  Definition key (o : opts) (a : A) : K := match xkey o with Some k => k | None => key_of a end.

  (* ---- one observed call against the spec: None = rejected ---- *)
  Definition spec_call (o : opts) (st : inst) (d : list (F * K * V)) (a : A) (ob : event)
    : option (inst * list (F * K * V)) :=
    let k := key o a in
    let fo := folder o in
    (* clear() pending: this call's entry is forgotten first *)
    let mem1 := if ign st then remove k (cache st) else cache st in
    let d1 := if ign st then dremove fo k d else d in
    let stored := if persistent o then dlookup fo k d1 else lookup k mem1 in
    let transparent := match xkey o with None => veqb (e_ret ob) (f a) | Some _ => true end in
    match stored with
    | Some v =>
        if negb (e_ran ob) && veqb (e_ret ob) v && transparent && Nat.eqb (e_forced ob) 0
           && keys_eqb (e_keys ob) (map fst mem1) && Z.eqb (e_csize ob) (total mem1)
           && same_keys (e_files ob) (dkeys fo d1)
        then Some ({| cache := mem1; ign := false |}, d1) else None
    | None =>
        let common := e_ran ob && veqb (e_ret ob) (f a)
                      && Nat.eqb (e_forced ob) (if lazy o then thunks a else 0%nat) in
        if persistent o then
          let d2 := d1 ++ [(fo, k, f a)] in
          if common && keys_eqb (e_keys ob) (map fst mem1) && Z.eqb (e_csize ob) (total mem1)
             && same_keys (e_files ob) (dkeys fo d2)
          then Some ({| cache := mem1; ign := false |}, d2) else None
        else
          let full := mem1 ++ [(k, f a)] in
          let n := length (e_keys ob) in
          (* oldest first: what survives is the last n entries, in order *)
          let kept := skipn (length full - n) full in
          if common && Nat.leb n (length full) && keys_eqb (e_keys ob) (map fst kept)
             && Z.leb (total kept) (max_size o)                     (* never exceeds max_size after a call *)
             && Z.eqb (e_csize ob) (total kept)
             && same_keys (e_files ob) (dkeys fo d1)
          then Some ({| cache := kept; ign := false |}, d1) else None
    end.

  Definition upd (w : world) (i : nat) (o : opts) (st : inst) (d : list (F * K * V)) : world :=
    {| insts := set_nth i (o, st) (insts w); disk := d |}.

  (* the acceptor; steps that address an instance that does not exist are skipped *)
  Fixpoint accept (w : world) (tr : list tev) : bool :=
    match tr with
    | [] => true
    | TNew o :: r => accept {| insts := insts w ++ [(o, fresh)]; disk := disk w |} r
    | TClear i :: r =>
        match nth_error (insts w) i with
        | Some (o, st) => accept (upd w i o {| cache := cache st; ign := true |} (disk w)) r
        | None => accept w r
        end
    | TCall i a ob :: r =>
        match nth_error (insts w) i with
        | Some (o, st) =>
            match spec_call o st (disk w) a ob with
            | Some (st', d') => accept (upd w i o st' d') r
            | None => false
            end
        | None => accept w r
        end
    end.
End MemoSpec.

Arguments persistent {K F}. Arguments xkey {K F}. Arguments lazy {K F}. Arguments max_size {K F}.
Arguments folder {K F}. Arguments cache {K V}. Arguments ign {K V}.
Arguments insts {K V F}. Arguments disk {K V F}.
Arguments e_ret {K V}. Arguments e_ran {K V}. Arguments e_forced {K V}. Arguments e_keys {K V}.
Arguments e_csize {K V}. Arguments e_files {K V}.
Arguments ONew {A K F}. Arguments OCall {A K F}. Arguments OClear {A K F}.
Arguments TNew {A K V F}. Arguments TClear {A K V F}. Arguments TCall {A K V F}.
Arguments fresh {K V}. Arguments w0 {K V F}.
