(* L0: the operation alphabet and its positional semantics (Spec.step).
   Outcomes: OkNew (a new pool member was appended), OkUnit, Err (exception
   class), OutOfModel (input the model declares it does not cover; such steps
   are counted and excluded, and every theorem states the guard). *)
From Coq Require Import ZArith NArith List Bool String.
From DM Require Import Base.PyVal Spec.Nf Spec.Table.
Import ListNotations.
Open Scope Z_scope.

Inductive addr :=
  | AInt (i : Z) | ASlice (a b : option Z) | AList (l : list Z) | ASel (t2 : nat) | ARow (i : Z).

Inductive op :=
  | ONew (n : nat)
  | OSetColKind (t : nat) (name : string) (k : kind)
  | OSetCol (t : nat) (name : string) (r : rhs)
  | OSetColFromCol (t : nat) (name : string) (t2 : nat) (name2 : string)
  | OSetCell (t : nat) (name : string) (a : addr) (r : rhs)
  | OSelect (t : nat) (name : string) (c : cmpop) (ref : val)
  | OMerge (o : mergeop) (t t2 : nat)
  | OSlice (t : nat) (a b : option Z)
  | OGetRows (t : nat) (l : list Z)
  | OSort (t : nat) (name : string) (perm : list nat)      (* perm: the order the implementation produced *)
  | OShuffle (t : nat) (perm : list nat)                   (* perm: what `random` did *)
  | OSample (t : nat) (k : Z) (choice : list nat)
  | OSetLength (t : nat) (n : Z)
  | ODelRows (t : nat) (l : list Z)
  | ODelCol (t : nat) (name : string)
  | ORename (t : nat) (old new : string) (new_is_identifier : bool)
  | OConcat (t t2 : nat)
  | OSetSorted (t : nat) (b : bool)
  | OSetColFromSlice (t : nat) (name name2 : string) (l : list Z).   (* dm[name] = dm[name2][[i, j, ...]] *)

Inductive outcome := OkNew | OkUnit | Err (e : exn) | OutOfModel.

Definition put (w : world) (i : nat) (t : table) : world :=
  {| pool := set_nth i t (pool w); nextfam := nextfam w |}.
Definition push (w : world) (t : table) : world :=
  {| pool := pool w ++ [t]; nextfam := nextfam w |}.
Definition get (w : world) (i : nat) : option table := nth_error (pool w) i.

Definition push_opt (w : world) (o : option table) : world * outcome :=
  match o with Some t => (push w t, OkNew) | None => (w, OutOfModel) end.

(* addressed positions; None = the addressing itself raises / is out of model *)
Inductive addressed := Pos (ps : list nat) | AErr (e : exn) | AOut.

Definition address (w : world) (t : table) (a : addr) : addressed :=
  let n := nrows t in
  match a with
  | AInt i | ARow i => match norm_index n i with Some p => Pos [p] | None => AErr IndexError end
  | ASlice x y => Pos (slice_pos n x y)
  | AList l => Pos (map Z.to_nat l)          (* range is checked while writing, as the code does *)
  | ASel t2 =>
      match get w t2 with
      | None => AOut
      | Some k =>
          if negb (Nat.eqb (fam k) (fam t)) then AErr ValueError
          else match all_some (map (fun r => pos_of r (ids t)) (ids k)) with
               | Some ps => Pos ps
               | None => AErr KeyError       (* selection holds rows the table lacks *)
               end
      end
  end.

(* sequential writes of an index list: stop at the first out-of-range index *)
Fixpoint write_list (n : nat) (l : list Z) (xs : list val) (cells : list val) : list val * bool :=
  match l, xs with
  | i :: l', x :: xs' =>
      if (i <? 0) || (Z.of_nat n <=? i) then (cells, false)
      else write_list n l' xs' (set_nth (Z.to_nat i) x cells)
  | _, _ => (cells, true)
  end.

Definition set_cells (w : world) (ti : nat) (t : table) (name : string) (a : addr) (r : rhs) : world * outcome :=
  match lookup name (names t) with
  | None => (w, Err AttributeError)
  | Some si =>
      match nth_error (slots t) si with
      | None => (w, OutOfModel)
      | Some s =>
          let k := skind s in
          match a, address w t a with
          | AInt _, AErr e =>
              (* col[i] = v evaluates the coercion before indexing *)
              match r with
              | RScalar v => match nf k v with Ok _ => (w, Err e) | Raise e' => (w, Err e') end
              | RSeq _ => (w, OutOfModel)
              end
          | _, AErr e => (w, Err e)
          | _, AOut => (w, OutOfModel)
          | AInt _, Pos ps | ARow _, Pos ps =>
              match r with
              | RScalar v =>
                  match nf k v with
                  | Ok x => (put w ti (set_slot t si {| skind := k; scells := write_at ps [x] (scells s) |}), OkUnit)
                  | Raise e => (w, Err e)
                  end
              | RSeq _ => (w, OutOfModel)
              end
          | ASlice _ _, Pos ps =>
              match rhs_cells k (List.length ps) r with
              | Ok xs => (put w ti (set_slot t si {| skind := k; scells := write_at ps xs (scells s) |}), OkUnit)
              | Raise e => (w, Err e)
              end
          | AList l, Pos _ =>
              match rhs_cells k (List.length l) r with
              | Ok xs =>
                  let '(cells, ok) := write_list (nrows t) l xs (scells s) in
                  (put w ti (set_slot t si {| skind := k; scells := cells |}),
                   if ok then OkUnit else Err PlainException)
              | Raise e => (w, Err e)
              end
          | ASel _, Pos ps =>
              match rhs_cells k (List.length ps) r with
              | Ok xs => (put w ti (set_slot t si {| skind := k; scells := write_at ps xs (scells s) |}), OkUnit)
              | Raise e => (w, Err e)
              end
          end
      end
  end.

Definition numeric_kind (k : kind) : bool := match k with KMixed => false | _ => true end.
Definition ref_ok (k : kind) (ref : val) : bool :=
  match k, ref with
  | KMixed, _ => true
  | KFloat, VInt _ => true
  | KFloat, VFlt f => fl_is_finite f
  | KInt, VInt _ => true
  | _, _ => false
  end.

Definition concat_tables (a b : table) (newfam : nat) : res table :=
  let na := nrows a in let nb := nrows b in
  let va := view a in let vb := view b in
  let find (n : string) (v : list (string * kind * list val)) :=
      lookup n (map (fun '(m, k, c) => (m, (k, c))) v) in
  (* a column present in both must have the same type *)
  if existsb (fun '(n, k, _) => match find n va with
                                | Some (k2, _) => negb (match k, k2 with
                                                        | KMixed, KMixed | KFloat, KFloat | KInt, KInt => true
                                                        | _, _ => false end)
                                | None => false end) vb
  then Raise TypeError
  else
    let cols_a := map (fun '(n, k, c) =>
                         (n, {| skind := k;
                                scells := c ++ match find n vb with
                                               | Some (_, c2) => c2
                                               | None => repeat (default_cell k) nb end |})) va in
    let cols_b := flat_map (fun '(n, k, c) =>
                              match find n va with
                              | Some _ => []
                              | None => [(n, {| skind := k; scells := repeat (default_cell k) na ++ c |})]
                              end) vb in
    let cols := cols_a ++ cols_b in
    Ok {| fam := newfam; ids := iotaN 0 (na + nb);
          names := combine (map fst cols) (seq 0 (List.length cols));
          slots := map snd cols; tsorted := true; dflt := KMixed |}.

Definition step (w : world) (o : op) : world * outcome :=
  match o with
  | ONew n =>
      (push {| pool := pool w; nextfam := S (nextfam w) |}
            {| fam := nextfam w; ids := iotaN 0 n; names := []; slots := []; tsorted := true; dflt := KMixed |},
       OkNew)
  | OSetColKind ti name k =>
      match get w ti with
      | Some t => (put w ti (fresh_col t name k), OkUnit)
      | None => (w, OutOfModel)
      end
  | OSetCol ti name r =>
      match get w ti with
      | None => (w, OutOfModel)
      | Some t =>
          (* a missing column is first created with the default type; the column stays when coercion fails *)
          let t1 := if has_name t name then t else fresh_col t name (dflt t) in
          match lookup name (names t1) with
          | None => (w, OutOfModel)
          | Some si =>
              match nth_error (slots t1) si with
              | None => (w, OutOfModel)
              | Some s =>
                  match rhs_cells (skind s) (nrows t1) r with
                  | Ok xs => (put w ti (set_slot t1 si {| skind := skind s; scells := xs |}), OkUnit)
                  | Raise e => (put w ti t1, Err e)
                  end
              end
          end
      end
  | OSetColFromCol ti name t2i name2 =>
      match get w ti, get w t2i with
      | Some t, Some t2 =>
          match lookup name2 (names t2) with
          | None => (w, Err AttributeError)
          | Some s2i =>
              if Nat.eqb ti t2i then (put w ti (bind_name t name s2i), OkUnit)      (* the deliberate alias *)
              else match nth_error (slots t2) s2i with
                   | None => (w, OutOfModel)
                   | Some s2 =>
                       if negb (Nat.eqb (nrows t) (nrows t2)) then (w, Err ValueError)
                       else let '(t1, i) := add_slot t {| skind := skind s2; scells := scells s2 |} in
                            (put w ti (bind_name t1 name i), OkUnit)
                   end
          end
      | _, _ => (w, OutOfModel)
      end
  | OSetCell ti name a r =>
      match get w ti with
      | None => (w, OutOfModel)
      | Some t =>
          match a with
          | ARow i =>
              match norm_index (nrows t) i with
              | None => (w, Err IndexError)
              | Some _ =>
                  (* Row assignment creates a missing column (default type, default cells) first *)
                  let t1 := if has_name t name then t else fresh_col t name (dflt t) in
                  let w1 := put w ti t1 in
                  match set_cells w1 ti t1 name a r with
                  | (w2, out) => (w2, out)
                  end
              end
          | _ => set_cells w ti t name a r
          end
      end
  | OSelect ti name c ref =>
      match get w ti with
      | None => (w, OutOfModel)
      | Some t =>
          match slot_of t name with
          | None => (w, Err AttributeError)
          | Some s =>
              if negb (ref_ok (skind s) ref) then (w, OutOfModel)
              else push_opt w (take (positions_where (fun cell => py_cmp c cell ref) (scells s) 0) t)
          end
      end
  | OMerge mo ti t2i =>
      match get w ti, get w t2i with
      | Some a, Some b =>
          if negb (Nat.eqb (fam a) (fam b)) then (w, Err PlainException)
          (* a same-named column of another type: which exception comes first depends on the column order; not modelled *)
          else if negb (forallb (fun '(n, k, _) => match slot_of b n with
                                                  | Some s => match k, skind s with
                                                              | KMixed, KMixed | KFloat, KFloat | KInt, KInt => true
                                                              | _, _ => false end
                                                  | None => true end) (view a)) then (w, OutOfModel)
          else if negb (forallb (fun '(n, _) => has_name b n) (names a)) then (w, Err KeyError)
          else
            let rid := merge_ids mo (ids a) (ids b) in
            (* row k comes from a when a holds it, otherwise from b; a's columns *)
            let cell_of (n : string) (r : N) : option val :=
                match pos_of r (ids a) with
                | Some p => match slot_of a n with Some s => nth_error (scells s) p | None => None end
                | None => match pos_of r (ids b) with
                          | Some p => match slot_of b n with Some s => nth_error (scells s) p | None => None end
                          | None => None end
                end in
            let cols := map (fun '(n, k, _) => match all_some (map (cell_of n) rid) with
                                               | Some cs => Some {| skind := k; scells := cs |}
                                               | None => None end) (view a) in
            match all_some cols with
            | Some ss => (push w {| fam := fam a; ids := rid;
                                    names := combine (map fst (names a)) (seq 0 (List.length (names a)));
                                    slots := ss; tsorted := true; dflt := KMixed |}, OkNew)
            | None => (w, OutOfModel)
            end
      | _, _ => (w, OutOfModel)
      end
  | OSlice ti a b =>
      match get w ti with
      | Some t => push_opt w (take (slice_pos (nrows t) a b) t)
      | None => (w, OutOfModel)
      end
  | OGetRows ti l =>
      match get w ti with
      | None => (w, OutOfModel)
      | Some t =>
          match l, all_some (map (norm_index (nrows t)) l) with
          | [], _ => (w, OutOfModel)           (* dm[[]] is a column selection (keep_only), not a row selection *)
          | _, None => (w, Err IndexError)
          | _, Some ps => if nodup_nat ps then push_opt w (take ps t) else (w, OutOfModel)
          end
      end
  | OSort ti name perm =>
      match get w ti with
      | None => (w, OutOfModel)
      | Some t =>
          match slot_of t name with
          | None => (w, Err AttributeError)
          | Some s =>
              (* any permutation that arranges the by-column in the documented order is accepted *)
              if is_perm_of_range perm (nrows t)
                 && match take_pos perm (scells s) with Some cs => sorted_by sort_le cs | None => false end
              then push_opt w (take perm t) else (w, Err OtherError)
          end
      end
  | OShuffle ti perm =>
      match get w ti with
      | None => (w, OutOfModel)
      | Some t => if is_perm_of_range perm (nrows t) then push_opt w (take perm t) else (w, Err OtherError)
      end
  | OSample ti k choice =>
      match get w ti with
      | None => (w, OutOfModel)
      | Some t =>
          if k <? 0 then (w, Err ValueError)
          else if Z.of_nat (nrows t) <? k then (w, Err ValueError)
          else if Nat.eqb (List.length choice) (Z.to_nat k) && nodup_nat choice
                  && forallb (fun p => Nat.ltb p (nrows t)) choice
               then push_opt w (take choice t) else (w, Err OtherError)
      end
  | OSetLength ti n =>
      match get w ti with
      | None => (w, OutOfModel)
      | Some t =>
          if n <? 0 then (w, OutOfModel)
          else
            let m := Z.to_nat n in
            if Nat.ltb m (nrows t) then
              (* shrinking keeps the first rows; every name gets its own slot again *)
              match take (seq 0 m) t with
              | Some t' => (put w ti {| fam := fam t; ids := ids t'; names := names t'; slots := slots t';
                                        tsorted := tsorted t; dflt := dflt t |}, OkUnit)
              | None => (w, OutOfModel)
              end
            else
              let extra := (m - nrows t)%nat in
              let start := match ids t with [] => 0%N | _ => N.succ (maxN (ids t)) end in
              (put w ti {| fam := fam t; ids := ids t ++ iotaN start extra; names := names t;
                           slots := map (fun s => {| skind := skind s;
                                                     scells := scells s ++ repeat (default_cell (skind s)) extra |})
                                        (slots t);
                           tsorted := tsorted t; dflt := dflt t |}, OkUnit)
      end
  | ODelRows ti l =>
      match get w ti with
      | None => (w, OutOfModel)
      | Some t =>
          match all_some (map (norm_index (nrows t)) l) with
          | None => (w, Err IndexError)
          | Some dead =>
              match take (filter (fun p => negb (mem_nat p dead)) (seq 0 (nrows t))) t with
              | Some t' => (put w ti {| fam := fam t; ids := ids t'; names := names t'; slots := slots t';
                                        tsorted := tsorted t; dflt := dflt t |}, OkUnit)
              | None => (w, OutOfModel)
              end
          end
      end
  | ODelCol ti name =>
      match get w ti with
      | None => (w, OutOfModel)
      | Some t =>
          if has_name t name
          then (put w ti {| fam := fam t; ids := ids t;
                            names := filter (fun '(n, _) => negb (String.eqb n name)) (names t);
                            slots := slots t; tsorted := tsorted t; dflt := dflt t |}, OkUnit)
          else (w, Err ValueError)
      end
  | ORename ti old new ident =>
      match get w ti with
      | None => (w, OutOfModel)
      | Some t =>
          if negb (has_name t old) then (w, Err ValueError)
          else if String.eqb old new then (w, OkUnit)
          else if has_name t new then (w, Err ValueError)
          else if negb ident then (w, Err ValueError)
          else (put w ti {| fam := fam t; ids := ids t;
                            names := map (fun '(n, i) => if String.eqb n old then (new, i) else (n, i)) (names t);
                            slots := slots t; tsorted := tsorted t; dflt := dflt t |}, OkUnit)
      end
  | OConcat ti t2i =>
      match get w ti, get w t2i with
      | Some a, Some b =>
          match concat_tables a b (nextfam w) with
          | Ok t => (push {| pool := pool w; nextfam := S (nextfam w) |} t, OkNew)
          | Raise e => (w, Err e)
          end
      | _, _ => (w, OutOfModel)
      end
  | OSetSorted ti b =>
      match get w ti with
      | Some t => (put w ti {| fam := fam t; ids := ids t; names := names t; slots := slots t;
                               tsorted := b; dflt := dflt t |}, OkUnit)
      | None => (w, OutOfModel)
      end
  | OSetColFromSlice ti name name2 l =>
      (* a column sliced by an index list still belongs to its DataMatrix; assigned to a name of that DataMatrix it
         becomes a NEW column (never an alias) holding the addressed cells position by position -- whether it is
         inserted as it is (all rows, original order) or copied (any other order) -- and a slice of another length
         is refused *)
      match get w ti with
      | None => (w, OutOfModel)
      | Some t =>
          match slot_of t name2 with
          | None => (w, Err AttributeError)
          | Some s =>
              match all_some (map (norm_index (nrows t)) l) with
              | None => (w, Err IndexError)
              | Some ps =>
                  if negb (Nat.eqb (List.length ps) (nrows t)) then (w, Err ValueError)
                  else match take_pos ps (scells s) with
                       | None => (w, OutOfModel)
                       | Some cs => let '(t1, i) := add_slot t {| skind := skind s; scells := cs |} in
                                    (put w ti (bind_name t1 name i), OkUnit)
                       end
              end
          end
      end
  end.

Definition run (ops : list op) (w : world) : world := fold_left (fun w o => fst (step w o)) ops w.

(* column_names: alphabetical when sorted, creation order otherwise *)
Fixpoint insert_str (x : string) (l : list string) : list string :=
  match l with [] => [x] | y :: r => if str_leb x y then x :: l else y :: insert_str x r end.
Definition column_names (t : table) : list string :=
  let ns := map fst (names t) in
  if tsorted t then fold_right insert_str [] ns else ns.
