(* L0: the positional reference semantics of DataMatrix objects.
   A table is a list of row ids, a list of slots (typed cell lists, all as
   long as the id list) and an ordered name -> slot map (two names may share
   a slot: the deliberate alias).  Every operation is positional: compute
   row positions, then take those positions from the ids and from every
   slot.  No per-column ids, no caches, no owners, no lookup by id.
   Hand-written, depends on nothing generated.  Definitions only. *)
From Coq Require Import ZArith NArith List Bool String Ascii.
From DM Require Import Base.PyVal Spec.Nf.
Import ListNotations.
Open Scope Z_scope.

Record slot := { skind : kind; scells : list val }.
Record table := { fam : nat; ids : list N; names : list (string * nat); slots : list slot;
                  tsorted : bool; dflt : kind }.
Record world := { pool : list table; nextfam : nat }.

Definition w0 : world := {| pool := []; nextfam := 0 |}.

(* ---------- small list utilities *)
Definition nlen {A} (l : list A) : Z := Z.of_nat (List.length l).
Fixpoint lookup {A} (n : string) (l : list (string * A)) : option A :=
  match l with [] => None | (m, a) :: r => if String.eqb n m then Some a else lookup n r end.
Fixpoint set_nth {A} (i : nat) (x : A) (l : list A) : list A :=
  match l, i with
  | [], _ => []
  | _ :: r, O => x :: r
  | a :: r, S j => a :: set_nth j x r
  end.
Fixpoint mem_N (x : N) (l : list N) : bool :=
  match l with [] => false | y :: r => N.eqb x y || mem_N x r end.
Fixpoint mem_nat (x : nat) (l : list nat) : bool :=
  match l with [] => false | y :: r => Nat.eqb x y || mem_nat x r end.
Fixpoint nodup_N (l : list N) : bool :=
  match l with [] => true | x :: r => negb (mem_N x r) && nodup_N r end.
Fixpoint nodup_nat (l : list nat) : bool :=
  match l with [] => true | x :: r => negb (mem_nat x r) && nodup_nat r end.
Fixpoint pos_of (x : N) (l : list N) : option nat :=
  match l with
  | [] => None
  | y :: r => if N.eqb x y then Some O else match pos_of x r with Some p => Some (S p) | None => None end
  end.
Fixpoint all_some {A} (l : list (option A)) : option (list A) :=
  match l with
  | [] => Some []
  | Some a :: r => match all_some r with Some x => Some (a :: x) | None => None end
  | None :: _ => None
  end.
Definition take_pos {A} (ps : list nat) (l : list A) : option (list A) :=
  all_some (map (fun p => nth_error l p) ps).
Fixpoint iotaN (start : N) (n : nat) : list N :=
  match n with O => [] | S k => start :: iotaN (N.succ start) k end.
Fixpoint maxN (l : list N) : N := match l with [] => 0%N | x :: r => N.max x (maxN r) end.

(* Python index normalisation: i in [-n, n) *)
Definition norm_index (n : nat) (i : Z) : option nat :=
  let len := Z.of_nat n in
  if (0 <=? i) && (i <? len) then Some (Z.to_nat i)
  else if (i <? 0) && (- len <=? i) then Some (Z.to_nat (len + i))
  else None.
(* positions of the Python slice [a:b] (step 1) on a sequence of List.length n *)
Definition clamp (n : nat) (o : option Z) (dflt : Z) : Z :=
  let len := Z.of_nat n in
  match o with
  | None => dflt
  | Some i => if i <? 0 then Z.max 0 (len + i) else Z.min len i
  end.
Definition slice_pos (n : nat) (a b : option Z) : list nat :=
  let lo := clamp n a 0 in
  let hi := clamp n b (Z.of_nat n) in
  map (fun k => Z.to_nat lo + k)%nat (seq 0 (Z.to_nat (hi - lo))).

(* ---------- reading a table *)
Definition nrows (t : table) : nat := List.length (ids t).
Definition slot_of (t : table) (n : string) : option slot :=
  match lookup n (names t) with Some i => nth_error (slots t) i | None => None end.
Definition has_name (t : table) (n : string) : bool := match lookup n (names t) with Some _ => true | None => false end.

(* the table read column-wise, in name-creation order: what an observer sees *)
Definition view (t : table) : list (string * kind * list val) :=
  map (fun '(n, i) => match nth_error (slots t) i with
                      | Some s => (n, skind s, scells s)
                      | None => (n, KMixed, [])
                      end) (names t).

(* derived tables: every name gets its own fresh slot *)
Definition derive (t : table) (f : slot -> option slot) (newids : list N) : option table :=
  match all_some (map (fun '(n, i) => match nth_error (slots t) i with Some s => f s | None => None end) (names t)) with
  | Some ss => Some {| fam := fam t; ids := newids;
                       names := combine (map fst (names t)) (seq 0 (List.length (names t)));
                       slots := ss; tsorted := true; dflt := KMixed |}
  | None => None
  end.
Definition take (ps : list nat) (t : table) : option table :=
  match take_pos ps (ids t) with
  | Some newids =>
      derive t (fun s => match take_pos ps (scells s) with
                         | Some cs => Some {| skind := skind s; scells := cs |}
                         | None => None end) newids
  | None => None
  end.

(* ---------- writing *)
Definition set_slot (t : table) (i : nat) (s : slot) : table :=
  {| fam := fam t; ids := ids t; names := names t; slots := set_nth i s (slots t); tsorted := tsorted t; dflt := dflt t |}.
Fixpoint replace_name {A} (n : string) (a : A) (l : list (string * A)) : list (string * A) :=
  match l with
  | [] => []
  | (m, x) :: r => if String.eqb n m then (m, a) :: r else (m, x) :: replace_name n a r
  end.
(* bind name to slot index i (existing name keeps its position, new name is appended) *)
Definition bind_name (t : table) (n : string) (i : nat) : table :=
  {| fam := fam t; ids := ids t;
     names := if has_name t n then replace_name n i (names t) else names t ++ [(n, i)];
     slots := slots t; tsorted := tsorted t; dflt := dflt t |}.
Definition add_slot (t : table) (s : slot) : table * nat :=
  ({| fam := fam t; ids := ids t; names := names t; slots := slots t ++ [s]; tsorted := tsorted t; dflt := dflt t |},
   List.length (slots t)).
Definition fresh_col (t : table) (n : string) (k : kind) : table :=
  let '(t1, i) := add_slot t {| skind := k; scells := repeat (default_cell k) (nrows t) |} in
  bind_name t1 n i.

Fixpoint coerce_all (k : kind) (vs : list pyv) : res (list val) :=
  match vs with
  | [] => Ok []
  | v :: r => bind (nf k v) (fun x => bind (coerce_all k r) (fun xs => Ok (x :: xs)))
  end.

(* value of an assignment: a scalar is broadcast, a sequence is applied in order *)
Inductive rhs := RScalar (v : pyv) | RSeq (vs : list pyv).
Definition rhs_cells (k : kind) (n : nat) (r : rhs) : res (list val) :=
  match r with
  | RScalar v => bind (nf k v) (fun x => Ok (repeat x n))
  | RSeq vs => bind (coerce_all k (firstn (S n) vs))        (* islice(value, 0, List.length + 1) *)
                    (fun xs => if Nat.eqb (List.length xs) n then Ok xs else Raise ValueError)
  end.

(* write cells xs at positions ps (in order, later writes win) *)
Fixpoint write_at (ps : list nat) (xs : list val) (cells : list val) : list val :=
  match ps, xs with
  | p :: ps', x :: xs' => write_at ps' xs' (set_nth p x cells)
  | _, _ => cells
  end.

(* ---------- comparison (scalar references; the full reference zoo is in Spec/Select.v) *)
Inductive cmpop := CEq | CNe | CLt | CLe | CGt | CGe.
(* Python `cell op ref` for a MixedColumn cell; raising counts as no match *)
Definition py_cmp (op : cmpop) (a b : val) : bool :=
  match val_num a, val_num b with
  | Some x, Some y =>
      match op with
      | CEq => num_eqb x y | CNe => negb (num_eqb x y)
      | CLt => num_ltb x y | CLe => num_leb x y
      | CGt => num_ltb y x | CGe => num_leb y x
      end
  | _, _ =>
      match a, b with
      | VStr s, VStr t =>
          match op with
          | CEq => str_eqb s t | CNe => negb (str_eqb s t)
          | CLt => str_ltb s t | CLe => str_leb s t
          | CGt => str_ltb t s | CGe => str_leb t s
          end
      | VNone, VNone => match op with CEq => true | _ => false end
      | _, _ => match op with CNe => true | _ => false end
      end
  end.

Fixpoint positions_where (f : val -> bool) (cells : list val) (i : nat) : list nat :=
  match cells with
  | [] => []
  | c :: r => if f c then i :: positions_where f r (S i) else positions_where f r (S i)
  end.

(* ---------- the documented sort order (C10): -inf, numbers, +inf, text, None, NaN *)
Definition sort_rank (v : val) : Z :=
  match v with
  | VInt _ => 0
  | VFlt FNan => 3
  | VFlt _ => 0
  | VStr _ => 1
  | VNone => 2
  end.
Definition sort_le (a b : val) : bool :=
  let ra := sort_rank a in let rb := sort_rank b in
  if ra <? rb then true else if rb <? ra then false else
  match val_num a, val_num b, a, b with
  | Some x, Some y, _, _ => if ra =? 0 then num_leb x y else true
  | _, _, VStr s, VStr t => str_leb s t
  | _, _, _, _ => true
  end.
Fixpoint sorted_by (le : val -> val -> bool) (l : list val) : bool :=
  match l with
  | a :: (b :: _) as r => le a b && sorted_by le r
  | _ => true
  end.
Definition is_perm_of_range (ps : list nat) (n : nat) : bool :=
  Nat.eqb (List.length ps) n && nodup_nat ps && forallb (fun p => Nat.ltb p n) ps.

(* ---------- set operations on ids, result ascending *)
Fixpoint insert_N (x : N) (l : list N) : list N :=
  match l with [] => [x] | y :: r => if N.leb x y then x :: l else y :: insert_N x r end.
Definition sort_N (l : list N) : list N := fold_right insert_N [] l.
Inductive mergeop := MAnd | MOr | MXor.
Definition merge_ids (o : mergeop) (a b : list N) : list N :=
  sort_N (match o with
          | MAnd => filter (fun x => mem_N x b) a
          | MOr => a ++ filter (fun x => negb (mem_N x a)) b
          | MXor => filter (fun x => negb (mem_N x b)) a ++ filter (fun x => negb (mem_N x a)) b
          end).
