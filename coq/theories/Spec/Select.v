(* L0 (property C02): what `column OP reference` selects, written from the
   property text.  Hand-written, kernel-free, executable.  Definitions only.

   A reference is a scalar, a same-length sequence (compared row by row), a
   set (== : equal to some member, != : equal to no member), a one-argument
   predicate (a Gallina function on cell values) or a type.  A row is selected
   iff its cell satisfies the comparison:
     - Python semantics of `cell OP value` on int/float/str/None, exact on
       numbers, where a comparison that would raise counts as "no match"
       (Spec.Table.py_cmp);
     - a scalar NaN reference is special: == NaN selects exactly the NaN
       cells, != NaN exactly the others; NaN cells are matched by nothing else
       (members of sets and elements of sequences are compared with plain ==);
   the result is `take` (Spec.Table) of the selected positions: source order,
   every column, the source itself is a value and cannot change. *)
From Coq Require Import ZArith NArith List Bool String.
From DM Require Import Base.PyVal Spec.Nf Spec.Table.
Import ListNotations.
Open Scope Z_scope.

Inductive pytype := TInt | TFloat | TStr | TNoneType | TBool | TObject.

Inductive ref :=
  | RScalar (v : val)
  | RSeq (vs : list val)
  | RSet (vs : list val)
  | RPred (f : val -> bool)
  | RType (t : pytype).

Definition is_nan_val (v : val) : bool := match v with VFlt FNan => true | _ => false end.

Definition instance_of (t : pytype) (c : val) : bool :=
  match t, c with
  | TObject, _ => true
  | TInt, VInt _ | TFloat, VFlt _ | TStr, VStr _ | TNoneType, VNone => true
  | _, _ => false
  end.

(* `cell OP r` for a scalar reference r *)
Definition sat_scalar (op : cmpop) (cell r : val) : bool :=
  if is_nan_val r then
    match op with CEq => is_nan_val cell | CNe => negb (is_nan_val cell) | _ => false end
  else py_cmp op cell r.

(* does the cell of row i satisfy the comparison? *)
Definition sat_at (op : cmpop) (r : ref) (i : nat) (cell : val) : bool :=
  match r with
  | RScalar v => sat_scalar op cell v
  | RSeq vs => match nth_error vs i with Some v => py_cmp op cell v | None => false end
  | RSet vs =>
      match op with
      | CEq => existsb (fun v => py_cmp CEq cell v) vs
      | CNe => forallb (fun v => py_cmp CNe cell v) vs
      | _ => false
      end
  | RPred f => match op with CEq => f cell | CNe => negb (f cell) | _ => false end
  | RType t => match op with CEq => instance_of t cell | CNe => negb (instance_of t cell) | _ => false end
  end.

(* row-independent references: sat does not look at the row number *)
Definition sat (op : cmpop) (cell : val) (r : ref) : bool := sat_at op r 0 cell.

Fixpoint positions_sat (f : nat -> val -> bool) (cells : list val) (i : nat) : list nat :=
  match cells with
  | [] => []
  | c :: r => if f i c then i :: positions_sat f r (S i) else positions_sat f r (S i)
  end.

Definition sel_positions (op : cmpop) (r : ref) (cells : list val) : list nat :=
  positions_sat (sat_at op r) cells 0.

Definition select (t : table) (c : string) (op : cmpop) (r : ref) : option table :=
  match slot_of t c with
  | Some s => take (sel_positions op r (scells s)) t
  | None => None
  end.

(* ---------- total, default-free picking of positions (used to state the laws) *)
Definition pick {A} (ps : list nat) (l : list A) : list A :=
  flat_map (fun p => match nth_error l p with Some x => [x] | None => [] end) ps.

(* the reference as seen after the rows were rearranged by ps (only sequences move) *)
Definition reorder_ref (ps : list nat) (r : ref) : ref :=
  match r with RSeq vs => RSeq (pick ps vs) | _ => r end.

(* well-formed table: every named slot exists and is as long as the id list *)
Definition wf_table (t : table) : bool :=
  forallb (fun '(_, i) => match nth_error (slots t) i with
                          | Some s => Nat.eqb (List.length (scells s)) (nrows t)
                          | None => false end) (names t).

(* ---------- the reference domain of the property (its quantifier), per column type.
   Outside it the property makes no claim (the L1 model still mirrors the code there). *)
Definition small (z : Z) : bool := (- 2 ^ 53 <=? z) && (z <=? 2 ^ 53).
Definition int64 (z : Z) : bool := (- 2 ^ 63 <=? z) && (z <? 2 ^ 63).
Definition eq_or_ne (op : cmpop) : bool := match op with CEq | CNe => true | _ => false end.

(* a value a FloatColumn reference may be: a number a binary64 holds exactly *)
(* (finite float references of magnitude above 2^63 make NumericColumn._compare_value raise
   TypeError on the unchanged tree -- reported; they are excluded here) *)
Definition float_ref (v : val) : bool :=
  match v with
  | VInt z => small z
  | VFlt f => negb (fl_is_finite f) || ((- 2 ^ 63 <=? fl_trunc f) && (fl_trunc f <=? 2 ^ 63))
  | _ => false
  end.
(* a value an IntColumn reference may be: an integer, or an integral float *)
Definition int_ref (v : val) : bool :=
  match v with
  | VInt z => int64 z
  | VFlt f => fl_is_finite f && fl_integral f && small (fl_trunc f)
  | _ => false
  end.
Definition is_vint (v : val) : bool := match v with VInt _ => true | _ => false end.
Definition small_cell (v : val) : bool := match v with VInt z => small z | _ => true end.
Definition is_inf_val (v : val) : bool := match v with VFlt (FInf _) => true | _ => false end.

Definition scalar_dom (k : kind) (op : cmpop) (v : val) (cells : list val) : bool :=
  if is_nan_val v then eq_or_ne op else
  match k with
  | KMixed => true
  | KFloat => float_ref v && (eq_or_ne op || negb (is_inf_val v))
  | KInt => (int_ref v && (is_vint v || forallb small_cell cells))
            || (eq_or_ne op && (is_inf_val v || match v with VNone => true | _ => false end))
  end.

Definition elem_dom (k : kind) (cells : list val) (v : val) : bool :=
  match k with
  | KMixed => true
  | KFloat => float_ref v
  | KInt => int_ref v && (is_vint v || forallb small_cell cells)
  end.

Definition member_dom (k : kind) (cells : list val) (v : val) : bool :=
  match k with
  | KMixed => true
  | KFloat => small_cell v
  | KInt => match v with VFlt _ => forallb small_cell cells | _ => true end
  end.

Definition in_domain (k : kind) (op : cmpop) (r : ref) (cells : list val) : bool :=
  match r with
  | RScalar v => scalar_dom k op v cells
  | RSeq vs => Nat.eqb (List.length vs) (List.length cells) && forallb (elem_dom k cells) vs
  | RSet vs => eq_or_ne op && forallb (member_dom k cells) vs
  | RPred _ => eq_or_ne op
  | RType t =>
      eq_or_ne op
  end.
