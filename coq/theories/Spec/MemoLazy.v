(* L0 for the lazy clause of C20 (fnc.memoize, lazy=True): "callable arguments are evaluated only when the body
   actually runs", and the call returns what the unwrapped function returns for the evaluated arguments.
   Written from the property text; depends on nothing generated; contains no proofs.

   An argument list may hold callables anywhere: as an argument, as a keyword value, or inside list / tuple / dict
   arguments at any depth (they are keyed by name wherever they stand, Spec/MemoKey.v).  When the body runs
   - every callable of the argument list is evaluated, once (nfuns of them),
   - the body receives the argument list in which every callable is replaced by its value and nothing else changed
     (up to the property's argument equivalence: a tuple and a list of the same content are the same argument),
   - in particular the body receives no callable (values of callables are not evaluated again; the values of the
     harness' callables hold no callables). *)
From Coq Require Import ZArith List Bool String.
From DM Require Import Base.PyVal Spec.MemoKey.
Import ListNotations.
Local Open Scope nat_scope.

(* number of callables anywhere inside an argument *)
Fixpoint nfuns (a : arg) : nat :=
  match a with
  | AFun _ => 1
  | AList l | ATuple l => fold_right (fun x s => nfuns x + s) 0 l
  | ADict d => fold_right (fun kv s => (let '(_, v) := kv in nfuns v) + s) 0 d
  | _ => 0
  end.
Definition nfuns_call (c : call) : nat := nfuns (ATuple (c_args c)) + nfuns (ADict (c_kwargs c)).

Section LazySpec.
  Variable value_of : option string -> arg.      (* what the callable of that name returns *)

  (* every callable replaced by its value; everything else as it is *)
  Fixpoint eval_all (a : arg) : arg :=
    match a with
    | AFun n => value_of n
    | AList l => AList (map eval_all l)
    | ATuple l => ATuple (map eval_all l)
    | ADict d => ADict (map (fun kv => let '(k, v) := kv in (k, eval_all v)) d)
    | _ => a
    end.
  Definition eval_call (c : call) : call :=
    {| c_args := map eval_all (c_args c);
       c_kwargs := map (fun kv => let '(k, v) := kv in (k, eval_all v)) (c_kwargs c) |}.
End LazySpec.

(* the callables of a case: name -> value *)
Definition fun_table (tab : list (string * arg)) (n : option string) : arg :=
  match n with
  | Some s => match alookup s tab with Some v => v | None => AFun n end
  | None => AFun n
  end.

(* one observed execution of the body of a lazy instance: c = the argument list of the call, received = what the body
   was given, forced = how many callables were evaluated *)
Definition lazy_observed_ok (tab : list (string * arg)) (c received : call) (forced : nat) : bool :=
  call_wfb c && call_wfb received
  && Nat.eqb forced (nfuns_call c)
  && Nat.eqb (nfuns_call received) 0
  && call_eqvb received (eval_call (fun_table tab) c).
