(* L0 for C17: what persistence must preserve, written from the property text
   on the positional tables of Spec/Table.v.  Hand-written, depends on nothing
   generated.  Definitions only.

   pickle:  the restored table is the original in everything but its family
            (names, kinds, row ids in order, cells, aliasing, flags) and its
            family is new;
   JSON:    the text is a function of the document (row ids in order, then
            the columns in listing order with type name and cells); reading it
            back gives that listing on fresh row ids 0..n-1; different
            documents must give different text;
   pandas:  the frame has the listing's names and, row by row, equal numbers
            and strings, missing (None, NaN) staying missing. *)
From Coq Require Import ZArith NArith List Bool String.
From DM Require Import Base.PyVal Spec.Nf Spec.Table Model.LTable.
Import ListNotations.
Open Scope Z_scope.

Definition with_fam (f : nat) (t : table) : table :=
  {| fam := f; ids := ids t; names := names t; slots := slots t; tsorted := tsorted t; dflt := dflt t |}.

(* ---------- pickle *)
Definition restored_like (orig r : table) : bool := table_eqb orig (with_fam (fam orig) r).
Definition fresh_fam (used : list nat) (r : table) : bool := negb (mem_nat (fam r) used).

(* ---------- the column listing (DataMatrix.columns): by name when the table is flagged sorted *)
Definition vcol := (string * kind * list val)%type.
Fixpoint ins_col (x : vcol) (l : list vcol) : list vcol :=
  match l with
  | [] => [x]
  | y :: r => if str_leb (fst (fst x)) (fst (fst y)) then x :: l else y :: ins_col x r
  end.
Definition listing (t : table) : list vcol :=
  if tsorted t then fold_right ins_col [] (view t) else view t.

(* one column as seen by name *)
Definition col_view (t : table) (n : string) : option (kind * list val) :=
  match slot_of t n with Some s => Some (skind s, scells s) | None => None end.

(* ---------- JSON *)
Definition json_image_ok (orig r : table) : bool :=
  ids_eqb (ids r) (iotaN 0 (nrows orig))
  && view_eqb (view r) (listing orig)
  && tsorted r && kind_eqb (dflt r) KMixed.

(* two tables denote the same document up to Python equality of cells *)
Definition doc_eqv (a b : table) : bool := ids_eqb (ids a) (ids b) && view_eqb (listing a) (listing b).
(* "different text whenever a cell, a name or the row order differs" *)
Definition json_text_ok (a b : table) (same_text : bool) : bool := doc_eqv a b || negb same_text.

(* ---------- pandas: a cell of the DataFrame as the harness reads it back *)
Inductive pcell := PMiss | PNum (n : num) | PText (s : string) | POdd.
Definition pandas_cell_ok (v : val) (p : pcell) : bool :=
  match v, p with
  | VNone, PMiss | VFlt FNan, PMiss => true
  | VFlt FNan, _ => false
  | VInt z, PNum n => num_eqb (NInt z) n
  | VFlt f, PNum n => num_eqb (NFlt f) n
  | VStr s, PText u => str_eqb s u
  | _, _ => false
  end.
Fixpoint cells_ok (vs : list val) (ps : list pcell) : bool :=
  match vs, ps with
  | [], [] => true
  | v :: vs', p :: ps' => pandas_cell_ok v p && cells_ok vs' ps'
  | _, _ => false
  end.
Fixpoint frame_ok (cols : list vcol) (frame : list (string * list pcell)) : bool :=
  match cols, frame with
  | [], [] => true
  | (n, _, c) :: cols', (m, ps) :: frame' => str_eqb n m && cells_ok c ps && frame_ok cols' frame'
  | _, _ => false
  end.
Definition pandas_ok (t : table) (frame : list (string * list pcell)) : bool := frame_ok (listing t) frame.
Definition pandas_series_ok (t : table) (name : string) (ser : list pcell) : bool :=
  match slot_of t name with Some s => cells_ok (scells s) ser | None => false end.
