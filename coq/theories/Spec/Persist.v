(* L0 for C17: what persistence must preserve, written from the property text
   on the positional tables of Spec/Table.v.  Hand-written, depends on nothing
   generated.  Definitions only.

   pickle:  the restored table is the original in everything but its family
            (names, kinds, row ids in order, cells, aliasing, flags) and its
            family is new;
   JSON:    the text is a function of the document (row ids in order, then
            the columns in listing order with type name and cells); reading it
            back gives that listing on fresh row ids 0..n-1; different
            documents must give different text;
   pandas:  the frame has the listing's names and, row by row, equal numbers
            and strings, missing (None, NaN) staying missing;
   series:  a table with SeriesColumns is a table (in which a series column
            shows as a float-typed column of that name) plus, per slot, the
            depth and the rows of numbers of the series held there; "preserved"
            additionally means: same depth and, sample by sample, equal numbers. *)
From Coq Require Import ZArith NArith List Bool String.
From DM Require Import Base.PyVal Spec.Nf Spec.Table Model.LTable.
Import ListNotations.
Open Scope Z_scope.

Definition with_fam (f : nat) (t : table) : table :=
  {| fam := f; ids := ids t; names := names t; slots := slots t; tsorted := tsorted t; dflt := dflt t |}.

(* ---------- pickle *)
Definition restored_like (orig r : table) : bool := table_eqb orig (with_fam (fam orig) r).
Definition fresh_fam (used : list nat) (r : table) : bool := negb (mem_nat (fam r) used).

(* every table that is constructed or restored is a family of its own: the families handed out to the roots
   (fresh DataMatrix objects, unpickled ones, from_json results) are pairwise different and none of them is a
   family that was already in use *)
Definition fresh_roots (used roots : list nat) : bool :=
  nodup_nat roots && forallb (fun f => negb (mem_nat f used)) roots.

(* ---------- the column listing (DataMatrix.columns): by name when the table is flagged sorted *)
Definition vcol := (string * kind * list val)%type.
Fixpoint ins_col (x : vcol) (l : list vcol) : list vcol :=
  match l with
  | [] => [x]
  | y :: r => if str_leb (fst (fst x)) (fst (fst y)) then x :: l else y :: ins_col x r
  end.
Definition listing (t : table) : list vcol :=
  if tsorted t then fold_right ins_col [] (view t) else view t.

(* one column as seen by name *)
Definition col_view (t : table) (n : string) : option (kind * list val) :=
  match slot_of t n with Some s => Some (skind s, scells s) | None => None end.

(* ---------- JSON *)
Definition json_image_ok (orig r : table) : bool :=
  ids_eqb (ids r) (iotaN 0 (nrows orig))
  && view_eqb (view r) (listing orig)
  && tsorted r && kind_eqb (dflt r) KMixed.

(* two tables denote the same document up to Python equality of cells *)
Definition doc_eqv (a b : table) : bool := ids_eqb (ids a) (ids b) && view_eqb (listing a) (listing b).
(* "different text whenever a cell, a name or the row order differs" *)
Definition json_text_ok (a b : table) (same_text : bool) : bool := doc_eqv a b || negb same_text.

(* ---------- pandas: a cell of the DataFrame as the harness reads it back *)
Inductive pcell := PMiss | PNum (n : num) | PText (s : string) | POdd.
Definition pandas_cell_ok (v : val) (p : pcell) : bool :=
  match v, p with
  | VNone, PMiss | VFlt FNan, PMiss => true
  | VFlt FNan, _ => false
  | VInt z, PNum n => num_eqb (NInt z) n
  | VFlt f, PNum n => num_eqb (NFlt f) n
  | VStr s, PText u => str_eqb s u
  | _, _ => false
  end.
Fixpoint cells_ok (vs : list val) (ps : list pcell) : bool :=
  match vs, ps with
  | [], [] => true
  | v :: vs', p :: ps' => pandas_cell_ok v p && cells_ok vs' ps'
  | _, _ => false
  end.
Fixpoint frame_ok (cols : list vcol) (frame : list (string * list pcell)) : bool :=
  match cols, frame with
  | [], [] => true
  | (n, _, c) :: cols', (m, ps) :: frame' => str_eqb n m && cells_ok c ps && frame_ok cols' frame'
  | _, _ => false
  end.
Definition pandas_ok (t : table) (frame : list (string * list pcell)) : bool := frame_ok (listing t) frame.
Definition pandas_series_ok (t : table) (name : string) (ser : list pcell) : bool :=
  match slot_of t name with Some s => cells_ok (scells s) ser | None => false end.

(* ---------- tables with SeriesColumns.  xs_table: names, order, aliasing, row ids, flags and the plain columns
   (a series column appears in it as a KFloat slot of the right length whose cells carry no information);
   xs_series: aligned with the slots, None for a plain column, Some (depth, rows) for a series *)
Definition spayload := option (nat * list (list fl)).
Record xspec := { xs_table : table; xs_series : list spayload }.
Definition rows_eqv (a b : list (list fl)) : bool := list_eqb (list_eqb fl_eqv) a b.
Definition spayload_eqv (a b : spayload) : bool :=
  match a, b with
  | None, None => true
  | Some (d, r), Some (e, q) => Nat.eqb d e && rows_eqv r q
  | _, _ => false
  end.
(* the series read by name, in name-creation order (slot numbering is not observable) *)
Definition series_view (x : xspec) : list (string * spayload) :=
  map (fun '(n, i) => (n, match nth_error (xs_series x) i with Some p => p | None => None end)) (names (xs_table x)).
Definition series_view_eqb (a b : list (string * spayload)) : bool :=
  list_eqb (fun '(n, p) '(m, q) => String.eqb n m && spayload_eqv p q) a b.
Definition series_of (x : xspec) (n : string) : spayload :=
  match lookup n (series_view x) with Some p => p | None => None end.

(* pickle: everything but the family *)
Definition xrestored_like (orig r : xspec) : bool :=
  restored_like (xs_table orig) (xs_table r) && series_view_eqb (series_view orig) (series_view r).
(* JSON: the listing on fresh row ids, the series in listing order *)
Definition xlisting_series (x : xspec) : list (string * spayload) :=
  map (fun v : vcol => (fst (fst v), series_of x (fst (fst v)))) (listing (xs_table x)).
Definition xjson_image_ok (orig r : xspec) : bool :=
  json_image_ok (xs_table orig) (xs_table r) && series_view_eqb (series_view r) (xlisting_series orig).
Definition xdoc_eqv (a b : xspec) : bool :=
  doc_eqv (xs_table a) (xs_table b) && series_view_eqb (xlisting_series a) (xlisting_series b).
Definition xjson_text_ok (a b : xspec) (same_text : bool) : bool := xdoc_eqv a b || negb same_text.

(* pandas: a cell of a series column must come back as the row of numbers (PRow), sample by sample equal,
   NaN staying NaN; PRowOdd: an array of another shape or type *)
Inductive xpcell := XCell (p : pcell) | XRow (r : list fl).
Fixpoint rows_ok (rows : list (list fl)) (ps : list xpcell) : bool :=
  match rows, ps with
  | [], [] => true
  | r :: rows', XRow q :: ps' => list_eqb fl_eqv r q && rows_ok rows' ps'
  | _, _ => false
  end.
Fixpoint xcells_ok (vs : list val) (ps : list xpcell) : bool :=
  match vs, ps with
  | [], [] => true
  | v :: vs', XCell p :: ps' => pandas_cell_ok v p && xcells_ok vs' ps'
  | _, _ => false
  end.
Definition xcolumn_ok (x : xspec) (n : string) (c : list val) (ps : list xpcell) : bool :=
  match series_of x n with Some (_, rows) => rows_ok rows ps | None => xcells_ok c ps end.
Fixpoint xframe_ok (x : xspec) (cols : list vcol) (frame : list (string * list xpcell)) : bool :=
  match cols, frame with
  | [], [] => true
  | (n, _, c) :: cols', (m, ps) :: frame' => str_eqb n m && xcolumn_ok x n c ps && xframe_ok x cols' frame'
  | _, _ => false
  end.
Definition xpandas_ok (x : xspec) (frame : list (string * list xpcell)) : bool := xframe_ok x (listing (xs_table x)) frame.
Definition xpandas_series_ok (x : xspec) (name : string) (ser : list xpcell) : bool :=
  match slot_of (xs_table x) name with Some s => xcolumn_ok x name (scells s) ser | None => false end.
