(* L0 for property C15: what weight, fullfactorial, replace, keep_only and z
   are said to do, written from the property text.  A table is read the way an
   observer reads it: its number of rows and, in `dm.columns` order, the name,
   type and cells of every column.  Hand-written, depends on nothing
   generated.  Definitions only. *)
From Coq Require Import ZArith QArith List Bool String.
From DM Require Import Base.PyVal Spec.Nf.
Import ListNotations.
Open Scope Z_scope.

Definition col := (string * kind * list val)%type.
Record tbl := { tlen : nat; tcols : list col }.

Definition cname (c : col) : string := fst (fst c).
Definition ckind (c : col) : kind := snd (fst c).
Definition cells (c : col) : list val := snd c.

Definition wf (t : tbl) : Prop := forall c, In c (tcols t) -> List.length (cells c) = tlen t.
Definition wf_b (t : tbl) : bool := forallb (fun c => Nat.eqb (List.length (cells c)) (tlen t)) (tcols t).

(* row-major reading *)
Definition row_at (cs : list (list val)) (i : nat) : list val := map (fun c => nth i c VNone) cs.
Definition rows_of (n : nat) (cs : list (list val)) : list (list val) := map (row_at cs) (seq 0 n).
Definition trows (t : tbl) : list (list val) := rows_of (tlen t) (map cells (tcols t)).

Fixpoint find_col (n : string) (cs : list col) : option col :=
  match cs with
  | [] => None
  | c :: r => if String.eqb n (cname c) then Some c else find_col n r
  end.

(* ---------------------------------------------------------------- weight *)
(* a weight is a non-negative int cell; anything else is not a weight *)
Definition weight_of (v : val) : option nat :=
  match v with
  | VInt z => if 0 <=? z then Some (Z.to_nat z) else None
  | _ => None
  end.
Fixpoint weights_of (ws : list val) : option (list nat) :=
  match ws with
  | [] => Some []
  | w :: r => match weight_of w, weights_of r with
              | Some n, Some ns => Some (n :: ns)
              | _, _ => None
              end
  end.
(* every element of l repeated as often as the weight at its position says, in order *)
Fixpoint rep_by {A} (ns : list nat) (l : list A) : list A :=
  match ns, l with
  | n :: ns', x :: l' => repeat x n ++ rep_by ns' l'
  | _, _ => []
  end.
Definition nsum (ns : list nat) : nat := fold_right Nat.add 0%nat ns.

Definition weight_spec (t : tbl) (wcells : list val) : res tbl :=
  match weights_of wcells with
  | None => Raise TypeError
  | Some ns => Ok {| tlen := nsum ns;
                     tcols := map (fun c => (cname c, ckind c, rep_by ns (cells c))) (tcols t) |}
  end.

(* ---------------------------------------------------------------- fullfactorial *)
Definition is_nan_val (v : val) : bool := match v with VFlt FNan => true | _ => false end.
(* Python  cell == x *)
Definition cell_eq (c : val) (x : pyv) : bool := py_eq (pyv_of_val c) x.
(* is cell c an ignored cell?  (a NaN `ignore` designates the NaN cells) *)
Definition ignored (ig c : val) : bool :=
  if is_nan_val ig then is_nan_val c else cell_eq c (pyv_of_val ig).
Definition levels_of (ig : val) (cs : list val) : list val := filter (fun c => negb (ignored ig c)) cs.

(* Cartesian product of a list of factors; the first factor varies slowest *)
Fixpoint cart {A} (ls : list (list A)) : list (list A) :=
  match ls with
  | [] => [[]]
  | l :: r => flat_map (fun x => map (cons x) (cart r)) l
  end.
Definition fullfactorial_rows (ig : val) (t : tbl) : list (list val) :=
  cart (map (fun c => levels_of ig (cells c)) (tcols t)).

(* ---------------------------------------------------------------- replace *)
(* does key k designate cell c of a column of kind kd?  Python equality; a NaN key designates the
   NaN cells of numeric columns (and nothing in a MixedColumn, where NaN == NaN is false) *)
Definition pyv_is_nan (k : pyv) : bool := match pyv_float k with Some FNan => true | _ => false end.
Definition key_hits (kd : kind) (k : pyv) (c : val) : bool :=
  if pyv_is_nan k then (match kd with KMixed => false | _ => is_nan_val c end)
  else py_eq k (pyv_of_val c).             (* Python  k == c *)
Fixpoint find_key (kd : kind) (m : list (pyv * pyv)) (c : val) : option pyv :=
  match m with
  | [] => None
  | (k, v) :: r => if key_hits kd k c then Some v else find_key kd r c
  end.
Definition replace_cell (kd : kind) (m : list (pyv * pyv)) (c : val) : res val :=
  match find_key kd m c with
  | Some v => nf kd v
  | None => Ok c
  end.
Fixpoint map_res {A B} (f : A -> res B) (l : list A) : res (list B) :=
  match l with
  | [] => Ok []
  | x :: r => bind (f x) (fun y => bind (map_res f r) (fun ys => Ok (y :: ys)))
  end.
Definition replace_spec (kd : kind) (m : list (pyv * pyv)) (cs : list val) : res (list val) :=
  map_res (replace_cell kd m) cs.
(* keys and (stored) values are disjoint: no mapped value is itself designated by a key *)
Definition disjoint_b (kd : kind) (m : list (pyv * pyv)) : bool :=
  forallb (fun kv => match nf kd (snd kv) with
                     | Ok x => forallb (fun kv' => negb (key_hits kd (fst kv') x)) m
                     | Raise _ => true
                     end) m.

(* ---------------------------------------------------------------- keep_only *)
Fixpoint mem_str (n : string) (l : list string) : bool :=
  match l with [] => false | m :: r => String.eqb n m || mem_str n r end.
Definition keep_spec (t : tbl) (names : list string) : tbl :=
  {| tlen := tlen t; tcols := filter (fun c => mem_str (cname c) names) (tcols t) |}.

(* The same selection with columns given "by name or by object".  Every column of the table carries the identity
   of the object that holds it (ids, parallel to tcols); an argument is a name, a column object -- its identity and
   the (name, identity) list of the DataMatrix it belongs to -- or something else.  A column is kept iff it is
   named or is one of the objects passed. *)
Inductive oarg := OStr (s : string) | OColumn (self : nat) (owner : list (string * nat)) | OOther.
Definition selects (a : oarg) (name : string) (id : nat) : bool :=
  match a with
  | OStr s => String.eqb name s
  | OColumn self _ => Nat.eqb id self
  | OOther => false
  end.
Definition keep_by_identity (t : tbl) (ids : list nat) (args : list oarg) : tbl :=
  {| tlen := tlen t;
     tcols := map fst (filter (fun ci => existsb (fun a => selects a (cname (fst ci)) (snd ci)) args)
                              (combine (tcols t) ids)) |}.
(* the (name, identity) list of table t itself *)
Definition own_table (t : tbl) (ids : list nat) : list (string * nat) := combine (map cname (tcols t)) ids.

(* ---------------------------------------------------------------- z *)
(* the numeric cells of a column as exact rationals (finite numbers only) *)
Definition q_of_dy (d : Z * Z) : Q :=
  let '(m, e) := d in
  if 0 <=? e then inject_Z (m * 2 ^ e) else Qmake m (Z.to_pos (2 ^ (- e))).
Definition q_of_val (v : val) : option Q :=
  match v with
  | VInt z => Some (inject_Z z)
  | VFlt f => match fl_dy f with Some d => Some (q_of_dy d) | None => None end
  | _ => None
  end.
Fixpoint numeric_cells (cs : list val) : list Q :=
  match cs with
  | [] => []
  | c :: r => match q_of_val c with Some q => q :: numeric_cells r | None => numeric_cells r end
  end.
Fixpoint qsum (l : list Q) : Q := match l with [] => 0%Q | x :: r => (x + qsum r)%Q end.
Definition qlen (l : list Q) : Q := inject_Z (Z.of_nat (List.length l)).
Definition qmean (l : list Q) : Q := (qsum l / qlen l)%Q.
(* sample variance, N-1 degrees of freedom *)
Definition qvar (l : list Q) : Q :=
  (qsum (map (fun x => (x - qmean l) * (x - qmean l)) l) / (qlen l - 1))%Q.
Definition z_scores (l : list Q) (s : Q) : list Q := map (fun x => ((x - qmean l) / s)%Q) l.

(* what z must leave alone: the cells that are not finite numbers keep their place; text and None verbatim *)
Definition z_shape_cell (src out : val) : bool :=
  match q_of_val src with
  | Some _ => match q_of_val out with Some _ => true | None => false end
  | None =>
      match src with
      | VStr _ | VNone => val_same src out
      | _ => match out with VFlt f => negb (fl_is_finite f) | _ => false end
      end
  end.
Fixpoint z_shape (src out : list val) : bool :=
  match src, out with
  | [], [] => true
  | a :: r, b :: r' => z_shape_cell a b && z_shape r r'
  | _, _ => false
  end.
