(* L0: the normal form each column type stores (property C05), written from
   the property text; hand-written, depends on nothing generated. *)
From Coq Require Import ZArith List Bool String.
From DM Require Import Base.PyVal.
Open Scope Z_scope.

Inductive kind := KMixed | KFloat | KInt.

(* the exact number a Python object denotes, if it is numeric or numeric-looking text *)
Definition num_of (v : pyv) : option num :=
  match v with
  | PInt z | PNpInt z => Some (NInt z)
  | PBool b => Some (NInt (if b then 1 else 0))
  | PFloat f | PNpFloat _ f => Some (NFlt f)
  | PStr _ (Some z) _ => Some (NInt z)
  | PStr _ None (Some f) => Some (NFlt f)
  | _ => None
  end.

Definition nan : fl := FNan.

(* MixedColumn: int when integral and finite (exactly), float otherwise, other text and None verbatim *)
Definition nf_mixed (v : pyv) : res val :=
  match num_of v with
  | Some (NInt z) => Ok (VInt z)
  | Some (NFlt f) => if fl_is_finite f && fl_integral f then Ok (VInt (fl_trunc f)) else Ok (VFlt f)
  | None =>
      match v with
      | PStr s _ _ => Ok (VStr s)
      | PNone => Ok VNone
      | _ => Raise TypeError
      end
  end.

(* FloatColumn: the float; None and non-numeric text become NaN *)
Definition nf_float (v : pyv) : res val :=
  match num_of v with
  | Some (NInt z) => Ok (VFlt (round53 z))
  | Some (NFlt f) => Ok (VFlt f)
  | None =>
      match v with
      | PStr _ _ _ | PNone => Ok (VFlt nan)
      | _ => Raise TypeError
      end
  end.

(* IntColumn: the integer, decimals dropped; TypeError when there is no integer to take *)
Definition nf_int (v : pyv) : res val :=
  match num_of v with
  | Some (NInt z) => Ok (VInt z)
  | Some (NFlt f) => if fl_is_finite f then Ok (VInt (fl_trunc f)) else Raise TypeError
  | None => Raise TypeError
  end.

Definition nf (k : kind) (v : pyv) : res val :=
  match k with KMixed => nf_mixed v | KFloat => nf_float v | KInt => nf_int v end.

(* the empty value of a column type *)
Definition default_cell (k : kind) : val :=
  match k with KMixed => VStr EmptyString | KFloat => VFlt nan | KInt => VInt 0 end.

(* comparison of outcomes up to Python equality of the stored value *)
Definition res_eqv (a b : res val) : bool :=
  match a, b with
  | Ok x, Ok y => val_eqv x y
  | Raise e1, Raise e2 => exn_eqb e1 e2
  | _, _ => false
  end.

Definition pyv_wf (v : pyv) : bool :=
  match v with
  | PFloat f | PNpFloat _ f => fl_wf f
  | PStr _ _ (Some f) => fl_wf f
  | _ => true
  end.

