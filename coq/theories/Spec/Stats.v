(* L0 for C12: the textbook statistics of the numeric, finite, non-NaN cells of a column.
   Written from the property text; depends on nothing generated.  Numbers are exact rationals. *)
From Coq Require Import ZArith QArith Qcanon List Bool String.
From DM Require Import Base.PyVal Base.QcPy.
Import ListNotations.
Open Scope Qc_scope.

(* ---- which cells count, and as which number *)
Definition cell_q (v : val) : option Qc :=
  match v with VInt z => Some (qz z) | VFlt f => fl_q f | _ => None end.
Fixpoint nums (cells : list val) : list Qc :=
  match cells with
  | [] => []
  | v :: r => match cell_q v with Some q => q :: nums r | None => nums r end
  end.
(* the property quantifies over finite numbers; columns holding an infinity are outside it *)
Definition cell_inf (v : val) : bool := match v with VFlt (FInf _) => true | _ => false end.
Definition in_scope (cells : list val) : bool := negb (existsb cell_inf cells).

(* ---- the textbook definitions *)
Fixpoint qsum (l : list Qc) : Qc := match l with [] => 0 | x :: r => x + qsum r end.
Definition qlen (l : list Qc) : Qc := qz (zlen l).
Definition mean (l : list Qc) : Qc := qsum l / qlen l.
Definition sqdev (m x : Qc) : Qc := (x - m) * (x - m).
Definition var (l : list Qc) : Qc := qsum (map (sqdev (mean l)) l) / (qlen l - 1).     (* n-1 denominator *)
Definition median (l : list Qc) : Qc :=
  let s := qsort l in
  let h := Nat.div2 (List.length s) in
  if Nat.odd (List.length s) then nth h s 0 else (nth (h - 1) s 0 + nth h s 0) / qz 2.
Definition qmin (l : list Qc) : Qc := match l with [] => 0 | x :: r => fold_right Qcmin x r end.
Definition qmax (l : list Qc) : Qc := match l with [] => 0 | x :: r => fold_right Qcmax x r end.
(* the standard deviation is the non-negative root of the variance: s is std l  iff  is_std l s *)
Definition is_std (l : list Qc) (s : Qc) : Prop := 0 <= s /\ s * s = var l.

Inductive stat := Mean | Median | Var | Min | Max | Sum.
Definition nonempty {A} (l : list A) : bool := match l with [] => false | _ => true end.
(* None = NaN.  (The sum of no numbers is 0 in the textbook; the documentation says NaN; the property text
   leaves it open and the oracle accepts both.) *)
Definition textbook (s : stat) (l : list Qc) : option Qc :=
  match s with
  | Mean => if nonempty l then Some (mean l) else None
  | Median => if nonempty l then Some (median l) else None
  | Var => if (2 <=? List.length l)%nat then Some (var l) else None
  | Min => if nonempty l then Some (qmin l) else None
  | Max => if nonempty l then Some (qmax l) else None
  | Sum => Some (qsum l)
  end.
Definition col_stat (s : stat) (cells : list val) : option Qc := textbook s (nums cells).

(* ---- unique / count: Python equality of non-NaN cells is equality of their keys *)
Inductive key := KNum (q : Qc) | KInf (neg : bool) | KStr (s : string) | KNone.
Definition cell_key (v : val) : option key :=
  match v with
  | VInt z => Some (KNum (qz z))
  | VFlt FNan => None
  | VFlt (FInf b) => Some (KInf b)
  | VFlt f => match fl_q f with Some q => Some (KNum q) | None => None end
  | VStr s => Some (KStr s)
  | VNone => Some KNone
  end.
Fixpoint keys (cells : list val) : list key :=
  match cells with
  | [] => []
  | v :: r => match cell_key v with Some k => k :: keys r | None => keys r end
  end.
Definition key_eqb (a b : key) : bool :=
  match a, b with
  | KNum x, KNum y => Qceqb x y
  | KInf x, KInf y => Bool.eqb x y
  | KStr x, KStr y => String.eqb x y
  | KNone, KNone => true
  | _, _ => false
  end.
Definition kmem (k : key) (l : list key) : bool := existsb (key_eqb k) l.
Fixpoint knodup (l : list key) : bool :=
  match l with [] => true | k :: r => negb (kmem k r) && knodup r end.
(* the distinct non-NaN values, each once (in order of first occurrence) *)
Fixpoint kdistinct (l : list key) : list key :=
  match l with [] => [] | k :: r => k :: filter (fun x => negb (key_eqb k x)) (kdistinct r) end.
Definition distinct (cells : list val) : list key := kdistinct (keys cells).
(* u lists every distinct non-NaN value of the column exactly once *)
Definition unique_spec (cells u : list val) : Prop :=
  NoDup (keys u) /\ forall k, In k (keys u) <-> In k (keys cells).
Definition unique_ok (cells u : list val) : bool :=
  knodup (keys u) && forallb (fun k => kmem k (keys cells)) (keys u) && forallb (fun k => kmem k (keys u)) (keys cells).

(* ---- cells of any stored type ---------------------------------------------------------------------------
   A column's own type check stores int / float / str / None only (val).  A MixedColumn can also hold what was
   stored WITHOUT that check: the result columns of `col @ f` / map_ (BaseColumn._map) and of column arithmetic
   (BaseColumn._operate), slices and selections of those, and a table column wherever such a derived column is
   inserted by reference or copied by `<<`.  The property speaks of
   "the column's numeric non-NaN cells": a cell is numeric when it is a real number of Python's numeric tower --
   int and its subclass bool (True is the number 1, False the number 0), float, NumPy integer and floating
   scalars, fractions.Fraction and finite decimal.Decimal (exact rationals).  Its value is its exact value. *)
Inductive xcell :=
  | XV (v : val)
  | XBool (b : bool)
  | XNpInt (z : Z)
  | XNpFlt (is64 : bool) (f : fl)       (* numpy.float64 subclasses float, the narrower ones do not *)
  | XRat (q : Qc).                      (* Fraction / Decimal *)
Definition qbool (b : bool) : Qc := qz (if b then 1 else 0).
Definition xcell_q (c : xcell) : option Qc :=
  match c with
  | XV v => cell_q v
  | XBool b => Some (qbool b)
  | XNpInt z => Some (qz z)
  | XNpFlt _ f => fl_q f
  | XRat q => Some q
  end.
Fixpoint xnums (cells : list xcell) : list Qc :=
  match cells with
  | [] => []
  | c :: r => match xcell_q c with Some q => q :: xnums r | None => xnums r end
  end.
Definition xcell_inf (c : xcell) : bool :=
  match c with XV v => cell_inf v | XNpFlt _ (FInf _) => true | _ => false end.
Definition xin_scope (cells : list xcell) : bool := negb (existsb xcell_inf cells).
Definition xcol_stat (s : stat) (cells : list xcell) : option Qc := textbook s (xnums cells).

(* Python equality (and hash) of numbers is equality of their values: True == 1 == 1.0 == Fraction(1) == np.int64(1) *)
Definition xcell_key (c : xcell) : option key :=
  match c with
  | XV v => cell_key v
  | XBool b => Some (KNum (qbool b))
  | XNpInt z => Some (KNum (qz z))
  | XNpFlt _ f => cell_key (VFlt f)
  | XRat q => Some (KNum q)
  end.
Fixpoint xkeys (cells : list xcell) : list key :=
  match cells with
  | [] => []
  | c :: r => match xcell_key c with Some k => k :: xkeys r | None => xkeys r end
  end.
Definition xdistinct (cells : list xcell) : list key := kdistinct (xkeys cells).
Definition xunique_spec (cells u : list xcell) : Prop :=
  NoDup (xkeys u) /\ forall k, In k (xkeys u) <-> In k (xkeys cells).
Definition xunique_ok (cells u : list xcell) : bool :=
  knodup (xkeys u) && forallb (fun k => kmem k (xkeys cells)) (xkeys u) && forallb (fun k => kmem k (xkeys u)) (xkeys cells).
