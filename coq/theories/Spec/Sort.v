(* L0 for C10: what "sorted into the documented order" means, written from the
   property text on top of Spec.Table (sort_le = the documented order:
   -inf, numbers by value, +inf, text by code point, None, NaN).
   Hand-written, kernel-free, executable.  Definitions only. *)
From Coq Require Import ZArith NArith List Bool String.
From DM Require Import Base.PyVal Spec.Nf Spec.Table.
Import ListNotations.

(* strictly before, in the documented order *)
Definition sort_lt (a b : val) : bool := negb (sort_le b a).

(* p arranges the by-cells in non-decreasing documented order and names every row exactly once *)
Definition is_sorting_perm (cells : list val) (p : list nat) : bool :=
  is_perm_of_range p (List.length cells) &&
  match take_pos p cells with Some cs => sorted_by sort_le cs | None => false end.

Fixpoint list_same (a b : list val) : bool :=
  match a, b with
  | [], [] => true
  | x :: a', y :: b' => val_same x y && list_same a' b'
  | _, _ => false
  end.
Fixpoint list_eqN (a b : list N) : bool :=
  match a, b with
  | [], [] => true
  | x :: a', y :: b' => N.eqb x y && list_eqN a' b'
  | _, _ => false
  end.
Fixpoint forallb2 {A B} (f : A -> B -> bool) (a : list A) (b : list B) : bool :=
  match a, b with
  | [], [] => true
  | x :: a', y :: b' => f x y && forallb2 f a' b'
  | _, _ => false
  end.

(* where the rows of the result sit in the source (row ids are unique) *)
Definition positions_of (ids rids : list N) : option (list nat) :=
  all_some (map (fun r => pos_of r ids) rids).

(* ops.sort(dm, by=col): exactly the rows of dm, each once, cells intact (bit for bit),
   the by-column non-decreasing *)
Definition sort_dm_ok (ids : list N) (cols : list (list val)) (byc : list val)
                      (rids : list N) (rcols : list (list val)) : bool :=
  nodup_N ids &&
  match positions_of ids rids with
  | Some p => is_sorting_perm byc p &&
              forallb2 (fun c rc => match take_pos p c with Some x => list_same x rc | None => false end) cols rcols
  | None => false
  end.

(* ops.sort(col) / ops.sort(col, by=other): the values of col rearranged by a permutation p that sorts the
   by-cells (p is a witness supplied by the harness and checked here); the row ids stay those of the source *)
Definition sort_col_ok (byc col : list val) (p : list nat) (result : list val)
                       (src_ids res_ids : list N) : bool :=
  is_sorting_perm byc p && Nat.eqb (List.length col) (List.length byc) &&
  match take_pos p col with Some x => list_same x result | None => false end &&
  list_eqN src_ids res_ids.

Fixpoint all_within (lo hi : nat) (l : list nat) : bool :=
  match l with [] => true | x :: r => Nat.leb lo x && Nat.leb x hi && all_within lo hi r end.
(* sizes differ by at most one *)
Definition sizes_balanced (sizes : list nat) : bool :=
  match sizes with
  | [] => true
  | x :: _ => let lo := fold_right Nat.min x sizes in all_within lo (S lo) sizes
  end.

(* ops.bin_split(col, bins), bins >= 1: ValueError iff bins exceeds the length; otherwise `bins` consecutive
   chunks of the sorted table that hold every row once and whose sizes differ by at most one.
   A chunk is observed as its row ids. *)
Definition bin_split_ok (ids : list N) (byc : list val) (bins : Z) (obs : res (list (list N))) : bool :=
  if (Z.of_nat (List.length ids) <? bins)%Z then
    match obs with Raise ValueError => true | _ => false end
  else
    match obs with
    | Ok chunks =>
        (Z.of_nat (List.length chunks) =? bins)%Z && nodup_N ids &&
        sizes_balanced (map (@List.length N) chunks) &&
        match positions_of ids (List.concat chunks) with
        | Some p => is_sorting_perm byc p
        | None => false
        end
    | Raise _ => false
    end.
