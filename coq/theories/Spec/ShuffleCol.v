(* L0 for the COLUMN variants of property C11: ops.shuffle(col), ops.random_sample(col, k) and
   ops.shuffle_horiz(cols... | dm), written from the property text.  Positional, kernel-free, hand-written;
   depends on Base/ and Spec/ only.  Definitions only (proofs: Proofs/ShuffleColFacts.v).

   The permutation(s) / the choice made by Python's `random` are ARGUMENTS (oracle), validated here
   (is_perm_of_range / valid_choice); an argument that is not a permutation is answered with OtherError, which
   no observation of the implementation is ever accepted for. *)
From Coq Require Import ZArith NArith List Bool String.
From DM Require Import Base.PyVal Spec.Nf Spec.Table Spec.Ops.
Import ListNotations.
Open Scope Z_scope.

(* ---------- a column as an observer sees it: to which rows (ids) its values belong, its type, its cells *)
Record column := { c_ids : list N; c_kind : kind; c_cells : list val }.

(* the column `name` of a table: position-aligned with it (value j belongs to row j) *)
Definition col_of (t : table) (name : string) : option column :=
  match slot_of t name with
  | Some s => Some {| c_ids := ids t; c_kind := skind s; c_cells := scells s |}
  | None => None
  end.

(* ---------- ops.shuffle(col): the values rearranged by a permutation of the row positions; the result stays
   POSITION-ALIGNED with the DataMatrix: its row ids are the table's, in the table's order *)
Definition shuffle_col (perm : list nat) (c : column) : res column :=
  if is_perm_of_range perm (List.length (c_cells c)) then
    match take_pos perm (c_cells c) with
    | Some cs => Ok {| c_ids := c_ids c; c_kind := c_kind c; c_cells := cs |}
    | None => Raise OtherError
    end
  else Raise OtherError.

(* ---------- ops.random_sample(col, k): k distinct positions; the values at those positions WITH THEIR row ids;
   ValueError when k is negative or exceeds the length *)
Definition valid_choice (choice : list nat) (k : Z) (n : nat) : bool :=
  Nat.eqb (List.length choice) (Z.to_nat k) && nodup_nat choice && forallb (fun p => Nat.ltb p n) choice.

Definition sample_col (k : Z) (choice : list nat) (c : column) : res column :=
  let n := List.length (c_cells c) in
  if (k <? 0) || (Z.of_nat n <? k) then Raise ValueError
  else if valid_choice choice k n then
    match take_pos choice (c_ids c), take_pos choice (c_cells c) with
    | Some ri, Some cs => Ok {| c_ids := ri; c_kind := c_kind c; c_cells := cs |}
    | _, _ => Raise OtherError
    end
  else Raise OtherError.

(* ---------- the result is an ordinary column of its DataMatrix ---------- *)
(* ids of the rows for which the column holds a matching value *)
Definition matching_ids (f : val -> bool) (c : column) : list N :=
  map fst (filter (fun '(_, cell) => f cell) (combine (c_ids c) (c_cells c))).
(* the column used as a selection key (col == ref, col < ref, ...) on its table: the rows with those ids *)
Definition select_by (f : val -> bool) (c : column) (t : table) : option table :=
  match all_some (map (fun r => pos_of r (ids t)) (matching_ids f c)) with
  | Some ps => take ps t
  | None => None
  end.
(* the column read through a selection of its table (col[selection]): the cells it holds for those rows *)
Definition read_rows (c : column) (rows : list N) : option (list val) :=
  match all_some (map (fun r => pos_of r (c_ids c)) rows) with
  | Some ps => take_pos ps (c_cells c)
  | None => None
  end.
(* dm[name] = col for a column that is not one of dm's own column objects: a NEW column of the same type holding the
   cells position by position (value j goes to row j); a column of another length is refused *)
Definition assign_col (t : table) (name : string) (c : column) : res table :=
  if negb (Nat.eqb (List.length (c_cells c)) (nrows t)) then Raise ValueError
  else let '(t1, i) := add_slot t {| skind := c_kind c; scells := c_cells c |} in Ok (bind_name t1 name i).

(* ---------- ops.shuffle_horiz ---------- *)
(* an argument: a column object of the table (by one of its names), the table itself, a column of another
   DataMatrix (another family), something that is not a column *)
Inductive harg := HCol (name : string) | HTable | HForeign | HOther.

Definition mem_str (x : string) (l : list string) : bool := existsb (String.eqb x) l.

(* the names under which the column object bound to n is listed *)
Definition aliases (t : table) (n : string) : list string :=
  match lookup n (names t) with
  | Some i => map fst (filter (fun ni : string * nat => Nat.eqb (snd ni) i) (names t))
  | None => []
  end.

Definition is_hcol (a : harg) : bool := match a with HCol _ => true | _ => false end.
Definition harg_is_column (a : harg) : bool := match a with HCol _ | HForeign => true | _ => false end.
Definition hcol_names (args : list harg) : list string :=
  flat_map (fun a => match a with HCol n => [n] | _ => [] end) args.

(* a single DataMatrix stands for all its columns; otherwise every argument must be a column, and all of them
   columns of one DataMatrix (ValueError); the first argument decides whose table it is (a foreign first argument:
   the operation on another table, outside this model); a column object that is listed under several names cannot
   be named (TypeError) *)
Definition chosen_names (t : table) (args : list harg) : res (list string) :=
  let args' := match args with [HTable] => map (fun ni : string * nat => HCol (fst ni)) (names t) | _ => args end in
  match args' with
  | [] => Raise ValueError
  | first :: _ =>
      if negb (forallb harg_is_column args') then Raise ValueError
      else match first with
           | HForeign => Raise OtherError
           | _ =>
               if negb (forallb is_hcol args') then Raise ValueError
               else
                 let ns := hcol_names args' in
                 if forallb (has_name t) ns
                 then if forallb (fun n => Nat.eqb (List.length (aliases t n)) 1) ns then Ok ns else Raise TypeError
                 else Raise OtherError          (* not a column of this table: outside the model *)
           end
  end.

(* the chosen columns in the canonical (alphabetical) order in which a row is read and written *)
Definition chosen_order (t : table) (ns : list string) : list string :=
  fold_right insert_str [] (filter (fun n => mem_str n ns) (map fst (names t))).

(* the receiving column coerces what it is given *)
Fixpoint coerce_row (kinds : list kind) (vals : list val) : res (list val) :=
  match kinds, vals with
  | k :: ks, v :: vs => bind (nf k (pyv_of_val v)) (fun x => bind (coerce_row ks vs) (fun r => Ok (x :: r)))
  | _, _ => Ok []
  end.

(* one row: cell j of the result is the coerced cell perm[j] of the source *)
Definition hrow (kinds : list kind) (perm : list nat) (row : list val) : res (list val) :=
  if is_perm_of_range perm (List.length row) then
    match take_pos perm row with
    | Some moved => coerce_row kinds moved
    | None => Raise OtherError
    end
  else Raise OtherError.

(* every row has its own permutation; rows are handled first to last and the first refusal ends the operation *)
Fixpoint hrows (kinds : list kind) (perms : list (list nat)) (rows : list (list val)) : res (list (list val)) :=
  match perms, rows with
  | p :: ps, r :: rs => bind (hrow kinds p r) (fun x => bind (hrows kinds ps rs) (fun xs => Ok (x :: xs)))
  | [], [] => Ok []
  | _, _ => Raise OtherError
  end.

Definition row_at (i : nat) (cols : list (list val)) : list val := map (fun c => nth i c VNone) cols.
Definition col_from (j : nat) (rows : list (list val)) : list val := map (fun r => nth j r VNone) rows.
Fixpoint index_of (x : string) (l : list string) : option nat :=
  match l with
  | [] => None
  | y :: r => if String.eqb x y then Some O else match index_of x r with Some p => Some (S p) | None => None end
  end.

(* the table: a new table of the same family, same row ids in the same order; a chosen column holds the permuted
   (coerced) cells, every other column its own cells; every name has its own column again *)
Definition shuffle_horiz (t : table) (args : list harg) (perms : list (list nat)) : res table :=
  bind (chosen_names t args) (fun ns =>
    let order := chosen_order t ns in
    match all_some (map (slot_of t) order) with
    | None => Raise OtherError
    | Some ss =>
        let kinds := map skind ss in
        let cols := map scells ss in
        let rows := map (fun i => row_at i cols) (seq 0 (nrows t)) in
        if negb (Nat.eqb (List.length perms) (nrows t)) then Raise OtherError        (* one permutation per row *)
        else
        bind (hrows kinds perms rows) (fun rows' =>
          match all_some (map (fun ni : string * nat =>
                                 match nth_error (slots t) (snd ni) with
                                 | Some s => Some {| skind := skind s;
                                                     scells := match index_of (fst ni) order with
                                                               | Some j => col_from j rows'
                                                               | None => scells s
                                                               end |}
                                 | None => None
                                 end) (names t)) with
          | Some ss' => Ok {| fam := fam t; ids := ids t;
                              names := combine (map fst (names t)) (seq 0 (List.length (names t)));
                              slots := ss'; tsorted := true; dflt := KMixed |}
          | None => Raise OtherError
          end)
    end).

(* a cell / a row restricted to some columns, for stating what happens to a row *)
Definition cell_of (t : table) (n : string) (i : nat) : val :=
  match slot_of t n with Some s => nth i (scells s) VNone | None => VNone end.
Definition trow (t : table) (ns : list string) (i : nat) : list val := map (fun n => cell_of t n i) ns.

(* as a step on the pool: the result is appended, nothing else changes *)
Definition xstep_horiz (w : world) (ti : nat) (args : list harg) (perms : list (list nat)) : world * outcome :=
  match get w ti with
  | None => (w, OutOfModel)
  | Some t => match shuffle_horiz t args perms with
              | Ok t' => (push w t', OkNew)
              | Raise e => (w, Err e)
              end
  end.
