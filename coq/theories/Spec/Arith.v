(* L0 for C13: column arithmetic is element-wise and respects operand order.
   Written from the property text; hand-written, depends on nothing generated.
   The scalar arithmetic of Python/NumPy (a o b on two numbers) and str(float)
   are parameters: the laws are stated for every such operation. *)
From Coq Require Import ZArith List Bool String DecimalString.
From DM Require Import Base.PyVal Base.CsvPy Spec.Nf.
Import ListNotations.
Open Scope Z_scope.

Inductive binop := OAdd | OSub | OMul | OTruediv | OFloordiv | OMod | OPow.

(* the operator methods Python's data model calls:  col o x  -> D..,  x o col -> DR.. *)
Inductive dunder :=
  | DAdd | DRAdd | DSub | DRSub | DMul | DRMul | DTruediv | DRTruediv
  | DFloordiv | DRFloordiv | DMod | DRMod | DPow | DRPow.

Definition dunder_op (d : dunder) : binop :=
  match d with
  | DAdd | DRAdd => OAdd | DSub | DRSub => OSub | DMul | DRMul => OMul
  | DTruediv | DRTruediv => OTruediv | DFloordiv | DRFloordiv => OFloordiv
  | DMod | DRMod => OMod | DPow | DRPow => OPow
  end.
(* true: the column is the right operand (x o col) *)
Definition dunder_refl (d : dunder) : bool :=
  match d with
  | DRAdd | DRSub | DRMul | DRTruediv | DRFloordiv | DRMod | DRPow => true
  | _ => false
  end.
Definition dunder_of (op : binop) (refl : bool) : dunder :=
  match op, refl with
  | OAdd, false => DAdd | OAdd, true => DRAdd | OSub, false => DSub | OSub, true => DRSub
  | OMul, false => DMul | OMul, true => DRMul | OTruediv, false => DTruediv | OTruediv, true => DRTruediv
  | OFloordiv, false => DFloordiv | OFloordiv, true => DRFloordiv | OMod, false => DMod | OMod, true => DRMod
  | OPow, false => DPow | OPow, true => DRPow
  end.

(* the other operand: a scalar, a sequence, or a column (its kind and cells) *)
Inductive operand := OScalar (v : pyv) | OSeq (vs : list pyv) | OCol (k2 : kind) (cells : list val).

(* a column: type, row ids, cells (same length) *)
Record column := Col { ckind : kind; cids : list N; ccells : list val }.

Fixpoint map2 {A B C : Type} (f : A -> B -> C) (l : list A) (m : list B) : list C :=
  match l, m with
  | a :: l', b :: m' => f a b :: map2 f l' m'
  | _, _ => []
  end.

Definition val_is_number (v : val) : bool := match v with VInt _ | VFlt _ => true | _ => false end.

(* decimal rendering of a Python int *)
Definition dec (z : Z) : string := NilZero.string_of_int (Z.to_int z).

Definition val_of_num (n : num) : val := match n with NInt z => VInt z | NFlt f => VFlt f end.
(* float64 view of a number / int64 view of a number (truncation) *)
Definition num_fl (n : num) : fl := match n with NInt z => round53 z | NFlt f => f end.
Definition num_int (n : num) : Z := match n with NInt z => z | NFlt f => fl_trunc f end.
Definition num_is_nan (n : num) : bool := match n with NFlt f => fl_is_nan f | _ => false end.

(* a cell of a FloatColumn / IntColumn as a number (other cells never occur there) *)
Definition f64_view (v : val) : num := match val_num v with Some n => NFlt (num_fl n) | None => NFlt FNan end.
Definition i64_view (v : val) : num := match val_num v with Some n => NInt (num_int n) | None => NInt 0 end.

(* the operands of `a o b` in the order in which they were written *)
Definition ordered {A : Type} (refl : bool) (c x : A) : A * A := if refl then (x, c) else (c, x).

Fixpoint all_ok {A : Type} (l : list (res A)) : res (list A) :=
  match l with
  | [] => Ok []
  | r :: t => bind r (fun x => bind (all_ok t) (fun xs => Ok (x :: xs)))
  end.

Section Arith.
  Variable num_op : binop -> num -> num -> num.     (* Python / NumPy scalar arithmetic: a o b *)
  Variable fstr : fl -> string.                     (* str(float) *)

  (* the text of a cell (what `+` concatenates): Python's str() of the value -- an int with all its decimal digits
     whatever its size, a float with an integral value as that integer, "nan" / "inf" / "-inf", any other float as
     str(float) (fstr: the shortest round-trip notation, supplied from outside) *)
  Definition text_of (v : val) : string :=
    match v with
    | VStr s => s
    | VInt z => dec z
    | VFlt f => if fl_is_finite f && fl_integral f then dec (fl_trunc f) else show_flt fstr f
    | VNone => "None"
    end.

  (* MixedColumn: numbers are operated on; otherwise `+` concatenates text in operand order, the rest keeps the cell *)
  Definition cell_mixed (op : binop) (refl : bool) (c x : val) : val :=
    let '(a, b) := ordered refl c x in
    match val_num a, val_num b with
    | Some p, Some q => val_of_num (num_op op p q)
    | _, _ => match op with OAdd => VStr (text_of a ++ text_of b) | _ => c end
    end.

  (* FloatColumn: float64 arithmetic on the float64 values of both sides *)
  Definition cell_float (op : binop) (refl : bool) (c x : val) : val :=
    let '(a, b) := ordered refl (f64_view c) (f64_view x) in
    VFlt (num_fl (num_op op a b)).

  (* IntColumn: results are ints; col / x is floor division *)
  Definition int_op (op : binop) (refl : bool) : binop :=
    match op, refl with OTruediv, false => OFloordiv | _, _ => op end.
  Definition cell_int (op : binop) (refl : bool) (c x : val) : val :=
    let '(a, b) := ordered refl (i64_view c) (i64_view x) in
    VInt (num_int (num_op (int_op op refl) a b)).

  Definition cell_spec (k : kind) : binop -> bool -> val -> val -> val :=
    match k with KMixed => cell_mixed | KFloat => cell_float | KInt => cell_int end.

  (* the other operand, converted like a value assigned to a column of kind k, one per row *)
  Definition spec_operand (k : kind) (o : operand) (n : nat) : res (list val) :=
    match o with
    | OScalar v => bind (nf k v) (fun x => Ok (repeat x n))
    | OSeq vs => if Nat.eqb (List.length vs) n then all_ok (map (nf k) vs) else Raise ValueError
    | OCol _ cells =>
        if Nat.eqb (List.length cells) n then all_ok (map (fun x => nf k (pyv_of_val x)) cells) else Raise ValueError
    end.

  Definition spec_cells (k : kind) (op : binop) (refl : bool) (cells xs : list val) : list val :=
    map2 (cell_spec k op refl) cells xs.

  (* col o x (refl = false) / x o col (refl = true): a new column, same type, same rows *)
  Definition spec_operate (op : binop) (refl : bool) (c : column) (o : operand) : res column :=
    bind (spec_operand (ckind c) o (List.length (ccells c)))
         (fun xs => Ok (Col (ckind c) (cids c) (spec_cells (ckind c) op refl (ccells c) xs))).

  (* col @ f, map_(f, col): f(cell_i); a MixedColumn keeps it as returned, a Float/IntColumn holds it as float / int.
     Raise OtherError = not specified here (bool, other objects, text in a numeric column, NaN/inf in an IntColumn) *)
  Definition map_cell (k : kind) (r : pyv) : res val :=
    match r with
    | PBool _ | POther => Raise OtherError
    | _ =>
      match k, pyv_num r with
      | KMixed, _ => match val_of_pyv r with Some x => Ok x | None => Raise OtherError end    (* plain int/float/str/None *)
      | KFloat, Some n => Ok (VFlt (num_fl n))
      | KInt, Some (NInt z) => Ok (VInt z)
      | KInt, Some (NFlt f) => if fl_is_finite f then Ok (VInt (fl_trunc f)) else Raise OtherError
      | _, None => Raise OtherError
      end
    end.
  Definition spec_map (f : val -> pyv) (c : column) : res column :=
    bind (all_ok (map (fun x => map_cell (ckind c) (f x)) (ccells c)))
         (fun ys => Ok (Col (ckind c) (cids c) ys)).
End Arith.

(* reading a cell by row id (assigning a result back and reading row r) *)
Fixpoint cell_of_row (ids : list N) (cells : list val) (r : N) : option val :=
  match ids, cells with
  | i :: ids', c :: cells' => if N.eqb i r then Some c else cell_of_row ids' cells' r
  | _, _ => None
  end.

(* ---------- an executable instance: exact arithmetic on ints and dyadics.
   `None` stands for "not computed exactly here" (zero divisor, quotient that
   is not dyadic, non-integer exponent, infinities): such cases are discarded. *)
Definition num_dy (n : num) : option (Z * Z) :=
  match n with NInt z => Some (z, 0) | NFlt f => fl_dy f end.
Definition num_is_int (n : num) : bool := match n with NInt _ => true | _ => false end.
Definition fl_of_dy (m e : Z) : fl := mk_fin (m <? 0) (Z.abs m) e.

(* common exponent: (A, B, e) with a = A*2^e, b = B*2^e *)
Definition dy_align (a b : Z * Z) : Z * Z * Z :=
  let '(m1, e1) := a in let '(m2, e2) := b in
  let e := Z.min e1 e2 in (m1 * 2 ^ (e1 - e), m2 * 2 ^ (e2 - e), e).

(* odd part and exponent of two of a non-zero integer *)
Definition z_split (z : Z) : Z * Z :=
  match z with
  | Zpos p => let '(m, e) := pos_norm p 0 in (Zpos m, e)
  | Zneg p => let '(m, e) := pos_norm p 0 in (Zneg m, e)
  | Z0 => (0, 0)
  end.

(* integer value of a dyadic, if integral *)
Definition dy_int (d : Z * Z) : option Z :=
  let '(m, e) := d in
  if 0 <=? e then Some (m * 2 ^ e) else if (m mod 2 ^ (- e)) =? 0 then Some (m / 2 ^ (- e)) else None.

Definition dy_op (op : binop) (a b : Z * Z) : option (Z * Z) :=
  let '(A, B, e) := dy_align a b in
  match op with
  | OAdd => Some (A + B, e)
  | OSub => Some (A - B, e)
  | OMul => Some (fst a * fst b, snd a + snd b)
  | OTruediv =>
      if B =? 0 then None else
      let '(o, t) := z_split (fst b) in
      if (fst a mod o) =? 0 then Some (fst a / o, snd a - snd b - t) else None
  | OFloordiv => if B =? 0 then None else Some (A / B, 0)
  | OMod => if B =? 0 then None else Some (A mod B, e)
  | OPow =>
      match dy_int b with
      | None => None
      | Some n =>
          if 0 <=? n then Some (fst a ^ n, snd a * n)
          else let '(o, t) := z_split (fst a) in
               if (o =? 1) || (o =? -1) then Some (o ^ (- n), (snd a + t) * n) else None
      end
  end.

Definition is_one (n : num) : bool := match num_dy n with Some d => comparison_is_eq (dy_cmp d (1, 0)) | None => false end.
Definition is_zero (n : num) : bool := match num_dy n with Some d => comparison_is_eq (dy_cmp d (0, 0)) | None => false end.
(* IEEE / Python: x ** 0 = 1 and 1 ** x = 1 even for NaN *)
Definition pow_unit (op : binop) (a b : num) : bool :=
  match op with OPow => is_zero b || is_one a | _ => false end.

(* Python converts an int that meets a float to float first (round to nearest even): (2^53 + 1) - 1.0 is
   2^53 - 1.0, not 2^53 *)
Definition num_promote (a b : num) : num * num :=
  match a, b with
  | NInt x, NFlt _ => (NFlt (round53 x), b)
  | NFlt _, NInt y => (a, NFlt (round53 y))
  | _, _ => (a, b)
  end.

(* float // float as CPython / NumPy compute it (fmod, then (vx - mod) / wx in floating point, then floor) is the
   floor of the exact quotient when both operands are integers below 2^53 in units of their common 2^e: every
   intermediate value is then exact.  Beyond that it need not be (1e16 // 1.5 is 6666666666666667.0): left to
   the IEEE instance (Spec/ArithIeee.v). *)
Definition floordiv_exact (x y : Z * Z) : bool :=
  let '(A, B, _) := dy_align x y in (Z.abs A <? 2 ^ 53) && (Z.abs B <? 2 ^ 53).
Definition is_div_op (op : binop) : bool := match op with OTruediv | OFloordiv | OMod => true | _ => false end.

Definition exact_op_opt (op : binop) (a0 b0 : num) : option num :=
  let '(a, b) := num_promote a0 b0 in
  let int_result := num_is_int a && num_is_int b &&
                    match op with OTruediv => false | OPow => (0 <=? num_int b) | _ => true end in
  if pow_unit op a0 b0 then Some (if int_result then NInt 1 else NFlt (FFin false 1 0)) else
  if is_div_op op && is_zero b0 then None else         (* Python raises also for NaN / 0 *)
  if num_is_nan a0 || num_is_nan b0 then Some (NFlt FNan) else
  match num_dy a, num_dy b with
  | Some x, Some y =>
      match dy_op op x y with
      | Some (m, e) =>
          if int_result then match dy_int (m, e) with Some z => Some (NInt z) | None => None end
          else if match op with OFloordiv => negb (floordiv_exact x y) | _ => false end then None
          else Some (NFlt (fl_of_dy m e))
      | None => None
      end
  | _, _ => None
  end.
Definition exact_op (op : binop) (a b : num) : num :=
  match exact_op_opt op a b with Some r => r | None => NFlt FNan end.

(* str(float) as a finite table supplied by CPython (the harness lists every float it needs) *)
Fixpoint fstr_tab (t : list (fl * string)) (f : fl) : string :=
  match t with
  | [] => "?"
  | (g, s) :: r => if fl_same g f then s else fstr_tab r f
  end.

Fixpoint fstr_known (t : list (fl * string)) (f : fl) : bool :=
  match t with [] => false | (g, _) :: r => fl_same g f || fstr_known r f end.
(* a function on cells given as a finite table (the harness evaluates f on every cell) *)
Fixpoint ftab_fun (t : list (val * pyv)) (x : val) : pyv :=
  match t with [] => POther | (y, r) :: t' => if val_same y x then r else ftab_fun t' x end.

(* is the specified cell computed exactly by exact_op (and its text known)?  Otherwise the case is discarded. *)
Definition num_fits (n : num) : bool :=
  match n with NInt z => Z.abs z <? 2 ^ 62 | NFlt f => fl_wf f && match f with FFin _ _ e => (-1000 <? e) && (e <? 900) | _ => true end end.
Definition op_defined (op : binop) (a b : num) : bool :=
  match exact_op_opt op a b with Some r => num_fits r | None => false end.
Definition text_known (t : list (fl * string)) (v : val) : bool :=
  match v with VFlt f => (fl_is_finite f && fl_integral f) || fstr_known t f | _ => true end.
Definition cell_defined (t : list (fl * string)) (k : kind) (op : binop) (refl : bool) (c x : val) : bool :=
  match k with
  | KMixed =>
      let '(a, b) := ordered refl c x in
      match val_num a, val_num b with
      | Some p, Some q => op_defined op p q
      | _, _ => match op with OAdd => text_known t a && text_known t b | _ => true end
      end
  | KFloat => let '(a, b) := ordered refl (f64_view c) (f64_view x) in op_defined op a b
  | KInt => let '(a, b) := ordered refl (i64_view c) (i64_view x) in
            op_defined (int_op op refl) a b && negb (match op with OPow => num_int b <? 0 | _ => false end)
  end.
(* per row: is the specified cell judged? *)
Definition defined_mask (t : list (fl * string)) (op : binop) (refl : bool) (c : column) (o : operand) : list bool :=
  match spec_operand (ckind c) o (List.length (ccells c)) with
  | Ok xs => map2 (cell_defined t (ckind c) op refl) (ccells c) xs
  | Raise _ => []
  end.
Definition spec_defined (t : list (fl * string)) (op : binop) (refl : bool) (c : column) (o : operand) : bool :=
  forallb (fun b => b) (defined_mask t op refl c o).

(* comparison of an observed column content with a specified one, up to Python equality of cells *)
Fixpoint vals_eqv (a b : list val) : bool :=
  match a, b with
  | [], [] => true
  | x :: a', y :: b' => val_eqv x y && vals_eqv a' b'
  | _, _ => false
  end.
Fixpoint ids_eqb (a b : list N) : bool :=
  match a, b with
  | [], [] => true
  | x :: a', y :: b' => N.eqb x y && ids_eqb a' b'
  | _, _ => false
  end.
Definition kind_eqb (a b : kind) : bool :=
  match a, b with KMixed, KMixed | KFloat, KFloat | KInt, KInt => true | _, _ => false end.
Fixpoint vals_eqv_mask (m : list bool) (a b : list val) : bool :=
  match m, a, b with
  | [], [], [] => true
  | d :: m', x :: a', y :: b' => (negb d || val_eqv x y) && vals_eqv_mask m' a' b'
  | _, _, _ => false
  end.
(* specified vs observed outcome; rows that are not judged are skipped; an exception observed while some row is
   not judged (zero divisor, negative integer power ...) is not judged either *)
Definition rescol_eqv_mask (m : list bool) (spec observed : res column) : bool :=
  match spec, observed with
  | Ok x, Ok y => kind_eqb (ckind x) (ckind y) && ids_eqb (cids x) (cids y) && vals_eqv_mask m (ccells x) (ccells y)
  | Raise e1, Raise e2 => exn_eqb e1 e2
  | Ok _, Raise _ => negb (forallb (fun b => b) m)
  | Raise _, Ok _ => false
  end.
Definition col_eqv (a b : column) : bool :=
  kind_eqb (ckind a) (ckind b) && ids_eqb (cids a) (cids b) && vals_eqv (ccells a) (ccells b).
Definition rescol_eqv (a b : res column) : bool :=
  match a, b with
  | Ok x, Ok y => col_eqv x y
  | Raise e1, Raise e2 => exn_eqb e1 e2
  | _, _ => false
  end.
