(* L0 for C16: what "CSV write then read preserves names, length and cell
   values" means, written from the property text.  No csv syntax here: the
   spec speaks about tables and about the logical content of a text file
   (header + records of text fields).  Hand-written, kernel-free, executable. *)
From Coq Require Import ZArith List Bool String Ascii.
From DM Require Import Base.PyVal Spec.Nf.
Import ListNotations.
Open Scope Z_scope.

(* a two-dimensional table: column names (in column order) and rows of cells *)
Definition table : Type := (list string * list (list val))%type.

(* ---- the value read back for a written cell ------------------------------
   numbers by value, NaN as NaN, +-inf, text verbatim, None as the text 'None' *)
Definition cell_ok (orig got : val) : bool :=
  match orig with
  | VStr s => match got with VStr t => str_eqb s t | _ => false end
  | VNone => match got with VStr t => str_eqb t "None" | _ => false end
  | VInt z => match val_num got with Some n => num_eqb n (NInt z) | None => false end
  | VFlt f =>
      match val_num got with
      | Some n => if fl_is_nan f then match n with NFlt g => fl_is_nan g | _ => false end
                  else num_eqb n (NFlt f)
      | None => false
      end
  end.

Fixpoint index_of (n : string) (l : list string) : option nat :=
  match l with
  | [] => None
  | x :: r => if str_eqb n x then Some O else option_map S (index_of n r)
  end.

Fixpoint nodupb (l : list string) : bool :=
  match l with
  | [] => true
  | x :: r => negb (existsb (str_eqb x) r) && nodupb r
  end.

(* the cell of row r' (laid out along names') that belongs to column n *)
Definition cell_of (names' : list string) (r' : list val) (n : string) : option val :=
  match index_of n names' with Some j => nth_error r' j | None => None end.

Definition row_ok (cmp : val -> val -> bool) (names names' : list string) (r r' : list val) : bool :=
  Nat.eqb (List.length r) (List.length names) && Nat.eqb (List.length r') (List.length names') &&
  forallb (fun nv => match cell_of names' r' (fst nv) with Some v' => cmp (snd nv) v' | None => false end)
          (combine names r).

Fixpoint rows_ok (cmp : val -> val -> bool) (names names' : list string) (rows rows' : list (list val)) : bool :=
  match rows, rows' with
  | [], [] => true
  | r :: rs, r' :: rs' => row_ok cmp names names' r r' && rows_ok cmp names names' rs rs'
  | _, _ => false
  end.

(* same column names (as a set: a table lists its columns alphabetically or in
   creation order), same number of rows, and cell for cell cmp *)
Definition tables_ok (cmp : val -> val -> bool) (t t' : table) : bool :=
  let '(names, rows) := t in let '(names', rows') := t' in
  nodupb names && nodupb names' && Nat.eqb (List.length names) (List.length names') &&
  rows_ok cmp names names' rows rows'.

(* C16, round trip: t was written, t' was read back *)
Definition roundtrip_ok (t t' : table) : bool := tables_ok cell_ok t t'.

(* the table that is read back, cell by cell (used by the theorems; cell_ok v (rt_cell v) holds) *)
Definition rt_cell (v : val) : val :=
  match v with
  | VInt z => VInt z
  | VFlt f => if fl_is_finite f && fl_integral f then VInt (fl_trunc f) else VFlt f
  | VStr s => VStr s
  | VNone => VStr "None"
  end.

(* ---- reading a text file with logical content  header / records ----------
   int()/float() of a text are CPython's (oracle cls); the cell a MixedColumn
   keeps for a text is its normal form (C05) *)
Definition cls_t : Type := string -> (option Z * option fl).

Definition cls_of (l : list (string * (option Z * option fl))) : cls_t :=
  fun s => match find (fun e => str_eqb (fst e) s) l with Some e => snd e | None => (None, None) end.

Definition text_val (cls : cls_t) (s : string) : val :=
  match nf KMixed (PStr s (fst (cls s)) (snd (cls s))) with Ok v => v | Raise _ => VNone end.

(* a short record lacks cells: they become '' ; cells beyond the header are dropped;
   every record is treated on its own (no shifting) *)
Definition fill (missing : string) (n : nat) (r : list string) : list string :=
  firstn n r ++ repeat missing (n - List.length r).

Definition read_spec (cls : cls_t) (hdr : list string) (recs : list (list string)) : table :=
  (hdr, map (fun r => map (text_val cls) (fill EmptyString (List.length hdr) r)) recs).

Definition read_ok (cls : cls_t) (hdr : list string) (recs : list (list string)) (t' : table) : bool :=
  tables_ok val_same (read_spec cls hdr recs) t'.
