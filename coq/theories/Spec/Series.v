(* L0 specification for C18 (series functions), written from the property text.
   A sample is `option V` (None = NaN); a series column is the list of its rows in the
   row order of the host DataMatrix; selecting / reordering host rows is `take_rows`.
   Nothing here depends on generated code.  Definitions only. *)
From Coq Require Import ZArith QArith List Bool.
Import ListNotations.

(* ---------- rows of a host table ---------------------------------------- *)
Definition take_rows {X} (ps : list nat) (s : list (list X)) : list (list X) :=
  map (fun p => nth p s []) ps.

(* Python slice bounds on a sequence of length n (negative = from the end, clipped) *)
Definition norm_idx (n : nat) (i : Z) : nat :=
  if (i <? 0)%Z then Z.to_nat (Z.max 0 (i + Z.of_nat n)) else Nat.min (Z.to_nat i) n.
Definition norm_opt (n : nat) (d : nat) (i : option Z) : nat :=
  match i with None => d | Some z => norm_idx n z end.
(* l[lo:hi] *)
Definition pyslice {X} (lo hi : option Z) (l : list X) : list X :=
  let n := length l in
  let a := norm_opt n 0 lo in
  let b := norm_opt n n hi in
  firstn (b - a) (skipn a l).

Fixpoint leading {X} (p : X -> bool) (l : list X) : nat :=
  match l with x :: r => if p x then S (leading p r) else 0 | [] => 0 end.

Definition is_some {X} (x : option X) : bool := match x with Some _ => true | None => false end.
(* normalize_time: at least one timestamp in the column (otherwise the depth of the result is undefined) *)
Definition has_time (tss : list (list (option Z))) : bool := existsb (existsb is_some) tss.

Section Structural.
  Variable V : Type.
  Definition sample := option V.
  Definition row := list sample.
  Definition series := list row.
  Definition isnan (x : sample) : bool := match x with None => true | Some _ => false end.
  Definition nans (k : nat) : row := repeat None k.

  (* a function acts row by row when it is the map of a per-row function *)
  Definition rowwise (f : row -> row) (s : series) : series := map f s.

  (* ----- endlock: the k trailing NaNs move to the front, the rest keeps its order *)
  Definition trailing (r : row) : nat := leading isnan (rev r).
  Definition endlock_row (r : row) : row :=
    let k := trailing r in nans k ++ firstn (length r - k) r.
  Definition endlock (s : series) : series := rowwise endlock_row s.

  (* ----- lock: row i is shifted right by max(lock) - lock_i; depth grows by max - min *)
  Definition zmax (l : list Z) : Z := match l with [] => 0%Z | x :: r => fold_left Z.max r x end.
  Definition zmin (l : list Z) : Z := match l with [] => 0%Z | x :: r => fold_left Z.min r x end.
  Definition lock_row (M m : Z) (r : row) (l : Z) : row :=
    nans (Z.to_nat (M - l)) ++ r ++ nans (Z.to_nat (l - m)).
  Definition lock (s : series) (lk : list Z) : series :=
    map (fun rl => lock_row (zmax lk) (zmin lk) (fst rl) (snd rl)) (combine s lk).
  Definition lock_zero_point (lk : list Z) : Z := zmax lk.

  (* ----- threshold: 1 on the maximal runs of hits that are at least min_length long.
     A run is collected while samples hit; when it ends -- by a miss or by the end of the
     row -- its `pending` positions are all marked or all left at 0. *)
  Section Threshold.
    Variables (one zero : V) (hit : sample -> bool) (min_length : Z).
    Definition mark (k : nat) : sample := if (min_length <=? Z.of_nat k)%Z then Some one else Some zero.
    Fixpoint thr_runs (pending : nat) (r : row) : row :=
      match r with
      | [] => repeat (mark pending) pending
      | x :: r' => if hit x then thr_runs (S pending) r'
                   else repeat (mark pending) pending ++ Some zero :: thr_runs 0 r'
      end.
    Definition threshold_row (r : row) : row := thr_runs 0 r.
    Definition threshold (s : series) : series := rowwise threshold_row s.
  End Threshold.

  (* ----- window / col[:, a:b]: a Python slice of the depth axis *)
  Definition window_row (lo : Z) (hi : option Z) (r : row) : row := pyslice (Some lo) hi r.
  Definition window (lo : Z) (hi : option Z) (s : series) : series := rowwise (window_row lo hi) s.

  (* ----- concatenate: row i of the result joins row i of every argument *)
  Definition concatenate (n : nat) (ss : list series) : series :=
    map (fun i => concat (map (fun s => nth i s []) ss)) (seq 0 n).

  (* ----- normalize_time: sample k goes to index time_k (times: integers, NaN only at the end) *)
  Fixpoint at_time (ts : list (option Z)) (vs : row) (j : Z) : sample :=
    match ts, vs with
    | Some t :: ts', v :: vs' => if (t =? j)%Z then v else at_time ts' vs' j
    | _, _ => None
    end.
  Definition normalize_time_row (D : nat) (ts : list (option Z)) (vs : row) : row :=
    map (fun j => at_time ts vs (Z.of_nat j)) (seq 0 D).
  Definition tmax (tss : list (list (option Z))) : Z :=
    fold_left Z.max (flat_map (fun ts => flat_map (fun t => match t with Some z => [z] | None => [] end) ts) tss) 0%Z.
  Definition normalize_time (s : series) (tss : list (list (option Z))) : series :=
    let D := Z.to_nat (tmax tss + 1) in
    map (fun rt => normalize_time_row D (snd rt) (fst rt)) (combine s tss).
  (* the timestamps the property quantifies over *)
  Fixpoint increasing (prev : Z) (ts : list (option Z)) : bool :=
    match ts with
    | [] => true
    | Some t :: r => (prev <? t)%Z && increasing t r
    | None :: r => forallb (fun t => match t with None => true | _ => false end) r
    end.
  Definition times_ok (ts : list (option Z)) : bool := increasing (-1) ts.

  (* ----- the depth property: truncate, or pad with NaN *)
  Definition set_depth_row (d : nat) (r : row) : row := firstn d r ++ nans (d - length r).
  Definition set_depth (d : nat) (s : series) : series := rowwise (set_depth_row d) s.
  (* the same for a column that says what its new cells hold (created with defaultnan=False: 0 instead of NaN) *)
  Definition set_depth_row_pad (pad : sample) (d : nat) (r : row) : row := firstn d r ++ repeat pad (d - length r).
  Definition set_depth_pad (pad : sample) (d : nat) (s : series) : series := rowwise (set_depth_row_pad pad d) s.

  (* ----- reduce: one value per row *)
  Definition reduce (op : row -> sample) (s : series) : list sample := map op s.
End Structural.

Arguments isnan {V}. Arguments nans {V}. Arguments trailing {V}. Arguments endlock_row {V}. Arguments endlock {V}.
Arguments lock_row {V}. Arguments lock {V}. Arguments thr_runs {V}. Arguments threshold_row {V}.
Arguments threshold {V}. Arguments mark {V}. Arguments window_row {V}. Arguments window {V}.
Arguments concatenate {V}. Arguments at_time {V}. Arguments normalize_time_row {V}. Arguments normalize_time {V}.
Arguments set_depth_row {V}. Arguments set_depth {V}. Arguments set_depth_row_pad {V}. Arguments set_depth_pad {V}. Arguments reduce {V}. Arguments rowwise {V}.

(* ---------- arithmetic functions, over exact rationals -------------------- *)
Definition qrow := list (option Q).
Definition valid (r : qrow) : list Q := flat_map (fun x => match x with Some q => [q] | None => [] end) r.
Definition qsum (l : list Q) : Q := fold_right Qplus 0 l.
Definition qlen (l : list Q) : Q := inject_Z (Z.of_nat (length l)).
(* np.nanmean: mean of the valid samples, NaN when there is none *)
Definition nanmean (r : qrow) : option Q :=
  match valid r with [] => None | vs => Some (qsum vs / qlen vs) end.
Fixpoint qinsert (x : Q) (l : list Q) : list Q :=
  match l with [] => [x] | y :: r => if Qle_bool x y then x :: l else y :: qinsert x r end.
Definition qsort (l : list Q) : list Q := fold_right qinsert [] l.
(* np.nanmedian *)
Definition nanmedian (r : qrow) : option Q :=
  let vs := qsort (valid r) in
  let n := length vs in
  match n with
  | O => None
  | _ => if Nat.even n then Some ((nth (n / 2 - 1) vs 0 + nth (n / 2) vs 0) / 2) else Some (nth (n / 2) vs 0)
  end.

(* downsample: NaN-ignoring means of consecutive blocks of `by` samples; depth // by of them *)
Fixpoint blocks {X} (k by_ : nat) (l : list X) : list (list X) :=
  match k with O => [] | S k' => firstn by_ l :: blocks k' by_ (skipn by_ l) end.
Definition downsample_row (by_ : nat) (r : qrow) : qrow := map nanmean (blocks (length r / by_) by_ r).
Definition downsample (by_ : nat) (s : list qrow) : list qrow := rowwise (downsample_row by_) s.

(* interpolate: linear between the nearest valid neighbours, flat beyond the outermost ones *)
Fixpoint next_valid (i : nat) (r : qrow) : option (nat * Q) :=       (* first valid sample, positions counted from i *)
  match r with [] => None | Some q :: _ => Some (i, q) | None :: r' => next_valid (S i) r' end.
Fixpoint prev_valid (i : nat) (acc : option (nat * Q)) (r : qrow) (stop : nat) : option (nat * Q) :=
  match stop, r with
  | S stop', x :: r' => prev_valid (S i) (match x with Some q => Some (i, q) | None => acc end) r' stop'
  | _, _ => acc
  end.
Definition interp_at (r : qrow) (i : nat) : option Q :=
  match nth i r None with
  | Some q => Some q
  | None =>
      match prev_valid 0 None r i, next_valid i (skipn i r) with
      | Some (p, a), Some (q, b) =>
          Some (a + (b - a) * inject_Z (Z.of_nat i - Z.of_nat p) / inject_Z (Z.of_nat q - Z.of_nat p))
      | Some (_, a), None => Some a
      | None, Some (_, b) => Some b
      | None, None => None
      end
  end.
Definition interpolate_row (r : qrow) : qrow := map (interp_at r) (seq 0 (length r)).
Definition interpolate (s : list qrow) : list qrow := rowwise interpolate_row s.

(* baseline: per row, subtract (or divide by) the reduced baseline window *)
Definition lift2 (f : Q -> Q -> Q) (x y : option Q) : option Q :=
  match x, y with Some a, Some b => Some (f a b) | _, _ => None end.
Definition baseline_row (divisive : bool) (red : qrow -> option Q) (lo : Z) (hi : option Z) (r bl : qrow) : qrow :=
  let b := red (pyslice (Some lo) hi bl) in
  map (fun x => lift2 (if divisive then Qdiv else Qminus) x b) r.
Definition baseline (divisive : bool) (red : qrow -> option Q) (lo : Z) (hi : option Z)
           (s bl : list qrow) : list qrow :=
  map (fun p => baseline_row divisive red lo hi (fst p) (snd p)) (combine s bl).

(* z: (x - mean) / sd per row, where sd is the population standard deviation of the valid samples
   (np.nanstd); sd enters as a witness because square roots are not rational in general *)
Definition nanvar (r : qrow) : option Q :=
  match nanmean r with
  | Some m => nanmean (map (fun x => match x with Some q => Some ((q - m) * (q - m)) | None => None end) r)
  | None => None
  end.
Definition z_row (sd : Q) (r : qrow) : qrow :=
  map (fun x => lift2 (fun a m => (a - m) / sd) x (nanmean r)) r.
(* sd is the (non-zero) standard deviation of the valid samples of r *)
Definition is_std (sd : Q) (r : qrow) : bool :=
  match nanvar r with
  | Some v => Qeq_bool (sd * sd) v && Qle_bool 0 sd && negb (Qeq_bool sd 0)
  | None => false
  end.

(* equality of observations up to equality of rationals (1/2 == 2/4) *)
Definition sample_equiv (a b : option Q) : Prop :=
  match a, b with Some x, Some y => x == y | None, None => True | _, _ => False end.
Definition row_equiv (a b : qrow) : Prop := Forall2 sample_equiv a b.
Definition rows_equiv (a b : list qrow) : Prop := Forall2 row_equiv a b.
