(* C13: a second instance of the scalar arithmetic parameter `num_op` of Spec/Arith.v, next to exact_op:
   Python's numeric semantics with IEEE-754 binary64 rounding (Base/Float64Py.v).

     int  o int    exact big-integer arithmetic (exact_op); int / int is the exact quotient rounded once
                   (CPython long_true_divide);
     int  o float  the int is converted first, round to nearest even (float(int));
     float o float + - * /  correctly rounded; // and % by CPython's float_divmod (= NumPy's npy_divmod);
     **            left to the exact instance (libm pow is not correctly rounded).

   Written for any implementation F of the four basic operations; ieee_op is the instance on Coq's primitive
   floats, ieee_op_spec the one on the standard library's pure specification of binary64.
   No proofs here (Proofs/ArithIeeeFacts.v). *)
From Coq Require Import ZArith List Bool String.
From DM Require Import Base.PyVal Base.Float64Py Spec.Nf Spec.Arith.
Import ListNotations.
Open Scope Z_scope.

Definition fop_of (op : binop) : option fop :=
  match op with
  | OAdd => Some FAdd | OSub => Some FSub | OMul => Some FMul | OTruediv => Some FDiv
  | OFloordiv => Some FFloordiv | OMod => Some FMod | OPow => None
  end.

(* float(n) *)
Definition num_to_fl (n : num) : fl := match n with NInt z => fl_of_Z z | NFlt f => f end.

Section Ieee.
  Variable F : fops.

  Definition ieee_op_gen (op : binop) (a b : num) : num :=
    match fop_of op with
    | None => exact_op op a b
    | Some o =>
        match a, b with
        | NInt x, NInt y =>
            match op with
            | OTruediv => NFlt (if y =? 0 then FNan else fl_div_ZZ x y)
            | _ => exact_op op a b
            end
        | _, _ => NFlt (fl_op F o (num_to_fl a) (num_to_fl b))
        end
    end.
End Ieee.

Definition ieee_op : binop -> num -> num -> num := ieee_op_gen prim_fops.
Definition ieee_op_spec : binop -> num -> num -> num := ieee_op_gen spec_fops.

(* ---------- which rows are judged under this instance *)
(* the number is (or converts to) a binary64 value *)
Definition num_is_b64 (n : num) : bool := match n with NInt z => negb (Z_overflows z) | NFlt f => fl_is_b64 f end.
Definition num_is_zero (n : num) : bool := match n with NInt z => z =? 0 | NFlt f => fl_is_zero f end.

(* a o b is computed by ieee_op as Python computes it, without an exception:
   ** as far as the exact instance goes; int o int whenever exact_op computes it (/: non-zero divisor and a
   quotient within the float range); otherwise both operands within the float range and a non-zero divisor *)
Definition ieee_defined (op : binop) (a b : num) : bool :=
  match op with
  | OPow => op_defined op a b
  | _ =>
      match a, b with
      | NInt x, NInt y =>
          match op with
          | OTruediv => negb (y =? 0) && negb (fl_is_inf (fl_div_ZZ x y))
          | _ => match exact_op_opt op a b with Some _ => true | None => false end
          end
      | _, _ => num_is_b64 a && num_is_b64 b && negb (is_div_op op && num_is_zero b)
      end
  end.
(* a zero divisor: outside the property's quantifier.  Python raises ZeroDivisionError: judged in the L1
   correspondence for MixedColumn, whose _operate applies Python's operator cell by cell.  What a Float- or
   IntColumn yields depends on the route (NumPy float64: inf / nan; int64: 0; an operand list holding an int
   beyond int64 makes NumPy fall back to Python objects, which raise): not judged. *)
Definition ieee_zerodiv (op : binop) (a b : num) : bool :=
  is_div_op op && num_is_zero b && num_is_b64 a && num_is_b64 b.

Definition int64_ok (n : num) : bool := match n with NInt z => Z.abs z <? 2 ^ 62 | NFlt _ => true end.
Definition int_f64_exact (n : num) : bool := match n with NInt z => Z.abs z <=? 2 ^ 53 | NFlt _ => true end.

Definition cell_defined_ieee (t : list (fl * string)) (k : kind) (op : binop) (refl : bool) (c x : val) : bool :=
  match k with
  | KMixed =>
      let '(a, b) := ordered refl c x in
      match val_num a, val_num b with
      | Some p, Some q => ieee_defined op p q
      | _, _ => match op with OAdd => text_known t a && text_known t b | _ => true end
      end
  | KFloat =>
      let '(a, b) := ordered refl (f64_view c) (f64_view x) in ieee_defined op a b
  | KInt =>
      let '(a, b) := ordered refl (i64_view c) (i64_view x) in
      let op' := int_op op refl in
      ieee_defined op' a b && int64_ok a && int64_ok b && int64_ok (ieee_op_spec op' a b)    (* two ints: no float operation *)
      && negb (match op with OPow => num_int b <? 0 | _ => false end)
      (* x / IntColumn: NumPy divides the float64 views; equal to the rounded exact quotient while both are exact *)
      && match op' with OTruediv => int_f64_exact a && int_f64_exact b | _ => true end
  end.
Definition defined_mask_ieee (t : list (fl * string)) (op : binop) (refl : bool) (c : column) (o : operand) : list bool :=
  match spec_operand (ckind c) o (List.length (ccells c)) with
  | Ok xs => map2 (cell_defined_ieee t (ckind c) op refl) (ccells c) xs
  | Raise _ => []
  end.

(* MixedColumn rows on which Python's scalar operation raises ZeroDivisionError *)
Definition cell_zerodiv_mixed (op : binop) (refl : bool) (c x : val) : bool :=
  let '(a, b) := ordered refl c x in
  match val_num a, val_num b with
  | Some p, Some q => ieee_zerodiv op p q
  | _, _ => false
  end.
Definition zerodiv_mask (op : binop) (refl : bool) (c : column) (o : operand) : list bool :=
  match ckind c, spec_operand (ckind c) o (List.length (ccells c)) with
  | KMixed, Ok xs => map2 (cell_zerodiv_mixed op refl) (ccells c) xs
  | _, _ => []
  end.

(* ---------- a grid of numbers on which rounding is visible (0.1, 0.2, 0.3, 1/3, 2^53 +- 1 as int and float,
   10^16 + 1, subnormals, the largest double, infinities, NaN, signed zeros), used to TEST (vm_compute in
   Proofs/ArithIeeeFacts.v) that the instances agree: exact_op vs ieee_op_gen F wherever exact_op yields a
   binary64 value, and the primitive-float instance vs the SpecFloat instance bit for bit. *)
Definition num_eqv (a b : num) : bool :=
  match a, b with NInt x, NInt y => Z.eqb x y | NFlt f, NFlt g => fl_eqv f g | _, _ => false end.
Definition num_same (a b : num) : bool :=
  match a, b with NInt x, NInt y => Z.eqb x y | NFlt f, NFlt g => fl_same f g | _, _ => false end.
(* ** is left to the exact instance by definition (ieee_op_gen F OPow = exact_op OPow) *)
Definition all_ops : list binop := [OAdd; OSub; OMul; OTruediv; OFloordiv; OMod].
Definition grid_ints : list Z :=
  [0; 1; -1; 2; 3; -3; 7; 10; -12; 9007199254740991; 9007199254740992; 9007199254740993; -9007199254740993;
   10000000000000001; 4611686018427387903].
Definition grid_floats : list fl :=
  [FZero false; FZero true; FFin false 1 (-1); FFin true 1 (-1); FFin false 1 0; FFin true 1 0; FFin false 3 (-1);
   FFin true 5 (-1); FFin false 3 0; FFin true 7 0; FFin false 3 (-2); FFin false 3 1; FFin false 1 2;
   FFin false 3602879701896397 (-55);              (* 0.1 *)
   FFin false 3602879701896397 (-54);              (* 0.2 *)
   FFin false 5404319552844595 (-54);              (* 0.3 *)
   FFin true 5404319552844595 (-54);
   FFin false 6004799503160661 (-54);              (* 1/3 *)
   FFin false 5854679515581645 (-49);              (* 10.4 *)
   FFin false 1 53; FFin false 4503599627370497 1; (* 2^53, 2^53 + 2 *)
   FFin false 9007199254740991 0;                  (* 2^53 - 1 *)
   FFin false 152587890625 16;                     (* 1e16 *)
   FFin false 1 (-1074); FFin true 1 (-1074); FFin false 3 (-1074); FFin false 1 (-1022);
   FFin false 4503599627370495 (-1074);            (* the largest subnormal *)
   FFin false 9007199254740991 971;                (* the largest double *)
   FFin false 156575653125701 976;                 (* 1e308 *)
   FFin true 156575653125701 976;
   FFin false 5 (-17); FFin false 8512625186068089 20;   (* tiny dyadic, a 53-bit integer times 2^20 *)
   FInf false; FInf true; FNan].
Definition grid : list num := map NInt grid_ints ++ map NFlt grid_floats.

Definition on_grid (p : binop -> num -> num -> bool) : bool :=
  forallb (fun op => forallb (fun a => forallb (fun b => p op a b) grid) grid) all_ops.
Definition count_grid (p : binop -> num -> num -> bool) : nat :=
  List.length (filter (fun x => x) (flat_map (fun op => flat_map (fun a => map (fun b => p op a b) grid) grid) all_ops)).
(* where exact_op yields a binary64 value (op_defined), the IEEE instance yields the same value *)
Definition consistent_at (F : fops) (op : binop) (a b : num) : bool :=
  negb (op_defined op a b) || (ieee_defined op a b && num_eqv (exact_op op a b) (ieee_op_gen F op a b)).
Definition same_at (F G : fops) (op : binop) (a b : num) : bool :=
  num_same (ieee_op_gen F op a b) (ieee_op_gen G op a b).
