(* L0 for the key of C20 (fnc.memoize): the argument alphabet of the property and the
   relation "the same argument list" the property quantifies over.  Written from the
   property text; depends on nothing generated; contains no proofs.

   The alphabet: JSON-representable scalars (int, float, bool, str, None), lists and
   tuples, dicts with string keys, DataMatrix values, callables; an argument list is a
   positional list plus a keyword map.
   - A DataMatrix value is abstracted by one text that identifies its content (row ids,
     column names in order, column types, cells).  The implementation uses the text of
     convert.to_json; that this text determines the table is C17's theorem
     (C17_json_injective), not repeated here.
   - A callable is identified by its name ("callables ... are keyed by name"); callables
     without a name are all alike (the quantifier concedes it).

   The relation (arg_eqvb / call_eqvb):
   - a tuple and a list of pairwise equivalent content are the SAME argument;
   - the order in which keywords or dict items are written is irrelevant: two dicts are
     the same when they have the same number of keys and every key of the first maps to
     an equivalent value in the second (keys of a Python dict are distinct: arg_wfb);
   - everything else is distinguished, in particular 1, 1.0, True and '1' (which Python's
     == would partly identify), 0.0 and -0.0, a list and a dict, a string and a callable
     of that name. *)
From Coq Require Import ZArith List Bool String Ascii.
From DM Require Import Base.PyVal.
Import ListNotations.
Open Scope Z_scope.

Inductive arg :=
| AInt (z : Z)
| AFloat (f : fl)
| ABool (b : bool)
| AStr (s : string)
| ANone
| AList (l : list arg)
| ATuple (l : list arg)
| ADict (d : list (string * arg))      (* items in insertion order *)
| ADM (content : string)
| AFun (name : option string).

(* f( *args, **kwargs ): positional arguments and keywords in the order written *)
Record call := { c_args : list arg; c_kwargs : list (string * arg) }.

Fixpoint alookup {X} (k : string) (d : list (string * X)) : option X :=
  match d with
  | [] => None
  | (k', v) :: r => if String.eqb k k' then Some v else alookup k r
  end.

Definition ostr_eqb (a b : option string) : bool :=
  match a, b with
  | Some x, Some y => String.eqb x y
  | None, None => true
  | _, _ => false
  end.

Fixpoint arg_eqvb (a b : arg) {struct a} : bool :=
  match a with
  | AInt x => match b with AInt y => Z.eqb x y | _ => false end
  | AFloat x => match b with AFloat y => fl_same x y | _ => false end
  | ABool x => match b with ABool y => Bool.eqb x y | _ => false end
  | AStr x => match b with AStr y => String.eqb x y | _ => false end
  | ANone => match b with ANone => true | _ => false end
  | AList l | ATuple l =>
      match b with
      | AList l' | ATuple l' =>
          (fix go (l l' : list arg) : bool :=
             match l, l' with
             | [], [] => true
             | x :: r, y :: r' => arg_eqvb x y && go r r'
             | _, _ => false
             end) l l'
      | _ => false
      end
  | ADict d =>
      match b with
      | ADict d' =>
          Nat.eqb (List.length d) (List.length d')
          && (fix go (d : list (string * arg)) : bool :=
                match d with
                | [] => true
                | (k, v) :: r =>
                    match alookup k d' with Some v' => arg_eqvb v v' | None => false end && go r
                end) d
      | _ => false
      end
  | ADM x => match b with ADM y => String.eqb x y | _ => false end
  | AFun x => match b with AFun y => ostr_eqb x y | _ => false end
  end.

(* the same argument list: positional arguments pairwise, keywords as a map *)
Definition call_eqvb (c c' : call) : bool :=
  arg_eqvb (ATuple (c_args c)) (ATuple (c_args c')) && arg_eqvb (ADict (c_kwargs c)) (ADict (c_kwargs c')).

(* a term represents a Python value: the keys of every dict (and the keywords) are distinct *)
Fixpoint keys_distinct {X} (d : list (string * X)) : bool :=
  match d with
  | [] => true
  | (k, _) :: r => match alookup k r with Some _ => false | None => keys_distinct r end
  end.

Fixpoint arg_wfb (a : arg) : bool :=
  match a with
  | AList l | ATuple l => forallb arg_wfb l
  | ADict d => keys_distinct d && forallb (fun kv => arg_wfb (snd kv)) d
  | _ => true
  end.
Definition call_wfb (c : call) : bool := arg_wfb (ATuple (c_args c)) && arg_wfb (ADict (c_kwargs c)).
