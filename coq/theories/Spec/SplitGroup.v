(* L0 for C14: what ops.split and ops.group promise, written from the property
   text.  A source table is read column-wise (`cols`, the type of Table.view);
   a part / a group is a list of row POSITIONS of the source, in source order;
   the part's table is `take_cols positions source`.  Hand-written, depends on
   nothing generated.  Definitions only (laws: Proofs/SplitGroupFacts.v). *)
From Coq Require Import ZArith List Bool String DecimalString Decimal.
From DM Require Import Base.PyVal Spec.Nf Spec.Table.
Import ListNotations.

(* ---------- "the cell equals the value": Python ==, and NaN counts as equal to NaN *)
Definition is_nan (v : val) : bool := match v with VFlt FNan => true | _ => false end.
Definition key_eq (a b : val) : bool := py_cmp CEq a b || (is_nan a && is_nan b).
Fixpoint keys_eq (a b : list val) : bool :=
  match a, b with
  | [], [] => true
  | x :: a', y :: b' => key_eq x y && keys_eq a' b'
  | _, _ => false
  end.

(* ---------- generic: distinct keys by first occurrence, rows carrying a key *)
Section Generic.
  Context {K : Type}.
  Variable eqv : K -> K -> bool.
  Fixpoint distinct (l : list K) : list K :=
    match l with
    | [] => []
    | x :: r => x :: filter (fun y => negb (eqv y x)) (distinct r)
    end.
  Fixpoint insert_by (le : K -> K -> bool) (x : K) (l : list K) : list K :=
    match l with
    | [] => [x]
    | y :: r => if le x y then x :: l else y :: insert_by le x r
    end.
  Definition isort (le : K -> K -> bool) (l : list K) : list K := fold_right (insert_by le) [] l.
  (* the rows among ps whose key (given by position) equals k, in the order of ps *)
  Definition rows_with (key : nat -> K) (k : K) (ps : list nat) : list nat :=
    filter (fun p => eqv (key p) k) ps.
End Generic.

(* ---------- tables read column-wise *)
Definition cols := list (string * kind * list val).
Definition cell (cs : list val) (p : nat) : val := nth p cs VNone.
Definition take_cells (ps : list nat) (cs : list val) : list val := map (cell cs) ps.
Definition take_cols (ps : list nat) (v : cols) : cols :=
  map (fun '(n, k, cs) => (n, k, take_cells ps cs)) v.
Fixpoint col_cells (n : string) (v : cols) : option (list val) :=
  match v with
  | [] => None
  | (m, _, cs) :: r => if String.eqb n m then Some cs else col_cells n r
  end.
Definition nrows_of (v : cols) : nat := match v with [] => O | (_, _, cs) :: _ => List.length cs end.

(* ---------- the order of `unique`: sorted; numbers by value (NaN last), text by code point;
   a column that mixes numbers, text and None is ordered by the text of its values *)
Definition is_num (v : val) : bool := match val_num v with Some _ => true | None => false end.
Definition is_str (v : val) : bool := match v with VStr _ => true | _ => false end.
Definition num_le (a b : val) : bool :=
  is_nan b || match val_num a, val_num b with Some x, Some y => num_leb x y | _, _ => false end.
Definition dec_of_Z (z : Z) : string := NilZero.string_of_int (Z.to_int z).
Definition text_key (v : val) : option string :=
  match v with
  | VInt z => Some (dec_of_Z z)
  | VStr s => Some s
  | VNone => Some "None"%string
  | VFlt _ => None          (* repr of a float is not modelled: such a pair is left unordered *)
  end.
Definition text_le (a b : val) : bool :=
  match text_key a, text_key b with Some x, Some y => str_leb x y | _, _ => true end.
Definition str_le (a b : val) : bool :=
  match a, b with VStr s, VStr t => str_leb s t | _, _ => true end.
Definition unique_le (l : list val) : val -> val -> bool :=
  if forallb is_num l then num_le else if forallb is_str l then str_le else text_le.
Definition unique (cells : list val) : list val :=
  let d := distinct key_eq cells in isort (unique_le d) d.

(* ---------- split *)
(* split(col): one (value, positions) pair per distinct value, in `unique` order *)
Definition split1 (cells : list val) (ps : list nat) : list (val * list nat) :=
  map (fun v => (v, rows_with key_eq (cell cells) v ps)) (unique (take_cells ps cells)).
(* split(col1, col2, ...): recursion on the column list, inside every part of the first column *)
Fixpoint splitm (kcols : list (list val)) (ps : list nat) : list (list val * list nat) :=
  match kcols with
  | [] => [([], ps)]
  | c :: r =>
      flat_map (fun v => map (fun '(vs, qs) => (v :: vs, qs)) (splitm r (rows_with key_eq (cell c) v ps)))
               (unique (take_cells ps c))
  end.
(* split(col, v1, v2, ...): the parts for the given values, in the given order *)
Definition splitv (cells : list val) (vs : list val) (ps : list nat) : list (list nat) :=
  map (fun v => rows_with key_eq (cell cells) v ps) vs.

(* ---------- group *)
Definition row_key (bycols : list (list val)) (p : nat) : list val := map (fun c => cell c p) bycols.
(* one (combination, positions) pair per distinct combination of by-values, by first occurrence *)
Definition groups (bycols : list (list val)) (ps : list nat) : list (list val * list nat) :=
  map (fun k => (k, rows_with keys_eq (row_key bycols) k ps))
      (distinct keys_eq (map (row_key bycols) ps)).
(* the float a series cell holds for a numeric source cell *)
Definition to_fl (v : val) : fl :=
  match v with VInt z => round53 z | VFlt f => f | _ => FNan end.
Definition max_len {A} (l : list (list A)) : nat := fold_right (fun x m => Nat.max (List.length x) m) O l.
Definition pad_row (depth : nat) (xs : list fl) : list fl := xs ++ repeat FNan (depth - List.length xs).
Definition series_of (cells : list val) (gs : list (list nat)) : list (list fl) :=
  map (fun ps => pad_row (max_len gs) (map to_fl (take_cells ps cells))) gs.
Definition by_cells (j : nat) (combos : list (list val)) : list val := map (fun k => nth j k VNone) combos.

Record gtable := { g_n : nat;
                   g_by : list (string * kind * list val);          (* by-columns: the combination *)
                   g_series : list (string * nat * list (list fl)) }.  (* other columns: depth, rows *)

Fixpoint index_of_name (n : string) (l : list string) (i : nat) : option nat :=
  match l with [] => None | m :: r => if String.eqb n m then Some i else index_of_name n r (S i) end.

Definition group (src : cols) (bynames : list string) : option gtable :=
  match all_some (map (fun n => col_cells n src) bynames) with
  | None => None
  | Some bycols =>
      let gs := groups bycols (seq 0 (nrows_of src)) in
      let combos := map fst gs in
      let parts := map snd gs in
      Some {| g_n := List.length gs;
              g_by := flat_map (fun '(n, k, _) => match index_of_name n bynames 0 with
                                                  | Some j => [(n, k, by_cells j combos)]
                                                  | None => [] end) src;
              g_series := flat_map (fun '(n, _, cs) => match index_of_name n bynames 0 with
                                                       | Some _ => []
                                                       | None => [(n, max_len parts, series_of cs parts)] end) src |}
  end.
