(* C09 -- a << b stacks rows and unions columns.  Statements only. *)
From Coq Require Import ZArith NArith List Bool String.
From DM Require Import Base.PyVal Spec.Nf Spec.Table Spec.Ops Proofs.TableFacts Proofs.OpFacts.
From DM Require Import Spec.SeriesEnc Proofs.SeriesEncFacts.
From DM Require Import Model.LTable Gen.KCore Model.Core Proofs.CoreRefine Proofs.ConcatRefine.
Import ListNotations.
Open Scope string_scope.

Theorem C09_rows : forall a b nf t,
  concat_tables a b nf = Ok t ->
  nrows t = (nrows a + nrows b)%nat /\ ids t = iotaN 0 (nrows a + nrows b) /\ fam t = nf.
Proof. exact concat_rows. Qed.
Print Assumptions C09_rows.

(* the result is a well-formed, self-contained table (so every theorem that assumes only the invariant --
   selection, merging, resizing, assignment -- applies to it as to a freshly built one) *)
Theorem C09_result_wellformed : forall a b nf t, twf a -> twf b -> concat_tables a b nf = Ok t -> twf t.
Proof. exact concat_wf. Qed.
Print Assumptions C09_result_wellformed.

(* the columns: a's columns first (a's cells, then b's cells or the column type's empty value), then the columns
   only b has (empty values for a's rows, then b's cells) *)
Theorem C09_columns : forall a b nf t,
  concat_tables a b nf = Ok t ->
  let find (n : string) (v : list (string * kind * list val)) := lookup n (map (fun '(m, k, c) => (m, (k, c))) v) in
  view t =
    (map (fun '(n, k, c) => (n, k, (c ++ match find n (view b) with
                                        | Some (_, c2) => c2
                                        | None => repeat (default_cell k) (nrows b) end)%list)) (view a)
     ++ flat_map (fun '(n, k, c) => match find n (view a) with
                                    | Some _ => []
                                    | None => [(n, k, (repeat (default_cell k) (nrows a) ++ c)%list)] end) (view b))%list.
Proof. exact concat_view. Qed.
Print Assumptions C09_columns.

Theorem C09_operands_unchanged : forall w a b j,
  (j < List.length (pool w))%nat -> get (fst (step w (OConcat a b))) j = get w j.
Proof. intros w a b j H. apply step_frame; [exact H|discriminate]. Qed.
Print Assumptions C09_operands_unchanged.

Example C09_example :
  let w := run [ONew 2; OSetCol 0 "x" (RSeq [PInt 1; PInt 2]); OSetColKind 0 "f" KFloat;
                ONew 1; OSetCol 1 "y" (RScalar (PStr "q" None None)); OSetCol 1 "x" (RScalar (PInt 5)); OConcat 0 1] w0 in
  match get w 2 with
  | Some t => view t = [("x", KMixed, [VInt 1; VInt 2; VInt 5]); ("f", KFloat, [VFlt FNan; VFlt FNan; VFlt FNan]);
                        ("y", KMixed, [VStr ""; VStr ""; VStr "q"])] /\ ids t = [0; 1; 2]%N /\ fam t = 2%nat
  | None => False end.
Proof. vm_compute. repeat split. Qed.
Example C09_type_mismatch :
  snd (step (run [ONew 1; OSetColKind 0 "x" KFloat; ONew 1; OSetColKind 1 "x" KInt] w0) (OConcat 0 1)) = Err TypeError.
Proof. vm_compute. reflexivity. Qed.

(* DataMatrix.__lshift__ as the code does it -- a new table of k_concat_len rows; every column created with default cells
   and filled through the slices [:k_concat_left_stop] and [k_concat_right_start:], a same-named column of another type
   refused (result length and slice bounds regenerated from the source, loop skeleton pinned) -- computes the L0
   concatenation for every pair of tables satisfying the representation invariant *)
Theorem C09_l1_concat_refines : forall a b nf,
  inv_b a = true -> inv_b b = true ->
  match concat_l a b nf with
  | Ok r => concat_tables (abs a) (abs b) nf = Ok (abs r)
  | Raise e => concat_tables (abs a) (abs b) nf = Raise e
  end.
Proof. exact concat_refines. Qed.
Print Assumptions C09_l1_concat_refines.

(* Series columns of different depth (Spec/SeriesEnc.v): the union of the pseudo-columns with NaN defaults IS the
   padding with NaN to the larger depth; the operands keep their depths (frame) *)
Example C09_series_depth_padding :
  match nth_error (pool (srun [SPlain (ONew 1); SNew 0 "s" 1 0; SSet 0 "s" 1 (AInt 0) (SVScalar (PInt 1));
                               SPlain (ONew 2); SNew 1 "s" 3 0; SSet 1 "s" 3 (ASlice None None) (SVSeries [PInt 2; PInt 3; PInt 4]);
                               SPlain (OConcat 0 1)] w0)) 2 with
  | Some t => map (fun '(n, _, c) => (n, c)) (view t) =
              [("s#0", [VFlt (FFin false 1 0); VFlt (FFin false 1 1); VFlt (FFin false 1 1)]);
               ("s#1", [VFlt FNan; VFlt (FFin false 3 0); VFlt (FFin false 3 0)]);
               ("s#2", [VFlt FNan; VFlt (FFin false 1 2); VFlt (FFin false 1 2)])]
  | None => False
  end.
Proof. vm_compute. reflexivity. Qed.

(* a << Row and a << dict as composite operations (Spec/SeriesEnc.v): the row's one-row table / the table _fromdict
   builds (every value a MixedColumn, shorter values padded with '') becomes a pool member, then the concatenation *)
Example C09_row_and_dict_operands :
  let w := srun [SPlain (ONew 2); SPlain (OSetCol 0 "a" (RSeq [PInt 1; PInt 2]));
                 SPlain (ONew 2); SPlain (OSetCol 1 "a" (RSeq [PInt 7; PInt 8]));
                 SConcatRow 0 1 1%Z;
                 SConcatDict 0 2 [("a", [PStr "9" (Some 9%Z) (Some (FFin false 9 0)); PInt 10]); ("b", [PStr "x" None None])]] w0 in
  map (fun t => map (fun '(n, _, c) => (n, c)) (view t)) (pool w)
  = [[("a", [VInt 1; VInt 2])]; [("a", [VInt 7; VInt 8])];
     [("a", [VInt 8])]; [("a", [VInt 1; VInt 2; VInt 8])];
     [("a", [VInt 9; VInt 10]); ("b", [VStr "x"; VStr ""])];
     [("a", [VInt 1; VInt 2; VInt 9; VInt 10]); ("b", [VStr ""; VStr ""; VStr "x"; VStr ""])]].
Proof. vm_compute. reflexivity. Qed.
