(* C08 -- deleting and renaming affect only what was named.  Statements only. *)
From Coq Require Import ZArith NArith List Bool String.
From DM Require Import Base.PyVal Spec.Nf Spec.Table Spec.Ops Proofs.TableFacts Proofs.TakeFacts Proofs.OpFacts.
From DM Require Import Model.LTable Gen.KCore Model.Core Proofs.CoreRefine Proofs.WriteRefine.
Import ListNotations.

(* del dm[i, j, ...]: exactly the other rows remain, in their order, with all cells *)
Theorem C08_delrows : forall w ti t l dead,
  wwf w -> get w ti = Some t -> all_some (map (norm_index (nrows t)) l) = Some dead ->
  let keep := filter (fun p => negb (mem_nat p dead)) (seq 0 (nrows t)) in
  exists t', get (fst (step w (ODelRows ti l))) ti = Some t' /\ snd (step w (ODelRows ti l)) = OkUnit
    /\ take_pos keep (ids t) = Some (ids t') /\ Forall2 (same_rows keep) (view t) (view t').
Proof. exact delrows_rows. Qed.
Print Assumptions C08_delrows.

(* rename changes only the name: same slot (cells), same position in creation order *)
Theorem C08_rename_ok : forall w ti t old new,
  get w ti = Some t -> old <> new -> has_name t old = true -> has_name t new = false ->
  step w (ORename ti old new true) =
    (put w ti {| fam := fam t; ids := ids t;
                 names := map (fun '(n, i) => if String.eqb n old then (new, i) else (n, i)) (names t);
                 slots := slots t; tsorted := tsorted t; dflt := dflt t |}, OkUnit).
Proof. exact rename_ok. Qed.
Print Assumptions C08_rename_ok.

(* a failing rename raises ValueError and changes nothing *)
Theorem C08_rename_error_changes_nothing : forall w ti old new ident e,
  snd (step w (ORename ti old new ident)) = Err e -> fst (step w (ORename ti old new ident)) = w /\ e = ValueError.
Proof. exact rename_err_unchanged. Qed.
Print Assumptions C08_rename_error_changes_nothing.

Theorem C08_delcol_error_changes_nothing : forall w ti name e,
  snd (step w (ODelCol ti name)) = Err e -> fst (step w (ODelCol ti name)) = w /\ e = ValueError.
Proof. exact delcol_err_unchanged. Qed.
Print Assumptions C08_delcol_error_changes_nothing.

(* the implementation's row deletion (ids of the remaining rows, then _selectrowid by id) is the positional deletion *)
Theorem C08_l1_delrows_refines : forall t dead r,
  inv_b t = true -> delrows t dead = Some r ->
  exists t', take (filter (fun p => negb (mem_nat p dead)) (seq 0 (nrows_l t))) (abs t) = Some t'
             /\ abs r = {| fam := fam (abs t); ids := ids t'; names := names t'; slots := slots t';
                           tsorted := tsorted (abs t); dflt := dflt (abs t) |}.
Proof. exact delrows_refines. Qed.
Print Assumptions C08_l1_delrows_refines.

(* DataMatrix.rename: the guard chain regenerated from the source (old == new: nothing; old missing, new present or
   not an identifier: ValueError, nothing changed; otherwise the order-preserving recipe) is the L0 rename *)
Theorem C08_l1_rename_refines : forall (w : world) p ti old new ident,
  pool w = map abs p ->
  match lstep p (ORename ti old new ident) with
  | LUpd i r => step w (ORename ti old new ident) = (put w i (abs r), OkUnit)
  | LErr => snd (step w (ORename ti old new ident)) = Err ValueError /\ fst (step w (ORename ti old new ident)) = w
  | LSkip => nth_error p ti = None
  | _ => False
  end.
Proof. exact rename_refines. Qed.
Print Assumptions C08_l1_rename_refines.

(* del dm[name], dm.sorted = b and dm[name] = <column type> as the L1 steps: exactly the L0 operations *)
Theorem C08_l1_delcol_refines : forall (w : world) p ti name,
  pool w = map abs p ->
  match lstep p (ODelCol ti name) with
  | LUpd i t' => step w (ODelCol ti name) = (put w i (abs t'), OkUnit)
  | LErr => step w (ODelCol ti name) = (w, Err ValueError)
  | LSkip => True
  | _ => False
  end.
Proof. exact delcol_refines. Qed.
Print Assumptions C08_l1_delcol_refines.

Theorem C08_l1_setsorted_refines : forall (w : world) p ti b,
  pool w = map abs p ->
  match lstep p (OSetSorted ti b) with
  | LUpd i t' => step w (OSetSorted ti b) = (put w i (abs t'), OkUnit)
  | LSkip => True
  | _ => False
  end.
Proof. exact setsorted_refines. Qed.
Print Assumptions C08_l1_setsorted_refines.

Theorem C08_l1_new_column_refines : forall (w : world) p ti name k,
  pool w = map abs p ->
  match lstep p (OSetColKind ti name k) with
  | LUpd i t' => step w (OSetColKind ti name k) = (put w i (abs t'), OkUnit)
  | LSkip => True
  | _ => False
  end.
Proof. exact setcolkind_refines. Qed.
Print Assumptions C08_l1_new_column_refines.

Theorem C08_keeps_invariant : forall w o, wwf w -> wwf (fst (step w o)).
Proof. exact step_wf. Qed.
Print Assumptions C08_keeps_invariant.

Example C08_names_listing :
  match get (run [ONew 1; OSetCol 0 "b" (RScalar (PInt 1)); OSetCol 0 "a" (RScalar (PInt 2)); OSetSorted 0 false] w0) 0,
        get (run [ONew 1; OSetCol 0 "b" (RScalar (PInt 1)); OSetCol 0 "a" (RScalar (PInt 2))] w0) 0 with
  | Some u, Some s => column_names u = ["b"; "a"]%string /\ column_names s = ["a"; "b"]%string
  | _, _ => False end.
Proof. vm_compute. split; reflexivity. Qed.
