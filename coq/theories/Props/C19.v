(* C19 (curry part): statements only; proofs live in Proofs/CurryFacts.v *)
From Coq Require Import ZArith List.
From DM Require Import Gen.KCurry Model.Curry Proofs.CurryFacts.
Import ListNotations.

Theorem C19_curry_any_grouping :
  forall (A R : Type) (f : list A -> R) (n : nat) (chunks : list (list A)),
    Forall (fun l => l <> []) chunks -> length (concat chunks) = n -> (0 < n)%nat ->
    run A R f (curry A n) chunks = Val (f (concat chunks)).
Proof. exact curry_any_grouping. Qed.
Print Assumptions C19_curry_any_grouping.

Theorem C19_curry_prefix_reusable :
  forall (A R : Type) (f : list A -> R) (n : nat) (pre : list (list A)),
    Forall (fun l => l <> []) pre -> (length (concat pre) < n)%nat ->
    exists c, run A R f (curry A n) pre = Fn c /\
      forall cont, cont <> [] -> Forall (fun l => l <> []) cont ->
        (length (concat pre) + length (concat cont) = n)%nat ->
        run A R f c cont = Val (f (concat pre ++ concat cont)).
Proof. exact curry_prefix_reusable. Qed.
Print Assumptions C19_curry_prefix_reusable.

Theorem C19_curry_no_early_call :
  forall (A R : Type) (f : list A -> R) (n : nat) (pre : list (list A)),
    Forall (fun l => l <> []) pre -> (length (concat pre) < n)%nat ->
    forall r, run A R f (curry A n) pre <> Val r.
Proof. exact curry_no_early_call. Qed.
Print Assumptions C19_curry_no_early_call.

(* non-vacuity: a concrete arity-3 grouping *)
Example C19_example :
  run nat (list nat) (fun l => l) (curry nat 3) [[1;2];[3]]%nat = Val [1;2;3]%nat.
Proof. vm_compute. reflexivity. Qed.
