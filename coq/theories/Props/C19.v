(* C19: curry, map_, filter_, setcol -- statements only; proofs live in Proofs/CurryFacts.v and
   Proofs/FunctionalFacts.v *)
From Coq Require Import ZArith NArith List Bool String Sorted.
From DM Require Import Base.PyVal Spec.Nf Spec.Table Spec.Functional Gen.KCurry Gen.KFunctional
                       Model.Curry Model.Functional Proofs.CurryFacts Proofs.FunctionalFacts.
Import ListNotations.

(* ---------------------------------------------------------------- curry *)
Theorem C19_curry_any_grouping :
  forall (A R : Type) (f : list A -> R) (n : nat) (chunks : list (list A)),
    Forall (fun l => l <> []) chunks -> List.length (List.concat chunks) = n -> (0 < n)%nat ->
    run A R f (curry A n) chunks = Val (f (List.concat chunks)).
Proof. exact curry_any_grouping. Qed.
Print Assumptions C19_curry_any_grouping.

Theorem C19_curry_prefix_reusable :
  forall (A R : Type) (f : list A -> R) (n : nat) (pre : list (list A)),
    Forall (fun l => l <> []) pre -> (List.length (List.concat pre) < n)%nat ->
    exists c, run A R f (curry A n) pre = Fn c /\
      forall cont, cont <> [] -> Forall (fun l => l <> []) cont ->
        (List.length (List.concat pre) + List.length (List.concat cont) = n)%nat ->
        run A R f c cont = Val (f (List.concat pre ++ List.concat cont)).
Proof. exact curry_prefix_reusable. Qed.
Print Assumptions C19_curry_prefix_reusable.

Theorem C19_curry_no_early_call :
  forall (A R : Type) (f : list A -> R) (n : nat) (pre : list (list A)),
    Forall (fun l => l <> []) pre -> (List.length (List.concat pre) < n)%nat ->
    forall r, run A R f (curry A n) pre <> Val r.
Proof. exact curry_no_early_call. Qed.
Print Assumptions C19_curry_no_early_call.

(* non-vacuity: a concrete arity-3 grouping *)
Example C19_example :
  run nat (list nat) (fun l => l) (curry nat 3) [[1;2];[3]]%nat = Val [1;2;3]%nat.
Proof. vm_compute. reflexivity. Qed.

(* ---------------------------------------------------------------- map_, filter_, setcol
   L1 (Model/Functional.v, on the scripts regenerated from functional.py, _datamatrix.py, _row.py,
   _basecolumn.py) computes the L0 spec (Spec/Functional.v) for EVERY well-formed table and EVERY
   user function f (a total function on rows / cells: its purity is the assumption).  lwf t: the
   row count equals the number of row ids, the row ids are distinct, column names are distinct and
   every column is as long as the table (the part of inv_b of C01 that these functions rely on). *)

(* map_(f, dm): the copy dm[:], then per pair (row of the copy, row of the source) the write-back of every
   item of the updated SOURCE row dict through Row.__setitem__, equals "row j is the source row j updated
   with f of that row" (Spec.map_dm) *)
Theorem C19_map_dm_refines :
  forall (f : row -> upd) (t : ltab), lwf t -> l_map_dm f t = lift (l_ids t) true (map_dm f (l_tab t)).
Proof. exact map_dm_refines. Qed.
Print Assumptions C19_map_dm_refines.

(* guards and dispatch of map_: not callable / neither column nor DataMatrix -> TypeError; a column
   is mapped cell by cell; a DataMatrix row by row *)
Theorem C19_map_dispatch :
  forall (g : val -> pyv) (f : row -> upd),
  (forall o, l_map false g f o = Raise TypeError) /\
  l_map true g f OOther = Raise TypeError /\
  (forall t nm c, l_map true g f (OCol t nm c) = bind (map_col g c) (fun r => Ok (RCol r))) /\
  (forall t, lwf t -> l_map true g f (ODm t) = bind (lift (l_ids t) true (map_dm f (l_tab t))) (fun r => Ok (RTab r))).
Proof. exact map_dispatch. Qed.
Print Assumptions C19_map_dispatch.

(* map_ keeps the row count; the existing columns keep their names, types, positions and lengths
   (so rows stay rows, in source order); new keys only append MixedColumns as long as the table *)
Theorem C19_map_dm_shape :
  forall (f : row -> upd) (T T' : tab), map_dm f T = Ok T' -> extends T T' /\ tdflt T' = KMixed.
Proof. exact map_dm_shape. Qed.
Print Assumptions C19_map_dm_shape.

(* what the spec of map_ says, cell by cell, for EVERY f (new keys included): row j of the result is
   row j of the SOURCE updated with f of that source row.  cell_ok f T n j k x: if the updated source
   row j has a value under key n, x is its normal form for column type k, otherwise x is ''.  Every source
   name has a value in every row; a column that the source does not have is a MixedColumn and was
   returned by f for at least one row. *)
Theorem C19_map_dm_rows_updated :
  forall (f : row -> upd) (T T' : tab),
  twf T -> map_dm f T = Ok T' ->
  tlen T' = tlen T /\ NoDup (tab_names T') /\ incl (tab_names T) (tab_names T') /\
  (forall n j, In n (tab_names T) -> exists v, lookup n (upd_row f T j) = Some v) /\
  forall n c', find_col n (tcols T') = Some c' ->
    ckind c' = kind_of T n /\ List.length (ccells c') = tlen T /\
    (find_col n (tcols T) = None -> exists j, (j < tlen T)%nat /\ In n (map fst (f (read_row T j)))) /\
    forall j, (j < tlen T)%nat -> cell_ok f T n j (ckind c') (cell_at j c').
Proof. exact map_dm_rows. Qed.
Print Assumptions C19_map_dm_rows_updated.

(* filter_(f, dm) / filter_(g, col): the row ids of the rows that pass + _selectrowid (cells fetched BY
   ID through the Index position dict) equals the positional selection of exactly those rows *)
Theorem C19_filter_dispatch :
  forall (g : val -> bool) (f : row -> bool),
  (forall o isf na, l_filter false isf na g f o = Raise TypeError) /\
  (forall isf na, l_filter true isf na g f OOther = Raise TypeError) /\
  (forall t n c, lwf t -> find_col n (tcols (l_tab t)) = Some c ->
     l_filter true true 1%Z g f (OCol t (Some n) c) = Ok (RCol (filter_col g c))) /\
  (forall t, lwf t ->
     l_filter true true 1%Z g f (ODm t)
     = Ok (RTab (mk (map (fun j => nth j (l_ids t) 0%N) (kept_rows f (l_tab t))) true (filter_dm f (l_tab t))))).
Proof. exact filter_dispatch. Qed.
Print Assumptions C19_filter_dispatch.

(* what the spec of filter_ says: exactly the rows with f true, ascending positions (source order),
   every result column a subsequence of its source column *)
Theorem C19_filter_dm_law :
  forall (f : row -> bool) (T : tab),
  (forall j, In j (kept_rows f T) <-> (j < tlen T)%nat /\ f (read_row T j) = true) /\
  StronglySorted lt (kept_rows f T) /\
  tlen (filter_dm f T) = List.length (kept_rows f T) /\
  tcols (filter_dm f T) = map (select_pos (kept_rows f T)) (tcols T) /\
  tab_names (filter_dm f T) = tab_names T /\
  (forall c, In c (tcols T) -> List.length (ccells c) = tlen T ->
             subseq (ccells (select_pos (kept_rows f T) c)) (ccells c)).
Proof. exact filter_dm_law. Qed.
Print Assumptions C19_filter_dm_law.

Theorem C19_filter_col_law :
  forall (g : val -> bool) (c : col),
  subseq (ccells (filter_col g c)) (ccells c) /\
  (forall x, In x (ccells (filter_col g c)) <-> In x (ccells c) /\ g x = true) /\
  cname (filter_col g c) = cname c /\ ckind (filter_col g c) = ckind c.
Proof. exact filter_col_law. Qed.
Print Assumptions C19_filter_col_law.

(* setcol: guards, copy, DataMatrix._set_col on the copy = the assignment dm[name] = value on a
   derived table.  The copy is derived, so a NEW column gets the MixedColumn default: with a table
   whose default_col_type is MixedColumn this is exactly `dm[name] = value` (second statement) *)
Theorem C19_setcol_refines :
  forall (t : ltab) (n : string) (v : cvalue),
    lwf t -> l_setcol true true t n v = lift (l_ids t) true (assign (derived (l_tab t)) n v).
Proof. exact setcol_refines. Qed.
Print Assumptions C19_setcol_refines.

Theorem C19_setcol_refines_default_mixed :
  forall (t : ltab) (n : string) (v : cvalue),
    lwf t -> tdflt (l_tab t) = KMixed -> l_setcol true true t n v = lift (l_ids t) true (setcol (l_tab t) n v).
Proof. exact setcol_refines_default_mixed. Qed.
Print Assumptions C19_setcol_refines_default_mixed.

Theorem C19_setcol_guards :
  forall (t : ltab) (n : string) (v : cvalue) (owner : bool),
  l_setcol false owner t n v = Raise TypeError /\
  (forall k cells, l_setcol true false t n (CVCol k cells) = Raise PlainException).
Proof. exact setcol_guards. Qed.
Print Assumptions C19_setcol_guards.

(* setcol changes only that column: row count, every other name and its column are as before; the
   named column is what the assignment stores *)
Theorem C19_setcol_law :
  forall (T : tab) (n : string) (v : cvalue) (T' : tab),
  setcol T n v = Ok T' ->
  tlen T' = tlen T /\
  (forall m, m <> n -> find_col m (tcols T') = find_col m (tcols T)) /\
  tab_names T' = (if has_col n (tcols T) then tab_names T else tab_names T ++ [n]) /\
  (exists c, find_col n (tcols T') = Some c /\ cname c = n /\
     match v with
     | CVType k => ckind c = k /\ ccells c = repeat (default_cell k) (tlen T)
     | CVCol k cells => ckind c = k /\ coerce_all k (map pyv_of_val cells) = Ok (ccells c)
     | CVScalar x => ckind c = kind_for T n /\ rhs_cells (kind_for T n) (tlen T) (RScalar x) = Ok (ccells c)
     | CVSeq xs => ckind c = kind_for T n /\ rhs_cells (kind_for T n) (tlen T) (RSeq xs) = Ok (ccells c)
     end).
Proof. exact setcol_law. Qed.
Print Assumptions C19_setcol_law.

(* a column of the same table arrives with its type and its cells *)
Theorem C19_setcol_column_law :
  forall (T : tab) (n : string) (c : col),
  col_normal c -> List.length (ccells c) = tlen T ->
  setcol T n (CVCol (ckind c) (ccells c))
  = Ok (with_cols T (put {| cname := n; ckind := ckind c; ccells := ccells c |} (tcols T))).
Proof. exact setcol_column_law. Qed.
Print Assumptions C19_setcol_column_law.

(* purity in the by-value model: the functions allocate their result in the heap of tables and every
   table that existed before is still what it was (aliasing of Python objects is judged by the audits
   of the harness, not by this theorem) *)
Theorem C19_heap_frame :
  forall (h : heap) (i : nat),
  (forall f k t, nth_error h k = Some t -> nth_error (fst (h_map_dm f h i)) k = Some t) /\
  (forall f k t, nth_error h k = Some t -> nth_error (fst (h_filter_dm f h i)) k = Some t) /\
  (forall n v k t, nth_error h k = Some t -> nth_error (fst (h_setcol h i n v)) k = Some t).
Proof. exact heap_frame. Qed.
Print Assumptions C19_heap_frame.

Open Scope string_scope.
(* non-vacuity: a well-formed reordered table; map_ with a new key, a filter and a setcol on it *)
Definition ex_t : ltab :=
  {| l_ids := [4; 1; 0]%N; l_sorted := false;
     l_tab := {| tlen := 3; tdflt := KMixed;
                 tcols := [ {| cname := "u"; ckind := KMixed; ccells := [VInt 4; VInt 1; VInt 0] |};
                            {| cname := "i"; ckind := KInt; ccells := [VInt 0; VInt 2; VInt (-2)] |} ] |} |}.
Example C19_ex_wf : lwf ex_t.
Proof.
  repeat split.
  - repeat constructor; cbn; intuition discriminate.
  - repeat constructor; cbn; intuition discriminate.
  - repeat constructor.
Qed.
Example C19_ex_map :
  l_map_dm (fun r => match lookup "i" r with Some (VInt z) => [("i", PInt (z + 1)); ("z", PStr "q" None None)] | _ => [] end) ex_t
  = Ok {| l_ids := [4; 1; 0]%N; l_sorted := true;
          l_tab := {| tlen := 3; tdflt := KMixed;
                      tcols := [ {| cname := "u"; ckind := KMixed; ccells := [VInt 4; VInt 1; VInt 0] |};
                                 {| cname := "i"; ckind := KInt; ccells := [VInt 1; VInt 3; VInt (-1)] |};
                                 {| cname := "z"; ckind := KMixed; ccells := [VStr "q"; VStr "q"; VStr "q"] |} ] |} |}.
Proof. vm_compute. reflexivity. Qed.
Example C19_ex_filter :
  l_filter_dm (fun r => match lookup "i" r with Some (VInt z) => (0 <=? z)%Z | _ => false end) ex_t
  = Ok {| l_ids := [4; 1]%N; l_sorted := true;
          l_tab := {| tlen := 2; tdflt := KMixed;
                      tcols := [ {| cname := "u"; ckind := KMixed; ccells := [VInt 4; VInt 1] |};
                                 {| cname := "i"; ckind := KInt; ccells := [VInt 0; VInt 2] |} ] |} |}.
Proof. vm_compute. reflexivity. Qed.
Example C19_ex_setcol :
  l_setcol true true ex_t "i" (CVSeq [PFloat (FFin false 5 (-1)); PStr "3" (Some 3%Z) None; PBool true])
  = Ok {| l_ids := [4; 1; 0]%N; l_sorted := true;
          l_tab := {| tlen := 3; tdflt := KMixed;
                      tcols := [ {| cname := "u"; ckind := KMixed; ccells := [VInt 4; VInt 1; VInt 0] |};
                                 {| cname := "i"; ckind := KInt; ccells := [VInt 2; VInt 3; VInt 1] |} ] |} |}.
Proof. vm_compute. reflexivity. Qed.
