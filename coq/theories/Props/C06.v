(* C06 -- derived objects never alias their source.  In the by-value model non-aliasing IS the frame
   property: an operation changes at most its target.  Sharing of Python objects is outside a by-value
   model and is checked on the implementation by the audits A1-A2 and mutation probes of the harness. *)
From Coq Require Import ZArith NArith List Bool String.
From DM Require Import Base.PyVal Spec.Nf Spec.Table Spec.Ops Proofs.TableFacts Proofs.OpFacts.
From DM Require Import Spec.SeriesEnc Proofs.SeriesEncFacts.
Import ListNotations.
Open Scope string_scope.

Theorem C06_frame_partial : forall w o j,
  (j < List.length (pool w))%nat -> target o <> Some j -> get (fst (step w o)) j = get w j.
Proof. exact step_frame. Qed.
Print Assumptions C06_frame_partial.

(* deriving operations have no target at all: the source (and everything else) is unchanged *)
Theorem C06_deriving_leaves_pool : forall w o j,
  target o = None -> (j < List.length (pool w))%nat -> get (fst (step w o)) j = get w j.
Proof. intros w o j H Hj. apply step_frame; [exact Hj|rewrite H; discriminate]. Qed.
Print Assumptions C06_deriving_leaves_pool.

(* names bound to one column read the same cells, whatever is written through either *)
Theorem C06_alias_reads_same : forall t n1 n2 i,
  lookup n1 (names t) = Some i -> lookup n2 (names t) = Some i -> slot_of t n1 = slot_of t n2.
Proof. exact alias_reads_same. Qed.
Print Assumptions C06_alias_reads_same.

(* the deliberate alias: dm.b = dm.a binds both names to one slot, so a write through either is read through both *)
(* the same frame property for the operations on series columns (Spec/SeriesEnc.v) *)
Theorem C06_series_frame_partial : forall w so j,
  (j < List.length (pool w))%nat -> starget so <> Some j -> get (fst (sstep w so)) j = get w j.
Proof. exact sstep_frame. Qed.
Print Assumptions C06_series_frame_partial.

Example C06_alias_intended :
  let w := run [ONew 2; OSetCol 0 "a" (RSeq [PInt 1; PInt 2]); OSetColFromCol 0 "b" 0 "a";
                OSetCell 0 "b" (AInt 0) (RScalar (PInt 9))] w0 in
  match get w 0 with Some t => view t = [("a", KMixed, [VInt 9; VInt 2]); ("b", KMixed, [VInt 9; VInt 2])] | None => False end.
Proof. vm_compute. reflexivity. Qed.
(* ... whereas a column copied from another DataMatrix is independent *)
Example C06_copy_independent :
  let w := run [ONew 2; OSetCol 0 "a" (RSeq [PInt 1; PInt 2]); ONew 2; OSetColFromCol 1 "b" 0 "a";
                OSetCell 1 "b" (AInt 0) (RScalar (PInt 9))] w0 in
  match get w 0, get w 1 with
  | Some s, Some d => view s = [("a", KMixed, [VInt 1; VInt 2])] /\ view d = [("b", KMixed, [VInt 9; VInt 2])]
  | _, _ => False end.
Proof. vm_compute. split; reflexivity. Qed.
