(* C06 -- derived objects never alias their source.  In the by-value model non-aliasing IS the frame
   property: an operation changes at most its target.  Sharing of Python objects is outside a by-value
   model and is checked on the implementation by the audits A1-A2 and mutation probes of the harness. *)
From Coq Require Import ZArith NArith List Bool String.
From DM Require Import Base.PyVal Spec.Nf Spec.Table Spec.Ops Proofs.TableFacts Proofs.OpFacts.
From DM Require Import Spec.SeriesEnc Proofs.SeriesEncFacts.
From DM Require Import Model.LTable Gen.KCore Model.Core Proofs.CoreRefine Proofs.SetColRefine.
Import ListNotations.
Open Scope string_scope.

Theorem C06_frame_partial : forall w o j,
  (j < List.length (pool w))%nat -> target o <> Some j -> get (fst (step w o)) j = get w j.
Proof. exact step_frame. Qed.
Print Assumptions C06_frame_partial.

(* deriving operations have no target at all: the source (and everything else) is unchanged *)
Theorem C06_deriving_leaves_pool : forall w o j,
  target o = None -> (j < List.length (pool w))%nat -> get (fst (step w o)) j = get w j.
Proof. intros w o j H Hj. apply step_frame; [exact Hj|rewrite H; discriminate]. Qed.
Print Assumptions C06_deriving_leaves_pool.

(* names bound to one column read the same cells, whatever is written through either *)
Theorem C06_alias_reads_same : forall t n1 n2 i,
  lookup n1 (names t) = Some i -> lookup n2 (names t) = Some i -> slot_of t n1 = slot_of t n2.
Proof. exact alias_reads_same. Qed.
Print Assumptions C06_alias_reads_same.

(* the deliberate alias: dm.b = dm.a binds both names to one slot, so a write through either is read through both *)
(* the same frame property for the operations on series columns (Spec/SeriesEnc.v) *)
Theorem C06_series_frame_partial : forall w so j,
  (j < List.length (pool w))%nat -> starget so <> Some j -> get (fst (sstep w so)) j = get w j.
Proof. exact sstep_frame. Qed.
Print Assumptions C06_series_frame_partial.

(* DataMatrix._set_col with a column as the value, on the guard and the length test regenerated from the source:
   dm[name] = dm2[name2] makes both names refer to ONE column exactly when dm2 is dm (the deliberate alias) and copies
   the cells into a new column otherwise (refusing another length) ... *)
Theorem C06_l1_column_assignment_alias_or_copy : forall (w : world) p ti name t2i name2,
  pool w = map abs p -> winv p ->
  match lstep p (OSetColFromCol ti name t2i name2) with
  | LUpd i r => step w (OSetColFromCol ti name t2i name2) = (put w i (abs r), OkUnit)
  | LErr => exists e, snd (step w (OSetColFromCol ti name t2i name2)) = Err e
              /\ fst (step w (OSetColFromCol ti name t2i name2)) = w
  | LSkip => True
  | _ => False
  end.
Proof. exact setcolfromcol_refines. Qed.
Print Assumptions C06_l1_column_assignment_alias_or_copy.

(* ... and a column derived from dm (a slice by an index list) is never inserted by reference: it becomes a new,
   independent column holding the addressed cells (in L0: add_slot, not an alias) *)
Theorem C06_l1_derived_column_is_copied : forall (w : world) p ti name name2 l,
  pool w = map abs p -> winv p ->
  match lstep p (OSetColFromSlice ti name name2 l) with
  | LUpd i r => step w (OSetColFromSlice ti name name2 l) = (put w i (abs r), OkUnit)
  | LErr => exists e, snd (step w (OSetColFromSlice ti name name2 l)) = Err e
              /\ fst (step w (OSetColFromSlice ti name name2 l)) = w
  | LSkip => True
  | _ => False
  end.
Proof. exact setcolfromslice_refines. Qed.
Print Assumptions C06_l1_derived_column_is_copied.

Example C06_alias_intended :
  let w := run [ONew 2; OSetCol 0 "a" (RSeq [PInt 1; PInt 2]); OSetColFromCol 0 "b" 0 "a";
                OSetCell 0 "b" (AInt 0) (RScalar (PInt 9))] w0 in
  match get w 0 with Some t => view t = [("a", KMixed, [VInt 9; VInt 2]); ("b", KMixed, [VInt 9; VInt 2])] | None => False end.
Proof. vm_compute. reflexivity. Qed.
(* ... whereas a column copied from another DataMatrix is independent *)
Example C06_copy_independent :
  let w := run [ONew 2; OSetCol 0 "a" (RSeq [PInt 1; PInt 2]); ONew 2; OSetColFromCol 1 "b" 0 "a";
                OSetCell 1 "b" (AInt 0) (RScalar (PInt 9))] w0 in
  match get w 0, get w 1 with
  | Some s, Some d => view s = [("a", KMixed, [VInt 1; VInt 2])] /\ view d = [("b", KMixed, [VInt 9; VInt 2])]
  | _, _ => False end.
Proof. vm_compute. split; reflexivity. Qed.
