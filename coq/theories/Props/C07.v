(* C07 -- resizing keeps the first rows and appends fresh default rows.  Statements only. *)
From Coq Require Import ZArith NArith List Bool String.
From DM Require Import Base.PyVal Spec.Nf Spec.Table Spec.Ops Proofs.TableFacts Proofs.OpFacts.
From DM Require Import Model.LTable Gen.KCore Model.Core Proofs.CoreRefine.
From DM Require Import Spec.SeriesEnc Proofs.SeriesEncFacts.
Import ListNotations.
Open Scope string_scope.

Theorem C07_grow : forall w ti t n,
  get w ti = Some t -> (Z.of_nat (nrows t) <= n)%Z ->
  let extra := (Z.to_nat n - nrows t)%nat in
  exists new,
    step w (OSetLength ti n) =
      (put w ti {| fam := fam t; ids := ids t ++ new; names := names t;
                   slots := map (fun s => {| skind := skind s;
                                             scells := scells s ++ repeat (default_cell (skind s)) extra |}) (slots t);
                   tsorted := tsorted t; dflt := dflt t |}, OkUnit)
    /\ List.length new = extra /\ NoDup new /\ (forall x, In x new -> ~ In x (ids t)).
Proof. exact setlength_grow. Qed.
Print Assumptions C07_grow.

Theorem C07_shrink : forall w ti t n,
  wwf w -> get w ti = Some t -> (0 <= n)%Z -> (Z.to_nat n < nrows t)%nat ->
  let m := Z.to_nat n in
  exists t', get (fst (step w (OSetLength ti n))) ti = Some t' /\ snd (step w (OSetLength ti n)) = OkUnit
    /\ ids t' = firstn m (ids t) /\ fam t' = fam t /\ tsorted t' = tsorted t /\ dflt t' = dflt t
    /\ Forall2 (fun e e' => let '(nm, k, c) := e in let '(nm', k', c') := e' in
                            nm = nm' /\ k = k' /\ c' = firstn m c) (view t) (view t').
Proof. exact setlength_shrink. Qed.
Print Assumptions C07_shrink.

(* "afterwards it still satisfies every other property": resizing preserves the invariant that all
   other theorems assume, for any table reachable by any history *)
Theorem C07_resize_keeps_invariant : forall w ti n, wwf w -> wwf (fst (step w (OSetLength ti n))).
Proof. intros w ti n. apply step_wf. Qed.
Print Assumptions C07_resize_keeps_invariant.

(* the implementation's _setlength (slicing every column / startid = max+1 and the fresh id list, as
   regenerated from the source in Gen/KCore.v) is the L0 resize on object graphs satisfying inv_b *)
Theorem C07_l1_setlength_refines : forall (w : world) ti t value r,
  inv_b t = true -> (0 <= value)%Z -> get w ti = Some (abs t) ->
  setlength t value = Some r -> step w (OSetLength ti value) = (put w ti (abs r), OkUnit).
Proof. exact setlength_refines. Qed.
Print Assumptions C07_l1_setlength_refines.

Theorem C07_fresh_ids_kernels : forall t value,
  max_ok (l_rowid t) = true ->
  fresh_ids t value = iotaN (match ia (l_rowid t) with [] => 0%N | _ => N.succ (maxN (ia (l_rowid t))) end)
                            (Z.to_nat value - nrows_l t).
Proof. exact fresh_ids_spec. Qed.
Print Assumptions C07_fresh_ids_kernels.

Example C07_default_cells : default_cell KMixed = VStr "" /\ default_cell KFloat = VFlt FNan /\ default_cell KInt = VInt 0.
Proof. repeat split. Qed.
Example C07_zero_then_grow :
  match get (run [ONew 3; OSetColKind 0 "i" KInt; OSetLength 0 0%Z; OSetLength 0 2%Z] w0) 0 with
  | Some t => ids t = [0; 1]%N /\ view t = [("i", KInt, [VInt 0; VInt 0])] | None => False end.
Proof. vm_compute. split; reflexivity. Qed.

(* a series column grows with the table: the appended rows hold NaN in every sample, the first rows stay *)
Example C07_series_grow :
  match nth_error (pool (srun [SPlain (ONew 1); SNew 0 "s" 2 0; SSet 0 "s" 2 (AInt 0) (SVSeries [PInt 1; PInt 2]);
                               SPlain (OSetLength 0 2%Z)] w0)) 0 with
  | Some t => map (fun '(n, _, c) => (n, c)) (view t) =
              [("s#0", [VFlt (FFin false 1 0); VFlt FNan]); ("s#1", [VFlt (FFin false 1 1); VFlt FNan])]
              /\ ids t = [0; 1]%N
  | None => False
  end.
Proof. vm_compute. split; reflexivity. Qed.
