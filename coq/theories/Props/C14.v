(* C14 -- split and group partition the rows: statements only; proofs live in Proofs/SplitGroupFacts.v.
   Rows are positions 0..n-1 of the source; a part / group is a list of positions; its table is
   take_cols positions source.  key_eq is Python == on cells with NaN equal to NaN. *)
From Coq Require Import ZArith NArith List Bool String Permutation Sorting.Sorted.
From DM Require Import Base.PyVal Spec.Nf Spec.Table Spec.SplitGroup Gen.KSplitGroup Model.SplitGroup
  Proofs.SplitGroupFacts Proofs.SplitGroupRefine Proofs.SplitGroupGroup.
Import ListNotations.

(* the parts of split(col) are pairwise disjoint and together hold every row exactly once *)
Theorem C14_split_partition :
  forall (cells : list val) (n : nat),
    let parts := map snd (split1 cells (seq 0 n)) in
    Permutation (List.concat parts) (seq 0 n) /\ NoDup (List.concat parts).
Proof. exact split_partition_all. Qed.
Print Assumptions C14_split_partition.

(* each part holds exactly the rows whose cell equals its value, in source order, and is not empty *)
Theorem C14_split_part_exact :
  forall (cells : list val) (n : nat) (v : val) (qs : list nat),
    In (v, qs) (split1 cells (seq 0 n)) ->
    qs = filter (fun p => key_eq (cell cells p) v) (seq 0 n)
    /\ (forall p, In p qs <-> (p < n)%nat /\ key_eq (cell cells p) v = true)
    /\ StronglySorted lt qs /\ qs <> [].
Proof. exact split_part_exact. Qed.
Print Assumptions C14_split_part_exact.

(* one part per distinct value: the values are `unique` of the column, pairwise different, as many as distinct values *)
Theorem C14_split_one_part_per_unique :
  forall (cells : list val) (ps : list nat),
    map fst (split1 cells ps) = unique (take_cells ps cells)
    /\ ForallOrdPairs (fun a b => key_eq a b = false) (map fst (split1 cells ps))
    /\ List.length (split1 cells ps) = List.length (distinct key_eq (take_cells ps cells)).
Proof. exact split1_values. Qed.
Print Assumptions C14_split_one_part_per_unique.

(* `unique` lists the distinct values (a permutation of them), ordered *)
Theorem C14_unique_listing :
  forall cells : list val, Permutation (distinct key_eq cells) (unique cells).
Proof. exact unique_perm. Qed.
Print Assumptions C14_unique_listing.

Theorem C14_unique_sorted :
  forall cells : list val,
    LocallySorted (fun a b => unique_le (distinct key_eq cells) a b = true) (unique cells).
Proof. exact unique_sorted. Qed.
Print Assumptions C14_unique_sorted.

(* split by several columns: one non-empty part per occurring combination, again a partition *)
Theorem C14_split_multi :
  forall (kcols : list (list val)) (n : nat),
    let res := splitm kcols (seq 0 n) in
    Permutation (List.concat (map snd res)) (seq 0 n)
    /\ NoDup (List.concat (map snd res))
    /\ ForallOrdPairs (fun a b => keys_eq a b = false) (map fst res)
    /\ (forall vs qs, In (vs, qs) res ->
          qs = filter (fun p => keys_eq (row_key kcols p) vs) (seq 0 n)
          /\ StronglySorted lt qs /\ (kcols <> [] -> qs <> []))
    /\ (forall p, (p < n)%nat -> exists vs qs, In (vs, qs) res /\ In p qs).
Proof. exact split_multi_all. Qed.
Print Assumptions C14_split_multi.

Theorem C14_split_multi_one_column :
  forall (c : list val) (ps : list nat), splitm [c] ps = map (fun '(v, qs) => ([v], qs)) (split1 c ps).
Proof. exact splitm_single. Qed.
Print Assumptions C14_split_multi_one_column.

(* split(col, v1, ..., vk): the part of v_i at position i, whether or not v_i occurs, repeated values included *)
Theorem C14_split_values_order :
  forall (cells vs : list val) (ps : list nat),
    List.length (splitv cells vs ps) = List.length vs
    /\ forall i, (i < List.length vs)%nat ->
         nth i (splitv cells vs ps) [] = filter (fun p => key_eq (cell cells p) (nth i vs VNone)) ps.
Proof. exact splitv_order. Qed.
Print Assumptions C14_split_values_order.

(* group: one non-empty group per distinct combination of by-values; the groups partition the rows *)
Theorem C14_group_one_row_per_combination :
  forall (bycols : list (list val)) (n : nat),
    let gs := groups bycols (seq 0 n) in
    Permutation (List.concat (map snd gs)) (seq 0 n)
    /\ NoDup (List.concat (map snd gs))
    /\ map fst gs = distinct keys_eq (map (row_key bycols) (seq 0 n))
    /\ ForallOrdPairs (fun a b => keys_eq a b = false) (map fst gs)
    /\ (forall k qs, In (k, qs) gs ->
          qs = filter (fun p => keys_eq (row_key bycols p) k) (seq 0 n) /\ StronglySorted lt qs /\ qs <> [])
    /\ (forall p, (p < n)%nat -> exists k qs, In (k, qs) gs /\ In p qs).
Proof. exact group_rows_all. Qed.
Print Assumptions C14_group_one_row_per_combination.

(* the by-cells of a group equal the by-values of each of its rows *)
Theorem C14_group_by_cells :
  forall (bycols : list (list val)) (ps : list nat) (k : list val) (qs : list nat) (p j : nat),
    In (k, qs) (groups bycols ps) -> In p qs -> (j < List.length bycols)%nat ->
    key_eq (cell (nth j bycols []) p) (nth j k VNone) = true.
Proof. exact group_by_cells. Qed.
Print Assumptions C14_group_by_cells.

(* every other column: the group's values in source order, padded with NaN to the size of the largest group *)
Theorem C14_group_series_padded :
  forall (cells : list val) (gs : list (list nat)),
    (forall i, (i < List.length gs)%nat ->
       nth i (series_of cells gs) [] =
         map to_fl (take_cells (nth i gs []) cells) ++ repeat FNan (max_len gs - List.length (nth i gs [])))
    /\ (forall r, In r (series_of cells gs) -> List.length r = max_len gs)
    /\ (forall g, In g gs -> (List.length g <= max_len gs)%nat)
    /\ (gs <> [] -> exists g, In g gs /\ List.length g = max_len gs).
Proof. exact series_padded. Qed.
Print Assumptions C14_group_series_padded.

(* the grouped table consists of exactly these by-columns and series columns *)
Theorem C14_group_table :
  forall (src : cols) (bynames : list string) (g : gtable),
    group src bynames = Some g ->
    exists bycols,
      all_some (map (fun n => col_cells n src) bynames) = Some bycols
      /\ let gs := groups bycols (seq 0 (nrows_of src)) in
         g_n g = List.length gs
         /\ (forall n k cs, In (n, k, cs) (g_by g) <->
               exists cells j, In (n, k, cells) src /\ index_of_name n bynames 0 = Some j
                               /\ cs = by_cells j (map fst gs))
         /\ (forall n d rows, In (n, d, rows) (g_series g) <->
               exists k cells, In (n, k, cells) src /\ index_of_name n bynames 0 = None
                               /\ d = max_len (map snd gs) /\ rows = series_of cells (map snd gs)).
Proof. exact group_table. Qed.
Print Assumptions C14_group_table.

(* "equals" is an equivalence on all cell values (ints, floats incl. NaN and infinities, text, None) *)
Theorem C14_key_eq_equivalence :
  (forall a, key_eq a a = true) /\ (forall a b, key_eq a b = key_eq b a)
  /\ (forall a b c, key_eq a b = true -> key_eq b c = true -> key_eq a c = true).
Proof. exact (conj key_eq_refl (conj key_eq_sym key_eq_trans)). Qed.
Print Assumptions C14_key_eq_equivalence.

(* ---------- the code (L1 model on the kernels regenerated from operations.py / _basecolumn.py / _numericcolumn.py)
   computes the L0 parts.  wf_dm d: distinct row ids, every column as long as the id list, FloatColumn/IntColumn
   cells are numbers, MixedColumn cells are not NaN.  m_take ps d: the rows at positions ps, as a DataMatrix. *)

(* col == v (the _compare route, _compare_nan / _compare_value of the column type) selects exactly the rows equal to v *)
Theorem C14_model_compare_selects_equal_rows :
  forall (k : kind) (g : nat -> N) (cs : list val) (v : val) (ps : list nat),
    (match k with KMixed => True | _ => forall p, In p ps -> is_num (cell cs p) = true end) ->
    m_compare_eq k (map g ps) (take_cells ps cs) v = map g (rows_with key_eq (cell cs) v ps).
Proof. exact m_compare_eq_spec. Qed.
Print Assumptions C14_model_compare_selects_equal_rows.

(* _selectrowid / _getrowidkey: selecting by row id takes the positions *)
Theorem C14_model_select_by_rowid :
  forall (d : mdm) (ps qs : list nat),
    NoDup (m_rid d) -> in_range d ps -> incl qs ps ->
    m_selectrowid (m_take ps d) (map (rid_at d) qs) = m_take qs d.
Proof. exact m_selectrowid_take. Qed.
Print Assumptions C14_model_select_by_rowid.

Theorem C14_model_unique :
  forall (k : kind) (cells : list val), cells_ok k cells -> m_unique k cells = unique cells.
Proof. exact m_unique_spec. Qed.
Print Assumptions C14_model_unique.

(* split(col1, ..., colk): the tuples yielded are the L0 parts, in L0 order, for every table and row-id layout *)
Theorem C14_model_split_refines :
  forall (d : mdm) (first : string) (rest : list string) (kcols : list (list val)),
    wf_dm d ->
    map (fun n => match find_col n (m_cols d) with Some kc => Some (snd kc) | None => None end) (first :: rest)
      = map Some kcols ->
    m_split d first rest [] =
      SPairs (map (fun x => (fst x, m_take (snd x) d)) (splitm kcols (seq 0 (List.length (m_rid d))))).
Proof. exact m_split_cols_refines. Qed.
Print Assumptions C14_model_split_refines.

(* split(col, v1, ..., vk): bare parts for the given values in the given order *)
Theorem C14_model_split_values_refines :
  forall (d : mdm) (kname : string) (k : kind) (cs : list val) (x : val) (vs : list val),
    wf_dm d -> find_col kname (m_cols d) = Some (k, cs) ->
    m_split d kname [] (x :: vs) =
      SBare (map (fun qs => m_take qs d) (splitv cs (x :: vs) (seq 0 (List.length (m_rid d))))).
Proof. exact m_splitv_refines. Qed.
Print Assumptions C14_model_split_values_refines.

(* group: the dict key built by the code (NaN -> text nan, tuple ==) identifies exactly the equal combinations,
   for by-values other than the literal text nan (which no column stores: C05) *)
Theorem C14_group_key_faithful :
  forall a b : list val,
    Forall not_nan_text a -> Forall not_nan_text b ->
    tuple_eq (map m_keycell a) (map m_keycell b) = keys_eq a b.
Proof. exact group_key_faithful. Qed.
Print Assumptions C14_group_key_faithful.

(* ---------- ops.group: the code (L1 model on the regenerated kernels: the dict numbering of the key tuples with NaN
   replaced by the text nan, the hashed IntColumn, its unique values, one selection by row id per key through
   _compare_value / _selectrowid / _getrowidkey, the by-cell of the selection's first row, the series deepened and
   filled group by group) computes the L0 group: one row per distinct by-combination in first-occurrence order, the
   by-values of the group's first row kept, every other column gathered in source order and padded with NaN to the
   longest group -- for EVERY source satisfying the boolean premise wf_group_b (distinct row ids in any order and
   with any gaps, columns as long as the id list and at least one column unless there are no rows, distinct column
   names, no by-cell equal to the literal text nan), any number of by-columns (none included), any by-name
   (an unknown name: both sides answer None). *)
Theorem C14_model_group_refines :
  forall (d : mdm) (bynames : list string),
    wf_group_b d bynames = true -> m_group d bynames = group (m_cols d) bynames.
Proof. exact m_group_refines. Qed.
Print Assumptions C14_model_group_refines.

(* the pieces, each for all inputs: (1) the key numbering through the dict gives every row the position of its
   combination among the distinct combinations (first occurrence first) *)
Theorem C14_model_group_numbering :
  forall rawkeys : list (list val),
    Forall (Forall not_nan_text) rawkeys ->
    number_keys (map (map m_keycell) rawkeys) []
    = map (fun k => Z.of_nat (idx keys_eq k (distinct keys_eq rawkeys))) rawkeys.
Proof. exact model_hashed. Qed.
Print Assumptions C14_model_group_numbering.

(* (2) the series grown and filled group by group (kernels k_group_grow / newdepth / fill) ends as every group's
   values padded with NaN to the longest group *)
Theorem C14_model_group_series :
  forall vals : list (list fl),
    series_run (O, repeat [] (List.length vals)) O vals = (max_len vals, map (pad_row (max_len vals)) vals).
Proof. exact series_run_spec. Qed.
Print Assumptions C14_model_group_series.

(* non-vacuity: keys whose concatenations / sums coincide stay apart; NaN keys form one group *)
Open Scope string_scope.
Example C14_example_text_keys :
  map snd (groups [[VStr "a"; VStr "ab"; VStr "a"]; [VStr "bc"; VStr "c"; VStr "bc"]] (seq 0 3)) = [[0; 2]; [1]]%nat.
Proof. vm_compute. reflexivity. Qed.
Example C14_example_numeric_keys :
  map snd (splitm [[VInt 1; VInt 2; VInt 1]; [VInt 2; VInt 1; VInt 2]] (seq 0 3)) = [[0; 2]; [1]]%nat.
Proof. vm_compute. reflexivity. Qed.
Example C14_example_nan :
  split1 [VFlt FNan; VFlt (FFin false 1 0); VFlt FNan] (seq 0 3)
  = [(VFlt (FFin false 1 0), [1]); (VFlt FNan, [0; 2])]%nat.
Proof. vm_compute. reflexivity. Qed.
Example C14_example_series :
  series_of [VInt 5; VInt 6; VInt 7] [[0; 2]; [1]]%nat
  = [[FFin false 5 0; FFin false 7 0]; [FFin false 3 1; FNan]].
Proof. vm_compute. reflexivity. Qed.

(* the premises of the refinement theorems are satisfiable: a table with reordered, non-contiguous row ids *)
Definition ex_dm : mdm :=
  {| m_rid := [7; 2; 9]%N;
     m_cols := [("k", KMixed, [VStr "a"; VStr "ab"; VStr "a"]); ("uid", KInt, [VInt 10; VInt 11; VInt 12])] |}.
Example C14_example_model :
  m_split ex_dm "k" [] [] =
    SPairs [([VStr "a"], {| m_rid := [7; 9]%N;
                            m_cols := [("k", KMixed, [VStr "a"; VStr "a"]); ("uid", KInt, [VInt 10; VInt 12])] |});
            ([VStr "ab"], {| m_rid := [2]%N;
                             m_cols := [("k", KMixed, [VStr "ab"]); ("uid", KInt, [VInt 11])] |})].
Proof. vm_compute. reflexivity. Qed.
Example C14_example_wf : wf_dm ex_dm.
Proof.
  split.
  - repeat constructor; simpl; intuition discriminate.
  - intros n k cs [H|[H|[]]]; inversion H; subst; split; auto; simpl; intros c Hc;
      repeat (destruct Hc as [<-|Hc]; [reflexivity|]); contradiction.
Qed.

(* the premise of the group refinement is satisfiable: reordered, non-contiguous row ids (smallest first, largest
   last, interior permuted), a FloatColumn key with two NaNs, an Int and a Mixed payload; and the model's answer *)
Definition ex_gdm : mdm :=
  {| m_rid := [2; 7; 4; 9]%N;
     m_cols := [("k", KFloat, [VFlt FNan; VFlt (FFin false 1 0); VFlt FNan; VFlt (FFin false 1 0)]);
                ("uid", KInt, [VInt 10; VInt 11; VInt 12; VInt 13]);
                ("m", KMixed, [VInt 1; VInt 2; VInt 3; VInt 4])] |}.
Example C14_example_group_wf : wf_group_b ex_gdm ["k"] = true.
Proof. vm_compute. reflexivity. Qed.
Example C14_example_group_wf_no_by : wf_group_b ex_gdm [] = true.
Proof. vm_compute. reflexivity. Qed.
Example C14_example_group_model :
  m_group ex_gdm ["k"] =
    Some {| g_n := 2;
            g_by := [("k", KFloat, [VFlt FNan; VFlt (FFin false 1 0)])];
            g_series := [("uid", 2%nat, [[FFin false 5 1; FFin false 3 2]; [FFin false 11 0; FFin false 13 0]]);
                         ("m", 2%nat, [[FFin false 1 0; FFin false 3 0]; [FFin false 1 1; FFin false 1 2]])] |}.
Proof. vm_compute. reflexivity. Qed.
