(* C20 (fnc.memoize): final statements only; proofs live in Proofs/MemoFacts.v, Proofs/MemoRunFacts.v.
   The model (Model/Memo.v) takes every decision through the kernels of Gen/KMemo.v, regenerated from
   datamatrix/_functional/_memoize.py on every run.  A = argument lists up to the property's argument
   equivalence, f = the wrapped body, key_of = the argument-derived key (injective on A), size = size of a
   pickled value.  Histories are lists of any length; worlds hold any number of instances and one disk. *)
From Coq Require Import ZArith List Bool.
From DM Require Import Gen.KMemo Spec.Memo Model.Memo Proofs.MemoFacts Run.SC20 Run.RC20 Proofs.MemoRunFacts.
Import ListNotations.
Open Scope Z_scope.

(* transparency: in every history from the initial world, every call on an instance without an explicit key
   returns f(args) -- EV_tr o a ev := xkey o = None -> e_ret ev = f a; tr_ok applies it to every call event *)
Theorem C20_memo_transparent :
  forall (A K V F : Type) (f : A -> V) (key_of : A -> K) (thunks : A -> nat) (size : V -> Z)
         (keqb : K -> K -> bool) (feqb : F -> F -> bool),
    (forall a b : K, keqb a b = true <-> a = b) -> (forall a b : F, feqb a b = true <-> a = b) ->
    (forall a b : A, key_of a = key_of b -> a = b) ->
    forall ops : list (op A K F),
      Forall (fun p => match p with ONew o => opts_ok A K F key_of o | _ => True end) ops ->
      tr_ok A K V F (EV_tr A K V F f) [] (snd (wrun A K V F f key_of thunks size keqb feqb w0 ops)).
Proof. exact memo_transparent_w0. Qed.
Print Assumptions C20_memo_transparent.

(* ... and from any world satisfying the invariant (stored values are values of f at their key) *)
Theorem C20_memo_transparent_inv :
  forall (A K V F : Type) (f : A -> V) (key_of : A -> K) (thunks : A -> nat) (size : V -> Z)
         (keqb : K -> K -> bool) (feqb : F -> F -> bool),
    (forall a b : K, keqb a b = true <-> a = b) -> (forall a b : F, feqb a b = true <-> a = b) ->
    (forall a b : A, key_of a = key_of b -> a = b) ->
    forall (w : world K V F) (ops : list (op A K F)),
      WI K V F (PI_tr A K V F f key_of) (PD_tr A K V F f key_of) w ->
      Forall (fun p => match p with ONew o => opts_ok A K F key_of o | _ => True end) ops ->
      tr_ok A K V F (EV_tr A K V F f) (map fst (insts w)) (snd (wrun A K V F f key_of thunks size keqb feqb w ops)).
Proof. exact memo_transparent. Qed.
Print Assumptions C20_memo_transparent_inv.

(* at most once: from any state (e.g. right after clear()), in any clear-free history of one instance in which
   no store evicts, the body runs at most once per key -- in-memory and persistent mode *)
Theorem C20_memo_at_most_once :
  forall (A K V F : Type) (f : A -> V) (key_of : A -> K) (thunks : A -> nat) (size : V -> Z)
         (keqb : K -> K -> bool) (feqb : F -> F -> bool),
    (forall a b : K, keqb a b = true <-> a = b) -> (forall a b : F, feqb a b = true <-> a = b) ->
    forall (o : opts K F) (st : inst K V) (d : list (F * K * V)) (ops : list (iop A)) (k : K),
      clear_free A ops -> evict_free A K V F f key_of thunks size keqb feqb o st d ops ->
      (runs A K V F key_of keqb o k (fst (fst (irun A K V F f key_of thunks size keqb feqb o st d ops))) <= 1)%nat.
Proof. exact memo_at_most_once. Qed.
Print Assumptions C20_memo_at_most_once.

(* ... and never for a key that is stored when the history starts *)
Theorem C20_memo_stored_never_reruns :
  forall (A K V F : Type) (f : A -> V) (key_of : A -> K) (thunks : A -> nat) (size : V -> Z)
         (keqb : K -> K -> bool) (feqb : F -> F -> bool),
    (forall a b : K, keqb a b = true <-> a = b) -> (forall a b : F, feqb a b = true <-> a = b) ->
    forall (o : opts K F) (st : inst K V) (d : list (F * K * V)) (ops : list (iop A)) (k : K),
      clear_free A ops -> evict_free A K V F f key_of thunks size keqb feqb o st d ops ->
      ign st = false -> stored K V F keqb feqb o (cache st) d k <> None ->
      runs A K V F key_of keqb o k (fst (fst (irun A K V F f key_of thunks size keqb feqb o st d ops))) = 0%nat.
Proof. exact memo_stored_never_reruns. Qed.
Print Assumptions C20_memo_stored_never_reruns.

(* clear(): from any state, exactly the next call re-executes (whatever is stored), the flag is consumed, and
   the call after it with the same arguments is served from the store if the value alone fits *)
Theorem C20_memo_clear_next_only :
  forall (A K V F : Type) (f : A -> V) (key_of : A -> K) (thunks : A -> nat) (size : V -> Z)
         (keqb : K -> K -> bool) (feqb : F -> F -> bool),
    (forall a b : K, keqb a b = true <-> a = b) -> (forall a b : F, feqb a b = true <-> a = b) ->
    forall (o : opts K F) (st : inst K V) (d : list (F * K * V)) (a : A) (ev1 : event K V)
           (st1 : inst K V) (d1 : list (F * K * V)),
      icall A K V F f key_of thunks size keqb feqb o (iclear K V st) d a = (ev1, st1, d1) ->
      e_ran ev1 = true /\ e_ret ev1 = f a /\ ign st1 = false /\
      (fits K V F size o (f a) ->
       forall (ev2 : event K V) (st2 : inst K V) (d2 : list (F * K * V)),
         icall A K V F f key_of thunks size keqb feqb o st1 d1 a = (ev2, st2, d2) ->
         e_ran ev2 = false /\ e_ret ev2 = f a /\ cache st2 = cache st1 /\ d2 = d1).
Proof. exact memo_clear_next_only. Qed.
Print Assumptions C20_memo_clear_next_only.

(* size bound: in every history from the initial world, cache_size after every call is at most max_size, and
   so is the content of every instance at the end *)
Theorem C20_memo_size_bound :
  forall (A K V F : Type) (f : A -> V) (key_of : A -> K) (thunks : A -> nat) (size : V -> Z)
         (keqb : K -> K -> bool) (feqb : F -> F -> bool),
    (forall v : V, 0 <= size v) ->
    forall ops : list (op A K F),
      Forall (fun p => match p with ONew o => 0 <= max_size o | _ => True end) ops ->
      tr_ok A K V F (EV_bound A K V F) [] (snd (wrun A K V F f key_of thunks size keqb feqb w0 ops)) /\
      Forall (fun os => total K V size (cache (snd os)) <= max_size (fst os))
             (insts (fst (wrun A K V F f key_of thunks size keqb feqb w0 ops))).
Proof. exact memo_size_bound_w0. Qed.
Print Assumptions C20_memo_size_bound.

(* FIFO: from any state, what a store drops is a prefix of the insertion order (oldest first), and an entry is
   dropped only while keeping it would exceed max_size *)
Theorem C20_memo_fifo :
  forall (A K V F : Type) (f : A -> V) (key_of : A -> K) (thunks : A -> nat) (size : V -> Z)
         (keqb : K -> K -> bool) (feqb : F -> F -> bool)
         (o : opts K F) (st : inst K V) (d : list (F * K * V)) (a : A) (ev : event K V)
         (st1 : inst K V) (d1 : list (F * K * V)),
    icall A K V F f key_of thunks size keqb feqb o st d a = (ev, st1, d1) ->
    persistent o = false -> e_ran ev = true ->
    exists dropped : list (K * V),
      forget A K V F key_of keqb o st a ++ [(key A K F key_of o a, f a)] = dropped ++ cache st1 /\
      (forall (dr : list (K * V)) (x : K * V),
         dropped = dr ++ [x] -> total K V size (x :: cache st1) > max_size o).
Proof. exact memo_fifo. Qed.
Print Assumptions C20_memo_fifo.

(* persistence: a result returned by a persistent instance is returned, without running the body, by a NEW
   persistent instance on the same folder, after any clear-free activity of any instances in between *)
Theorem C20_memo_persistent_shared :
  forall (A K V F : Type) (f : A -> V) (key_of : A -> K) (thunks : A -> nat) (size : V -> Z)
         (keqb : K -> K -> bool) (feqb : F -> F -> bool),
    (forall a b : K, keqb a b = true <-> a = b) -> (forall a b : F, feqb a b = true <-> a = b) ->
    forall (w : world K V F) (i : nat) (o : opts K F) (st : inst K V) (a : A) (mid : list (op A K F)) (o' : opts K F),
      nth_error (insts w) i = Some (o, st) -> persistent o = true ->
      Forall (fun os : opts K F * inst K V => ign (snd os) = false)
             (insts (fst (wstep A K V F f key_of thunks size keqb feqb w (OCall i a)))) ->
      Forall (no_clear A K F) mid ->
      persistent o' = true -> folder o' = folder o -> key A K F key_of o' a = key A K F key_of o a ->
      let w2 := fst (wrun A K V F f key_of thunks size keqb feqb
                          (fst (wstep A K V F f key_of thunks size keqb feqb w (OCall i a))) mid) in
      let j := length (insts w2) in
      exists ev1 ev2 : event K V,
        snd (wstep A K V F f key_of thunks size keqb feqb w (OCall i a)) = TCall i a ev1 /\
        snd (wrun A K V F f key_of thunks size keqb feqb w2 [ONew o'; OCall j a]) = [TNew o'; TCall j a ev2] /\
        e_ran ev2 = false /\ e_ret ev2 = e_ret ev1.
Proof. exact memo_persistent_shared. Qed.
Print Assumptions C20_memo_persistent_shared.

(* explicit key: the key does not depend on the arguments; a second call with ANY arguments is a hit *)
Theorem C20_memo_explicit_key :
  forall (A K V F : Type) (f : A -> V) (key_of : A -> K) (thunks : A -> nat) (size : V -> Z)
         (keqb : K -> K -> bool) (feqb : F -> F -> bool),
    (forall a b : K, keqb a b = true <-> a = b) -> (forall a b : F, feqb a b = true <-> a = b) ->
    forall (o : opts K F) (x : K) (st : inst K V) (d : list (F * K * V)) (a b : A)
           (ev1 : event K V) (st1 : inst K V) (d1 : list (F * K * V)) (ev2 : event K V)
           (st2 : inst K V) (d2 : list (F * K * V)),
      xkey o = Some x ->
      icall A K V F f key_of thunks size keqb feqb o st d a = (ev1, st1, d1) ->
      fits K V F size o (f a) ->
      icall A K V F f key_of thunks size keqb feqb o st1 d1 b = (ev2, st2, d2) ->
      key A K F key_of o a = x /\ key A K F key_of o b = x /\ e_ran ev2 = false /\ e_ret ev2 = e_ret ev1.
Proof. exact memo_explicit_key. Qed.
Print Assumptions C20_memo_explicit_key.

(* laziness: callable arguments are evaluated exactly when the body runs in lazy mode, never on a hit *)
Theorem C20_memo_lazy :
  forall (A K V F : Type) (f : A -> V) (key_of : A -> K) (thunks : A -> nat) (size : V -> Z)
         (keqb : K -> K -> bool) (feqb : F -> F -> bool)
         (o : opts K F) (st : inst K V) (d : list (F * K * V)) (a : A) (ev : event K V)
         (st1 : inst K V) (d1 : list (F * K * V)),
    icall A K V F f key_of thunks size keqb feqb o st d a = (ev, st1, d1) ->
    e_forced ev = (if e_ran ev && lazy o then thunks a else 0%nat).
Proof. exact memo_lazy. Qed.
Print Assumptions C20_memo_lazy.

(* L1 refines L0: the acceptor written from the property text accepts every trace of the model *)
Theorem C20_model_accepted :
  forall (A K V F : Type) (f : A -> V) (key_of : A -> K) (thunks : A -> nat) (size : V -> Z)
         (keqb : K -> K -> bool) (veqb : V -> V -> bool) (feqb : F -> F -> bool),
    (forall a b : K, keqb a b = true <-> a = b) -> (forall a b : F, feqb a b = true <-> a = b) ->
    (forall v : V, veqb v v = true) -> (forall a b : A, key_of a = key_of b -> a = b) ->
    forall ops : list (op A K F),
      Forall (new_ok A K F key_of) ops ->
      accept A K V F f key_of thunks size keqb veqb feqb w0
             (snd (wrun A K V F f key_of thunks size keqb feqb w0 ops)) = true.
Proof. exact model_accepted_w0. Qed.
Print Assumptions C20_model_accepted.

(* ... in particular the oracle of the generated cases accepts the model of the generated cases *)
Theorem C20_oracle_accepts_model :
  forall (sizes : list (Z * Z)) (ops : list (op nat Z Z)),
    Forall (new_ok nat Z Z ckey) ops -> oracle sizes (model_trace sizes ops) = true.
Proof. exact oracle_accepts_model. Qed.
Print Assumptions C20_oracle_accepts_model.

(* ---- non-vacuity ---- *)
Definition ex_sizes : list (Z * Z) := [(1, 100); (2, 100); (3, 100)].
Definition ex_ops : list (op nat Z Z) :=
  [ONew (mo false None true 250 0); OCall 0 1%nat; OCall 0 2%nat; OCall 0 1%nat; OCall 0 103%nat;
   OCall 0 1%nat; OClear 0; OCall 0 103%nat; OCall 0 103%nat;
   ONew (mo true (Some (-1)) false 0 7); OCall 1 2%nat; ONew (mo true (Some (-1)) false 0 7); OCall 2 3%nat].
(* the premises of the world theorems hold for it *)
Example C20_ex_new_ok : Forall (new_ok nat Z Z ckey) ex_ops.
Proof.
  repeat constructor; simpl; try discriminate; intros a H; unfold ckey in H;
    pose proof (Nat2Z.is_nonneg a) as G; rewrite H in G; apply G; reflexivity.
Qed.
(* runs, hit, eviction of the oldest entry (class 1 re-executes after 103 was stored), forced thunk,
   clear, persistent explicit key shared by a new instance *)
Example C20_ex_trace :
  map (fun t => match t with TCall _ a e => (Z.of_nat a, e_ran e, e_ret e, Z.of_nat (e_forced e), e_keys e) | _ => (0, false, 0, 0, []) end)
      (model_trace ex_sizes ex_ops)
  = [(0, false, 0, 0, []); (1, true, 1, 0, [1]); (2, true, 2, 0, [1; 2]); (1, false, 1, 0, [1; 2]);
     (103, true, 3, 1, [2; 103]); (1, true, 1, 0, [103; 1]); (0, false, 0, 0, []);
     (103, true, 3, 1, [1; 103]); (103, false, 3, 0, [1; 103]);
     (0, false, 0, 0, []); (2, true, 2, 0, []); (0, false, 0, 0, []); (3, false, 2, 0, [])].
Proof. vm_compute. reflexivity. Qed.
Example C20_ex_accepted : oracle ex_sizes (model_trace ex_sizes ex_ops) = true.
Proof. vm_compute. reflexivity. Qed.
(* the oracle is not trivially true: a second execution of a stored key is rejected, and so is a wrong value *)
Example C20_ex_rejects_rerun :
  oracle ex_sizes [tN (mo false None false 250 0); tC 0 1 (me 1 true 0 [1] 100 []); tC 0 1 (me 1 true 0 [1] 100 [])] = false.
Proof. vm_compute. reflexivity. Qed.
Example C20_ex_rejects_wrong_value :
  oracle ex_sizes [tN (mo false None false 250 0); tC 0 1 (me 1 true 0 [1] 100 []); tC 0 2 (me 1 false 0 [1] 100 [])] = false.
Proof. vm_compute. reflexivity. Qed.
Example C20_ex_rejects_lifo :
  oracle ex_sizes [tN (mo false None false 250 0); tC 0 1 (me 1 true 0 [1] 100 []); tC 0 2 (me 2 true 0 [1; 2] 200 []);
                   tC 0 3 (me 3 true 0 [1; 2] 200 [])] = false.
Proof. vm_compute. reflexivity. Qed.
