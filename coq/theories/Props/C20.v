(* C20 (fnc.memoize): final statements only; proofs live in Proofs/MemoFacts.v, Proofs/MemoRunFacts.v.
   The model (Model/Memo.v) takes every decision through the kernels of Gen/KMemo.v, regenerated from
   datamatrix/_functional/_memoize.py on every run.  A = argument lists up to the property's argument
   equivalence, f = the wrapped body, key_of = the argument-derived key (arguments with the same key are arguments
   the body does not tell apart: e.g. an injective key), size = size of a pickled value.  Histories are lists of any length; worlds hold any number of instances and one disk. *)
From Coq Require Import ZArith List Bool String Ascii.
From DM Require Import Base.PyVal Gen.KMemo Spec.Memo Model.Memo Proofs.MemoFacts Run.SC20 Run.RC20 Proofs.MemoRunFacts
                       Spec.MemoExn Model.MemoExn Proofs.MemoExnFacts
                       Spec.MemoKey Model.MemoKey Proofs.MemoKeyFacts Proofs.MemoKeyedFacts Proofs.MemoSerialFacts
                       Spec.MemoLazy Model.MemoLazy Proofs.MemoLazyFacts.
Import ListNotations.
Open Scope Z_scope.

(* transparency: in every history from the initial world, every call on an instance without an explicit key
   returns f(args) -- EV_tr o a ev := xkey o = None -> e_ret ev = f a; tr_ok applies it to every call event *)
Theorem C20_memo_transparent :
  forall (A K V F : Type) (f : A -> V) (key_of : A -> K) (thunks : A -> nat) (size : V -> Z)
         (keqb : K -> K -> bool) (feqb : F -> F -> bool),
    (forall a b : K, keqb a b = true <-> a = b) -> (forall a b : F, feqb a b = true <-> a = b) ->
    (forall a b : A, key_of a = key_of b -> f a = f b) ->
    forall ops : list (op A K F),
      Forall (fun p => match p with ONew o => opts_ok A K F key_of o | _ => True end) ops ->
      tr_ok A K V F (EV_tr A K V F f) [] (snd (wrun A K V F f key_of thunks size keqb feqb w0 ops)).
Proof. exact memo_transparent_w0. Qed.
Print Assumptions C20_memo_transparent.

(* ... and from any world satisfying the invariant (stored values are values of f at their key) *)
Theorem C20_memo_transparent_inv :
  forall (A K V F : Type) (f : A -> V) (key_of : A -> K) (thunks : A -> nat) (size : V -> Z)
         (keqb : K -> K -> bool) (feqb : F -> F -> bool),
    (forall a b : K, keqb a b = true <-> a = b) -> (forall a b : F, feqb a b = true <-> a = b) ->
    (forall a b : A, key_of a = key_of b -> f a = f b) ->
    forall (w : world K V F) (ops : list (op A K F)),
      WI K V F (PI_tr A K V F f key_of) (PD_tr A K V F f key_of) w ->
      Forall (fun p => match p with ONew o => opts_ok A K F key_of o | _ => True end) ops ->
      tr_ok A K V F (EV_tr A K V F f) (map fst (insts w)) (snd (wrun A K V F f key_of thunks size keqb feqb w ops)).
Proof. exact memo_transparent. Qed.
Print Assumptions C20_memo_transparent_inv.

(* at most once: from any state (e.g. right after clear()), in any clear-free history of one instance in which
   no store evicts, the body runs at most once per key -- in-memory and persistent mode *)
Theorem C20_memo_at_most_once :
  forall (A K V F : Type) (f : A -> V) (key_of : A -> K) (thunks : A -> nat) (size : V -> Z)
         (keqb : K -> K -> bool) (feqb : F -> F -> bool),
    (forall a b : K, keqb a b = true <-> a = b) -> (forall a b : F, feqb a b = true <-> a = b) ->
    forall (o : opts K F) (st : inst K V) (d : list (F * K * V)) (ops : list (iop A)) (k : K),
      clear_free A ops -> evict_free A K V F f key_of thunks size keqb feqb o st d ops ->
      (runs A K V F key_of keqb o k (fst (fst (irun A K V F f key_of thunks size keqb feqb o st d ops))) <= 1)%nat.
Proof. exact memo_at_most_once. Qed.
Print Assumptions C20_memo_at_most_once.

(* ... and never for a key that is stored when the history starts *)
Theorem C20_memo_stored_never_reruns :
  forall (A K V F : Type) (f : A -> V) (key_of : A -> K) (thunks : A -> nat) (size : V -> Z)
         (keqb : K -> K -> bool) (feqb : F -> F -> bool),
    (forall a b : K, keqb a b = true <-> a = b) -> (forall a b : F, feqb a b = true <-> a = b) ->
    forall (o : opts K F) (st : inst K V) (d : list (F * K * V)) (ops : list (iop A)) (k : K),
      clear_free A ops -> evict_free A K V F f key_of thunks size keqb feqb o st d ops ->
      ign st = false -> stored K V F keqb feqb o (cache st) d k <> None ->
      runs A K V F key_of keqb o k (fst (fst (irun A K V F f key_of thunks size keqb feqb o st d ops))) = 0%nat.
Proof. exact memo_stored_never_reruns. Qed.
Print Assumptions C20_memo_stored_never_reruns.

(* clear(): from any state, exactly the next call re-executes (whatever is stored), the flag is consumed, and
   the call after it with the same arguments is served from the store if the value alone fits *)
Theorem C20_memo_clear_next_only :
  forall (A K V F : Type) (f : A -> V) (key_of : A -> K) (thunks : A -> nat) (size : V -> Z)
         (keqb : K -> K -> bool) (feqb : F -> F -> bool),
    (forall a b : K, keqb a b = true <-> a = b) -> (forall a b : F, feqb a b = true <-> a = b) ->
    forall (o : opts K F) (st : inst K V) (d : list (F * K * V)) (a : A) (ev1 : event K V)
           (st1 : inst K V) (d1 : list (F * K * V)),
      icall A K V F f key_of thunks size keqb feqb o (iclear K V st) d a = (ev1, st1, d1) ->
      e_ran ev1 = true /\ e_ret ev1 = f a /\ ign st1 = false /\
      (fits K V F size o (f a) ->
       forall (ev2 : event K V) (st2 : inst K V) (d2 : list (F * K * V)),
         icall A K V F f key_of thunks size keqb feqb o st1 d1 a = (ev2, st2, d2) ->
         e_ran ev2 = false /\ e_ret ev2 = f a /\ cache st2 = cache st1 /\ d2 = d1).
Proof. exact memo_clear_next_only. Qed.
Print Assumptions C20_memo_clear_next_only.

(* size bound: in every history from the initial world, cache_size after every call is at most max_size, and
   so is the content of every instance at the end *)
Theorem C20_memo_size_bound :
  forall (A K V F : Type) (f : A -> V) (key_of : A -> K) (thunks : A -> nat) (size : V -> Z)
         (keqb : K -> K -> bool) (feqb : F -> F -> bool),
    (forall v : V, 0 <= size v) ->
    forall ops : list (op A K F),
      Forall (fun p => match p with ONew o => 0 <= max_size o | _ => True end) ops ->
      tr_ok A K V F (EV_bound A K V F) [] (snd (wrun A K V F f key_of thunks size keqb feqb w0 ops)) /\
      Forall (fun os => total K V size (cache (snd os)) <= max_size (fst os))
             (insts (fst (wrun A K V F f key_of thunks size keqb feqb w0 ops))).
Proof. exact memo_size_bound_w0. Qed.
Print Assumptions C20_memo_size_bound.

(* FIFO: from any state, what a store drops is a prefix of the insertion order (oldest first), and an entry is
   dropped only while keeping it would exceed max_size *)
Theorem C20_memo_fifo :
  forall (A K V F : Type) (f : A -> V) (key_of : A -> K) (thunks : A -> nat) (size : V -> Z)
         (keqb : K -> K -> bool) (feqb : F -> F -> bool)
         (o : opts K F) (st : inst K V) (d : list (F * K * V)) (a : A) (ev : event K V)
         (st1 : inst K V) (d1 : list (F * K * V)),
    icall A K V F f key_of thunks size keqb feqb o st d a = (ev, st1, d1) ->
    persistent o = false -> e_ran ev = true ->
    exists dropped : list (K * V),
      forget A K V F key_of keqb o st a ++ [(key A K F key_of o a, f a)] = dropped ++ cache st1 /\
      (forall (dr : list (K * V)) (x : K * V),
         dropped = dr ++ [x] -> total K V size (x :: cache st1) > max_size o).
Proof. exact memo_fifo. Qed.
Print Assumptions C20_memo_fifo.

(* persistence: a result returned by a persistent instance is returned, without running the body, by a NEW
   persistent instance on the same folder, after any clear-free activity of any instances in between *)
Theorem C20_memo_persistent_shared :
  forall (A K V F : Type) (f : A -> V) (key_of : A -> K) (thunks : A -> nat) (size : V -> Z)
         (keqb : K -> K -> bool) (feqb : F -> F -> bool),
    (forall a b : K, keqb a b = true <-> a = b) -> (forall a b : F, feqb a b = true <-> a = b) ->
    forall (w : world K V F) (i : nat) (o : opts K F) (st : inst K V) (a : A) (mid : list (op A K F)) (o' : opts K F),
      nth_error (insts w) i = Some (o, st) -> persistent o = true ->
      Forall (fun os : opts K F * inst K V => ign (snd os) = false)
             (insts (fst (wstep A K V F f key_of thunks size keqb feqb w (OCall i a)))) ->
      Forall (no_clear A K F) mid ->
      persistent o' = true -> folder o' = folder o -> key A K F key_of o' a = key A K F key_of o a ->
      let w2 := fst (wrun A K V F f key_of thunks size keqb feqb
                          (fst (wstep A K V F f key_of thunks size keqb feqb w (OCall i a))) mid) in
      let j := List.length (insts w2) in
      exists ev1 ev2 : event K V,
        snd (wstep A K V F f key_of thunks size keqb feqb w (OCall i a)) = TCall i a ev1 /\
        snd (wrun A K V F f key_of thunks size keqb feqb w2 [ONew o'; OCall j a]) = [TNew o'; TCall j a ev2] /\
        e_ran ev2 = false /\ e_ret ev2 = e_ret ev1.
Proof. exact memo_persistent_shared. Qed.
Print Assumptions C20_memo_persistent_shared.

(* explicit key: the key does not depend on the arguments; a second call with ANY arguments is a hit *)
Theorem C20_memo_explicit_key :
  forall (A K V F : Type) (f : A -> V) (key_of : A -> K) (thunks : A -> nat) (size : V -> Z)
         (keqb : K -> K -> bool) (feqb : F -> F -> bool),
    (forall a b : K, keqb a b = true <-> a = b) -> (forall a b : F, feqb a b = true <-> a = b) ->
    forall (o : opts K F) (x : K) (st : inst K V) (d : list (F * K * V)) (a b : A)
           (ev1 : event K V) (st1 : inst K V) (d1 : list (F * K * V)) (ev2 : event K V)
           (st2 : inst K V) (d2 : list (F * K * V)),
      xkey o = Some x ->
      icall A K V F f key_of thunks size keqb feqb o st d a = (ev1, st1, d1) ->
      fits K V F size o (f a) ->
      icall A K V F f key_of thunks size keqb feqb o st1 d1 b = (ev2, st2, d2) ->
      key A K F key_of o a = x /\ key A K F key_of o b = x /\ e_ran ev2 = false /\ e_ret ev2 = e_ret ev1.
Proof. exact memo_explicit_key. Qed.
Print Assumptions C20_memo_explicit_key.

(* laziness: callable arguments are evaluated exactly when the body runs in lazy mode, never on a hit *)
Theorem C20_memo_lazy :
  forall (A K V F : Type) (f : A -> V) (key_of : A -> K) (thunks : A -> nat) (size : V -> Z)
         (keqb : K -> K -> bool) (feqb : F -> F -> bool)
         (o : opts K F) (st : inst K V) (d : list (F * K * V)) (a : A) (ev : event K V)
         (st1 : inst K V) (d1 : list (F * K * V)),
    icall A K V F f key_of thunks size keqb feqb o st d a = (ev, st1, d1) ->
    e_forced ev = (if e_ran ev && lazy o then thunks a else 0%nat).
Proof. exact memo_lazy. Qed.
Print Assumptions C20_memo_lazy.

(* L1 refines L0: the acceptor written from the property text accepts every trace of the model *)
Theorem C20_model_accepted :
  forall (A K V F : Type) (f : A -> V) (key_of : A -> K) (thunks : A -> nat) (size : V -> Z)
         (keqb : K -> K -> bool) (veqb : V -> V -> bool) (feqb : F -> F -> bool),
    (forall a b : K, keqb a b = true <-> a = b) -> (forall a b : F, feqb a b = true <-> a = b) ->
    (forall v : V, veqb v v = true) -> (forall a b : A, key_of a = key_of b -> f a = f b) ->
    forall ops : list (op A K F),
      Forall (new_ok A K F key_of) ops ->
      accept A K V F f key_of thunks size keqb veqb feqb w0
             (snd (wrun A K V F f key_of thunks size keqb feqb w0 ops)) = true.
Proof. exact model_accepted_w0. Qed.
Print Assumptions C20_model_accepted.

(* ... in particular the oracle of the generated cases accepts the model of the generated cases *)
Theorem C20_oracle_accepts_model :
  forall (sizes : list (Z * Z)) (ops : list (op nat Z Z)),
    Forall (new_ok nat Z Z ckey) ops -> oracle sizes (model_trace sizes ops) = true.
Proof. exact oracle_accepts_model. Qed.
Print Assumptions C20_oracle_accepts_model.

(* ================= the key derivation (Spec/MemoKey.v, Model/MemoKey.v) =================
   arg / call: the argument alphabet; call_eqvb: "the same argument list" (L0: tuple ~ list, keyword and dict order
   irrelevant, everything else distinguished); memkey_text: the text _memkey hashes, computed as the code does
   (dispatch chain, sort key and list elements regenerated from the source; json.dumps on scalars and repr by explicit
   printers); call_okb: the alphabet of the theorems (every string -- str arguments, dict keys, keyword names, the
   function name, the JSON text of a DataMatrix -- is printable ASCII, quote characters and backslashes included:
   the escaping done by json.dumps and by repr is inside the proof; control and non-ASCII characters are inside
   the model and the correspondence only; finite floats; identifiers as callable names; the JSON text of a
   DataMatrix is an opaque string starting with a brace -- that it determines the table is C17_json_injective;
   json.dumps writes printable ASCII only, so every DataMatrix is covered).
   Premises that are hypotheses, not theorems: float_repr (float.__repr__ through json.dumps) is injective on finite
   floats and has the shape float_textb; md5 is injective on the hashed texts (md5_injective). *)

(* two argument lists (of possibly different functions) with the same hashed text are the same argument list of
   the same function *)
Theorem C20_key_text_injective :
  forall float_repr : fl -> text,
    (forall f g, float_okb f = true -> float_okb g = true -> float_repr f = float_repr g -> f = g) ->
    (forall f, float_okb f = true -> float_textb (float_repr f) = true) ->
    forall (name name' : string) (c c' : call),
      call_okb name c = true -> call_okb name' c' = true ->
      memkey_text float_repr name c = memkey_text float_repr name' c' ->
      name = name' /\ call_eqvb c c' = true.
Proof. exact key_text_injective. Qed.
Print Assumptions C20_key_text_injective.

(* the same argument list gets the same text: tuple or list, keywords and dict items in any order *)
Theorem C20_key_text_complete :
  forall (float_repr : fl -> text) (name : string) (c c' : call),
    call_okb name c = true -> call_okb name c' = true -> call_eqvb c c' = true ->
    memkey_text float_repr name c = memkey_text float_repr name c'.
Proof. exact key_text_complete. Qed.
Print Assumptions C20_key_text_complete.

(* the key itself, md5 taken as injective on the texts *)
Theorem C20_key_injective :
  forall float_repr : fl -> text,
    (forall f g, float_okb f = true -> float_okb g = true -> float_repr f = float_repr g -> f = g) ->
    (forall f, float_okb f = true -> float_textb (float_repr f) = true) ->
    forall (K : Type) (md5 : text -> K),
      (forall a b : text, md5 a = md5 b -> a = b) ->
      forall (name name' : string) (c c' : call),
        call_okb name c = true -> call_okb name' c' = true ->
        memkey_md5 float_repr md5 name c = memkey_md5 float_repr md5 name' c' ->
        name = name' /\ call_eqvb c c' = true.
Proof. exact key_injective. Qed.
Print Assumptions C20_key_injective.

Theorem C20_key_complete :
  forall (float_repr : fl -> text) (K : Type) (md5 : text -> K) (name : string) (c c' : call),
    call_okb name c = true -> call_okb name c' = true -> call_eqvb c c' = true ->
    memkey_md5 float_repr md5 name c = memkey_md5 float_repr md5 name c'.
Proof. exact key_complete. Qed.
Print Assumptions C20_key_complete.

(* repr of the serialised structure (strings of printable ASCII between the quote character repr chooses, with
   backslash and that quote escaped; lists; dicts) is self-delimiting: a text has one reading *)
Theorem C20_repr_self_delimiting :
  forall x y : ser, ser_okb x = true -> ser_okb y = true -> repr_ser x = repr_ser y -> x = y.
Proof. exact repr_ser_inj. Qed.
Print Assumptions C20_repr_self_delimiting.

(* transparency with THIS key: arguments = argument lists of the alphabet, key = md5 of the hashed text, body = any
   function that does not tell the same argument list apart (a tuple from a list, one keyword order from another):
   in every history from the initial world every call without an explicit key returns body(args) *)
Theorem C20_keyed_transparent :
  forall (V F K : Type) (float_repr : fl -> text),
    (forall f g, float_okb f = true -> float_okb g = true -> float_repr f = float_repr g -> f = g) ->
    (forall f, float_okb f = true -> float_textb (float_repr f) = true) ->
    forall md5 : text -> K, (forall a b : text, md5 a = md5 b -> a = b) ->
    forall (name : string) (body : call -> V),
      (forall c c', call_eqvb c c' = true -> body c = body c') ->
    forall (nthunks : call -> nat) (size : V -> Z) (keqb : K -> K -> bool) (feqb : F -> F -> bool),
      (forall a b : K, keqb a b = true <-> a = b) -> (forall a b : F, feqb a b = true <-> a = b) ->
    forall ops : list (op (okcall name) K F),
      Forall (fun p => match p with ONew o => opts_ok (okcall name) K F (kkey K float_repr md5 name) o | _ => True end) ops ->
      tr_ok (okcall name) K V F (EV_tr (okcall name) K V F (kf V name body)) []
            (snd (wrun (okcall name) K V F (kf V name body) (kkey K float_repr md5 name) (kthunks name nthunks)
                       size keqb feqb w0 ops)).
Proof. exact keyed_transparent. Qed.
Print Assumptions C20_keyed_transparent.

(* at most once with THIS key, per argument list up to the property's equivalence: in a clear-free history of one
   instance without an explicit key in which no store evicts, the body runs at most once on argument lists that
   are the same as c0 (whatever mixture of tuples / lists / keyword orders the calls use) *)
Theorem C20_keyed_at_most_once :
  forall (V F K : Type) (float_repr : fl -> text),
    (forall f g, float_okb f = true -> float_okb g = true -> float_repr f = float_repr g -> f = g) ->
    (forall f, float_okb f = true -> float_textb (float_repr f) = true) ->
    forall md5 : text -> K, (forall a b : text, md5 a = md5 b -> a = b) ->
    forall (name : string) (body : call -> V) (nthunks : call -> nat) (size : V -> Z)
           (keqb : K -> K -> bool) (feqb : F -> F -> bool),
      (forall a b : K, keqb a b = true <-> a = b) -> (forall a b : F, feqb a b = true <-> a = b) ->
    forall (o : opts K F) (st : inst K V) (d : list (F * K * V)) (ops : list (iop (okcall name))) (c0 : okcall name),
      xkey o = None ->
      clear_free (okcall name) ops ->
      evict_free (okcall name) K V F (kf V name body) (kkey K float_repr md5 name) (kthunks name nthunks)
                 size keqb feqb o st d ops ->
      (runs_eqv V K name c0
         (fst (fst (irun (okcall name) K V F (kf V name body) (kkey K float_repr md5 name) (kthunks name nthunks)
                         size keqb feqb o st d ops))) <= 1)%nat.
Proof. exact keyed_at_most_once. Qed.
Print Assumptions C20_keyed_at_most_once.

(* ================= the stores hold serialised copies (Model/Memo.v, Section MemoSerialised) =================
   dumps / loads = pickle.dumps / pickle.loads, psize = sys.getsizeof of the bytes.  The only thing assumed about
   pickle is the round trip loads (dumps v) = v (and only where stated). *)

(* the serialised model produces, from the pickled image of any by-value world, the same trace as the by-value
   model (whose size function is the size of the pickle) and ends in the pickled image of its final world: every
   theorem above about traces holds for the model whose stores hold bytes *)
Theorem C20_serialised_simulates :
  forall (A K V P F : Type) (f : A -> V) (key_of : A -> K) (thunks : A -> nat)
         (dumps : V -> P) (loads : P -> V) (psize : P -> Z) (keqb : K -> K -> bool) (feqb : F -> F -> bool),
    (forall v, loads (dumps v) = v) ->
    forall (ops : list (op A K F)) (w : world K V F),
      wrun_s A K V P F f key_of thunks dumps loads psize keqb feqb (pw K V P F dumps w) ops
      = (pw K V P F dumps (fst (wrun A K V F f key_of thunks (vsize V P dumps psize) keqb feqb w ops)),
         snd (wrun A K V F f key_of thunks (vsize V P dumps psize) keqb feqb w ops)).
Proof. exact wrun_sim. Qed.
Print Assumptions C20_serialised_simulates.

(* ... e.g. transparency *)
Theorem C20_serialised_transparent :
  forall (A K V P F : Type) (f : A -> V) (key_of : A -> K) (thunks : A -> nat)
         (dumps : V -> P) (loads : P -> V) (psize : P -> Z) (keqb : K -> K -> bool) (feqb : F -> F -> bool),
    (forall v, loads (dumps v) = v) ->
    (forall a b : K, keqb a b = true <-> a = b) -> (forall a b : F, feqb a b = true <-> a = b) ->
    (forall a b : A, key_of a = key_of b -> f a = f b) ->
    forall ops : list (op A K F),
      Forall (fun p => match p with ONew o => opts_ok A K F key_of o | _ => True end) ops ->
      tr_ok A K V F (EV_tr A K V F f) []
            (snd (wrun_s A K V P F f key_of thunks dumps loads psize keqb feqb w0 ops)).
Proof. exact serial_transparent_w0. Qed.
Print Assumptions C20_serialised_transparent.

(* isolation, as far as a by-value model can say it: from ANY state of the serialised model (no assumption on
   pickle), a call that executes stores dumps (f a), and the next call with the same arguments does not execute and
   returns loads (dumps (f a)) -- an object rebuilt from the stored bytes, not the object handed out before; no
   state of this model holds a value, only bytes.  (Coq values are immutable: that the implementation really does
   not keep or hand out a shared object is probed by the harness after every call, not proved.) *)
Theorem C20_serialised_isolation :
  forall (A K V P F : Type) (f : A -> V) (key_of : A -> K) (thunks : A -> nat)
         (dumps : V -> P) (loads : P -> V) (psize : P -> Z) (keqb : K -> K -> bool) (feqb : F -> F -> bool),
    (forall a b : K, keqb a b = true <-> a = b) -> (forall a b : F, feqb a b = true <-> a = b) ->
    forall (o : opts K F) (st : inst K P) (d : list (F * K * P)) (a : A)
           (ev1 : event K V) (st1 : inst K P) (d1 : list (F * K * P)),
      icall_s A K V P F f key_of thunks dumps loads psize keqb feqb o st d a = (ev1, st1, d1) ->
      e_ran ev1 = true -> fits_s K P F psize o (dumps (f a)) ->
      forall (ev2 : event K V) (st2 : inst K P) (d2 : list (F * K * P)),
        icall_s A K V P F f key_of thunks dumps loads psize keqb feqb o st1 d1 a = (ev2, st2, d2) ->
        e_ran ev2 = false /\ e_ret ev2 = loads (dumps (f a)) /\ cache st2 = cache st1 /\ d2 = d1.
Proof. exact serial_isolation. Qed.
Print Assumptions C20_serialised_isolation.

(* ---- non-vacuity ---- *)
Definition ex_sizes : list (Z * Z) := [(1, 100); (2, 100); (3, 100)].
Definition ex_ops : list (op nat Z Z) :=
  [ONew (mo false None true 250 0); OCall 0 1%nat; OCall 0 2%nat; OCall 0 1%nat; OCall 0 1003%nat;
   OCall 0 1%nat; OClear 0; OCall 0 1003%nat; OCall 0 1003%nat;
   ONew (mo true (Some (-1)) false 0 7); OCall 1 2%nat; ONew (mo true (Some (-1)) false 0 7); OCall 2 3%nat].
(* the premises of the world theorems hold for it *)
Example C20_ex_new_ok : Forall (new_ok nat Z Z ckey) ex_ops.
Proof.
  repeat constructor; simpl; try discriminate; intros a H; unfold ckey in H;
    pose proof (Nat2Z.is_nonneg a) as G; rewrite H in G; apply G; reflexivity.
Qed.
(* runs, hit, eviction of the oldest entry (class 1 re-executes after 1003 was stored), forced thunk,
   clear, persistent explicit key shared by a new instance *)
Example C20_ex_trace :
  map (fun t => match t with TCall _ a e => (Z.of_nat a, e_ran e, e_ret e, Z.of_nat (e_forced e), e_keys e) | _ => (0, false, 0, 0, []) end)
      (model_trace ex_sizes ex_ops)
  = [(0, false, 0, 0, []); (1, true, 1, 0, [1]); (2, true, 2, 0, [1; 2]); (1, false, 1, 0, [1; 2]);
     (1003, true, 3, 1, [2; 1003]); (1, true, 1, 0, [1003; 1]); (0, false, 0, 0, []);
     (1003, true, 3, 1, [1; 1003]); (1003, false, 3, 0, [1; 1003]);
     (0, false, 0, 0, []); (2, true, 2, 0, []); (0, false, 0, 0, []); (3, false, 2, 0, [])].
Proof. vm_compute. reflexivity. Qed.
Example C20_ex_accepted : oracle ex_sizes (model_trace ex_sizes ex_ops) = true.
Proof. vm_compute. reflexivity. Qed.
(* the oracle is not trivially true: a second execution of a stored key is rejected, and so is a wrong value *)
Example C20_ex_rejects_rerun :
  oracle ex_sizes [tN (mo false None false 250 0); tC 0 1 (me 1 true 0 [1] 100 []); tC 0 1 (me 1 true 0 [1] 100 [])] = false.
Proof. vm_compute. reflexivity. Qed.
Example C20_ex_rejects_wrong_value :
  oracle ex_sizes [tN (mo false None false 250 0); tC 0 1 (me 1 true 0 [1] 100 []); tC 0 2 (me 1 false 0 [1] 100 [])] = false.
Proof. vm_compute. reflexivity. Qed.
Example C20_ex_rejects_lifo :
  oracle ex_sizes [tN (mo false None false 250 0); tC 0 1 (me 1 true 0 [1] 100 []); tC 0 2 (me 2 true 0 [1; 2] 200 []);
                   tC 0 3 (me 3 true 0 [1; 2] 200 [])] = false.
Proof. vm_compute. reflexivity. Qed.

(* ---- the key derivation: non-vacuity ---- *)
(* the hypotheses about the float printer and about md5 are satisfiable (a printer of the required shape that is
   injective on finite floats; the identity as "hash") *)
Example C20_ex_key_hypotheses_satisfiable :
  (forall f g, float_okb f = true -> float_okb g = true -> demo_float_repr f = demo_float_repr g -> f = g)
  /\ (forall f, float_okb f = true -> float_textb (demo_float_repr f) = true)
  /\ (forall a b : text, (fun t : text => t) a = (fun t : text => t) b -> a = b).
Proof. split; [exact demo_float_repr_inj|split; [exact demo_float_repr_shape|auto]]. Qed.

Definition ex_fr : fl -> text := ftab_repr [(FFin false 1 0, "1.0"%string); (FFin false 3 (-1), "1.5"%string)].
Definition ex_text (a : list arg) (k : list (string * arg)) : string :=
  string_of_list_ascii (memkey_text ex_fr "f" (mkcall a k)).
(* (1,) (1.0,) (True,) ('1',) (None,): five different texts, five different argument lists (Python's == identifies
   the first three) *)
Example C20_ex_key_scalars :
  map (fun x => ex_text [x] []) [AInt 1; AFloat (FFin false 1 0); ABool true; AStr "1"; ANone]
  = ["['f', ['1'], {}]"; "['f', ['1.0'], {}]"; "['f', ['true'], {}]"; "['f', ['""1""'], {}]"; "['f', ['null'], {}]"]%string
  /\ forallb (fun x => forallb (fun y => Bool.eqb (arg_eqvb x y) (call_eqvb (mkcall [x] []) (mkcall [y] [])))
                               [AInt 1; AFloat (FFin false 1 0); ABool true; AStr "1"; ANone])
             [AInt 1; AFloat (FFin false 1 0); ABool true; AStr "1"; ANone] = true
  /\ arg_eqvb (AInt 1) (AFloat (FFin false 1 0)) = false /\ arg_eqvb (AInt 1) (ABool true) = false
  /\ arg_eqvb (AInt 1) (AStr "1") = false /\ arg_eqvb (AFloat (FFin false 1 0)) (ABool true) = false.
Proof. vm_compute. repeat split; reflexivity. Qed.
(* f((1, 2)) and f([1, 2]): the same argument list, the same text; f(1, 2) is another one *)
Example C20_ex_key_tuple_list :
  ex_text [ATuple [AInt 1; AInt 2]] [] = ex_text [AList [AInt 1; AInt 2]] []
  /\ call_eqvb (mkcall [ATuple [AInt 1; AInt 2]] []) (mkcall [AList [AInt 1; AInt 2]] []) = true
  /\ ex_text [AInt 1; AInt 2] [] <> ex_text [AList [AInt 1; AInt 2]] []
  /\ call_eqvb (mkcall [AInt 1; AInt 2] []) (mkcall [AList [AInt 1; AInt 2]] []) = false.
Proof. vm_compute. repeat split; auto; discriminate. Qed.
(* f(a=1, b=2) and f(b=2, a=1); a dict written in two orders (sorted by the repr of the key: 'a!' before 'a') *)
Example C20_ex_key_keyword_order :
  ex_text [] [("a", AInt 1); ("b", AInt 2)]%string = ex_text [] [("b", AInt 2); ("a", AInt 1)]%string
  /\ ex_text [ADict [("a", AInt 1); ("a!", AInt 2)]%string] [] = "['f', [{'a!': '2', 'a': '1'}], {}]"%string
  /\ ex_text [ADict [("a!", AInt 2); ("a", AInt 1)]%string] [] = "['f', [{'a!': '2', 'a': '1'}], {}]"%string
  /\ call_eqvb (mkcall [] [("a", AInt 1); ("b", AInt 2)]%string) (mkcall [] [("b", AInt 2); ("a", AInt 1)]%string) = true
  /\ call_eqvb (mkcall [] [("a", AInt 1); ("b", AInt 2)]%string) (mkcall [] [("a", AInt 2); ("b", AInt 1)]%string) = false.
Proof. vm_compute. repeat split; auto. Qed.
(* the alphabet predicate holds for a call with every kind of argument (the premises of the theorems are inhabited) *)
Example C20_ex_key_alphabet :
  call_okb "f" (mkcall [AInt (-3); AFloat (FFin false 3 (-1)); ABool false; AStr "a b"; ANone;
                        AList [ATuple [AInt 1]; ADict [("k", AStr "x")]%string];
                        ADM "{""rowid"": [0], ""columns"": {""a"": [""MixedColumn"", [1]]}}"; AFun (Some "th_1"%string); AFun None]
                       [("z", ATuple [AInt 4; AInt 5])]%string) = true
  /\ call_okb "f" (mkcall [AStr "it's a ""\"""; ADM "{""a"": ""\u00e9 it's""}"] [("k'", ANone)]%string) = true
  /\ call_okb "f" (mkcall [AStr (sb [9%nat])] []) = false.
Proof. vm_compute. auto. Qed.
(* quotes and backslashes: strings that differ only in what gets escaped still get different texts; a key holding a
   single quote is written between double quotes *)
Example C20_ex_key_escapes :
  map (fun x => ex_text [x] []) [AStr "a'b"; AStr "a\'b"; AStr "a""b"; AStr "a', 'b"]
  = ["['f', ['""a\'b""'], {}]"; "['f', ['""a\\\\\'b""'], {}]"; "['f', ['""a\\""b""'], {}]"; "['f', ['""a\', \'b""'], {}]"]%string
  /\ ex_text [] [("it's", AInt 1)]%string = "['f', [], {""it's"": '1'}]"%string.
Proof. vm_compute. auto. Qed.

(* the numbers returned by column statistics (col.mean, col.max, ...: floats that are callable for backwards
   compatibility) are keyed by value like any other number, not by name like a function -- on the regenerated dispatch
   chain of _serialize_obj (repaired: every such argument was keyed as '__nameless__', so f(dm.a.mean) and f(dm.a.max)
   shared one entry) *)
Theorem C20_callable_numbers_keyed_by_value : forall has_name : bool,
  k_serialize_obj true true has_name false false false false = BDumps.
Proof. exact k_serialize_obj_callable_value. Qed.
Print Assumptions C20_callable_numbers_keyed_by_value.

(* ---- lazy=True: the walk of _lazy_evaluation_obj over the argument list (Model/MemoLazy.v, every decision through the
   regenerated dispatch chain k_lazy_obj and the test k_lazy_test; the comprehensions of _lazy_evaluation_args /
   _lazy_evaluation_kwargs are pinned) ---- *)
(* every callable of the argument list -- an argument, a keyword value, or a member of a list / tuple / dict at any
   depth -- is evaluated exactly once when the body runs *)
Theorem C20_lazy_forces_every_callable_once : forall c : call,
  lazy_call_forced true c = nfuns_call c.
Proof. exact lazy_call_forced_all. Qed.
Print Assumptions C20_lazy_forces_every_callable_once.

(* the body never receives a callable (the values of the callables hold none: they are not evaluated again) *)
Theorem C20_lazy_body_receives_no_callable : forall value_of : option string -> arg,
  (forall n, nfuns (value_of n) = 0%nat) ->
  forall c : call, nfuns_call (lazy_call value_of true c) = 0%nat.
Proof. exact lazy_call_no_callable. Qed.
Print Assumptions C20_lazy_body_receives_no_callable.

(* what the body receives is the argument list of the L0 spec -- every callable replaced by its value, nothing else
   changed -- up to the property's argument equivalence (a tuple may have become a list) *)
Theorem C20_lazy_body_receives_evaluated_arguments : forall value_of : option string -> arg,
  (forall n, arg_eqvb (value_of n) (value_of n) = true) ->
  forall c : call, call_wfb c = true -> call_eqvb (lazy_call value_of true c) (eval_call value_of c) = true.
Proof. exact lazy_call_refines. Qed.
Print Assumptions C20_lazy_body_receives_evaluated_arguments.

(* without lazy=True nothing is evaluated and the argument list is passed on as it is *)
Theorem C20_lazy_off : forall (value_of : option string -> arg) (c : call),
  lazy_call value_of false c = c /\ lazy_call_forced false c = 0%nat.
Proof. exact lazy_call_off. Qed.
Print Assumptions C20_lazy_off.

(* non-vacuity: f({'left': [g], 'right': [h, 10]}, extra=[(k, 'x')]) -- no direct member of either container is
   callable; three callables are evaluated, the body receives the numbers *)
Definition ex_lazy_tab : list (string * arg) := [("g", AInt 1); ("h", AInt 2); ("k", AInt 3)]%string.
Definition ex_lazy_call : call :=
  mkcall [ADict [("left", AList [AFun (Some "g")]); ("right", AList [AFun (Some "h"); AInt 10])]]%string
         [("extra", AList [ATuple [AFun (Some "k"); AStr "x"]])]%string.
Example C20_ex_lazy :
  lazy_call (fun_table ex_lazy_tab) true ex_lazy_call
  = mkcall [ADict [("left", AList [AInt 1]); ("right", AList [AInt 2; AInt 10])]]%string
           [("extra", AList [AList [AInt 3; AStr "x"]])]%string
  /\ lazy_call_forced true ex_lazy_call = 3%nat
  /\ lazy_observed_ok ex_lazy_tab ex_lazy_call (lazy_call (fun_table ex_lazy_tab) true ex_lazy_call) 3 = true
  /\ lazy_agrees ex_lazy_tab true ex_lazy_call (lazy_call (fun_table ex_lazy_tab) true ex_lazy_call) 3 = true
  (* an implementation that passes the containers on untouched is rejected by the oracle *)
  /\ lazy_observed_ok ex_lazy_tab ex_lazy_call ex_lazy_call 0 = false.
Proof. vm_compute. repeat split; reflexivity. Qed.

(* ---------------------------------------------------------------------------------------------------------------
   Calls that RAISE (Spec/MemoExn.v, Model/MemoExn.v, Proofs/MemoExnFacts.v).  exn a = Some true: the body raises for
   the argument list a; Some false: a callable argument raises while it is evaluated (lazy mode); None: f a is returned.
   --------------------------------------------------------------------------------------------------------------- *)

(* clear() followed by a call that raises: THAT call is "the next call" -- the flag is reset by its lookup (kernel
   k_read_cache), nothing is stored for its key, and whatever was stored for any OTHER key is served from the store by
   the call after it (the body does not run, no callable is evaluated) *)
Theorem C20_memo_raise_consumes_clear :
  forall (A K V F : Type) (f : A -> V) (exn : A -> option bool) (key_of : A -> K) (thunks : A -> nat) (size : V -> Z)
         (keqb : K -> K -> bool) (feqb : F -> F -> bool),
    (forall a b : K, keqb a b = true <-> a = b) -> (forall a b : F, feqb a b = true <-> a = b) ->
    forall (o : opts K F) (st : inst K V) (d : list (F * K * V)) (a : A) (x : xevent K) (st1 : inst K V)
           (d1 : list (F * K * V)),
      icall_x A K V F f exn key_of thunks size keqb feqb o (iclear K V st) d a = (inr x, st1, d1) ->
      ign st1 = false
      /\ stored K V F keqb feqb o (cache st1) d1 (key A K F key_of o a) = None
      /\ forall (b : A) (v : V), key A K F key_of o b <> key A K F key_of o a ->
           stored K V F keqb feqb o (cache st) d (key A K F key_of o b) = Some v ->
           exists ev st2, icall A K V F f key_of thunks size keqb feqb o st1 d1 b = (ev, st2, d1)
                          /\ e_ran ev = false /\ e_ret ev = v /\ e_forced ev = 0%nat.
Proof. exact memo_raise_consumes_clear. Qed.
Print Assumptions C20_memo_raise_consumes_clear.

(* a raising call that does not follow clear() changes nothing: no entry, no file, no flag *)
Theorem C20_memo_raise_changes_nothing :
  forall (A K V F : Type) (f : A -> V) (exn : A -> option bool) (key_of : A -> K) (thunks : A -> nat) (size : V -> Z)
         (keqb : K -> K -> bool) (feqb : F -> F -> bool),
    forall (o : opts K F) (st : inst K V) (d : list (F * K * V)) (a : A) (x : xevent K) (st1 : inst K V)
           (d1 : list (F * K * V)),
      ign st = false -> icall_x A K V F f exn key_of thunks size keqb feqb o st d a = (inr x, st1, d1) ->
      cache st1 = cache st /\ d1 = d /\ ign st1 = false.
Proof. exact memo_raise_changes_nothing. Qed.
Print Assumptions C20_memo_raise_changes_nothing.

(* a call raises only on a miss, with the body / the callables run as the outcome says *)
Theorem C20_memo_raise_only_on_miss :
  forall (A K V F : Type) (f : A -> V) (exn : A -> option bool) (key_of : A -> K) (thunks : A -> nat) (size : V -> Z)
         (keqb : K -> K -> bool) (feqb : F -> F -> bool),
    forall (o : opts K F) (st : inst K V) (d : list (F * K * V)) (a : A) (x : xevent K) (st1 : inst K V)
           (d1 : list (F * K * V)),
      icall_x A K V F f exn key_of thunks size keqb feqb o st d a = (inr x, st1, d1) ->
      exists b, raises_at A K F exn o a = Some b /\ x_ran x = b /\ x_forced x = (if lazy o then thunks a else 0%nat)
        /\ stored K V F keqb feqb o (forget A K V F key_of keqb o st a) (dforget A K V F key_of keqb feqb o st d a)
                  (key A K F key_of o a) = None
        /\ st1 = {| cache := forget A K V F key_of keqb o st a; ign := false |}
        /\ d1 = dforget A K V F key_of keqb feqb o st d a
        /\ x_keys x = map fst (forget A K V F key_of keqb o st a)
        /\ x_csize x = total K V size (forget A K V F key_of keqb o st a)
        /\ x_files x = dkeys K V F feqb (folder o) (dforget A K V F key_of keqb feqb o st d a).
Proof. exact icall_x_raise. Qed.
Print Assumptions C20_memo_raise_only_on_miss.

(* where no call raises, the model with raising calls is the model of Model/Memo.v and the extended acceptor is the
   acceptor of Spec/Memo.v: every theorem above applies to the returning calls of such histories *)
Theorem C20_memo_exn_conservative_model :
  forall (A K V F : Type) (f : A -> V) (exn : A -> option bool) (key_of : A -> K) (thunks : A -> nat) (size : V -> Z)
         (keqb : K -> K -> bool) (feqb : F -> F -> bool) (o : opts K F) (st : inst K V) (d : list (F * K * V)) (a : A),
    raises_at A K F exn o a = None ->
    icall_x A K V F f exn key_of thunks size keqb feqb o st d a
    = (let '(ev, st1, d1) := icall A K V F f key_of thunks size keqb feqb o st d a in (inl ev, st1, d1)).
Proof. exact icall_x_returns. Qed.
Print Assumptions C20_memo_exn_conservative_model.

Theorem C20_memo_exn_conservative_spec :
  forall (A K V F : Type) (f : A -> V) (exn : A -> option bool) (key_of : A -> K) (thunks : A -> nat) (size : V -> Z)
         (keqb : K -> K -> bool) (veqb : V -> V -> bool) (feqb : F -> F -> bool),
    (forall a, exn a = None) ->
    forall (tr : list (tev A K V F)) (w : world K V F),
      accept_x A K V F f exn key_of thunks size keqb veqb feqb w (map XT tr)
      = accept A K V F f key_of thunks size keqb veqb feqb w tr.
Proof. exact accept_x_conservative. Qed.
Print Assumptions C20_memo_exn_conservative_spec.

(* L1 refines L0 with raising calls: every trace of the model, over every history from the initial world, is accepted *)
Theorem C20_model_x_accepted :
  forall (A K V F : Type) (f : A -> V) (exn : A -> option bool) (key_of : A -> K) (thunks : A -> nat) (size : V -> Z)
         (keqb : K -> K -> bool) (veqb : V -> V -> bool) (feqb : F -> F -> bool),
    (forall a b : K, keqb a b = true <-> a = b) -> (forall a b : F, feqb a b = true <-> a = b) ->
    (forall v : V, veqb v v = true) -> (forall a b : A, key_of a = key_of b -> f a = f b) ->
    forall ops : list (op A K F), Forall (new_ok A K F key_of) ops ->
      accept_x A K V F f exn key_of thunks size keqb veqb feqb w0
               (snd (wrun_x A K V F f exn key_of thunks size keqb feqb w0 ops)) = true.
Proof. exact model_x_accepted_w0. Qed.
Print Assumptions C20_model_x_accepted.

(* non-vacuity: f 2; f 4; clear(); a raising call; f 4; f 2 -- the raising call re-executes (and raises), the two cached
   results are served from the cache afterwards; the acceptor rejects the trace in which f 4 runs again *)
Definition exn_ops : list (op nat Z Z) :=
  [ONew (mo false None false 1000 0); OCall 0 2%nat; OCall 0 4%nat; OClear 0; OCall 0 160%nat; OCall 0 4%nat; OCall 0 2%nat].
Example C20_ex_raise_trace :
  model_trace_x [(2, 10); (4, 10)] exn_ops
  = [xT (tN (mo false None false 1000 0)); xT (tC 0 2 (me 2 true 0 [2] 10 [])); xT (tC 0 4 (me 4 true 0 [2; 4] 20 []));
     xT (tX 0); xR 0 160 (mx true 0 [2; 4] 20 []); xT (tC 0 4 (me 4 false 0 [2; 4] 20 []));
     xT (tC 0 2 (me 2 false 0 [2; 4] 20 []))].
Proof. vm_compute. reflexivity. Qed.
Example C20_ex_raise_accepted : oracle_x [(2, 10); (4, 10)] (model_trace_x [(2, 10); (4, 10)] exn_ops) = true.
Proof. vm_compute. reflexivity. Qed.
Example C20_ex_raise_rejects_late_rerun :
  oracle_x [(2, 10); (4, 10)]
    [xT (tN (mo false None false 1000 0)); xT (tC 0 2 (me 2 true 0 [2] 10 [])); xT (tC 0 4 (me 4 true 0 [2; 4] 20 []));
     xT (tX 0); xR 0 160 (mx true 0 [2; 4] 20 []); xT (tC 0 4 (me 4 true 0 [2; 4] 20 []))] = false.
Proof. vm_compute. reflexivity. Qed.
