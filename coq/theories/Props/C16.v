(* C16: CSV write then read preserves names, length and cell values.  Statements only.
   d, q: delimiter and quote character (bytes); characters are the bytes of the UTF-8 encoding.
   pint, pflt, shf: CPython's int(str), float(str), repr(float) -- oracles; what the theorems
   need from them are explicit premises. *)
From Coq Require Import ZArith List Bool String Ascii.
From DM Require Import Base.PyVal Base.CsvPy Spec.Nf Spec.Csv Gen.KCheck Model.Store Gen.KCsv Model.Csv Proofs.CsvFacts Proofs.C16Guard.
Import ListNotations.
Open Scope string_scope.

(* the reader automaton of _csv.c inverts the writer, for all records: any field content without CR
   (delimiters, quotes, line feeds, any other byte), empty records, the single empty field *)
Theorem C16_parse_render : forall d q : ascii,
  aeqb d q = false -> nlb d = false -> nlb q = false ->
  forall rows : list (list chars), Forall (Forall nocr) rows ->
  parse d q (render d q [LF] rows) = Ok rows.
Proof. exact parse_render. Qed.
Print Assumptions C16_parse_render.

(* readtxt inverts writetxt: same names, same number of rows, every cell rt_cell of the written one *)
Theorem C16_csv_roundtrip : forall (d q : ascii),
  aeqb d q = false -> nlb d = false -> nlb q = false ->
  forall (pint : string -> option Z) (pflt : string -> option fl) (shf : fl -> string),
  (forall z, pint (show_int z) = Some z) ->
  (forall f, fl_is_finite f = true -> fl_integral f = false -> pint (shf f) = None /\ pflt (shf f) = Some f) ->
  (forall f, nocr (to_chars (shf f))) ->
  pint "nan" = None /\ pflt "nan" = Some FNan ->
  pint "inf" = None /\ pflt "inf" = Some (FInf false) ->
  pint "-inf" = None /\ pflt "-inf" = Some (FInf true) ->
  pint "None" = None /\ pflt "None" = None ->
  forall (names : list string) (rows : list (list val)),
  names <> [] -> NoDup names -> Forall name_wf names ->
  Forall (row_wf pint pflt (List.length names)) rows ->
  exists bytes,
    writetxt shf d q true (names, rows) = Ok bytes /\
    readtxt (fun s => (pint s, pflt s)) d q bytes = Ok (names, map (map rt_cell) rows).
Proof. exact csv_roundtrip. Qed.
Print Assumptions C16_csv_roundtrip.

(* ... and that table satisfies the L0 statement of the property (Spec/Csv.v: roundtrip_ok) *)
Theorem C16_csv_roundtrip_L0 : forall (d q : ascii),
  aeqb d q = false -> nlb d = false -> nlb q = false ->
  forall (pint : string -> option Z) (pflt : string -> option fl) (shf : fl -> string),
  (forall z, pint (show_int z) = Some z) ->
  (forall f, fl_is_finite f = true -> fl_integral f = false -> pint (shf f) = None /\ pflt (shf f) = Some f) ->
  (forall f, nocr (to_chars (shf f))) ->
  pint "nan" = None /\ pflt "nan" = Some FNan ->
  pint "inf" = None /\ pflt "inf" = Some (FInf false) ->
  pint "-inf" = None /\ pflt "-inf" = Some (FInf true) ->
  pint "None" = None /\ pflt "None" = None ->
  forall (names : list string) (rows : list (list val)),
  names <> [] -> NoDup names -> Forall name_wf names ->
  Forall (row_wf pint pflt (List.length names)) rows ->
  exists bytes t',
    writetxt shf d q true (names, rows) = Ok bytes /\
    readtxt (fun s => (pint s, pflt s)) d q bytes = Ok t' /\
    roundtrip_ok (names, rows) t' = true.
Proof. exact csv_roundtrip_L0. Qed.
Print Assumptions C16_csv_roundtrip_L0.

Theorem C16_roundtrip_spec : forall names rows,
  NoDup names -> Forall (fun r : list val => List.length r = List.length names) rows ->
  roundtrip_ok (names, rows) (names, map (map rt_cell) rows) = true.
Proof. exact roundtrip_spec. Qed.
Print Assumptions C16_roundtrip_spec.

(* numbers by value, NaN as NaN, +-inf, text verbatim, None as 'None' *)
Theorem C16_cell_ok_rt : forall v, cell_ok v (rt_cell v) = true.
Proof. exact cell_ok_rt. Qed.
Print Assumptions C16_cell_ok_rt.

(* a byte-order mark in front of the file lands in front of the first header field ... *)
Theorem C16_parse_bom_prefix : forall d q : ascii,
  aeqb d q = false -> nlb d = false -> nlb q = false ->
  forall (bom n : chars) (rest : list chars) (rows : list (list chars)),
  needs_quote d q [LF] bom = false -> needs_quote d q [LF] n = false -> n <> [] ->
  nocr bom -> Forall (Forall nocr) ((n :: rest) :: rows) ->
  parse d q (bom ++ render d q [LF] ((n :: rest) :: rows))%list = Ok (((bom ++ n)%list :: rest) :: rows).
Proof. exact parse_bom_prefix. Qed.
Print Assumptions C16_parse_bom_prefix.

(* ... and is stripped from the column name *)
Theorem C16_header_bom : forall n : string, k_header_name (k_bom ++ n) = n.
Proof. exact header_bom. Qed.
Print Assumptions C16_header_bom.

(* LF, CR LF and CR line endings give the same table *)
Theorem C16_read_newlines_crlf : forall (d q : ascii) (pint : string -> option Z) (pflt : string -> option fl)
  (ls : list chars), Forall plain_line ls ->
  readtxt (fun s => (pint s, pflt s)) d q (to_str (List.concat (map (fun l => (l ++ [CR; LF])%list) ls))) =
  readtxt (fun s => (pint s, pflt s)) d q (to_str (List.concat (map (fun l => (l ++ [LF])%list) ls))).
Proof. exact read_newlines_crlf. Qed.
Print Assumptions C16_read_newlines_crlf.

Theorem C16_read_newlines_cr : forall (d q : ascii) (pint : string -> option Z) (pflt : string -> option fl)
  (ls : list chars), Forall plain_line ls ->
  readtxt (fun s => (pint s, pflt s)) d q (to_str (List.concat (map (fun l => (l ++ [CR])%list) ls))) =
  readtxt (fun s => (pint s, pflt s)) d q (to_str (List.concat (map (fun l => (l ++ [LF])%list) ls))).
Proof. exact read_newlines_cr. Qed.
Print Assumptions C16_read_newlines_cr.

(* reading a file whose records are hdr :: recs (records of any length) gives the table of the L0 reading
   spec: names = hdr, one row per record, cells under their header, missing cells '', extra cells dropped,
   each cell the MixedColumn normal form of its text *)
Theorem C16_read_records_spec : forall (d q : ascii) (c : cls_t) bytes hdr recs,
  read_records d q bytes = Ok (hdr :: recs) ->
  hdr <> [] -> NoDup hdr -> Forall (fun n => String.prefix k_bom n = false) hdr ->
  readtxt c d q bytes = Ok (read_spec c hdr recs).
Proof. exact read_records_spec. Qed.
Print Assumptions C16_read_records_spec.

Theorem C16_read_rendered : forall d q : ascii,
  aeqb d q = false -> nlb d = false -> nlb q = false ->
  forall (c : cls_t) (hdr : list string) (recs : list (list string)),
  Forall (Forall nocr) (map (map to_chars) (hdr :: recs)) ->
  hdr <> [] -> NoDup hdr -> Forall (fun n => String.prefix k_bom n = false) hdr ->
  readtxt c d q (to_str (render d q [LF] (map (map to_chars) (hdr :: recs)))) = Ok (read_spec c hdr recs).
Proof. exact read_rendered. Qed.
Print Assumptions C16_read_rendered.

(* short rows: every record is laid out on its own along the header; present cells keep their
   position, missing ones are m (readtxt uses k_missing = ''), extra ones are dropped *)
Theorem C16_fill_length : forall (m : string) n r, List.length (fill m n r) = n.
Proof. exact fill_length. Qed.
Print Assumptions C16_fill_length.

Theorem C16_fill_nth : forall (m : string) n r i, (i < n)%nat ->
  nth_error (fill m n r) i = if Nat.ltb i (List.length r) then nth_error r i else Some m.
Proof. exact fill_nth. Qed.
Print Assumptions C16_fill_nth.

Theorem C16_missing_is_empty : k_missing = EmptyString.
Proof. reflexivity. Qed.
Print Assumptions C16_missing_is_empty.

(* a DataMatrix with a series column is refused *)
Theorem C16_write_series_typeerror : forall (d q : ascii) (shf : fl -> string) (t : table),
  writetxt shf d q false t = Raise TypeError.
Proof. exact write_series_typeerror. Qed.
Print Assumptions C16_write_series_typeerror.

(* DataMatrix.is_2d (kernel k_is_2d, regenerated from the source): a column object with a depth attribute --
   Some k, for ANY k, 0 included -- anywhere among the columns makes the table not two-dimensional *)
Theorem C16_is_2d_series : forall (cols : list (string * colobj)) (n : string) (k : Z),
  In (n, Some k) cols -> k_is_2d cols = false.
Proof. exact is_2d_series. Qed.
Print Assumptions C16_is_2d_series.

Theorem C16_is_2d_iff : forall cols : list (string * colobj),
  k_is_2d cols = true <-> Forall (fun c => snd c = None) cols.
Proof. exact is_2d_iff. Qed.
Print Assumptions C16_is_2d_iff.

(* writetxt of a DataMatrix that has a series column (any depth, any position, any other columns) raises TypeError *)
Theorem C16_write_dm_series_typeerror : forall (shf : fl -> string) (d q : ascii) (cols : list (string * colobj))
  (t : table) (n : string) (k : Z),
  In (n, Some k) cols -> writetxt_dm shf d q cols t = Raise TypeError.
Proof. exact write_dm_series_typeerror. Qed.
Print Assumptions C16_write_dm_series_typeerror.

(* ... and a DataMatrix of plain columns is written by the writer of the round-trip theorems above *)
Theorem C16_write_dm_plain : forall (shf : fl -> string) (d q : ascii) (cols : list (string * colobj)) (t : table),
  Forall (fun c => snd c = None) cols -> writetxt_dm shf d q cols t = writetxt shf d q true t.
Proof. exact write_dm_plain. Qed.
Print Assumptions C16_write_dm_plain.

(* non-vacuity *)
Example C16_ex_write :
  writetxt (fun _ => "2.5"%string) ","%char """"%char true
           (["a"; "b"]%string, [[VInt 1; VStr "x,y"]; [VFlt (FFin false 5 (-1)); VStr "q""r"]; [VNone; VFlt FNan]])
  = Ok "a,b
1,""x,y""
2.5,""q""""r""
None,nan
"%string.
Proof. vm_compute. reflexivity. Qed.

Example C16_ex_read :
  readtxt (cls_of [("1"%string, (Some 1%Z, Some (FFin false 1 0)))]) ","%char """"%char
          (String.append k_bom (sb [97;44;98;13;10;49;44;34;120;10;121;34;13;10;122;13;10]%nat))
  = Ok (["a"; "b"]%string, [[VInt 1; VStr "x
y"]; [VStr "z"; VStr ""]]).
Proof. vm_compute. reflexivity. Qed.

Example C16_ex_wf : name_wf "naïve"%string /\ row_wf (fun _ => None) (fun _ => None) 1 [VStr "a,b"%string].
Proof. repeat split; repeat (constructor; try reflexivity). Qed.

Example C16_ex_depth0 :
  writetxt_dm (fun _ => "?"%string) ","%char """"%char [("a"%string, None); ("s"%string, Some 0%Z)]
              (["a"; "s"]%string, [[VInt 1; VStr "[]"]]) = Raise TypeError.
Proof. vm_compute. reflexivity. Qed.
