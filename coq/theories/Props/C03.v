(* C03 -- & | ^ are set algebra on row identity.  Statements only. *)
From Coq Require Import ZArith NArith List Bool.
From DM Require Import Spec.Table Spec.Ops Proofs.MergeFacts Proofs.TableFacts.
From DM Require Import Model.LTable Gen.KCore Model.Core Proofs.CoreRefine.
Import ListNotations.

(* membership: the result holds exactly the ids of the intersection / union / symmetric difference *)
Theorem C03_membership : forall o a b x, In x (merge_ids o a b) <-> in_op o a b x.
Proof. exact merge_ids_In. Qed.
Print Assumptions C03_membership.

(* each row once, in row-creation (ascending id) order *)
Theorem C03_sorted_once : forall o a b, NoDup a -> NoDup b -> ssorted (merge_ids o a b).
Proof. exact merge_ids_ssorted. Qed.
Print Assumptions C03_sorted_once.

(* the result depends on the two id SETS only: not on the order of rows in the operands (sorted,
   shuffled relatives), nor on the iteration order of Python's set (hash order) *)
Theorem C03_order_independent : forall o a b a' b',
  NoDup a -> NoDup b -> NoDup a' -> NoDup b' ->
  (forall x, In x a <-> In x a') -> (forall x, In x b <-> In x b') ->
  merge_ids o a b = merge_ids o a' b'.
Proof. exact merge_ids_ext. Qed.
Print Assumptions C03_order_independent.

Theorem C03_commutative : forall o a b, NoDup a -> NoDup b -> merge_ids o a b = merge_ids o b a.
Proof. exact merge_comm. Qed.
Print Assumptions C03_commutative.
Theorem C03_and_assoc : forall a b c, NoDup a -> NoDup b -> NoDup c ->
  merge_ids MAnd (merge_ids MAnd a b) c = merge_ids MAnd a (merge_ids MAnd b c).
Proof. exact and_assoc. Qed.
Print Assumptions C03_and_assoc.
Theorem C03_or_assoc : forall a b c, NoDup a -> NoDup b -> NoDup c ->
  merge_ids MOr (merge_ids MOr a b) c = merge_ids MOr a (merge_ids MOr b c).
Proof. exact or_assoc. Qed.
Print Assumptions C03_or_assoc.
Theorem C03_xor_assoc : forall a b c, NoDup a -> NoDup b -> NoDup c ->
  merge_ids MXor (merge_ids MXor a b) c = merge_ids MXor a (merge_ids MXor b c).
Proof. exact xor_assoc. Qed.
Print Assumptions C03_xor_assoc.
Theorem C03_and_idempotent : forall a, NoDup a -> merge_ids MAnd a a = sort_N a.
Proof. exact and_idem. Qed.
Print Assumptions C03_and_idempotent.
Theorem C03_or_idempotent : forall a, NoDup a -> merge_ids MOr a a = sort_N a.
Proof. exact or_idem. Qed.
Print Assumptions C03_or_idempotent.
Theorem C03_xor_self_empty : forall a, merge_ids MXor a a = [].
Proof. exact xor_self. Qed.
Print Assumptions C03_xor_self_empty.

(* operands (and every other pool member) are unchanged; the merge appends one new table *)
Theorem C03_operands_unchanged : forall w o a b j,
  (j < List.length (pool w))%nat -> get (fst (step w (OMerge o a b))) j = get w j.
Proof. intros w o a b j H. apply step_frame; [exact H|discriminate]. Qed.
Print Assumptions C03_operands_unchanged.

(* the implementation's merge (Index(set(..)).sorted(), then per column either dict lookups or isin masks +
   concatenate + argsort/searchsorted) computes exactly the L0 merge on object graphs satisfying inv_b *)
Theorem C03_l1_merge_refines : forall (w : world) o ta tb a b r,
  inv_b a = true -> inv_b b = true ->
  get w ta = Some (abs a) -> get w tb = Some (abs b) ->
  merge_tables o a b = Some r ->
  snd (step w (OMerge o ta tb)) = OkNew -> fst (step w (OMerge o ta tb)) = push w (abs r).
Proof. exact merge_refines. Qed.
Print Assumptions C03_l1_merge_refines.

Example C03_example : merge_ids MXor [5; 1; 9; 3]%N [3; 4; 5]%N = [1; 4; 9]%N /\ merge_ids MAnd [5; 1; 9; 3]%N [3; 4; 5]%N = [3; 5]%N.
Proof. vm_compute. split; reflexivity. Qed.
