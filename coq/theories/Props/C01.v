From DM Require Import Spec.Table Spec.Ops.
Theorem C01_placeholder : True. Proof. exact I. Qed.
Print Assumptions C01_placeholder.
