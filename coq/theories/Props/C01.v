(* C01 -- cells stay with their rows under any operation history (L0 statements; the tie of L0 to the
   implementation is the history correspondence of Run/SCore.v).  Statements only. *)
From Coq Require Import ZArith NArith List Bool String Permutation.
From DM Require Import Base.PyVal Spec.Nf Spec.Table Spec.Ops Proofs.ListX Proofs.TableFacts Proofs.TakeFacts.
From DM Require Import Model.LTable Gen.KCore Model.Core Proofs.CoreRefine.
From DM Require Import Spec.SeriesEnc Proofs.SeriesEncFacts.
Import ListNotations.

(* After ANY finite sequence of operations of the alphabet (Spec.Ops.op), applied to any pool members
   produced so far, every table of the pool has duplicate-free row ids, exactly one cell per row in
   every column, and every name bound to a column. *)
Theorem C01_every_history_keeps_the_invariant : forall ops : list op, wwf (run ops w0).
Proof. exact run_wf0. Qed.
Print Assumptions C01_every_history_keeps_the_invariant.

Theorem C01_step_keeps_the_invariant : forall w o, wwf w -> wwf (fst (step w o)).
Proof. exact step_wf. Qed.
Print Assumptions C01_step_keeps_the_invariant.

(* A derived table (selection, slice, sort, shuffle, sample, shrink, row deletion all go through `take`)
   takes the same positions from the row ids and from every column: cells stay with their rows, all
   columns are carried, names and types are kept. *)
Theorem C01_rows_stay_intact : forall ps t t',
  twf t -> take ps t = Some t' ->
  take_pos ps (ids t) = Some (ids t') /\ fam t' = fam t /\ Forall2 (same_rows ps) (view t) (view t').
Proof. exact take_rows. Qed.
Print Assumptions C01_rows_stay_intact.

(* an operation changes at most its target; every other pool member reads as before *)
Theorem C01_frame : forall w o j,
  (j < List.length (pool w))%nat -> target o <> Some j -> get (fst (step w o)) j = get w j.
Proof. exact step_frame. Qed.
Print Assumptions C01_frame.

(* ---- L1 refines L0: the implementation-shaped, id-based algorithms (Model/Core.v, with the integer and
   decision kernels regenerated from _datamatrix.py / _index.py / _basecolumn.py) compute the positional
   operations above on every object graph that satisfies the representation invariant inv_b. ---- *)

(* MixedColumn lookup: the Index position cache (a dict, last occurrence wins), when absent or valid *)
Theorem C01_dict_lookup_is_positional : forall i k,
  meta_ok i = true -> NoDup (ia i) -> idx_index i k = pos_of k (ia i).
Proof. exact idx_index_pos. Qed.
Print Assumptions C01_dict_lookup_is_positional.

(* numeric column lookup: argsort + searchsorted *)
Theorem C01_argsort_searchsorted_is_positional : forall ids k,
  NoDup ids -> In k ids ->
  nth_error (argsort ids) (searchsorted (map (fun p => nth p ids 0%N) (argsort ids)) k) = pos_of k ids.
Proof. exact argsort_searchsorted_pos. Qed.
Print Assumptions C01_argsort_searchsorted_is_positional.

(* DataMatrix._selectrowid (every column fetched by id) is the positional take *)
Theorem C01_selectrowid_refines : forall t key r,
  inv_b t = true -> (forall k, In k (ia key) -> In k (ia (l_rowid t))) ->
  selectrowid t key = Some r ->
  exists ps, all_some (map (fun k => pos_of k (ia (l_rowid t))) (ia key)) = Some ps
             /\ take ps (abs t) = Some (abs r).
Proof. exact selectrowid_refines. Qed.
Print Assumptions C01_selectrowid_refines.

(* step level: selection, slicing, row lists, sorting, shuffling, sampling (new table) ... *)
Theorem C01_l1_step_refines_new : forall (w : world) p o r,
  pool w = map abs p -> winv p ->
  match o with OMerge _ _ _ => False | _ => True end ->
  lstep p o = LNew r -> snd (step w o) = OkNew -> fst (step w o) = push w (abs r).
Proof. exact lstep_new_refines. Qed.
Print Assumptions C01_l1_step_refines_new.

(* ... resizing and row deletion (in place) ... *)
Theorem C01_l1_step_refines_upd : forall (w : world) p o i r,
  pool w = map abs p -> winv p ->
  match o with OSetCell _ _ _ _ | ORename _ _ _ _ | OSetColFromCol _ _ _ _ | OSetColFromSlice _ _ _ _ | OSetCol _ _ _
             | ODelCol _ _ | OSetSorted _ _ | OSetColKind _ _ _ => False | _ => True end ->
  lstep p o = LUpd i r -> snd (step w o) = OkUnit -> fst (step w o) = put w i (abs r).
Proof. exact lstep_upd_refines. Qed.
Print Assumptions C01_l1_step_refines_upd.

(* ... and merging (both column algorithms: dict lookups; isin masks + concatenate + argsort/searchsorted) *)
Theorem C01_l1_merge_refines : forall (w : world) o ta tb a b r,
  inv_b a = true -> inv_b b = true ->
  get w ta = Some (abs a) -> get w tb = Some (abs b) ->
  merge_tables o a b = Some r ->
  snd (step w (OMerge o ta tb)) = OkNew -> fst (step w (OMerge o ta tb)) = push w (abs r).
Proof. exact merge_refines. Qed.
Print Assumptions C01_l1_merge_refines.

(* the invariant checked on every dumped implementation state (inv_b, evaluated by vm_compute in the correspondence)
   implies the L0 invariant of the table it denotes: the theorems above apply to abs of every dump that passed *)
Theorem C01_dump_invariant_implies_L0_invariant : forall t, inv_b t = true -> twf (abs t).
Proof. exact inv_b_twf. Qed.
Print Assumptions C01_dump_invariant_implies_L0_invariant.

(* DataMatrix.__getitem__ (guard chain regenerated from the source): a column object selects that column, a name the
   column of that name (although a str is a Sequence), an int -- and a bool -- a Row, a slice the rows OSlice takes, a
   non-empty sequence of names the named columns (keep_only), a sequence holding an int the rows OGetRows takes, an
   EMPTY sequence all rows and no column (all() of nothing is True: `dm[[]]` is a column selection -- the alphabet
   declares OGetRows [] out of the model for exactly this reason), anything else KeyError *)
Theorem C01_getitem_dispatch :
  map getitem_dispatch [KeyColumn; KeyStr; KeyInt; KeyBool; KeySlice; KeyNames; KeyEmptySeq; KeyInts; KeyTable; KeyOther]
  = [0; 1; 2; 2; 3; 4; 4; 5; 6; 6]%Z.
Proof. reflexivity. Qed.
Print Assumptions C01_getitem_dispatch.

(* SeriesColumns: a series column of depth d is d pseudo-columns name#j of the same table (Spec/SeriesEnc.v), the
   series-specific operations are finite sequences of alphabet operations; so after ANY history that also creates,
   writes, deepens, renames, copies and deletes series columns the invariant holds: one series cell per row, moved,
   selected, merged, resized and concatenated together with the other cells of its row *)
Theorem C01_series_histories_keep_the_invariant : forall sops : list sop, wwf (srun sops w0).
Proof. exact srun_wf0. Qed.
Print Assumptions C01_series_histories_keep_the_invariant.

Definition ex_series_history : list sop :=
  [SPlain (ONew 3); SPlain (OSetCol 0 "a" (RSeq [PInt 3; PInt 1; PInt 2]));
   SNew 0 "s" 2 0; SSet 0 "s" 2 (ASlice None None) (SVMatrix [[PInt 10; PInt 11]; [PInt 20; PInt 21]; [PInt 30; PInt 31]]);
   SPlain (OSort 0 "a" [1; 2; 0]%nat); SSetDepth 1 "s" 2 3; SSetSample 1 "s" (AInt 0) [2%nat] (RScalar (PInt 7));
   SPlain (OSetLength 1 4%Z)].
Example C01_series_example :
  match nth_error (pool (srun ex_series_history w0)) 1 with
  | Some t => map (fun '(n, _, c) => (n, c)) (view t) =
              [("a", [VInt 1; VInt 2; VInt 3; VStr ""]);
               ("s#0", [VFlt (FFin false 5 2); VFlt (FFin false 15 1); VFlt (FFin false 5 1); VFlt FNan]);
               ("s#1", [VFlt (FFin false 21 0); VFlt (FFin false 31 0); VFlt (FFin false 11 0); VFlt FNan]);
               ("s#2", [VFlt (FFin false 7 0); VFlt FNan; VFlt FNan; VFlt FNan])]
  | None => False
  end.
Proof. vm_compute. reflexivity. Qed.

(* non-vacuity: a concrete history mixing column kinds, selection, sort order, resize and merge *)
Definition ex_history : list op :=
  [ONew 3; OSetColKind 0 "f" KFloat; OSetCol 0 "a" (RSeq [PInt 3; PStr "x" None None; PNone]);
   OSetCol 0 "f" (RSeq [PInt 1; PFloat (FFin false 5 (-1)); PStr "2" (Some 2%Z) (Some (FFin false 1 1))]);
   OSelect 0 "f" CGe (VInt 2); OSetLength 0 5%Z; OShuffle 0 [4; 0; 3; 1; 2]%nat; OMerge MOr 2 1;
   OSetCell 2 "a" (ASel 1) (RScalar (PInt 7)); ODelRows 0 [0%Z; (-1)%Z]].
Example C01_example :
  map (fun t => (ids t, view t)) (pool (run ex_history w0)) <> [] /\
  match nth_error (pool (run ex_history w0)) 3 with
  | Some t => ids t = [0; 1; 2; 3; 4]%N
  | None => False
  end.
Proof. vm_compute. split; [discriminate|reflexivity]. Qed.
