(* C01 -- cells stay with their rows under any operation history (L0 statements; the tie of L0 to the
   implementation is the history correspondence of Run/SCore.v).  Statements only. *)
From Coq Require Import ZArith NArith List Bool String Permutation.
From DM Require Import Base.PyVal Spec.Nf Spec.Table Spec.Ops Proofs.ListX Proofs.TableFacts Proofs.TakeFacts.
From DM Require Import Model.LTable Gen.KCore Model.Core Proofs.CoreRefine.
From DM Require Import Spec.SeriesEnc Proofs.SeriesEncFacts.
Import ListNotations.

(* After ANY finite sequence of operations of the alphabet (Spec.Ops.op), applied to any pool members
   produced so far, every table of the pool has duplicate-free row ids, exactly one cell per row in
   every column, and every name bound to a column. *)
Theorem C01_every_history_keeps_the_invariant : forall ops : list op, wwf (run ops w0).
Proof. exact run_wf0. Qed.
Print Assumptions C01_every_history_keeps_the_invariant.

Theorem C01_step_keeps_the_invariant : forall w o, wwf w -> wwf (fst (step w o)).
Proof. exact step_wf. Qed.
Print Assumptions C01_step_keeps_the_invariant.

(* A derived table (selection, slice, sort, shuffle, sample, shrink, row deletion all go through `take`)
   takes the same positions from the row ids and from every column: cells stay with their rows, all
   columns are carried, names and types are kept. *)
Theorem C01_rows_stay_intact : forall ps t t',
  twf t -> take ps t = Some t' ->
  take_pos ps (ids t) = Some (ids t') /\ fam t' = fam t /\ Forall2 (same_rows ps) (view t) (view t').
Proof. exact take_rows. Qed.
Print Assumptions C01_rows_stay_intact.

(* an operation changes at most its target; every other pool member reads as before *)
Theorem C01_frame : forall w o j,
  (j < List.length (pool w))%nat -> target o <> Some j -> get (fst (step w o)) j = get w j.
Proof. exact step_frame. Qed.
Print Assumptions C01_frame.

(* ---- L1 refines L0: the implementation-shaped, id-based algorithms (Model/Core.v, with the integer and
   decision kernels regenerated from _datamatrix.py / _index.py / _basecolumn.py) compute the positional
   operations above on every object graph that satisfies the representation invariant inv_b. ---- *)

(* MixedColumn lookup: the Index position cache (a dict, last occurrence wins), when absent or valid *)
Theorem C01_dict_lookup_is_positional : forall i k,
  meta_ok i = true -> NoDup (ia i) -> idx_index i k = pos_of k (ia i).
Proof. exact idx_index_pos. Qed.
Print Assumptions C01_dict_lookup_is_positional.

(* numeric column lookup: argsort + searchsorted *)
Theorem C01_argsort_searchsorted_is_positional : forall ids k,
  NoDup ids -> In k ids ->
  nth_error (argsort ids) (searchsorted (map (fun p => nth p ids 0%N) (argsort ids)) k) = pos_of k ids.
Proof. exact argsort_searchsorted_pos. Qed.
Print Assumptions C01_argsort_searchsorted_is_positional.

(* DataMatrix._selectrowid (every column fetched by id) is the positional take *)
Theorem C01_selectrowid_refines : forall t key r,
  inv_b t = true -> (forall k, In k (ia key) -> In k (ia (l_rowid t))) ->
  selectrowid t key = Some r ->
  exists ps, all_some (map (fun k => pos_of k (ia (l_rowid t))) (ia key)) = Some ps
             /\ take ps (abs t) = Some (abs r).
Proof. exact selectrowid_refines. Qed.
Print Assumptions C01_selectrowid_refines.

(* step level: selection, slicing, row lists, sorting, shuffling, sampling (new table) ... *)
Theorem C01_l1_step_refines_new : forall (w : world) p o r,
  pool w = map abs p -> winv p ->
  match o with OMerge _ _ _ => False | _ => True end ->
  lstep p o = LNew r -> snd (step w o) = OkNew -> fst (step w o) = push w (abs r).
Proof. exact lstep_new_refines. Qed.
Print Assumptions C01_l1_step_refines_new.

(* ... resizing and row deletion (in place) ... *)
Theorem C01_l1_step_refines_upd : forall (w : world) p o i r,
  pool w = map abs p -> winv p ->
  match o with OSetCell _ _ _ _ | ORename _ _ _ _ | OSetColFromCol _ _ _ _ | OSetColFromSlice _ _ _ _ | OSetCol _ _ _
             | ODelCol _ _ | OSetSorted _ _ | OSetColKind _ _ _ => False | _ => True end ->
  lstep p o = LUpd i r -> snd (step w o) = OkUnit -> fst (step w o) = put w i (abs r).
Proof. exact lstep_upd_refines. Qed.
Print Assumptions C01_l1_step_refines_upd.

(* ... and merging (both column algorithms: dict lookups; isin masks + concatenate + argsort/searchsorted) *)
Theorem C01_l1_merge_refines : forall (w : world) o ta tb a b r,
  inv_b a = true -> inv_b b = true ->
  get w ta = Some (abs a) -> get w tb = Some (abs b) ->
  merge_tables o a b = Some r ->
  snd (step w (OMerge o ta tb)) = OkNew -> fst (step w (OMerge o ta tb)) = push w (abs r).
Proof. exact merge_refines. Qed.
Print Assumptions C01_l1_merge_refines.

(* the invariant checked on every dumped implementation state (inv_b, evaluated by vm_compute in the correspondence)
   implies the L0 invariant of the table it denotes: the theorems above apply to abs of every dump that passed *)
Theorem C01_dump_invariant_implies_L0_invariant : forall t, inv_b t = true -> twf (abs t).
Proof. exact inv_b_twf. Qed.
Print Assumptions C01_dump_invariant_implies_L0_invariant.

(* DataMatrix.__getitem__ (guard chain regenerated from the source): a column object selects that column, a name the
   column of that name (although a str is a Sequence), an int -- and a bool -- a Row, a slice the rows OSlice takes, a
   non-empty sequence of names the named columns (keep_only), a sequence holding an int the rows OGetRows takes, an
   EMPTY sequence all rows and no column (all() of nothing is True: `dm[[]]` is a column selection -- the alphabet
   declares OGetRows [] out of the model for exactly this reason), anything else KeyError *)
Theorem C01_getitem_dispatch :
  map getitem_dispatch [KeyColumn; KeyStr; KeyInt; KeyBool; KeySlice; KeyNames; KeyEmptySeq; KeyInts; KeyTable; KeyOther]
  = [0; 1; 2; 2; 3; 4; 4; 5; 6; 6]%Z.
Proof. reflexivity. Qed.
Print Assumptions C01_getitem_dispatch.

(* SeriesColumns: a series column of depth d is d pseudo-columns name#j of the same table (Spec/SeriesEnc.v), the
   series-specific operations are finite sequences of alphabet operations; so after ANY history that also creates,
   writes, deepens, renames, copies and deletes series columns the invariant holds: one series cell per row, moved,
   selected, merged, resized and concatenated together with the other cells of its row *)
Theorem C01_series_histories_keep_the_invariant : forall sops : list sop, wwf (srun sops w0).
Proof. exact srun_wf0. Qed.
Print Assumptions C01_series_histories_keep_the_invariant.

Definition ex_series_history : list sop :=
  [SPlain (ONew 3); SPlain (OSetCol 0 "a" (RSeq [PInt 3; PInt 1; PInt 2]));
   SNew 0 "s" 2 0; SSet 0 "s" 2 (ASlice None None) (SVMatrix [[PInt 10; PInt 11]; [PInt 20; PInt 21]; [PInt 30; PInt 31]]);
   SPlain (OSort 0 "a" [1; 2; 0]%nat); SSetDepth 1 "s" 2 3; SSetSample 1 "s" (AInt 0) [2%nat] (RScalar (PInt 7));
   SPlain (OSetLength 1 4%Z)].
Example C01_series_example :
  match nth_error (pool (srun ex_series_history w0)) 1 with
  | Some t => map (fun '(n, _, c) => (n, c)) (view t) =
              [("a", [VInt 1; VInt 2; VInt 3; VStr ""]);
               ("s#0", [VFlt (FFin false 5 2); VFlt (FFin false 15 1); VFlt (FFin false 5 1); VFlt FNan]);
               ("s#1", [VFlt (FFin false 21 0); VFlt (FFin false 31 0); VFlt (FFin false 11 0); VFlt FNan]);
               ("s#2", [VFlt (FFin false 7 0); VFlt FNan; VFlt FNan; VFlt FNan])]
  | None => False
  end.
Proof. vm_compute. reflexivity. Qed.

(* non-vacuity: a concrete history mixing column kinds, selection, sort order, resize and merge *)
Definition ex_history : list op :=
  [ONew 3; OSetColKind 0 "f" KFloat; OSetCol 0 "a" (RSeq [PInt 3; PStr "x" None None; PNone]);
   OSetCol 0 "f" (RSeq [PInt 1; PFloat (FFin false 5 (-1)); PStr "2" (Some 2%Z) (Some (FFin false 1 1))]);
   OSelect 0 "f" CGe (VInt 2); OSetLength 0 5%Z; OShuffle 0 [4; 0; 3; 1; 2]%nat; OMerge MOr 2 1;
   OSetCell 2 "a" (ASel 1) (RScalar (PInt 7)); ODelRows 0 [0%Z; (-1)%Z]].
Example C01_example :
  map (fun t => (ids t, view t)) (pool (run ex_history w0)) <> [] /\
  match nth_error (pool (run ex_history w0)) 3 with
  | Some t => ids t = [0; 1; 2; 3; 4]%N
  | None => False
  end.
Proof. vm_compute. split; [discriminate|reflexivity]. Qed.

(* ---- the representation invariant is inductive AT L1 (Proofs/CoreInv.v): the implementation-shaped algorithms
   themselves re-establish inv_b on every table they produce -- duplicate-free row ids; Index caches absent or exact
   (position cache = combine ids (seq 0 n), maximum = the true maximum, -1 when empty); distinct names, each bound to an
   existing column object; every column object carrying the table's row ids, one cell per row, the owner and
   type-checking flags, valid caches of its own Index and cells that are normal forms of its column type.  So inv_b,
   which the refinement theorems above assume and the correspondence evaluates on dumped states, is not only checked
   but proved to be preserved, step by step and along whole L1 histories.
   step_fits (CoreInv.v) is the only side condition, two conjuncts:
   (1) OSort / OShuffle / OSample: the order or choice supplied by the oracle holds no position twice (sorted(),
       random.shuffle and random.sample guarantee it; Spec.Ops.step validates the same and answers Err otherwise);
   (2) OSetCell / OSetCol into an IntColumn: every written value coerces to an integer inside the int64 range or is
       refused (int64 overflow is outside the model; nothing is asked for MixedColumns and FloatColumns). ---- *)
From DM Require Import Proofs.CoreInv.

Theorem C01_l1_step_keeps_representation_invariant : forall p o,
  winv p -> step_fits p o = true ->
  match lstep p o with
  | LNew r | LUpd _ r | LErrUpd _ r => inv_b r = true
  | LErr | LSkip => True
  end.
Proof. exact lstep_keeps_inv. Qed.
Print Assumptions C01_l1_step_keeps_representation_invariant.

(* a << b (concat_l, used by Run/RCore.v): no side condition at all *)
Theorem C01_l1_concat_keeps_representation_invariant : forall a b nf r,
  concat_l a b nf = Ok r -> inv_b a = true -> inv_b b = true -> inv_b r = true.
Proof. exact concat_keeps_inv. Qed.
Print Assumptions C01_l1_concat_keeps_representation_invariant.

(* the complete L1 step (lstep_all = lstep + the three cases lstep leaves to its callers: DataMatrix(length=n) on
   Index(n), a << b through concat_l, dm[name] = value on a missing name creating the column first) *)
Theorem C01_l1_full_step_keeps_representation_invariant : forall p nf o,
  winv p -> step_fits p o = true ->
  match lstep_all p nf o with
  | LNew r | LUpd _ r | LErrUpd _ r => inv_b r = true
  | LErr | LSkip => True
  end.
Proof. exact lstep_all_keeps_inv. Qed.
Print Assumptions C01_l1_full_step_keeps_representation_invariant.

(* L1 histories from the empty pool (lrun: LNew appends, LUpd i / LErrUpd i replace member i), over the whole
   alphabet, any length: every table of every reachable pool satisfies inv_b *)
Theorem C01_l1_histories_keep_representation_invariant : forall ops,
  hist_fits ops = true -> winv (lrun ops).
Proof. exact lrun_keeps_inv. Qed.
Print Assumptions C01_l1_histories_keep_representation_invariant.

(* ... and from any pool that satisfies it (e.g. a dumped one) *)
Theorem C01_l1_histories_keep_representation_invariant_from : forall ops p nf,
  winv p -> hist_fits_from ops p nf = true -> winv (lrun_from ops p nf).
Proof. exact lrun_keeps_inv_from. Qed.
Print Assumptions C01_l1_histories_keep_representation_invariant_from.

(* non-vacuity: a history over all three column types that exercises every case of lstep_all satisfies hist_fits,
   every table it reaches passes inv_b (as the theorem says), and the L1 pool denotes the L0 pool of the same history *)
Definition ex_l1_history : list op :=
  [ONew 3; OSetColKind 0 "f" KFloat; OSetColKind 0 "i" KInt;
   OSetCol 0 "a" (RSeq [PInt 3; PStr "x" None None; PNone]);
   OSetCol 0 "f" (RSeq [PInt 1; PFloat (FFin false 5 (-1)); PStr "2" (Some 2%Z) (Some (FFin false 1 1))]);
   OSetCol 0 "i" (RSeq [PInt 7; PFloat (FFin false 5 (-1)); PInt (-4)]);
   OSelect 0 "f" CGe (VInt 2); OSetLength 0 5%Z; OShuffle 0 [4; 0; 3; 1; 2]%nat; OMerge MOr 2 1;
   OSetCell 2 "a" (ASel 1) (RScalar (PInt 7)); OSetCell 2 "i" (AList [0%Z; 1%Z]) (RScalar (PInt 9));
   OSetCell 0 "z" (ARow 1) (RScalar (PStr "w" None None)); OSetColFromCol 0 "b" 0 "a";
   OSetColFromSlice 0 "c" "i" [4%Z; 3%Z; 2%Z; 1%Z; 0%Z]; OSetCell 0 "i" (ASlice (Some 1%Z) None) (RScalar (PInt 5));
   OSetCell 0 "f" (AInt (-1)) (RScalar (PInt 2)); OSlice 0 (Some 1%Z) (Some 4%Z); OGetRows 0 [3%Z; 0%Z];
   ORename 0 "a" "aa" true; OSort 2 "i" [4; 2; 3; 0; 1]%nat; OSample 0 2 [3; 1]%nat; OConcat 0 1; OSetSorted 0 false;
   ODelCol 0 "f"; OSetLength 0 4%Z; ODelRows 0 [0%Z; (-1)%Z]].
Example C01_l1_example :
  hist_fits ex_l1_history = true
  /\ List.length (lrun ex_l1_history) = 9%nat
  /\ forallb inv_b (lrun ex_l1_history) = true
  /\ list_eqb table_eqb (map abs (lrun ex_l1_history)) (pool (run ex_l1_history w0)) = true.
Proof. vm_compute. repeat split; reflexivity. Qed.

(* step_fits on a concrete pool, and both conjuncts are needed: a repeated position yields duplicate row ids, an
   integer beyond int64 yields an IntColumn cell that is not a normal form *)
Example C01_l1_step_fits_example :
  let p := lrun ex_l1_history in
  step_fits p (OSetCell 2 "i" (ASel 1) (RSeq [PInt 4; PFloat (FFin false 7 (-1))])) = true
  /\ step_fits p (OSort 2 "f" [2; 0; 1; 4; 3]%nat) = true
  /\ match lstep p (OSetCell 2 "i" (ASel 1) (RSeq [PInt 4; PFloat (FFin false 7 (-1))])) with
     | LUpd 2 r => inv_b r = true | _ => False end
  /\ step_fits p (OShuffle 2 [0; 0; 1; 2; 3]%nat) = false
  /\ match lstep p (OShuffle 2 [0; 0; 1; 2; 3]%nat) with LNew r => inv_b r = false | _ => False end
  /\ step_fits p (OSetCol 2 "i" (RScalar (PInt (2 ^ 63)))) = false
  /\ match lstep p (OSetCol 2 "i" (RScalar (PInt (2 ^ 63)))) with LUpd 2 r => inv_b r = false | _ => False end.
Proof. vm_compute. repeat split; reflexivity. Qed.

(* ---- L1 SIMULATES L0 ALONG WHOLE HISTORIES, over the full 19-operation alphabet (Proofs/CoreSim.v).
   One step: the complete L1 step lstep_all, run on any pool that satisfies the representation invariant and denotes
   (map abs) the L0 pool, with the L0 family counter, is sound for Spec.Ops.step -- the per-operation refinement
   theorems above and of SetColRefine / WriteRefine / ConcatRefine assembled by case analysis on the operation:
     LNew r       if L0 answers OkNew, its new world is the old one with abs r appended (spec_push: ONew and OConcat
                  advance the family counter, as Spec.Ops.step does);
     LUpd i r     if L0 answers OkUnit, its new world is the old one with member i replaced by abs r;
     LErrUpd i r  L0 raises too, and keeps the same partial effect (col[[i, j, ...]] = v stopped at an out-of-range
                  index; dm[name] = v / dm[i].name = v whose coercion failed after a missing column was created);
     LErr         an L1 error is NEVER an L0 success, for any operation; when L0 raises, its world is unchanged; L0 can
                  answer OutOfModel instead only for the nine derivations and resizes (lerr_exact o = false: OSelect
                  OMerge OSlice OGetRows OSort OShuffle OSample OSetLength ODelRows), for every other operation L0 raises.
   The LErr clause rests on new facts of CoreSim.v: under the invariant the id-based derivations succeed exactly when
   the positional ones do (the three equations below) and the merge of two tables of one family whose left names
   all exist on the right always succeeds. ---- *)
From DM Require Import Proofs.CoreSim.

Theorem C01_l1_step_sound : forall (w : world) p o,
  pool w = map abs p -> winv p ->
  match lstep_all p (nextfam w) o with
  | LNew r => snd (step w o) = OkNew -> fst (step w o) = spec_push w o (abs r)
  | LUpd i r => snd (step w o) = OkUnit -> fst (step w o) = put w i (abs r)
  | LErrUpd i r => (exists e, snd (step w o) = Err e) /\ fst (step w o) = put w i (abs r)
  | LErr => match snd (step w o) with
            | Err _ => fst (step w o) = w
            | OutOfModel => lerr_exact o = false
            | OkNew | OkUnit => False
            end
  | LSkip => True
  end.
Proof. exact lstep_all_sound. Qed.
Print Assumptions C01_l1_step_sound.

(* the derivations as equations (the conditional theorems C01_selectrowid_refines / slice_refines made total):
   positional slicing, fetching rows by id, and merging succeed at L1 exactly when / whenever they do at L0 *)
Theorem C01_l1_slice_is_take : forall t ps,
  inv_b t = true -> take ps (abs t) = option_map abs (slice_table t ps).
Proof. exact slice_table_take. Qed.
Print Assumptions C01_l1_slice_is_take.

Theorem C01_l1_selectrowid_is_take : forall t key ps,
  inv_b t = true -> (forall k, In k (ia key) -> In k (ia (l_rowid t))) ->
  all_some (map (fun k => pos_of k (ia (l_rowid t))) (ia key)) = Some ps ->
  take ps (abs t) = option_map abs (selectrowid t key).
Proof. exact selectrowid_take. Qed.
Print Assumptions C01_l1_selectrowid_is_take.

Theorem C01_l1_merge_never_stuck : forall o a b,
  inv_b a = true -> inv_b b = true ->
  (forall n i, In (n, i) (l_names a) -> has_name (abs b) n = true) ->
  exists r, merge_tables o a b = Some r.
Proof. exact merge_tables_total. Qed.
Print Assumptions C01_l1_merge_never_stuck.

(* Histories of any length: sim_ok w p ops (executable) says that at every step the L0 outcome and the L1 result have
   the same shape -- OkNew with LNew, OkUnit with LUpd, an exception with LErrUpd (both keep the partial effect) or
   with LErr (both keep their state); an L0 OutOfModel or an L1 LSkip ends it.  Then, with the side condition of the
   L1 invariant theorem (hist_fits), the L1 pool denotes exactly the L0 pool after the whole history ... *)
Theorem C01_l1_histories_simulate : forall ops (w : world) p,
  pool w = map abs p -> winv p -> hist_fits_from ops p (nextfam w) = true -> sim_ok w p ops = true ->
  pool (run ops w) = map abs (lrun_from ops p (nextfam w)).
Proof. exact lrun_simulates. Qed.
Print Assumptions C01_l1_histories_simulate.

(* ... and the family counters agree as well: the two runs end in the same world *)
Theorem C01_l1_histories_simulate_world : forall ops (w : world) p,
  pool w = map abs p -> winv p -> hist_fits_from ops p (nextfam w) = true -> sim_ok w p ops = true ->
  run ops w = {| pool := map abs (lrun_from ops p (nextfam w)); nextfam := lfam_from ops p (nextfam w) |}.
Proof. exact lrun_simulates_world. Qed.
Print Assumptions C01_l1_histories_simulate_world.

(* from the empty world and the empty pool *)
Theorem C01_l1_histories_simulate_from_empty : forall ops,
  hist_fits ops = true -> sim_ok w0 [] ops = true -> pool (run ops w0) = map abs (lrun ops).
Proof. exact lrun_simulates_from_empty. Qed.
Print Assumptions C01_l1_histories_simulate_from_empty.

(* non-vacuity: a history over the whole alphabet -- creation, the three column types, assignment to a missing and to
   an existing name (also refused: a value an IntColumn cannot hold, a sequence of the wrong length after the column was
   created), cells addressed by int / slice / index list (one stopping at an out-of-range index after a partial
   write) / selection / Row (also creating the column), selection, merge, slice, row list, sort, shuffle, sample, grow
   and shrink, row and column deletion, rename (done, trivial, refused twice), concatenation (done, refused), the
   sorted flag, column-object assignments (alias, copy, slice; refused) and nine more refused operations -- satisfies
   hist_fits and sim_ok, and (as the theorem says) the L1 pool denotes the L0 pool, EXACTLY (Leibniz equality of the
   ten tables, not equality up to observation); a step outside the model makes sim_ok false *)
Definition ex_sim_history : list op :=
  [ONew 3; OSetColKind 0 "f" KFloat; OSetColKind 0 "i" KInt;
   OSetCol 0 "a" (RSeq [PInt 3; PStr "x" None None; PNone]);
   OSetCol 0 "f" (RSeq [PInt 1; PFloat (FFin false 5 (-1)); PStr "2" (Some 2%Z) (Some (FFin false 1 1))]);
   OSetCol 0 "i" (RSeq [PInt 7; PFloat (FFin false 5 (-1)); PInt (-4)]);
   OSetCol 0 "i" (RScalar (PStr "x" None None)); OSetCol 0 "q" (RSeq [PInt 1]);
   OSelect 0 "f" CGe (VInt 2); OSetLength 0 5%Z; OShuffle 0 [4; 0; 3; 1; 2]%nat; OMerge MOr 2 1;
   OSetCell 2 "a" (ASel 1) (RScalar (PInt 7)); OSetCell 2 "i" (AList [0%Z; 1%Z]) (RScalar (PInt 9));
   OSetCell 2 "a" (AList [1%Z; 7%Z; 2%Z]) (RScalar (PInt 8));
   OSetCell 0 "z" (ARow 1) (RScalar (PStr "w" None None)); OSetColFromCol 0 "b" 0 "a";
   OSetColFromSlice 0 "c" "i" [4%Z; 3%Z; 2%Z; 1%Z; 0%Z]; OSetCell 0 "i" (ASlice (Some 1%Z) None) (RScalar (PInt 5));
   OSetCell 0 "f" (AInt (-1)) (RScalar (PInt 2)); OSlice 0 (Some 1%Z) (Some 4%Z); OGetRows 0 [3%Z; 0%Z];
   ORename 0 "a" "aa" true; ORename 0 "aa" "aa" true; ORename 0 "f" "aa" true; ORename 0 "f" "not an identifier" false;
   OSort 2 "i" [4; 2; 3; 0; 1]%nat; OSample 0 2 [3; 1]%nat; OConcat 0 1; OSetSorted 0 false;
   ODelCol 0 "f"; ODelCol 0 "f"; OSetLength 0 4%Z; ODelRows 0 [0%Z; (-1)%Z];
   OSetCell 0 "nope" (AInt 0) (RScalar (PInt 1)); OSetCell 0 "i" (ARow 99) (RScalar (PInt 1));
   OSetCell 0 "i" (ARow 0) (RScalar (PStr "x" None None));
   OSetColFromCol 0 "x" 1 "a"; OSetColFromCol 0 "y" 2 "a"; OSetCell 0 "aa" (ASel 8) (RScalar (PInt 1));
   OSetColFromSlice 0 "c" "i" [0%Z]; OGetRows 0 [0%Z; 99%Z];
   ONew 2; OSetCol 9 "i" (RScalar (PInt 1)); OConcat 0 9].
Example C01_l1_simulation_example :
  hist_fits ex_sim_history = true
  /\ sim_ok w0 [] ex_sim_history = true
  /\ List.length (lrun ex_sim_history) = 10%nat
  /\ pool (run ex_sim_history w0) = map abs (lrun ex_sim_history)
  /\ nextfam (run ex_sim_history w0) = 3%nat
  /\ sim_ok w0 [] [ONew 2; OGetRows 0 []] = false.
Proof. vm_compute. repeat split; reflexivity. Qed.
