(* C02: column comparison selects exactly the matching rows.  Statements only. *)
From Coq Require Import ZArith NArith List Bool String Sorted Permutation.
From DM Require Import Base.PyVal Spec.Nf Spec.Table Spec.Select Gen.KCheck Model.SelectRef Gen.KSelect Model.Select.
From DM Require Import Proofs.SelectFacts Proofs.SelectRefine Proofs.SelectTable.
Import ListNotations.

(* The result of `t.c OP r` holds exactly the rows whose cell satisfies the comparison (sat_at),
   in the source's row order (positions strictly increasing), with the row ids and every column of
   those rows intact, in the same row family, under the same column names.  (The source t is a value:
   it cannot change; on the implementation this is checked by the generated cases.) *)
Theorem C02_select_exact : forall t c op r s,
  wf_table t = true -> slot_of t c = Some s ->
  let ps := sel_positions op r (scells s) in
  exists t', select t c op r = Some t'
    /\ (forall p, In p ps <-> satp op r (scells s) p = true)
    /\ StronglySorted lt ps
    /\ ids t' = pick ps (ids t) /\ view t' = view_pick ps (view t)
    /\ fam t' = fam t /\ map fst (names t') = map fst (names t) /\ wf_table t' = true.
Proof. exact select_exact. Qed.
Print Assumptions C02_select_exact.

(* Independence of row order and of derivation: selecting from any table obtained from t by taking
   rows ps0 (reordering, selection, concatenation all are such) yields exactly the rows of ps0 whose
   cell in t satisfies the comparison, in the order of ps0 (a sequence reference travels with its rows). *)
Theorem C02_select_equivariant : forall t c op r s ps0 t2,
  wf_table t = true -> slot_of t c = Some s ->
  (forall p, In p ps0 -> (p < nrows t)%nat) ->
  match r with RSeq vs => List.length vs = nrows t | _ => True end ->
  take ps0 t = Some t2 ->
  exists t2', select t2 c op (reorder_ref ps0 r) = Some t2' /\
    let qs := filter (satp op r (scells s)) ps0 in
    ids t2' = pick qs (ids t) /\ view t2' = view_pick qs (view t).
Proof. exact select_equivariant. Qed.
Print Assumptions C02_select_equivariant.

Theorem C02_select_perm_rows : forall t c op r s ps0 t2 t1',
  wf_table t = true -> slot_of t c = Some s ->
  Permutation ps0 (seq 0 (nrows t)) ->
  match r with RSeq vs => List.length vs = nrows t | _ => True end ->
  take ps0 t = Some t2 -> select t c op r = Some t1' ->
  exists t2', select t2 c op (reorder_ref ps0 r) = Some t2' /\ Permutation (ids t2') (ids t1').
Proof. exact select_perm_rows. Qed.
Print Assumptions C02_select_perm_rows.

Theorem C02_take_spec : forall t ps,
  wf_table t = true -> (forall p, In p ps -> (p < nrows t)%nat) ->
  exists t', take ps t = Some t' /\ ids t' = pick ps (ids t) /\ view t' = view_pick ps (view t)
             /\ fam t' = fam t /\ map fst (names t') = map fst (names t) /\ wf_table t' = true.
Proof. exact take_spec. Qed.
Print Assumptions C02_take_spec.

(* reference kinds *)
Theorem C02_seq_rowwise : forall op vs i cell,
  sat_at op (RSeq vs) i cell = match nth_error vs i with Some v => py_cmp op cell v | None => false end.
Proof. exact select_seq_rowwise. Qed.
Print Assumptions C02_seq_rowwise.

Theorem C02_set_eq_any : forall vs i cell,
  sat_at CEq (RSet vs) i cell = true <-> exists v, In v vs /\ py_cmp CEq cell v = true.
Proof. exact select_set_eq_any. Qed.
Print Assumptions C02_set_eq_any.

Theorem C02_set_ne_all : forall vs i cell,
  sat_at CNe (RSet vs) i cell = true <-> forall v, In v vs -> py_cmp CEq cell v = false.
Proof. exact select_set_ne_all. Qed.
Print Assumptions C02_set_ne_all.

Theorem C02_nan_only_by_eq_nan : forall op r i,
  sat_at op (RScalar r) i (VFlt FNan) = true -> (op = CEq /\ is_nan_val r = true) \/ op = CNe.
Proof. exact nan_only_by_eq_nan. Qed.
Print Assumptions C02_nan_only_by_eq_nan.

(* L1 = L0 on the WHOLE reference domain of the property (Spec.Select.in_domain: scalars, same-length
   sequences compared row by row, sets, predicates, types; all three column types; all six operators):
   the model assembled from the kernels regenerated from _basecolumn.py / _numericcolumn.py (dispatch chain,
   _issequence, op tests, per-cell tests, the reference coerced by _checktype / _tosequence, NaN / inf special
   cases, element-wise NumPy comparison, IntColumn.__eq__/__ne__ fallbacks) selects exactly the positions of
   the specification.  Premises: the cells are cells of that column type; the floats of the reference are
   binary64 values (odd mantissa below 2^53 -- what the harness prints); the reference is in the domain.
   Sequence references and integral float references (1.0, 2.0 ** 53, -0.0 for a FloatColumn; 7.0 for an
   IntColumn; integers for a FloatColumn) are included: int(f) == f and float(int(f)) == f are exact
   (Proofs/SelectNum.v), so _checktype's detour through a Python int changes nothing. *)
Theorem C02_compare_refines : forall k cells op r,
  forallb (cell_of k) cells = true -> ref_wf r = true -> in_domain k op r cells = true ->
  compare k cells op (inj_ref r) = Ok (sel_positions op r cells).
Proof. exact compare_refines. Qed.
Print Assumptions C02_compare_refines.

(* The name of the earlier, partial statement is kept.  Its premise proved_dom used to exclude sequences,
   integer-valued FloatColumn references and float / inf / None references of an IntColumn; it now contains
   them, and with them all of in_domain (C02_in_domain_proved), so C02_compare_refines is its corollary.
   proved_dom is a statement about the MODEL and is wider than in_domain in places (integers of any size, sets
   without restriction on the members, text / None elements for a FloatColumn); outside in_domain the model is
   not claimed to mirror NumPy.  Still _partial in one respect only: references outside in_domain (numeric
   text, bool, non-integral floats against an IntColumn, other objects) are tied by correspondence alone. *)
Theorem C02_compare_refines_partial : forall k cells op r,
  forallb (cell_of k) cells = true -> proved_dom k op r (List.length cells) = true ->
  compare k cells op (inj_ref r) = Ok (sel_positions op r cells).
Proof. exact compare_refines_dom. Qed.
Print Assumptions C02_compare_refines_partial.

Theorem C02_in_domain_proved : forall k op r cells,
  ref_wf r = true -> in_domain k op r cells = true -> proved_dom k op r (List.length cells) = true.
Proof. exact in_domain_proved. Qed.
Print Assumptions C02_in_domain_proved.

(* a list / tuple whose length differs from the column's: TypeError, for every column type and operator
   (the error case of the sequence comparison; L0 makes no claim there) *)
Theorem C02_seq_length_mismatch : forall k cells op vs,
  List.length vs <> List.length cells -> compare k cells op (inj_ref (RSeq vs)) = Raise TypeError.
Proof. exact compare_seq_length_mismatch. Qed.
Print Assumptions C02_seq_length_mismatch.

(* The whole operation: comparing, then building the result BY ROW ID (DataMatrix._selectrowid re-reads every
   column through _getrowidkey) is the positional selection of the specification -- with all columns and cells of
   the selected rows -- on every well-formed table whose row ids are duplicate-free.  (A resize that hands out an
   existing id, as in seeded changes C02-2 / C02-6, leaves exactly this premise.) *)
Theorem C02_l_select_refines : forall t c op r s,
  wf_table t = true -> nodup_N (ids t) = true -> slot_of t c = Some s ->
  forallb (cell_of (skind s)) (scells s) = true -> ref_wf r = true -> in_domain (skind s) op r (scells s) = true ->
  l_select t c op (inj_ref r) = Ok (select t c op r).
Proof. exact l_select_refines. Qed.
Print Assumptions C02_l_select_refines.

(* the code's comparison of Python objects, with raising = no match, is py_cmp *)
Theorem C02_swallow_py_op : forall op c v, swallow (py_op op (pyv_of_val c) (pyv_of_val v)) = Ok (py_cmp op c v).
Proof. exact swallow_py_op. Qed.
Print Assumptions C02_swallow_py_op.

(* non-vacuity / witnesses *)
Open Scope string_scope.
Open Scope Z_scope.
Definition ex_t : table :=
  {| fam := 0; ids := [5; 3; 9]%N; names := [("p", 0%nat); ("c", 1%nat)];
     slots := [ {| skind := KMixed; scells := [VInt 100; VInt 101; VInt 102] |};
                {| skind := KMixed; scells := [VStr "a"; VFlt FNan; VInt 2] |} ];
     tsorted := true; dflt := KMixed |}.
Example C02_ex_wf : wf_table ex_t = true. Proof. reflexivity. Qed.
Example C02_ex_nan : option_map ids (select ex_t "c" CEq (RScalar (VFlt FNan))) = Some [3%N].
Proof. vm_compute. reflexivity. Qed.
Example C02_ex_lt : option_map view (select ex_t "c" CLt (RScalar (VInt 3)))
  = Some [("p", KMixed, [VInt 102]); ("c", KMixed, [VInt 2])].
Proof. vm_compute. reflexivity. Qed.
Example C02_ex_model : compare KMixed [VStr "a"; VFlt FNan; VInt 2] CNe (MSet [PInt 2; PStr "a" None None]) = Ok [1%nat].
Proof. vm_compute. reflexivity. Qed.
Example C02_ex_proved_dom : proved_dom KInt CGe (RScalar (VInt 7)) 3 = true /\ proved_dom KFloat CEq (RScalar (VFlt (FInf true))) 0 = true.
Proof. split; reflexivity. Qed.
(* the premises of C02_compare_refines are inhabited by a sequence reference and by integral float references *)
Definition ex_fcells : list val := [VFlt (FFin false 1 1); VFlt FNan; VFlt (FFin false 5 (-1)); VFlt (FZero true)].
Definition ex_seq : ref := RSeq [VInt 2; VFlt (FFin false 1 1); VFlt (FFin false 5 (-1)); VInt 0].       (* [2, 2.0, 2.5, 0] *)
Example C02_ex_seq_premises :
  forallb (cell_of KFloat) ex_fcells = true /\ ref_wf ex_seq = true /\ in_domain KFloat CLe ex_seq ex_fcells = true.
Proof. repeat split; vm_compute; reflexivity. Qed.
Example C02_ex_seq_model : compare KFloat ex_fcells CLe (inj_ref ex_seq) = Ok [0%nat; 2%nat; 3%nat]
  /\ sel_positions CLe ex_seq ex_fcells = [0%nat; 2%nat; 3%nat].
Proof. split; vm_compute; reflexivity. Qed.
Example C02_ex_seq_mismatch : compare KFloat ex_fcells CEq (inj_ref (RSeq [VInt 2])) = Raise TypeError.
Proof. vm_compute. reflexivity. Qed.
(* FloatColumn > 2.0 (an integral float), FloatColumn == 2 ** 53, IntColumn <= 7.0, IntColumn != inf *)
Example C02_ex_integral_premises :
  ref_wf (RScalar (VFlt (FFin false 1 1))) = true
  /\ in_domain KFloat CGt (RScalar (VFlt (FFin false 1 1))) ex_fcells = true
  /\ in_domain KFloat CEq (RScalar (VInt (2 ^ 53))) ex_fcells = true
  /\ in_domain KInt CLe (RScalar (VFlt (FFin false 7 0))) [VInt 7; VInt 8] = true
  /\ in_domain KInt CNe (RScalar (VFlt (FInf false))) [VInt 7; VInt 8] = true.
Proof. repeat split; vm_compute; reflexivity. Qed.
Example C02_ex_integral_model :
  compare KFloat ex_fcells CGt (inj_ref (RScalar (VFlt (FFin false 1 1)))) = Ok [2%nat]
  /\ compare KInt [VInt 7; VInt 8] CLe (inj_ref (RScalar (VFlt (FFin false 7 0)))) = Ok [0%nat]
  /\ compare KInt [VInt 7; VInt 8] CNe (inj_ref (RScalar (VFlt (FInf false)))) = Ok [0%nat; 1%nat].
Proof. repeat split; vm_compute; reflexivity. Qed.
(* the table-level premises: ex_t is well-formed, its ids are duplicate-free *)
Example C02_ex_table_premises : nodup_N (ids ex_t) = true /\ forallb (cell_of KMixed) [VStr "a"; VFlt FNan; VInt 2] = true.
Proof. split; reflexivity. Qed.
Example C02_ex_l_select : l_select ex_t "c" CNe (inj_ref (RSeq [VStr "a"; VInt 1; VFlt (FFin false 1 1)]))
  = Ok (select ex_t "c" CNe (RSeq [VStr "a"; VInt 1; VFlt (FFin false 1 1)])).
Proof. vm_compute. reflexivity. Qed.
(* IntColumn == object (repaired: the code used to test `other is int`): every int is an object *)
Example C02_int_object :
  compare KInt [VInt 1] CEq (MType TObject) = Ok [0%nat] /\ sel_positions CEq (RType TObject) [VInt 1] = [0%nat].
Proof. split; vm_compute; reflexivity. Qed.
