(* C02: column comparison selects exactly the matching rows.  Statements only. *)
From Coq Require Import ZArith NArith List Bool String Sorted Permutation.
From DM Require Import Base.PyVal Spec.Nf Spec.Table Spec.Select Gen.KCheck Model.SelectRef Gen.KSelect Model.Select.
From DM Require Import Proofs.SelectFacts Proofs.SelectRefine.
Import ListNotations.

(* The result of `t.c OP r` holds exactly the rows whose cell satisfies the comparison (sat_at),
   in the source's row order (positions strictly increasing), with the row ids and every column of
   those rows intact, in the same row family, under the same column names.  (The source t is a value:
   it cannot change; on the implementation this is checked by the generated cases.) *)
Theorem C02_select_exact : forall t c op r s,
  wf_table t = true -> slot_of t c = Some s ->
  let ps := sel_positions op r (scells s) in
  exists t', select t c op r = Some t'
    /\ (forall p, In p ps <-> satp op r (scells s) p = true)
    /\ StronglySorted lt ps
    /\ ids t' = pick ps (ids t) /\ view t' = view_pick ps (view t)
    /\ fam t' = fam t /\ map fst (names t') = map fst (names t) /\ wf_table t' = true.
Proof. exact select_exact. Qed.
Print Assumptions C02_select_exact.

(* Independence of row order and of derivation: selecting from any table obtained from t by taking
   rows ps0 (reordering, selection, concatenation all are such) yields exactly the rows of ps0 whose
   cell in t satisfies the comparison, in the order of ps0 (a sequence reference travels with its rows). *)
Theorem C02_select_equivariant : forall t c op r s ps0 t2,
  wf_table t = true -> slot_of t c = Some s ->
  (forall p, In p ps0 -> (p < nrows t)%nat) ->
  match r with RSeq vs => List.length vs = nrows t | _ => True end ->
  take ps0 t = Some t2 ->
  exists t2', select t2 c op (reorder_ref ps0 r) = Some t2' /\
    let qs := filter (satp op r (scells s)) ps0 in
    ids t2' = pick qs (ids t) /\ view t2' = view_pick qs (view t).
Proof. exact select_equivariant. Qed.
Print Assumptions C02_select_equivariant.

Theorem C02_select_perm_rows : forall t c op r s ps0 t2 t1',
  wf_table t = true -> slot_of t c = Some s ->
  Permutation ps0 (seq 0 (nrows t)) ->
  match r with RSeq vs => List.length vs = nrows t | _ => True end ->
  take ps0 t = Some t2 -> select t c op r = Some t1' ->
  exists t2', select t2 c op (reorder_ref ps0 r) = Some t2' /\ Permutation (ids t2') (ids t1').
Proof. exact select_perm_rows. Qed.
Print Assumptions C02_select_perm_rows.

Theorem C02_take_spec : forall t ps,
  wf_table t = true -> (forall p, In p ps -> (p < nrows t)%nat) ->
  exists t', take ps t = Some t' /\ ids t' = pick ps (ids t) /\ view t' = view_pick ps (view t)
             /\ fam t' = fam t /\ map fst (names t') = map fst (names t) /\ wf_table t' = true.
Proof. exact take_spec. Qed.
Print Assumptions C02_take_spec.

(* reference kinds *)
Theorem C02_seq_rowwise : forall op vs i cell,
  sat_at op (RSeq vs) i cell = match nth_error vs i with Some v => py_cmp op cell v | None => false end.
Proof. exact select_seq_rowwise. Qed.
Print Assumptions C02_seq_rowwise.

Theorem C02_set_eq_any : forall vs i cell,
  sat_at CEq (RSet vs) i cell = true <-> exists v, In v vs /\ py_cmp CEq cell v = true.
Proof. exact select_set_eq_any. Qed.
Print Assumptions C02_set_eq_any.

Theorem C02_set_ne_all : forall vs i cell,
  sat_at CNe (RSet vs) i cell = true <-> forall v, In v vs -> py_cmp CEq cell v = false.
Proof. exact select_set_ne_all. Qed.
Print Assumptions C02_set_ne_all.

Theorem C02_nan_only_by_eq_nan : forall op r i,
  sat_at op (RScalar r) i (VFlt FNan) = true -> (op = CEq /\ is_nan_val r = true) \/ op = CNe.
Proof. exact nan_only_by_eq_nan. Qed.
Print Assumptions C02_nan_only_by_eq_nan.

(* L1 = L0: the model assembled from the kernels regenerated from _basecolumn.py / _numericcolumn.py
   (dispatch chain, op tests, per-cell tests, coerced reference, NaN / inf special cases, IntColumn
   fallbacks) selects the positions of the specification.  _partial: see Proofs/SelectRefine.v
   proved_dom -- scalar references (MixedColumn: all; IntColumn: int64 integers; FloatColumn: non-integral
   floats, +-inf with == / !=; NaN with == / !=), sets, predicates and types for every column type;
   not: sequences, integer-valued FloatColumn references, float references of an IntColumn. *)
Theorem C02_compare_refines_partial : forall k cells op r,
  forallb (cell_of k) cells = true -> proved_dom k op r = true ->
  compare k cells op (inj_ref r) = Ok (sel_positions op r cells).
Proof. exact compare_refines_partial. Qed.
Print Assumptions C02_compare_refines_partial.

(* the code's comparison of Python objects, with raising = no match, is py_cmp *)
Theorem C02_swallow_py_op : forall op c v, swallow (py_op op (pyv_of_val c) (pyv_of_val v)) = Ok (py_cmp op c v).
Proof. exact swallow_py_op. Qed.
Print Assumptions C02_swallow_py_op.

(* non-vacuity / witnesses *)
Open Scope string_scope.
Open Scope Z_scope.
Definition ex_t : table :=
  {| fam := 0; ids := [5; 3; 9]%N; names := [("p", 0%nat); ("c", 1%nat)];
     slots := [ {| skind := KMixed; scells := [VInt 100; VInt 101; VInt 102] |};
                {| skind := KMixed; scells := [VStr "a"; VFlt FNan; VInt 2] |} ];
     tsorted := true; dflt := KMixed |}.
Example C02_ex_wf : wf_table ex_t = true. Proof. reflexivity. Qed.
Example C02_ex_nan : option_map ids (select ex_t "c" CEq (RScalar (VFlt FNan))) = Some [3%N].
Proof. vm_compute. reflexivity. Qed.
Example C02_ex_lt : option_map view (select ex_t "c" CLt (RScalar (VInt 3)))
  = Some [("p", KMixed, [VInt 102]); ("c", KMixed, [VInt 2])].
Proof. vm_compute. reflexivity. Qed.
Example C02_ex_model : compare KMixed [VStr "a"; VFlt FNan; VInt 2] CNe (MSet [PInt 2; PStr "a" None None]) = Ok [1%nat].
Proof. vm_compute. reflexivity. Qed.
Example C02_ex_proved_dom : proved_dom KInt CGe (RScalar (VInt 7)) = true /\ proved_dom KFloat CEq (RScalar (VFlt (FInf true))) = true.
Proof. split; reflexivity. Qed.
(* IntColumn == object (repaired: the code used to test `other is int`): every int is an object *)
Example C02_int_object :
  compare KInt [VInt 1] CEq (MType TObject) = Ok [0%nat] /\ sel_positions CEq (RType TObject) [VInt 1] = [0%nat].
Proof. split; vm_compute; reflexivity. Qed.
