(* C17: pickle, JSON and pandas conversion preserve the table.  Statements only.
   unpickle = DataMatrix.__setstate__ after DataMatrix.__getstate__ over the object tree (OrderedState with
   the regenerated skip test and ignore constants); pickle itself is the identity on that tree (trusted). *)
From Coq Require Import ZArith NArith List Bool String Permutation.
From DM Require Import Base.PyVal Base.PersistPy Spec.Nf Spec.Table Model.LTable Spec.Persist Gen.KPersist Model.Persist
  Proofs.PersistFacts Proofs.PersistJsonFacts.
Import ListNotations.
Open Scope string_scope.

(* OrderedState: for EVERY __dict__ with distinct keys, __setstate__ after __getstate__ gives back each
   attribute that the skip test keeps, and drops the others *)
Theorem C17_ordered_state_roundtrip :
  forall (A : Type) (ignore : ign) (d : dict A) (k : string),
    NoDup (map fst d) ->
    lookup k (setstate (getstate ignore d)) = if k_skip k ignore then None else lookup k d.
Proof. exact @os_roundtrip. Qed.
Print Assumptions C17_ordered_state_roundtrip.

(* the code's substring test (`k in ignore` with a str) drops exactly the intended attribute on the attribute
   names Index, the columns and DataMatrix really have (the harness compares these lists with live objects) *)
Theorem C17_substring_is_equality :
  (forall k, In k index_attr_names -> k_skip k k_ignore_index = String.eqb k "_metaindex")
  /\ (forall kd k, In k (col_attr_names kd) -> k_skip k k_ignore_col = String.eqb k "_datamatrix")
  /\ (forall k, In k dm_attr_names -> k_skip k k_ignore_dm = String.eqb k "_id").
Proof. exact (conj index_names_coincide (conj col_names_coincide dm_names_coincide)). Qed.
Print Assumptions C17_substring_is_equality.

Theorem C17_getstate_drops_exactly :
  (forall i, index_getstate i = getstate_eq "_metaindex" (index_dict i))
  /\ (forall c, cs_state (col_getstate c) = getstate_eq "_datamatrix" (col_dict c))
  /\ (forall t, dm_getstate t = getstate_eq "_id" (dm_dict t)).
Proof. exact getstate_drops_exactly. Qed.
Print Assumptions C17_getstate_drops_exactly.

(* unpickle_abs: same names, kinds, row ids in order, cells, aliasing, flags -- everything but the family *)
Theorem C17_unpickle_abs :
  forall n t, exists r n', unpickle n t = Some (r, n') /\ abs r = with_fam n (abs t).
Proof. exact unpickle_abs. Qed.
Print Assumptions C17_unpickle_abs.

(* unpickle_inv: the restored object satisfies the representation invariant (columns re-attached,
   position cache dropped, max cache kept and still valid), so it is a state of the same machine as the original *)
Theorem C17_unpickle_inv :
  forall n t, inv_b t = true -> cols_referenced t = true ->
              exists r n', unpickle n t = Some (r, n') /\ inv_b r = true.
Proof. exact unpickle_inv. Qed.
Print Assumptions C17_unpickle_inv.

(* fresh family: the restored table gets the current counter value and the counter moves on *)
Theorem C17_unpickle_fresh_family :
  forall n t r n', unpickle n t = Some (r, n') -> l_fam r = n /\ (n < n')%nat.
Proof. exact unpickle_fresh. Qed.
Print Assumptions C17_unpickle_fresh_family.

(* L1 refines L0 (Spec/Persist.v) *)
Theorem C17_unpickle_refines_spec :
  forall n t used, (forall f, In f used -> (f < n)%nat) ->
    exists r n', unpickle n t = Some (r, n')
                 /\ restored_like (abs t) (abs r) = true /\ fresh_fam used (abs r) = true.
Proof. exact unpickle_refines_spec. Qed.
Print Assumptions C17_unpickle_refines_spec.

(* JSON, for every dumps/loads pair with loads (dumps x) = x *)
Theorem C17_json_roundtrip :
  forall (text : Type) (dumps : jdoc -> text) (loads : text -> jdoc),
    (forall x, loads (dumps x) = x) ->
    forall nextid t, inv_b t = true ->
      exists r, from_json text loads nextid (to_json text dumps t) = Some r
                /\ l_fam r = nextid
                /\ ids (abs r) = iotaN 0 (nrows (abs t))
                /\ view (abs r) = listing (abs t)
                /\ tsorted (abs r) = true /\ dflt (abs r) = KMixed
                /\ inv_b r = true.
Proof. exact json_roundtrip. Qed.
Print Assumptions C17_json_roundtrip.

Theorem C17_json_roundtrip_spec :
  forall (text : Type) (dumps : jdoc -> text) (loads : text -> jdoc),
    (forall x, loads (dumps x) = x) ->
    forall nextid t used, inv_b t = true -> (forall f, In f used -> (f < nextid)%nat) ->
      exists r, from_json text loads nextid (to_json text dumps t) = Some r
                /\ json_image_ok (abs t) (abs r) = true /\ fresh_fam used (abs r) = true /\ inv_b r = true.
Proof. exact json_roundtrip_spec. Qed.
Print Assumptions C17_json_roundtrip_spec.

(* different text whenever the row ids (order included), a listed name, or the kind/cells of a name differ *)
Theorem C17_json_injective :
  forall (text : Type) (dumps : jdoc -> text) (loads : text -> jdoc),
    (forall x, loads (dumps x) = x) ->
    forall d1 d2, inv_b d1 = true -> inv_b d2 = true ->
      to_json text dumps d1 = to_json text dumps d2 ->
      ids (abs d1) = ids (abs d2)
      /\ map (fun v : vcol => fst (fst v)) (listing (abs d1)) = map (fun v : vcol => fst (fst v)) (listing (abs d2))
      /\ forall n, col_view (abs d1) n = col_view (abs d2) n.
Proof. exact json_injective. Qed.
Print Assumptions C17_json_injective.

(* to_pandas: the mapping handed to pandas.DataFrame has exactly the listing's names and cell lists *)
Theorem C17_to_pandas_payload :
  forall t, pandas_payload t = map (fun v : vcol => (fst (fst v), snd v)) (listing (abs t)).
Proof. exact to_pandas_payload. Qed.
Print Assumptions C17_to_pandas_payload.

(* ---------- non-vacuity: a reordered two-column table with filled caches and a stale owner flag *)
Definition ex_t : ltable :=
  {| l_fam := 3;
     l_rowid := {| ia := [2%N; 0%N]; imeta := Some [(2%N, 0%nat); (0%N, 1%nat)]; imax := Some 2%Z |};
     l_names := [("b", 0%nat); ("a", 1%nat)];
     l_cols := [ {| lc_kind := KMixed; lc_rowid := {| ia := [2%N; 0%N]; imeta := None; imax := Some 2%Z |};
                    lc_cells := [VStr "x"; VNone]; lc_owner := true; lc_tc := true |};
                 {| lc_kind := KInt; lc_rowid := {| ia := [2%N; 0%N]; imeta := None; imax := None |};
                    lc_cells := [VInt 7; VInt (-1)]; lc_owner := true; lc_tc := true |} ];
     l_sorted := true; l_dflt := KMixed |}.
Example C17_ex_premises : inv_b ex_t = true /\ cols_referenced ex_t = true.
Proof. vm_compute. split; reflexivity. Qed.
Example C17_ex_unpickle :
  match unpickle 9 ex_t with
  | Some (r, n') => andb (inv_b r) (table_eqb (abs r) (with_fam 9 (abs ex_t))) = true /\ imeta (l_rowid r) = None
                    /\ imax (l_rowid r) = Some 2%Z /\ n' = 10%nat
  | None => False
  end.
Proof. vm_compute. repeat split; reflexivity. Qed.
Example C17_ex_getstate_keys :
  fst (dm_getstate ex_t) = ["_cols"; "_default_col_type"; "_rowid"; "_sorted"]
  /\ fst (index_getstate (l_rowid ex_t)) = ["_a"; "_length"; "_max"].
Proof. vm_compute. split; reflexivity. Qed.
(* the substring trap is real: an attribute called "_d" would be dropped by the column's ignore string *)
Example C17_ex_substring_trap : k_skip "_d" k_ignore_col = true /\ k_skip "_seq" k_ignore_col = false.
Proof. vm_compute. split; reflexivity. Qed.
Example C17_ex_json :
  match from_json jdoc (fun d => d) 5 (to_json jdoc (fun d => d) ex_t) with
  | Some r => map (fun v : vcol => fst (fst v)) (view (abs r)) = ["a"; "b"] /\ ids (abs r) = [0%N; 1%N] /\ inv_b r = true
  | None => False
  end.
Proof. vm_compute. repeat split; reflexivity. Qed.
