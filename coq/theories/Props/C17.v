(* C17: pickle, JSON and pandas conversion preserve the table.  Statements only.
   unpickle = DataMatrix.__setstate__ after DataMatrix.__getstate__ over the object tree (OrderedState with
   the regenerated skip test and ignore constants); pickle itself is the identity on that tree (trusted). *)
From Coq Require Import ZArith NArith List Bool String Permutation.
From DM Require Import Base.PyVal Base.PersistPy Spec.Nf Spec.Table Model.LTable Spec.Persist Gen.KPersist Model.Persist
  Model.PersistIds Model.XTable Model.PersistSeries
  Proofs.PersistFacts Proofs.PersistJsonFacts Proofs.PersistIdsFacts Proofs.PersistSeriesFacts.
Import ListNotations.
Open Scope string_scope.

(* OrderedState: for EVERY __dict__ with distinct keys, __setstate__ after __getstate__ gives back each
   attribute that the skip test keeps, and drops the others *)
Theorem C17_ordered_state_roundtrip :
  forall (A : Type) (ignore : ign) (d : dict A) (k : string),
    NoDup (map fst d) ->
    lookup k (setstate (getstate ignore d)) = if k_skip k ignore then None else lookup k d.
Proof. exact @os_roundtrip. Qed.
Print Assumptions C17_ordered_state_roundtrip.

(* the code's substring test (`k in ignore` with a str) drops exactly the intended attribute on the attribute
   names Index, the columns and DataMatrix really have (the harness compares these lists with live objects) *)
Theorem C17_substring_is_equality :
  (forall k, In k index_attr_names -> k_skip k k_ignore_index = String.eqb k "_metaindex")
  /\ (forall kd k, In k (col_attr_names kd) -> k_skip k k_ignore_col = String.eqb k "_datamatrix")
  /\ (forall k, In k dm_attr_names -> k_skip k k_ignore_dm = String.eqb k "_id").
Proof. exact (conj index_names_coincide (conj col_names_coincide dm_names_coincide)). Qed.
Print Assumptions C17_substring_is_equality.

Theorem C17_getstate_drops_exactly :
  (forall i, index_getstate i = getstate_eq "_metaindex" (index_dict i))
  /\ (forall c, cs_state (col_getstate c) = getstate_eq "_datamatrix" (col_dict c))
  /\ (forall t, dm_getstate t = getstate_eq "_id" (dm_dict t)).
Proof. exact getstate_drops_exactly. Qed.
Print Assumptions C17_getstate_drops_exactly.

(* unpickle_abs: same names, kinds, row ids in order, cells, aliasing, flags -- everything but the family *)
Theorem C17_unpickle_abs :
  forall n t, exists r n', unpickle n t = Some (r, n') /\ abs r = with_fam n (abs t).
Proof. exact unpickle_abs. Qed.
Print Assumptions C17_unpickle_abs.

(* unpickle_inv: the restored object satisfies the representation invariant (columns re-attached,
   position cache dropped, max cache kept and still valid), so it is a state of the same machine as the original *)
Theorem C17_unpickle_inv :
  forall n t, inv_b t = true -> cols_referenced t = true ->
              exists r n', unpickle n t = Some (r, n') /\ inv_b r = true.
Proof. exact unpickle_inv. Qed.
Print Assumptions C17_unpickle_inv.

(* fresh family: the restored table gets the current counter value and the counter moves on *)
Theorem C17_unpickle_fresh_family :
  forall n t r n', unpickle n t = Some (r, n') -> l_fam r = n /\ (n < n')%nat.
Proof. exact unpickle_fresh. Qed.
Print Assumptions C17_unpickle_fresh_family.

(* L1 refines L0 (Spec/Persist.v) *)
Theorem C17_unpickle_refines_spec :
  forall n t used, (forall f, In f used -> (f < n)%nat) ->
    exists r n', unpickle n t = Some (r, n')
                 /\ restored_like (abs t) (abs r) = true /\ fresh_fam used (abs r) = true.
Proof. exact unpickle_refines_spec. Qed.
Print Assumptions C17_unpickle_refines_spec.

(* JSON, for every dumps/loads pair with loads (dumps x) = x *)
Theorem C17_json_roundtrip :
  forall (text : Type) (dumps : jdoc -> text) (loads : text -> jdoc),
    (forall x, loads (dumps x) = x) ->
    forall nextid t, inv_b t = true ->
      exists r, from_json text loads nextid (to_json text dumps t) = Some r
                /\ l_fam r = nextid
                /\ ids (abs r) = iotaN 0 (nrows (abs t))
                /\ view (abs r) = listing (abs t)
                /\ tsorted (abs r) = true /\ dflt (abs r) = KMixed
                /\ inv_b r = true.
Proof. exact json_roundtrip. Qed.
Print Assumptions C17_json_roundtrip.

Theorem C17_json_roundtrip_spec :
  forall (text : Type) (dumps : jdoc -> text) (loads : text -> jdoc),
    (forall x, loads (dumps x) = x) ->
    forall nextid t used, inv_b t = true -> (forall f, In f used -> (f < nextid)%nat) ->
      exists r, from_json text loads nextid (to_json text dumps t) = Some r
                /\ json_image_ok (abs t) (abs r) = true /\ fresh_fam used (abs r) = true /\ inv_b r = true.
Proof. exact json_roundtrip_spec. Qed.
Print Assumptions C17_json_roundtrip_spec.

(* different text whenever the row ids (order included), a listed name, or the kind/cells of a name differ *)
Theorem C17_json_injective :
  forall (text : Type) (dumps : jdoc -> text) (loads : text -> jdoc),
    (forall x, loads (dumps x) = x) ->
    forall d1 d2, inv_b d1 = true -> inv_b d2 = true ->
      to_json text dumps d1 = to_json text dumps d2 ->
      ids (abs d1) = ids (abs d2)
      /\ map (fun v : vcol => fst (fst v)) (listing (abs d1)) = map (fun v : vcol => fst (fst v)) (listing (abs d2))
      /\ forall n, col_view (abs d1) n = col_view (abs d2) n.
Proof. exact json_injective. Qed.
Print Assumptions C17_json_injective.

(* to_pandas: the mapping handed to pandas.DataFrame has exactly the listing's names and cell lists *)
Theorem C17_to_pandas_payload :
  forall t, pandas_payload t = map (fun v : vcol => (fst (fst v), snd v)) (listing (abs t)).
Proof. exact to_pandas_payload. Qed.
Print Assumptions C17_to_pandas_payload.

(* ====================================================================
   The global family-id counter.  k_init_ids / k_setstate_ids / k_mutate_ids are regenerated from the `_id`
   statements of DataMatrix.__init__ / __setstate__ / _mutate IN SOURCE ORDER (counter -> (id, counter)). *)
Theorem C17_id_kernels :
  (forall n, fst (init_ids n) = n /\ (n < snd (init_ids n))%nat)
  /\ (forall n, fst (setstate_ids n) = n /\ (n < snd (setstate_ids n))%nat)
  /\ (forall own n, fst (mutate_ids own n) = own /\ (n <= snd (mutate_ids own n))%nat).
Proof. exact (conj init_ids_spec (conj setstate_ids_spec mutate_ids_spec)). Qed.
Print Assumptions C17_id_kernels.

(* for EVERY interleaving of constructions, restores, derivations (select/slice/merge) and mutations, every id in
   use stays below the counter ... *)
Theorem C17_ids_stay_below_the_counter :
  forall evs w, ids_below w = true -> ids_below (id_run evs w) = true.
Proof. exact id_run_below. Qed.
Print Assumptions C17_ids_stay_below_the_counter.

(* ... hence the families handed out by constructions and restores are pairwise different and none of them was in
   use before: a restored table and the next constructed table are never related *)
Theorem C17_roots_distinct_for_any_interleaving :
  forall evs w, ids_below w = true ->
    NoDup (id_roots w evs) /\ (forall f, In f (id_roots w evs) -> ~ In f (fams w)).
Proof. exact id_roots_fresh. Qed.
Print Assumptions C17_roots_distinct_for_any_interleaving.

Theorem C17_roots_refine_spec :
  forall evs w, ids_below w = true -> fresh_roots (fams w) (id_roots w evs) = true.
Proof. exact id_roots_refine_spec. Qed.
Print Assumptions C17_roots_refine_spec.

(* unpickling at the current counter: the restored family is not in use, the counter machine makes exactly the
   EvRestore step, and no later construction or restore (any continuation) gets that family again *)
Theorem C17_restored_family_unique :
  forall w t, ids_below w = true ->
    exists r n', unpickle (ctr w) t = Some (r, n')
      /\ ~ In (l_fam r) (fams w)
      /\ id_step w EvRestore = {| ctr := n'; fams := l_fam r :: fams w |}
      /\ forall later, ~ In (l_fam r) (id_roots (id_step w EvRestore) later).
Proof. exact restored_family_unique. Qed.
Print Assumptions C17_restored_family_unique.

(* ====================================================================
   Tables with SeriesColumns (Model/XTable.v; `shadow` forgets the series payloads, ser_payload is what it forgets) *)
Theorem C17_series_substring_is_equality :
  (forall k, In k ser_attr_names -> k_skip k k_ignore_col = String.eqb k "_datamatrix")
  /\ (forall s, ser_getstate s = getstate_eq "_datamatrix" (ser_dict s)).
Proof. exact (conj ser_names_coincide ser_getstate_drops_exactly). Qed.
Print Assumptions C17_series_substring_is_equality.

(* unpickling a table with series IS unpickling its shadow (so abs/inv/fresh-family above apply), and depth,
   defaultnan and every sample of every series come back, under the same names *)
Theorem C17_unpickle_series_shadow :
  forall n x r n', unpickle_x n x = Some (r, n') ->
    unpickle n (shadow x) = Some (shadow r, n')
    /\ map ser_payload (x_cols r) = map ser_payload (x_cols x)
    /\ x_names r = x_names x.
Proof. exact unpickle_x_shadow. Qed.
Print Assumptions C17_unpickle_series_shadow.

Theorem C17_unpickle_series_abs :
  forall n x, exists r n', unpickle_x n x = Some (r, n')
    /\ xs_table (xabs r) = with_fam n (xs_table (xabs x)) /\ xs_series (xabs r) = xs_series (xabs x)
    /\ map ser_payload (x_cols r) = map ser_payload (x_cols x).
Proof. exact unpickle_x_abs. Qed.
Print Assumptions C17_unpickle_series_abs.

Theorem C17_unpickle_series_inv :
  forall n x, xinv_b x = true -> cols_referenced (shadow x) = true ->
              exists r n', unpickle_x n x = Some (r, n') /\ xinv_b r = true.
Proof. exact unpickle_x_inv. Qed.
Print Assumptions C17_unpickle_series_inv.

Theorem C17_unpickle_series_refines_spec :
  forall n x used, (forall f, In f used -> (f < n)%nat) ->
    exists r n', unpickle_x n x = Some (r, n')
                 /\ xrestored_like (xabs x) (xabs r) = true /\ fresh_fam used (xs_table (xabs r)) = true.
Proof. exact unpickle_x_refines_spec. Qed.
Print Assumptions C17_unpickle_series_refines_spec.

Theorem C17_unpickle_series_counter :
  forall n x r n', unpickle_x n x = Some (r, n') -> x_fam r = fst (setstate_ids n) /\ n' = snd (setstate_ids n).
Proof. exact unpickle_x_counter. Qed.
Print Assumptions C17_unpickle_series_counter.

(* JSON with series: a 2-D array travels with its shape; depth = shape[1]; defaultnan comes back as True *)
Theorem C17_json_roundtrip_series :
  forall (text : Type) (dumps : xjdoc -> text) (loads : text -> xjdoc),
    (forall x, loads (dumps x) = x) ->
    forall nextid x, xinv_b x = true ->
      exists r, from_json_x text loads nextid (to_json_x text dumps x) = Some r
                /\ x_fam r = nextid
                /\ ids (abs (shadow r)) = iotaN 0 (nrows (abs (shadow x)))
                /\ view (abs (shadow r)) = listing (abs (shadow x))
                /\ map ser_payload (x_cols r) = map (listed_payload x) (to_list (x_sorted x) (x_names x))
                /\ x_names r = combine (map fst (to_list (x_sorted x) (x_names x)))
                                       (seq 0 (List.length (to_list (x_sorted x) (x_names x))))
                /\ x_sorted r = true /\ x_dflt r = KMixed
                /\ xinv_b r = true.
Proof. exact json_roundtrip_x. Qed.
Print Assumptions C17_json_roundtrip_series.

(* L1 refines L0 (Spec/Persist.xjson_image_ok: the listing on fresh row ids, every series with depth and rows) *)
Theorem C17_json_roundtrip_series_spec :
  forall (text : Type) (dumps : xjdoc -> text) (loads : text -> xjdoc),
    (forall d, loads (dumps d) = d) ->
    forall nextid x used, xinv_b x = true -> (forall f, In f used -> (f < nextid)%nat) ->
      exists r, from_json_x text loads nextid (to_json_x text dumps x) = Some r
                /\ xjson_image_ok (xabs x) (xabs r) = true /\ fresh_fam used (xs_table (xabs r)) = true /\ xinv_b r = true.
Proof. exact json_roundtrip_x_spec. Qed.
Print Assumptions C17_json_roundtrip_series_spec.

(* different text whenever the row ids, a listed name, the kind/cells of a name, or the depth / a sample of a
   series differ (or a name is a series in one table and not in the other) *)
Theorem C17_json_injective_series :
  forall (text : Type) (dumps : xjdoc -> text) (loads : text -> xjdoc),
    (forall x, loads (dumps x) = x) ->
    forall d1 d2, xinv_b d1 = true -> xinv_b d2 = true ->
      to_json_x text dumps d1 = to_json_x text dumps d2 ->
      ids (abs (shadow d1)) = ids (abs (shadow d2))
      /\ map (fun v : vcol => fst (fst v)) (listing (abs (shadow d1))) = map (fun v : vcol => fst (fst v)) (listing (abs (shadow d2)))
      /\ (forall n, col_view (abs (shadow d1)) n = col_view (abs (shadow d2)) n)
      /\ (forall n, xser_view d1 n = xser_view d2 n).
Proof. exact json_injective_x. Qed.
Print Assumptions C17_json_injective_series.

(* to_pandas (DataMatrix and single column): what is handed to pandas are the cells themselves, a series cell as its
   row of numbers WHATEVER THE DEPTH (k_pandas_src_* and the depth test of _printable_list are regenerated) *)
Theorem C17_to_pandas_payload_series :
  forall x,
    pandas_payload_x x = map (fun ni => match nth_error (x_cols x) (snd ni) with
                                        | Some c => (fst ni, true_cells c)
                                        | None => (fst ni, PcVals [])
                                        end) (to_list (x_sorted x) (x_names x))
    /\ forall c, pandas_series_x c = true_cells c.
Proof. exact to_pandas_payload_x. Qed.
Print Assumptions C17_to_pandas_payload_series.

(* ---------- non-vacuity: a reordered two-column table with filled caches and a stale owner flag *)
Definition ex_t : ltable :=
  {| l_fam := 3;
     l_rowid := {| ia := [2%N; 0%N]; imeta := Some [(2%N, 0%nat); (0%N, 1%nat)]; imax := Some 2%Z |};
     l_names := [("b", 0%nat); ("a", 1%nat)];
     l_cols := [ {| lc_kind := KMixed; lc_rowid := {| ia := [2%N; 0%N]; imeta := None; imax := Some 2%Z |};
                    lc_cells := [VStr "x"; VNone]; lc_owner := true; lc_tc := true |};
                 {| lc_kind := KInt; lc_rowid := {| ia := [2%N; 0%N]; imeta := None; imax := None |};
                    lc_cells := [VInt 7; VInt (-1)]; lc_owner := true; lc_tc := true |} ];
     l_sorted := true; l_dflt := KMixed |}.
Example C17_ex_premises : inv_b ex_t = true /\ cols_referenced ex_t = true.
Proof. vm_compute. split; reflexivity. Qed.
Example C17_ex_unpickle :
  match unpickle 9 ex_t with
  | Some (r, n') => andb (inv_b r) (table_eqb (abs r) (with_fam 9 (abs ex_t))) = true /\ imeta (l_rowid r) = None
                    /\ imax (l_rowid r) = Some 2%Z /\ Nat.ltb 9 n' = true
  | None => False
  end.
Proof. vm_compute. repeat split; reflexivity. Qed.
Example C17_ex_getstate_keys :
  fst (dm_getstate ex_t) = ["_cols"; "_default_col_type"; "_rowid"; "_sorted"]
  /\ fst (index_getstate (l_rowid ex_t)) = ["_a"; "_length"; "_max"].
Proof. vm_compute. split; reflexivity. Qed.
(* the substring trap is real: an attribute called "_d" would be dropped by the column's ignore string *)
Example C17_ex_substring_trap : k_skip "_d" k_ignore_col = true /\ k_skip "_seq" k_ignore_col = false.
Proof. vm_compute. split; reflexivity. Qed.
Example C17_ex_json :
  match from_json jdoc (fun d => d) 5 (to_json jdoc (fun d => d) ex_t) with
  | Some r => map (fun v : vcol => fst (fst v)) (view (abs r)) = ["a"; "b"] /\ ids (abs r) = [0%N; 1%N] /\ inv_b r = true
  | None => False
  end.
Proof. vm_compute. repeat split; reflexivity. Qed.

(* the counter machine from the state in which the module is imported: construct, restore, construct, derive from
   the restored one, mutate, restore -- four roots, all different; the premise of the theorems holds *)
Definition ex_evs : list idev := [EvNew; EvRestore; EvNew; EvDerive 1; EvMutate 0; EvRestore].
Example C17_ex_ids :
  ids_below id_world0 = true
  /\ List.length (id_roots id_world0 ex_evs) = 4%nat
  /\ fresh_roots (fams id_world0) (id_roots id_world0 ex_evs) = true
  /\ List.length (fams (id_run ex_evs id_world0)) = 5%nat
  /\ nth_error (fams (id_run ex_evs id_world0)) 1 = nth_error (fams (id_run ex_evs id_world0)) 3   (* the derived table *)
  /\ ids_below (id_run ex_evs id_world0) = true.
Proof. vm_compute. repeat split; reflexivity. Qed.
(* a table with a depth-5 series (NaN and inf samples, defaultnan off) next to a MixedColumn, reordered *)
Definition ex_x : xtable :=
  {| x_fam := 3;
     x_rowid := {| ia := [2%N; 0%N]; imeta := None; imax := Some 2%Z |};
     x_names := [("s", 0%nat); ("a", 1%nat)];
     x_cols := [ XS {| sc_depth := 5; sc_dnan := false; sc_rowid := [2%N; 0%N];
                       sc_cells := [[FNan; FInf false; FZero true; FFin false 1 0; FFin true 5 (-1)];
                                    [FFin false 1 0; FFin false 1 1; FFin false 3 0; FFin false 1 2; FFin false 5 0]];
                       sc_owner := true; sc_tc := true |};
                 XP {| lc_kind := KMixed; lc_rowid := {| ia := [2%N; 0%N]; imeta := None; imax := None |};
                       lc_cells := [VStr "x"; VNone]; lc_owner := true; lc_tc := true |} ];
     x_sorted := true; x_dflt := KMixed |}.
Example C17_ex_series_premises : xinv_b ex_x = true /\ cols_referenced (shadow ex_x) = true.
Proof. vm_compute. split; reflexivity. Qed.
Example C17_ex_series_unpickle :
  match unpickle_x 9 ex_x with
  | Some (r, n') => xinv_b r = true /\ xrestored_like (xabs ex_x) (xabs r) = true /\ x_fam r = 9%nat /\ Nat.ltb 9 n' = true
                    /\ map ser_payload (x_cols r) = map ser_payload (x_cols ex_x)
  | None => False
  end.
Proof. vm_compute. repeat split; reflexivity. Qed.
Example C17_ex_series_json :
  match from_json_x xjdoc (fun d => d) 5 (to_json_x xjdoc (fun d => d) ex_x) with
  | Some r => xinv_b r = true /\ xjson_image_ok (xabs ex_x) (xabs r) = true /\ x_names r = [("a", 0%nat); ("s", 1%nat)]
              /\ xser_view r "s" = xser_view ex_x "s"
  | None => False
  end.
Proof. vm_compute. repeat split; reflexivity. Qed.
Example C17_ex_series_keys :
  fst (ser_getstate {| sc_depth := 2; sc_dnan := true; sc_rowid := []; sc_cells := []; sc_owner := true; sc_tc := true |})
  = ["_depth"; "_rowid"; "_rowid_argsort_cache"; "_seq"; "_typechecking"; "defaultnan"].
Proof. vm_compute. reflexivity. Qed.
