(* C12: descriptive statistics follow their textbook definitions.  Statements only; proofs live in
   Proofs/StatsFacts.v (laws of the L0 spec) and Proofs/StatsRefine.v (L1 model on the regenerated kernels = L0).
   Numbers are exact canonical rationals Qc (every int and finite binary64 is one); None / MNan = NaN;
   MOut = the input left the model (an infinity, or a cell the column type cannot hold). *)
From Coq Require Import ZArith QArith Qcanon List Bool String Permutation.
From DM Require Import Base.PyVal Base.QcPy Spec.Nf Spec.Stats Gen.KCheck Gen.KStats Model.Stats Model.StatsOp
  Proofs.StatsFacts Proofs.StatsRefine Proofs.StatsX Proofs.StatsOpFacts.
Import ListNotations.
Open Scope Qc_scope.

(* ---- the model of each column type computes the textbook statistic of the finite numeric cells ------------ *)

(* BaseColumn._numbers, through the generated filter (_nanorinf, isinstance Number) and conversion (float) *)
Theorem C12_numbers_refines :
  forall cells, in_scope cells = true -> m_nums cells = Some (nums (map fcast cells)).
Proof. exact m_nums_spec. Qed.
Print Assumptions C12_numbers_refines.

Theorem C12_float_of_int_exact :
  forall cells, Forall int_exact cells -> nums (map fcast cells) = nums cells.
Proof. exact nums_fcast_exact. Qed.
Print Assumptions C12_float_of_int_exact.

(* MixedColumn: strings, None and NaN are ignored; every statistic is the textbook one *)
Theorem C12_stat_ignores_non_numeric :
  forall s cells, in_scope cells = true -> Forall int_exact cells ->
    m_stat s cells = match s, nums cells with Sum, [] => MNan | _, _ => lift (col_stat s cells) end.
Proof. exact m_stat_ignores_non_numeric. Qed.
Print Assumptions C12_stat_ignores_non_numeric.

(* all three column types, one statement (seen KMixed = ints through float(), otherwise the cells themselves) *)
Theorem C12_l1_refines_l0 :
  forall k s cells, in_scope cells = true ->
    l1_stat k s cells = MOut \/
    l1_stat k s cells =
      match s, nums (seen k cells) with
      | Sum, [] => match k, cells with KFloat, _ :: _ => MVal 0 | _, _ => MNan end
      | _, _ => lift (col_stat s (seen k cells))
      end.
Proof. exact l1_stat_spec. Qed.
Print Assumptions C12_l1_refines_l0.

(* cells that are not finite numbers do not matter, wherever they stand *)
Theorem C12_spec_ignores_non_numeric :
  forall s cells, col_stat s (filter is_number_cell cells) = col_stat s cells.
Proof. exact col_stat_ignores. Qed.
Print Assumptions C12_spec_ignores_non_numeric.

(* ---- row order ------------------------------------------------------------------------------------------- *)
Theorem C12_stats_perm :
  forall s cells cells', Permutation cells cells' -> col_stat s cells = col_stat s cells'.
Proof. exact col_stat_perm. Qed.
Print Assumptions C12_stats_perm.

Theorem C12_std_perm :
  forall l l' s, Permutation l l' -> is_std l s -> is_std l' s.
Proof. exact std_perm. Qed.
Print Assumptions C12_std_perm.

Theorem C12_unique_perm :
  forall cells cells', Permutation cells cells' ->
    Permutation (distinct cells) (distinct cells') /\ List.length (distinct cells) = List.length (distinct cells').
Proof. exact (fun c c' P => conj (distinct_perm c c' P) (count_perm c c' P)). Qed.
Print Assumptions C12_unique_perm.

(* ---- median ---------------------------------------------------------------------------------------------- *)
Theorem C12_median_spec :
  forall l, l <> [] ->
    let m := median l in
    let n := List.length l in
    let s := qsort l in
    (n <= 2 * count_le m l)%nat /\ (n <= 2 * count_ge m l)%nat /\
    (Nat.odd n = true -> In m l /\ m = nth (Nat.div2 n) s 0) /\
    (Nat.odd n = false ->
       let a := nth (Nat.div2 n - 1) s 0 in let b := nth (Nat.div2 n) s 0 in
       In a l /\ In b l /\ a <= b /\ m = (a + b) / qz 2).
Proof. exact median_spec. Qed.
Print Assumptions C12_median_spec.

Theorem C12_sorted_is_sorted_permutation :
  forall l, Sorted.StronglySorted Qcle (qsort l) /\ Permutation (qsort l) l.
Proof. exact (fun l => conj (qsort_sorted l) (qsort_perm l)). Qed.
Print Assumptions C12_sorted_is_sorted_permutation.

(* ---- min / max / sum ------------------------------------------------------------------------------------- *)
Theorem C12_min_max_spec :
  forall l, l <> [] ->
    (In (qmin l) l /\ forall x, In x l -> qmin l <= x) /\ (In (qmax l) l /\ forall x, In x l -> x <= qmax l).
Proof. exact (fun l H => conj (qmin_spec l H) (qmax_spec l H)). Qed.
Print Assumptions C12_min_max_spec.

(* ---- variance / standard deviation (n-1 denominator), without real numbers -------------------------------- *)
Theorem C12_var_nonneg : forall l, (2 <= List.length l)%nat -> 0 <= var l.
Proof. exact var_nonneg. Qed.
Print Assumptions C12_var_nonneg.

(* the standard deviation is characterised by  0 <= s  and  s * s = var  : there is at most one such number *)
Theorem C12_std_sq : forall l s1 s2, is_std l s1 -> is_std l s2 -> s1 = s2.
Proof. exact std_unique. Qed.
Print Assumptions C12_std_sq.

(* ---- no numbers => NaN; fewer than two => std NaN (all three column types, through the generated guards) -- *)
Theorem C12_empty_is_nan :
  forall k s cells, in_scope cells = true -> nums (seen k cells) = [] -> s <> Sum ->
    l1_stat k s cells = MNan \/ l1_stat k s cells = MOut.
Proof. exact empty_is_nan'. Qed.
Print Assumptions C12_empty_is_nan.

Theorem C12_std_lt2_is_nan :
  forall k cells, in_scope cells = true -> (List.length (nums (seen k cells)) < 2)%nat ->
    l1_stat k Var cells = MNan \/ l1_stat k Var cells = MOut.
Proof. exact std_lt2_is_nan. Qed.
Print Assumptions C12_std_lt2_is_nan.

(* ---- unique / count -------------------------------------------------------------------------------------- *)
Theorem C12_unique_nodup : forall k cells, NoDup (umodel_list (l1_unique k cells)).
Proof. exact l1_unique_nodup. Qed.
Print Assumptions C12_unique_nodup.

Theorem C12_unique_complete :
  forall k cells x, In x (umodel_list (l1_unique k cells)) <-> In x (keys cells).
Proof. exact l1_unique_complete. Qed.
Print Assumptions C12_unique_complete.

Theorem C12_count_length :
  forall k cells u,
    l1_count k cells u = match k with
                         | KMixed => zlen u
                         | _ => (zlen (umodel_list (l1_unique k cells)) + (if has_nan cells then 1 else 0))%Z
                         end.
Proof. exact l1_count_length. Qed.
Print Assumptions C12_count_length.

(* the boolean the oracle evaluates on the implementation's answer is the specification; and any answer that
   satisfies it has as many non-NaN entries as there are distinct non-NaN values *)
Theorem C12_unique_oracle_sound :
  forall cells u, unique_ok cells u = true <-> unique_spec cells u.
Proof. exact unique_ok_spec. Qed.
Print Assumptions C12_unique_oracle_sound.

Theorem C12_unique_spec_count :
  forall cells u, unique_spec cells u -> List.length (keys u) = List.length (distinct cells).
Proof. exact unique_spec_count. Qed.
Print Assumptions C12_unique_spec_count.

(* ---- the three column types agree on the same numbers ----------------------------------------------------- *)
Theorem C12_stats_kind_agree_mixed_float :
  forall s cells, in_scope cells = true -> (s <> Sum \/ nums (map fcast cells) <> []) ->
    m_stat s cells = f_stat s (map to_fl cells).
Proof. exact mixed_float_agree. Qed.
Print Assumptions C12_stats_kind_agree_mixed_float.

Theorem C12_stats_kind_agree_int_mixed :
  forall s zs, Forall (fun z => (Z.abs z < 2 ^ 53)%Z) zs -> i_stat s zs = m_stat s (map VInt zs).
Proof. exact int_mixed_agree. Qed.
Print Assumptions C12_stats_kind_agree_int_mixed.

Theorem C12_stats_kind_agree_int_float :
  forall s zs, Forall (fun z => (Z.abs z < 2 ^ 53)%Z) zs -> zs <> [] -> i_stat s zs = f_stat s (map round53 zs).
Proof. exact int_float_agree. Qed.
Print Assumptions C12_stats_kind_agree_int_float.

(* ---- cells stored WITHOUT the column's type check (Spec/Stats.v xcell): `col @ f`, map_, a derived column inserted
   by reference, and what <<, selections, slices, sorts copy from it.  A bool, a NumPy integer / floating scalar, a
   Fraction / Decimal is a number and counts with its exact value. ------------------------------------------------- *)
Theorem C12_x_checked_cells_are_a_special_case : forall cells,
  xnums (map XV cells) = nums cells /\ xkeys (map XV cells) = keys cells /\ xin_scope (map XV cells) = in_scope cells.
Proof. exact x_embeds. Qed.
Print Assumptions C12_x_checked_cells_are_a_special_case.

Theorem C12_x_number_whatever_type_carries_it : forall z b f,
  xcell_q (XNpInt z) = xcell_q (XV (VInt z)) /\ xcell_q (XNpFlt b f) = xcell_q (XV (VFlt f)) /\
  xcell_q (XBool true) = xcell_q (XV (VInt 1)) /\ xcell_q (XBool false) = xcell_q (XV (VInt 0)) /\
  xcell_q (XRat (qz z)) = xcell_q (XV (VInt z)).
Proof. exact xcell_q_types. Qed.
Print Assumptions C12_x_number_whatever_type_carries_it.

(* BaseColumn._numbers through the generated filter and conversion keeps exactly the numeric cells: also the NumPy
   scalars and bools (a filter narrower than numbers.Number fails here) *)
Theorem C12_x_numbers_refines :
  forall cells, xin_scope cells = true -> forallb modelled cells = true ->
    xm_nums cells = Some (xnums (map xfcast cells)).
Proof. exact xm_nums_spec. Qed.
Print Assumptions C12_x_numbers_refines.

Theorem C12_x_stat_ignores_non_numeric :
  forall s cells, xin_scope cells = true -> forallb modelled cells = true -> Forall xint_exact cells ->
    xm_stat s cells = match s, xnums cells with Sum, [] => MNan | _, _ => lift (xcol_stat s cells) end.
Proof. exact xm_stat_ignores_non_numeric. Qed.
Print Assumptions C12_x_stat_ignores_non_numeric.

Theorem C12_x_l1_refines_l0 :
  forall k s cells, xin_scope cells = true ->
    xl1_stat k s cells = MOut \/
    xl1_stat k s cells =
      match s, xnums (xseen k cells) with
      | Sum, [] => match k, cells with KFloat, _ :: _ => MVal 0 | _, _ => MNan end
      | _, _ => lift (xcol_stat s (xseen k cells))
      end.
Proof. exact xl1_stat_spec. Qed.
Print Assumptions C12_x_l1_refines_l0.

Theorem C12_x_stats_perm :
  forall s cells cells', Permutation cells cells' -> xcol_stat s cells = xcol_stat s cells'.
Proof. exact xcol_stat_perm. Qed.
Print Assumptions C12_x_stats_perm.

Theorem C12_x_spec_ignores_non_numeric :
  forall s cells, xcol_stat s (filter is_number_xcell cells) = xcol_stat s cells.
Proof. exact xcol_stat_ignores. Qed.
Print Assumptions C12_x_spec_ignores_non_numeric.

(* the MixedColumn holding unchecked cells agrees with the FloatColumn holding float() of them *)
Theorem C12_x_kind_agree_mixed_float :
  forall s cells, xin_scope cells = true -> forallb modelled cells = true ->
    (s <> Sum \/ xnums (map xfcast cells) <> []) ->
    xm_stat s cells = f_stat s (map xto_fl cells).
Proof. exact xmixed_float_agree. Qed.
Print Assumptions C12_x_kind_agree_mixed_float.

Theorem C12_x_unique_oracle_sound :
  forall cells u, xunique_ok cells u = true <-> xunique_spec cells u.
Proof. exact xunique_ok_spec. Qed.
Print Assumptions C12_x_unique_oracle_sound.

Theorem C12_x_unique_spec_count :
  forall cells u, xunique_spec cells u -> List.length (xkeys u) = List.length (xdistinct cells).
Proof. exact xunique_spec_count. Qed.
Print Assumptions C12_x_unique_spec_count.

Theorem C12_x_unique_perm :
  forall cells cells', Permutation cells cells' -> Permutation (xdistinct cells) (xdistinct cells').
Proof. exact xdistinct_perm. Qed.
Print Assumptions C12_x_unique_perm.

Theorem C12_x_unique_model :
  forall k cells, NoDup (umodel_list (xl1_unique k cells)) /\
    forall x, In x (umodel_list (xl1_unique k cells)) <-> In x (xkeys cells).
Proof. exact (fun k cells => conj (xl1_unique_nodup k cells) (xl1_unique_complete k cells)). Qed.
Print Assumptions C12_x_unique_model.

(* ---- the result column of an operator on an IntColumn, read before it is assigned anywhere (Model/StatsOp.v):
   the NumPy statistics reduce the buffer `_seq`, the cells are read through int(_seq[i]).  With the cast of
   IntColumn._operate (`.astype(self.dtype)`, pinned) the statistics of the result object are those of its cells --
   for ANY buffer the operator produced (e.g. the float64 quotients of the reflected true division `7 / col`) -- hence,
   by C12_l1_refines_l0, the textbook ones; and those of a fresh IntColumn holding these cells. *)
Theorem C12_int_operator_result_statistics_are_those_of_its_cells :
  forall s buf, buf_stat s (int_cast buf) = i_stat s (int_cells buf).
Proof. exact int_result_stat. Qed.
Print Assumptions C12_int_operator_result_statistics_are_those_of_its_cells.

Theorem C12_int_operator_result_agrees_with_fresh_column :
  forall s buf, buf_stat s (int_cast buf) = l1_stat KInt s (map VInt (int_cells buf)).
Proof. exact int_result_as_fresh_column. Qed.
Print Assumptions C12_int_operator_result_agrees_with_fresh_column.

(* the cast changes no cell, and nothing at all in a buffer of whole numbers *)
Theorem C12_int_cast_keeps_the_cells :
  forall buf, int_cells (int_cast buf) = int_cells buf.
Proof. exact int_cells_cast. Qed.
Print Assumptions C12_int_cast_keeps_the_cells.

Theorem C12_int_cast_whole_buffer_unchanged :
  forall zs, int_cast (map qz zs) = map qz zs.
Proof. exact int_cast_whole. Qed.
Print Assumptions C12_int_cast_whole_buffer_unchanged.

(* the cast is needed: 7 / IntColumn([2, 4, 3, -6, 12]) has the quotients 7/2 7/4 7/3 -7/6 7/12 in its buffer and the
   cells 3 1 2 -1 0; without the cast mean = 7/5, with it (and for the cells) mean = 1 *)
Example C12_example_reflected_division :
  let buf := [qc 7 2; qc 7 4; qc 7 3; qc (-7) 6; qc 7 12] in
  int_cells buf = [3; 1; 2; -1; 0]%Z /\
  mres_eqb (buf_stat Mean buf) (MVal (qc 7 5)) = true /\
  mres_eqb (i_stat Mean (int_cells buf)) (MVal (qz 1)) = true /\
  mres_eqb (buf_stat Mean (int_cast buf)) (MVal (qz 1)) = true.
Proof. repeat split; vm_compute; reflexivity. Qed.

(* ---- non-vacuity (mres_eqb a b = true <-> a = b) ------------------------------------------------------------ *)
Theorem C12_mres_eqb_eq : forall a b, mres_eqb a b = true <-> a = b.
Proof. exact mres_eqb_eq. Qed.
Print Assumptions C12_mres_eqb_eq.

Definition ex_cells : list val :=       (* 1 'a' None nan 2.5 10 2 *)
  [VInt 1; VStr "a"; VNone; VFlt FNan; VFlt (FFin false 5 (-1)); VInt 10; VInt 2].
Example C12_example_premises : in_scope ex_cells = true /\ Forall int_exact ex_cells.
Proof.
  split; [vm_compute; reflexivity|].
  repeat (apply Forall_cons; [exact I || (vm_compute; reflexivity)|]). apply Forall_nil.
Qed.
Example C12_example_mixed :
  forallb (fun p : stat * Qc => mres_eqb (m_stat (fst p) ex_cells) (MVal (snd p)))
    [(Mean, qc 31 8); (Median, qc 9 4); (Min, qz 1); (Max, qz 10); (Sum, qc 31 2); (Var, qc 273 16)] = true.
Proof. vm_compute. reflexivity. Qed.
Example C12_example_std : is_std [qz 1; qz 1; qz 1; qz 4] (qc 3 2).
Proof. split; [vm_compute; discriminate | apply Qc_is_canon; vm_compute; reflexivity]. Qed.
Example C12_example_nan :
  forallb (fun p : mres * mres => mres_eqb (fst p) (snd p))
    [(m_stat Mean [VStr "a"; VNone; VFlt FNan], MNan); (m_stat Var [VInt 3; VStr "a"], MNan);
     (f_stat Sum [FNan; FNan], MVal 0); (f_stat Sum [], MNan); (i_stat Median [], MNan)] = true.
Proof. vm_compute. reflexivity. Qed.
Example C12_example_unique :
  unique_ok [VInt 5; VInt 1; VFlt FNan; VInt 5; VStr "a"; VNone] [VNone; VStr "a"; VInt 1; VFlt FNan; VInt 5] = true /\
  unique_ok [VInt 5; VInt 1; VFlt FNan; VInt 5] [VInt 1; VInt 5; VFlt FNan; VInt 5] = false.
Proof. split; vm_compute; reflexivity. Qed.
Definition ex_xcells : list xcell :=     (* np.int64(5) True 'x' Fraction(1, 2) np.float32(2.5) nan 3 *)
  [XNpInt 5; XBool true; XV (VStr "x"); XRat (qc 1 2); XNpFlt false (FFin false 5 (-1)); XV (VFlt FNan); XV (VInt 3)].
Example C12_example_unchecked_l0 :
  xnums ex_xcells = [qz 5; qz 1; qc 1 2; qc 5 2; qz 3] /\
  forallb (fun p : stat * Qc => match xcol_stat (fst p) ex_xcells with Some q => Qceqb q (snd p) | None => false end)
    [(Mean, qc 12 5); (Median, qc 5 2); (Min, qc 1 2); (Max, qz 5); (Sum, qz 12); (Var, qc 127 40)] = true.
Proof. split; vm_compute; reflexivity. Qed.
Example C12_example_unchecked_l1 :       (* without the Fraction: the model keeps the NumPy scalars and the bool *)
  forallb (fun p : stat * Qc => mres_eqb (xm_stat (fst p) [XNpInt 5; XBool true; XV (VStr "x"); XNpFlt false (FFin false 5 (-1))])
                                         (MVal (snd p)))
    [(Mean, qc 17 6); (Median, qc 5 2); (Min, qz 1); (Max, qz 5); (Sum, qc 17 2)] = true /\
  xm_stat Mean ex_xcells = MOut.
Proof. split; vm_compute; reflexivity. Qed.
