(* C11 -- shuffle, random_sample and shuffle_horiz only rearrange.  The permutation / choice made by
   Python's `random` is an argument (oracle); the theorems hold for every permutation.  That repeated
   shuffles produce more than one order is a statement about the RNG and is only tested.  Statements only. *)
From Coq Require Import ZArith NArith List Bool String Permutation.
From DM Require Import Base.PyVal Spec.Nf Spec.Table Spec.Ops Proofs.ListX Proofs.TableFacts Proofs.TakeFacts Proofs.OpFacts.
From DM Require Import Model.LTable Gen.KCore Model.Core Proofs.CoreRefine.
Import ListNotations.

(* all rows exactly once, rows intact *)
Theorem C11_shuffle_rearranges : forall ps t t',
  twf t -> is_perm_of_range ps (nrows t) = true -> take ps t = Some t' ->
  Permutation (ids t) (ids t') /\
  Forall2 (fun e e' => let '(n, k, c) := e in let '(n', k', c') := e' in
                       n = n' /\ k = k' /\ Permutation c c') (view t) (view t').
Proof. exact take_perm_rows. Qed.
Print Assumptions C11_shuffle_rearranges.

Theorem C11_rows_intact : forall ps t t',
  twf t -> take ps t = Some t' ->
  take_pos ps (ids t) = Some (ids t') /\ fam t' = fam t /\ Forall2 (same_rows ps) (view t) (view t').
Proof. exact take_rows. Qed.
Print Assumptions C11_rows_intact.

(* distinct permutations give distinct row orders (on a table with distinct rows) *)
Theorem C11_distinct_permutations_distinct_orders : forall (A : Type) (l : list A) p q r,
  NoDup l -> Forall (fun i => (i < List.length l)%nat) p -> Forall (fun i => (i < List.length l)%nat) q ->
  take_pos p l = Some r -> take_pos q l = Some r -> p = q.
Proof. exact @take_pos_inj. Qed.
Print Assumptions C11_distinct_permutations_distinct_orders.

(* the result is an ordinary table: the invariant every other theorem assumes holds for it *)
(* shuffle / sample / sort fetch the rows BY ID in the new order: on an object graph satisfying inv_b
   (in particular: position caches absent or valid) that is the positional take of the permutation *)
Theorem C11_l1_by_position_refines : forall t perm rid r,
  inv_b t = true -> take_pos perm (ia (l_rowid t)) = Some rid ->
  selectrowid t (idx_of_list rid) = Some r -> take perm (abs t) = Some (abs r).
Proof. exact by_position_refines. Qed.
Print Assumptions C11_l1_by_position_refines.

Theorem C11_result_ordinary : forall w o, wwf w -> wwf (fst (step w o)).
Proof. exact step_wf. Qed.
Print Assumptions C11_result_ordinary.

Theorem C11_source_unchanged : forall w t perm j,
  (j < List.length (pool w))%nat -> get (fst (step w (OShuffle t perm))) j = get w j.
Proof. intros w t perm j H. apply step_frame; [exact H|discriminate]. Qed.
Print Assumptions C11_source_unchanged.

Example C11_sample_too_large :
  snd (step (run [ONew 2] w0) (OSample 0 3%Z [])) = Err ValueError.
Proof. vm_compute. reflexivity. Qed.
