(* C11 -- shuffle, random_sample and shuffle_horiz only rearrange.  The permutation / choice made by
   Python's `random` is an argument (oracle); the theorems hold for every permutation.  That repeated
   shuffles produce more than one order is a statement about the RNG and is only tested.  Statements only. *)
From Coq Require Import ZArith NArith List Bool String Permutation.
From DM Require Import Base.PyVal Spec.Nf Spec.Table Spec.Ops Proofs.ListX Proofs.TableFacts Proofs.TakeFacts Proofs.OpFacts.
From DM Require Import Model.LTable Gen.KCore Model.Core Proofs.CoreRefine.
Import ListNotations.

(* all rows exactly once, rows intact *)
Theorem C11_shuffle_rearranges : forall ps t t',
  twf t -> is_perm_of_range ps (nrows t) = true -> take ps t = Some t' ->
  Permutation (ids t) (ids t') /\
  Forall2 (fun e e' => let '(n, k, c) := e in let '(n', k', c') := e' in
                       n = n' /\ k = k' /\ Permutation c c') (view t) (view t').
Proof. exact take_perm_rows. Qed.
Print Assumptions C11_shuffle_rearranges.

Theorem C11_rows_intact : forall ps t t',
  twf t -> take ps t = Some t' ->
  take_pos ps (ids t) = Some (ids t') /\ fam t' = fam t /\ Forall2 (same_rows ps) (view t) (view t').
Proof. exact take_rows. Qed.
Print Assumptions C11_rows_intact.

(* distinct permutations give distinct row orders (on a table with distinct rows) *)
Theorem C11_distinct_permutations_distinct_orders : forall (A : Type) (l : list A) p q r,
  NoDup l -> Forall (fun i => (i < List.length l)%nat) p -> Forall (fun i => (i < List.length l)%nat) q ->
  take_pos p l = Some r -> take_pos q l = Some r -> p = q.
Proof. exact @take_pos_inj. Qed.
Print Assumptions C11_distinct_permutations_distinct_orders.

(* the result is an ordinary table: the invariant every other theorem assumes holds for it *)
(* shuffle / sample / sort fetch the rows BY ID in the new order: on an object graph satisfying inv_b
   (in particular: position caches absent or valid) that is the positional take of the permutation *)
Theorem C11_l1_by_position_refines : forall t perm rid r,
  inv_b t = true -> take_pos perm (ia (l_rowid t)) = Some rid ->
  selectrowid t (idx_of_list rid) = Some r -> take perm (abs t) = Some (abs r).
Proof. exact by_position_refines. Qed.
Print Assumptions C11_l1_by_position_refines.

Theorem C11_result_ordinary : forall w o, wwf w -> wwf (fst (step w o)).
Proof. exact step_wf. Qed.
Print Assumptions C11_result_ordinary.

Theorem C11_source_unchanged : forall w t perm j,
  (j < List.length (pool w))%nat -> get (fst (step w (OShuffle t perm))) j = get w j.
Proof. intros w t perm j H. apply step_frame; [exact H|discriminate]. Qed.
Print Assumptions C11_source_unchanged.

Example C11_sample_too_large :
  snd (step (run [ONew 2] w0) (OSample 0 3%Z [])) = Err ValueError.
Proof. vm_compute. reflexivity. Qed.

(* ====================================================================================================
   The COLUMN variants: ops.shuffle(col), ops.random_sample(col, k), ops.shuffle_horiz(cols... | dm).
   L0: Spec/ShuffleCol.v (hand-written, positional); L1: Model/ShuffleCol.v (operations.py on the object graph, guards
   and decisions regenerated into Gen/KShuffle.v, Gen/KOpsMisc.v); proofs: Proofs/ShuffleColFacts.v,
   Proofs/ShuffleColRefine.v.  The permutation(s) / the choice made by `random` are arguments.
   ==================================================================================================== *)
From DM Require Import Spec.ShuffleCol Model.ShuffleColAbs Gen.KOpsMisc Gen.KShuffle Model.ShuffleCol
  Proofs.ShuffleColFacts Proofs.ShuffleColRefine.

(* ---------- ops.shuffle(col) ---------- *)
(* the values are rearranged by the permutation (all values, each once) and the result is POSITION-ALIGNED with the
   DataMatrix: it carries the row ids of its source, in their order *)
Theorem C11_col_shuffle_rearranges : forall perm c c',
  shuffle_col perm c = Ok c' ->
  Permutation (c_cells c) (c_cells c') /\ c_ids c' = c_ids c /\ c_kind c' = c_kind c
  /\ take_pos perm (c_cells c) = Some (c_cells c').
Proof. exact shuffle_col_spec. Qed.
Print Assumptions C11_col_shuffle_rearranges.

(* every permutation of the row range is a shuffle (the premise of the theorem above is inhabited for all of them) *)
Theorem C11_col_shuffle_total : forall perm c,
  is_perm_of_range perm (List.length (c_cells c)) = true -> exists c', shuffle_col perm c = Ok c'.
Proof. exact shuffle_col_total. Qed.
Print Assumptions C11_col_shuffle_total.

(* used as a selection key the shuffled column selects the rows at the positions where IT holds the value *)
Theorem C11_col_shuffle_as_key : forall perm t name c c' f,
  twf t -> col_of t name = Some c -> shuffle_col perm c = Ok c' ->
  select_by f c' t = take (positions_where f (c_cells c') 0) t.
Proof. exact shuffle_col_as_key. Qed.
Print Assumptions C11_col_shuffle_as_key.

(* assigned back (dm[name] = column) value j goes to row j; nothing else changes; another length is refused *)
Theorem C11_col_assign_back : forall t name c t',
  twf t -> assign_col t name c = Ok t' ->
  slot_of t' name = Some {| skind := c_kind c; scells := c_cells c |}
  /\ ids t' = ids t /\ fam t' = fam t
  /\ (forall n, n <> name -> slot_of t' n = slot_of t n)
  /\ List.length (c_cells c) = nrows t.
Proof. exact assign_col_spec. Qed.
Print Assumptions C11_col_assign_back.

(* ---------- ops.random_sample(col, k) ---------- *)
(* k distinct positions; every value comes WITH ITS row id; distinct rows when the source ids are distinct *)
Theorem C11_col_sample : forall k choice c c',
  List.length (c_ids c) = List.length (c_cells c) ->
  sample_col k choice c = Ok c' ->
  (0 <= k <= Z.of_nat (List.length (c_cells c)))%Z
  /\ List.length (c_cells c') = Z.to_nat k /\ NoDup choice
  /\ take_pos choice (combine (c_ids c) (c_cells c)) = Some (combine (c_ids c') (c_cells c'))
  /\ List.length (c_ids c') = List.length (c_cells c')
  /\ c_kind c' = c_kind c
  /\ (NoDup (c_ids c) -> NoDup (c_ids c')).
Proof. exact sample_col_spec. Qed.
Print Assumptions C11_col_sample.

Theorem C11_col_sample_pairs_of_source : forall k choice c c' r v,
  List.length (c_ids c) = List.length (c_cells c) -> sample_col k choice c = Ok c' ->
  In (r, v) (combine (c_ids c') (c_cells c')) -> In (r, v) (combine (c_ids c) (c_cells c)).
Proof. exact sample_col_pairs. Qed.
Print Assumptions C11_col_sample_pairs_of_source.

(* ValueError exactly when k is out of range, whatever `random` would have chosen *)
Theorem C11_col_sample_valueerror_iff : forall k choice c,
  sample_col k choice c = Raise ValueError <-> (k < 0)%Z \/ (Z.of_nat (List.length (c_cells c)) < k)%Z.
Proof. exact sample_col_error. Qed.
Print Assumptions C11_col_sample_valueerror_iff.

(* ---------- ops.shuffle_horiz ---------- *)
(* one row: the receiving columns coerce a rearrangement of the row's cells ... *)
Theorem C11_horiz_row : forall kinds perm row row',
  hrow kinds perm row = Ok row' ->
  exists moved, Permutation row moved /\ take_pos perm row = Some moved /\ coerce_row kinds moved = Ok row'.
Proof. exact hrow_spec. Qed.
Print Assumptions C11_horiz_row.

(* ... and between columns of one type (cells in normal form, as inv_b guarantees) nothing is coerced: the multiset
   of the row's cells is preserved *)
Theorem C11_horiz_row_same_kind : forall k perm row row',
  forallb (cell_ok k) row = true ->
  hrow (repeat k (List.length row)) perm row = Ok row' -> Permutation row row'.
Proof. exact hrow_perm. Qed.
Print Assumptions C11_horiz_row_same_kind.

(* the table: same row ids in the same order, same family, same names, a well-formed table of its own; every column
   that was not chosen keeps its cells; a chosen column keeps its type; every row is rearranged by its own
   permutation among the chosen columns (type coercion of the receiving column applies) *)
Theorem C11_horiz_table : forall t args perms t',
  twf t -> NoDup (map fst (names t)) ->
  shuffle_horiz t args perms = Ok t' ->
  exists ns, chosen_names t args = Ok ns /\
  let order := chosen_order t ns in
  ids t' = ids t /\ fam t' = fam t /\ map fst (names t') = map fst (names t) /\ twf t'
  /\ (forall n, ~ In n order -> slot_of t' n = slot_of t n)
  /\ (forall n s, In n order -> slot_of t n = Some s -> exists s', slot_of t' n = Some s' /\ skind s' = skind s)
  /\ (forall i, (i < nrows t)%nat ->
        exists p, nth_error perms i = Some p
                  /\ hrow (map (fun n => match slot_of t n with Some s => skind s | None => KMixed end) order) p
                          (trow t order i) = Ok (trow t' order i)).
Proof. exact shuffle_horiz_spec. Qed.
Print Assumptions C11_horiz_table.

(* restricted to chosen columns of one type (stated for that case only: across types the receiving column coerces,
   e.g. text handed to a FloatColumn becomes NaN, so the multiset is not preserved): every row keeps the multiset
   of its cells in the chosen columns *)
Theorem C11_horiz_rows_permuted : forall t args perms t' ns k,
  twf t -> NoDup (map fst (names t)) ->
  shuffle_horiz t args perms = Ok t' -> chosen_names t args = Ok ns -> same_kind_ok t ns k = true ->
  forall i, (i < nrows t)%nat -> Permutation (trow t (chosen_order t ns) i) (trow t' (chosen_order t ns) i).
Proof. exact shuffle_horiz_rows_permuted. Qed.
Print Assumptions C11_horiz_rows_permuted.

(* the source (and every other table) is what it was; the result is a new member *)
Theorem C11_horiz_source_unchanged : forall w ti args perms j,
  (j < List.length (pool w))%nat -> get (fst (xstep_horiz w ti args perms)) j = get w j.
Proof. exact xstep_horiz_frame. Qed.
Print Assumptions C11_horiz_source_unchanged.

(* ---------- L1 = L0 under inv_b ---------- *)
(* the by-ID fetch (dict cache of the Index for MixedColumns, argsort + searchsorted for numeric columns) in the order
   of the ids found at positions ps is the positional take of ps *)
Theorem C11_l1_fetch_by_id_is_positional : forall t name c key ps,
  inv_b t = true -> lcol_of t name = Some c -> take_pos ps (ia (l_rowid t)) = Some (ia key) ->
  exists col cs, getrowidkey c key = Some col /\ take_pos ps (lc_cells c) = Some cs
                 /\ lc_kind col = lc_kind c /\ lc_cells col = cs /\ ia (lc_rowid col) = ia key.
Proof. exact fetch_by_id_is_positional. Qed.
Print Assumptions C11_l1_fetch_by_id_is_positional.

(* Index(col._rowid); random.shuffle; _getrowidkey; col._rowid = obj._rowid  computes the L0 shuffle of the
   position-aligned column the object denotes (results and refusals alike) *)
Theorem C11_l1_col_shuffle_refines : forall t name c perm,
  inv_b t = true -> lcol_of t name = Some c ->
  col_of (abs t) name = Some (abs_col c)
  /\ map_res abs_col (l_shuffle_col c perm) = shuffle_col perm (abs_col c).
Proof. exact l_shuffle_col_refines_t. Qed.
Print Assumptions C11_l1_col_shuffle_refines.

Theorem C11_l1_col_sample_refines : forall t name c k choice,
  inv_b t = true -> lcol_of t name = Some c ->
  col_of (abs t) name = Some (abs_col c)
  /\ map_res abs_col (l_sample_col c k choice) = sample_col k choice (abs_col c).
Proof. exact l_sample_col_refines_t. Qed.
Print Assumptions C11_l1_col_sample_refines.

(* the argument check chain, dm[:], keep_only on a copy of the copy, the per-row shuffle written back by column
   position through the type check of the receiving column, and the re-attachment compute the L0 shuffle_horiz:
   the same table or the same exception class, for all argument lists and all permutations *)
Theorem C11_l1_horiz_refines : forall t args perms,
  inv_b t = true -> map_res abs (l_shuffle_horiz t args perms) = shuffle_horiz (abs t) args perms.
Proof. exact l_shuffle_horiz_refines. Qed.
Print Assumptions C11_l1_horiz_refines.

Theorem C11_l1_horiz_result_ordinary : forall t args perms r,
  inv_b t = true -> l_shuffle_horiz t args perms = Ok r -> twf (abs r).
Proof. exact l_shuffle_horiz_wf. Qed.
Print Assumptions C11_l1_horiz_result_ordinary.

(* ---------- the premises are inhabited ---------- *)
Definition c11_ex_col (k : kind) (cells : list val) : lcol :=
  {| lc_kind := k; lc_rowid := {| ia := [4; 0; 2]%N; imeta := None; imax := None |}; lc_cells := cells;
     lc_owner := true; lc_tc := true |}.
(* a table reached by a selection / shuffle: row ids 4, 0, 2 in that order, a populated position cache *)
Definition c11_ex_table : ltable :=
  {| l_fam := 0; l_rowid := {| ia := [4; 0; 2]%N; imeta := Some [(4%N, 0%nat); (0%N, 1%nat); (2%N, 2%nat)]; imax := Some 4%Z |};
     l_names := [("a"%string, 0%nat); ("b"%string, 1%nat); ("f"%string, 2%nat)];
     l_cols := [c11_ex_col KMixed [VStr "x"; VInt 1; VNone]; c11_ex_col KMixed [VStr "y"; VStr "z"; VInt 7];
                c11_ex_col KFloat [VFlt (FZero false); VFlt FNan; VFlt (FInf true)]];
     l_sorted := true; l_dflt := KMixed |}.

Example C11_ex_inv : inv_b c11_ex_table = true.
Proof. vm_compute. reflexivity. Qed.
Example C11_ex_same_kind : same_kind_ok (abs c11_ex_table) ["a"; "b"]%string KMixed = true.
Proof. vm_compute. reflexivity. Qed.
(* shuffle(dm.a) by the permutation [2; 0; 1]: the values move, the row ids stay the table's *)
Example C11_ex_col_shuffle :
  map_res abs_col (l_shuffle_col (c11_ex_col KMixed [VStr "x"; VInt 1; VNone]) [2; 0; 1]%nat)
  = Ok {| c_ids := [4; 0; 2]%N; c_kind := KMixed; c_cells := [VNone; VStr "x"; VInt 1] |}.
Proof. vm_compute. reflexivity. Qed.
(* random_sample(dm.a, 2) choosing positions 2 and 0: the values with THEIR row ids *)
Example C11_ex_col_sample :
  map_res abs_col (l_sample_col (c11_ex_col KMixed [VStr "x"; VInt 1; VNone]) 2 [2; 0]%nat)
  = Ok {| c_ids := [2; 4]%N; c_kind := KMixed; c_cells := [VNone; VStr "x"] |}.
Proof. vm_compute. reflexivity. Qed.
Example C11_ex_col_sample_too_large :
  l_sample_col (c11_ex_col KMixed [VStr "x"; VInt 1; VNone]) 4 [] = Raise ValueError.
Proof. vm_compute. reflexivity. Qed.
(* shuffle_horiz(dm.a, dm.b) with the row permutations swap / keep / swap *)
Example C11_ex_horiz :
  match shuffle_horiz (abs c11_ex_table) [HCol "b"; HCol "a"]%string [[1; 0]; [0; 1]; [1; 0]]%nat with
  | Ok t' => view t' = [("a"%string, KMixed, [VStr "y"; VInt 1; VInt 7]); ("b"%string, KMixed, [VStr "x"; VStr "z"; VNone]);
                        ("f"%string, KFloat, [VFlt (FZero false); VFlt FNan; VFlt (FInf true)])]
  | Raise _ => False
  end.
Proof. vm_compute. reflexivity. Qed.
(* text handed to a FloatColumn becomes NaN (the receiving column coerces) and a column of another DataMatrix, or no
   column at all, is refused *)
Example C11_ex_horiz_coerces :
  match shuffle_horiz (abs c11_ex_table) [HTable] [[0; 1; 2]; [2; 1; 0]; [0; 1; 2]]%nat with
  | Ok t' => slot_of t' "f"%string = Some {| skind := KFloat; scells := [VFlt (FZero false); VFlt (round53 1); VFlt (FInf true)] |}
  | Raise _ => False
  end.
Proof. vm_compute. reflexivity. Qed.
Example C11_ex_horiz_refused :
  shuffle_horiz (abs c11_ex_table) [HCol "a"; HForeign]%string [] = Raise ValueError
  /\ shuffle_horiz (abs c11_ex_table) [] [] = Raise ValueError
  /\ l_shuffle_horiz c11_ex_table [HTable; HCol "a"]%string [] = Raise ValueError.
Proof. vm_compute. repeat split. Qed.
