(* C13: column arithmetic is element-wise and respects operand order.  Statements only.
   num_op (Python/NumPy scalar arithmetic a o b) and fstr (str(float)) are arbitrary;
   the only hypothesis on them is commutativity of * (used for x * col, which the code
   computes as col * x) and, for the NaN law, that the scalar operation propagates NaN. *)
From Coq Require Import ZArith List Bool String.
From DM Require Import Base.PyVal Spec.Nf Spec.Arith Gen.KCheck Gen.KArith Model.Store Model.Arith Proofs.ArithFacts.
Import ListNotations.
Open Scope Z_scope.

(* operate_pointwise + same kind + same row ids, for the model built on the regenerated operator table and per-cell
   kernels: the method d (col o x or x o col) yields the column whose cells are cell_spec, row by row, on the
   converted operand *)
Theorem C13_operate_pointwise :
  forall (num_op : binop -> num -> num -> num) (fstr : fl -> string),
  (forall a b, num_op OMul a b = num_op OMul b a) ->
  forall d c o r, operate num_op fstr d c o = Ok r ->
  exists xs, operand_cells (ckind c) o (List.length (ccells c)) = Ok xs /\
             r = Col (ckind c) (cids c) (spec_cells num_op fstr (ckind c) (dunder_op d) (dunder_refl d) (ccells c) xs).
Proof. exact operate_refines. Qed.
Print Assumptions C13_operate_pointwise.

(* the other operand is converted like a value assigned to the column (C05's normal form), one per row *)
Theorem C13_operand_converted :
  forall k o n, operand_wf o n -> reslist_eqv (operand_cells k o n) (spec_operand k o n) = true.
Proof. exact operand_cells_nf. Qed.
Print Assumptions C13_operand_converted.

Theorem C13_operand_rows :
  forall k o n xs, spec_operand k o n = Ok xs ->
    match o with
    | OScalar v => forall i d, (i < n)%nat -> nf k v = Ok (nth i xs d)
    | OSeq vs => List.length vs = n /\ forall i d, (i < n)%nat -> nf k (nth i vs PNone) = Ok (nth i xs d)
    | OCol _ cells => List.length cells = n /\
                      forall i d, (i < n)%nat -> nf k (pyv_of_val (nth i cells VNone)) = Ok (nth i xs d)
    end.
Proof. exact spec_operand_rows. Qed.
Print Assumptions C13_operand_rows.

(* L0: same type, same row ids, same length *)
Theorem C13_operate_length_kind_ids :
  forall num_op fstr op refl c o r, spec_operate num_op fstr op refl c o = Ok r ->
  ckind r = ckind c /\ cids r = cids c /\ List.length (ccells r) = List.length (ccells c).
Proof. exact spec_operate_shape. Qed.
Print Assumptions C13_operate_length_kind_ids.

(* L0: cell i of the result is cell_spec of cell i and operand i *)
Theorem C13_spec_pointwise :
  forall num_op fstr op refl c o r, spec_operate num_op fstr op refl c o = Ok r ->
  exists xs, spec_operand (ckind c) o (List.length (ccells c)) = Ok xs /\
             List.length xs = List.length (ccells c) /\
             forall i d, (i < List.length (ccells c))%nat ->
               nth i (ccells r) d = cell_spec num_op fstr (ckind c) op refl (nth i (ccells c) d) (nth i xs d).
Proof. exact spec_operate_pointwise. Qed.
Print Assumptions C13_spec_pointwise.

(* position alignment whatever the row order: reading the result by the i-th row id of the source gives result i *)
Theorem C13_row_aligned :
  forall num_op fstr op refl c o r, spec_operate num_op fstr op refl c o = Ok r ->
  NoDup (cids c) -> List.length (cids c) = List.length (ccells c) ->
  exists xs, spec_operand (ckind c) o (List.length (ccells c)) = Ok xs /\
    forall i d, (i < List.length (ccells c))%nat ->
      cell_of_row (cids r) (ccells r) (nth i (cids c) 0%N) =
      Some (cell_spec num_op fstr (ckind c) op refl (nth i (ccells c) d) (nth i xs d)).
Proof. exact spec_operate_row_aligned. Qed.
Print Assumptions C13_row_aligned.

(* what a cell is: operand order for numbers, text concatenation in operand order, other cells unchanged *)
Theorem C13_mixed_numbers :
  forall num_op fstr op c x p q, val_num c = Some p -> val_num x = Some q ->
  cell_spec num_op fstr KMixed op false c x = val_of_num (num_op op p q) /\
  cell_spec num_op fstr KMixed op true c x = val_of_num (num_op op q p).
Proof. exact cell_mixed_numbers. Qed.
Print Assumptions C13_mixed_numbers.

Theorem C13_mixed_text_order :
  forall num_op fstr c x, val_num c = None \/ val_num x = None ->
  cell_spec num_op fstr KMixed OAdd false c x = VStr (text_of fstr c ++ text_of fstr x) /\
  cell_spec num_op fstr KMixed OAdd true c x = VStr (text_of fstr x ++ text_of fstr c).
Proof. exact cell_mixed_text_order. Qed.
Print Assumptions C13_mixed_text_order.

Theorem C13_mixed_unchanged :
  forall num_op fstr op refl c x, val_num c = None \/ val_num x = None -> op <> OAdd ->
  cell_spec num_op fstr KMixed op refl c x = c.
Proof. exact cell_mixed_unchanged. Qed.
Print Assumptions C13_mixed_unchanged.

Theorem C13_float_value :
  forall num_op fstr op a b,
  cell_spec num_op fstr KFloat op false (VFlt a) (VFlt b) = VFlt (num_fl (num_op op (NFlt a) (NFlt b))) /\
  cell_spec num_op fstr KFloat op true (VFlt a) (VFlt b) = VFlt (num_fl (num_op op (NFlt b) (NFlt a))).
Proof. exact cell_float_value. Qed.
Print Assumptions C13_float_value.

Theorem C13_float_nan_propagates :
  forall num_op fstr op refl c x,
  (forall o a b, pow_unit o a b = false -> num_is_nan a || num_is_nan b = true -> num_is_nan (num_op o a b) = true) ->
  num_is_nan (f64_view c) || num_is_nan (f64_view x) = true ->
  (let '(a, b) := ordered refl (f64_view c) (f64_view x) in pow_unit op a b) = false ->
  cell_spec num_op fstr KFloat op refl c x = VFlt FNan.
Proof. exact cell_float_nan. Qed.
Print Assumptions C13_float_nan_propagates.

(* IntColumn: ints; col / x is floor division *)
Theorem C13_int_value :
  forall num_op fstr op a b,
  cell_spec num_op fstr KInt op false (VInt a) (VInt b) =
    VInt (num_int (num_op (match op with OTruediv => OFloordiv | _ => op end) (NInt a) (NInt b))) /\
  cell_spec num_op fstr KInt op true (VInt a) (VInt b) = VInt (num_int (num_op op (NInt b) (NInt a))).
Proof. exact cell_int_value. Qed.
Print Assumptions C13_int_value.

(* map_pointwise *)
Theorem C13_map_pointwise :
  forall f c r, spec_map f c = Ok r ->
  ckind r = ckind c /\ cids r = cids c /\ List.length (ccells r) = List.length (ccells c) /\
  forall i d, (i < List.length (ccells c))%nat -> map_cell (ckind c) (f (nth i (ccells c) d)) = Ok (nth i (ccells r) d).
Proof. exact spec_map_pointwise. Qed.
Print Assumptions C13_map_pointwise.

Theorem C13_map_refines : forall f c r, spec_map f c = Ok r -> map_col f c = Ok r.
Proof. exact map_col_refines. Qed.
Print Assumptions C13_map_refines.

(* the executable instance used for the correspondence satisfies the hypotheses *)
Theorem C13_exact_instance :
  (forall a b, exact_op OMul a b = exact_op OMul b a) /\
  (forall op a b, pow_unit op a b = false -> num_is_nan a || num_is_nan b = true -> num_is_nan (exact_op op a b) = true).
Proof. exact (conj exact_op_mul_comm exact_op_nan). Qed.
Print Assumptions C13_exact_instance.

Theorem C13_operate_pointwise_exact :
  forall fstr d c o r, operate exact_op fstr d c o = Ok r ->
  exists xs, operand_cells (ckind c) o (List.length (ccells c)) = Ok xs /\
             r = Col (ckind c) (cids c) (spec_cells exact_op fstr (ckind c) (dunder_op d) (dunder_refl d) (ccells c) xs).
Proof. exact operate_refines_exact. Qed.
Print Assumptions C13_operate_pointwise_exact.

(* non-vacuity *)
Open Scope string_scope.
Example C13_ex1 :
  operate exact_op (fstr_tab [(FFin false 5 (-1), "2.5")]) DRAdd
    (Col KMixed [3%N; 1%N; 2%N; 0%N] [VInt 1; VFlt (FFin false 5 (-1)); VStr "a"; VNone]) (OScalar (PStr "x" None None))
  = Ok (Col KMixed [3%N; 1%N; 2%N; 0%N] [VStr "x1"; VStr "x2.5"; VStr "xa"; VStr "xNone"]).
Proof. vm_compute. reflexivity. Qed.
Example C13_ex2 :
  operate exact_op (fstr_tab []) DRSub (Col KInt [5%N; 2%N] [VInt 1; VInt (-7)]) (OSeq [PFloat (FFin false 5 (-1)); PInt 2])
  = Ok (Col KInt [5%N; 2%N] [VInt 1; VInt 9]).
Proof. vm_compute. reflexivity. Qed.
Example C13_ex3 :
  operate exact_op (fstr_tab []) DTruediv (Col KInt [5%N; 2%N] [VInt 1; VInt (-7)]) (OScalar (PInt 2))
  = Ok (Col KInt [5%N; 2%N] [VInt 0; VInt (-4)]).
Proof. vm_compute. reflexivity. Qed.
Example C13_ex4 :
  spec_operate exact_op (fstr_tab []) OSub true (Col KFloat [0%N; 1%N] [VFlt (FFin false 1 0); VFlt FNan]) (OCol KInt [VInt 3; VInt 4])
  = Ok (Col KFloat [0%N; 1%N] [VFlt (FFin false 1 1); VFlt FNan]).
Proof. vm_compute. reflexivity. Qed.

(* ---------- SeriesColumn *)
From DM Require Import Spec.ArithSeries Model.ArithSeries Proofs.ArithSeriesFacts.

Theorem C13_series_refines :
  forall (num_op : binop -> num -> num -> num), (forall a b, num_op OMul a b = num_op OMul b a) ->
  forall d c o, series_operate num_op d c o = spec_series num_op (dunder_op d) (dunder_refl d) c o.
Proof. exact series_refines. Qed.
Print Assumptions C13_series_refines.

Theorem C13_series_shape :
  forall num_op op refl c o r, spec_series num_op op refl c o = Ok r ->
  sdepth r = sdepth c /\ sids r = sids c /\ List.length (srows r) = List.length (srows c).
Proof. exact spec_series_shape. Qed.
Print Assumptions C13_series_shape.

Theorem C13_series_scalar :
  forall num_op op refl c x r i j, spec_series num_op op refl c (SScalar x) = Ok r ->
  (i < List.length (srows c))%nat -> (j < List.length (nth i (srows c) []))%nat ->
  nth j (nth i (srows r) []) FNan = scell num_op op refl (nth j (nth i (srows c) []) FNan) x.
Proof. exact spec_series_scalar. Qed.
Print Assumptions C13_series_scalar.

Theorem C13_series_per_row :
  forall num_op op refl c xs r i j, spec_series num_op op refl c (SVec xs) = Ok r ->
  List.length xs = List.length (srows c) ->
  (i < List.length (srows c))%nat -> (j < List.length (nth i (srows c) []))%nat ->
  nth j (nth i (srows r) []) FNan = scell num_op op refl (nth j (nth i (srows c) []) FNan) (nth i xs (NInt 0)).
Proof. exact spec_series_per_row. Qed.
Print Assumptions C13_series_per_row.

Theorem C13_series_per_sample :
  forall num_op op refl c xs r i j, spec_series num_op op refl c (SVec xs) = Ok r ->
  List.length xs <> List.length (srows c) ->
  (i < List.length (srows c))%nat -> List.length (nth i (srows c) []) = List.length xs -> (j < List.length xs)%nat ->
  nth j (nth i (srows r) []) FNan = scell num_op op refl (nth j (nth i (srows c) []) FNan) (nth j xs (NInt 0)).
Proof. exact spec_series_per_sample. Qed.
Print Assumptions C13_series_per_sample.

Example C13_ex5 :
  series_operate exact_op DRSub (SCol 2 [4%N; 0%N] [[FFin false 1 0; FNan]; [FFin false 3 0; FFin false 1 (-1)]]) (SVec [NInt 1; NInt 5])
  = Ok (SCol 2 [4%N; 0%N] [[FZero false; FNan]; [FFin false 1 1; FFin false 9 (-1)]]).
Proof. vm_compute. reflexivity. Qed.
