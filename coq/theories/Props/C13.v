(* C13: column arithmetic is element-wise and respects operand order.  Statements only.
   num_op (Python/NumPy scalar arithmetic a o b) and fstr (str(float)) are arbitrary;
   the only hypothesis on them is commutativity of * (used for x * col, which the code
   computes as col * x) and, for the NaN law, that the scalar operation propagates NaN. *)
From Coq Require Import ZArith List Bool String.
From DM Require Import Base.PyVal Base.CsvPy Spec.Nf Spec.Arith Gen.KCheck Gen.KArith Gen.KCsv Model.Store Model.Arith Proofs.ArithFacts.
Import ListNotations.
Open Scope Z_scope.

(* operate_pointwise + same kind + same row ids, for the model built on the regenerated operator table and per-cell
   kernels: the method d (col o x or x o col) yields the column whose cells are cell_spec, row by row, on the
   converted operand *)
Theorem C13_operate_pointwise :
  forall (num_op : binop -> num -> num -> num) (fstr : fl -> string),
  (forall a b, num_op OMul a b = num_op OMul b a) ->
  forall d c o r, operate num_op fstr d c o = Ok r ->
  exists xs, operand_cells (ckind c) o (List.length (ccells c)) = Ok xs /\
             r = Col (ckind c) (cids c) (spec_cells num_op fstr (ckind c) (dunder_op d) (dunder_refl d) (ccells c) xs).
Proof. exact operate_refines. Qed.
Print Assumptions C13_operate_pointwise.

(* the other operand is converted like a value assigned to the column (C05's normal form), one per row *)
Theorem C13_operand_converted :
  forall k o n, operand_wf o n -> reslist_eqv (operand_cells k o n) (spec_operand k o n) = true.
Proof. exact operand_cells_nf. Qed.
Print Assumptions C13_operand_converted.

Theorem C13_operand_rows :
  forall k o n xs, spec_operand k o n = Ok xs ->
    match o with
    | OScalar v => forall i d, (i < n)%nat -> nf k v = Ok (nth i xs d)
    | OSeq vs => List.length vs = n /\ forall i d, (i < n)%nat -> nf k (nth i vs PNone) = Ok (nth i xs d)
    | OCol _ cells => List.length cells = n /\
                      forall i d, (i < n)%nat -> nf k (pyv_of_val (nth i cells VNone)) = Ok (nth i xs d)
    end.
Proof. exact spec_operand_rows. Qed.
Print Assumptions C13_operand_rows.

(* L0: same type, same row ids, same length *)
Theorem C13_operate_length_kind_ids :
  forall num_op fstr op refl c o r, spec_operate num_op fstr op refl c o = Ok r ->
  ckind r = ckind c /\ cids r = cids c /\ List.length (ccells r) = List.length (ccells c).
Proof. exact spec_operate_shape. Qed.
Print Assumptions C13_operate_length_kind_ids.

(* L0: cell i of the result is cell_spec of cell i and operand i *)
Theorem C13_spec_pointwise :
  forall num_op fstr op refl c o r, spec_operate num_op fstr op refl c o = Ok r ->
  exists xs, spec_operand (ckind c) o (List.length (ccells c)) = Ok xs /\
             List.length xs = List.length (ccells c) /\
             forall i d, (i < List.length (ccells c))%nat ->
               nth i (ccells r) d = cell_spec num_op fstr (ckind c) op refl (nth i (ccells c) d) (nth i xs d).
Proof. exact spec_operate_pointwise. Qed.
Print Assumptions C13_spec_pointwise.

(* position alignment whatever the row order: reading the result by the i-th row id of the source gives result i *)
Theorem C13_row_aligned :
  forall num_op fstr op refl c o r, spec_operate num_op fstr op refl c o = Ok r ->
  NoDup (cids c) -> List.length (cids c) = List.length (ccells c) ->
  exists xs, spec_operand (ckind c) o (List.length (ccells c)) = Ok xs /\
    forall i d, (i < List.length (ccells c))%nat ->
      cell_of_row (cids r) (ccells r) (nth i (cids c) 0%N) =
      Some (cell_spec num_op fstr (ckind c) op refl (nth i (ccells c) d) (nth i xs d)).
Proof. exact spec_operate_row_aligned. Qed.
Print Assumptions C13_row_aligned.

(* what a cell is: operand order for numbers, text concatenation in operand order, other cells unchanged *)
Theorem C13_mixed_numbers :
  forall num_op fstr op c x p q, val_num c = Some p -> val_num x = Some q ->
  cell_spec num_op fstr KMixed op false c x = val_of_num (num_op op p q) /\
  cell_spec num_op fstr KMixed op true c x = val_of_num (num_op op q p).
Proof. exact cell_mixed_numbers. Qed.
Print Assumptions C13_mixed_numbers.

Theorem C13_mixed_text_order :
  forall num_op fstr c x, val_num c = None \/ val_num x = None ->
  cell_spec num_op fstr KMixed OAdd false c x = VStr (text_of fstr c ++ text_of fstr x) /\
  cell_spec num_op fstr KMixed OAdd true c x = VStr (text_of fstr x ++ text_of fstr c).
Proof. exact cell_mixed_text_order. Qed.
Print Assumptions C13_mixed_text_order.

Theorem C13_mixed_unchanged :
  forall num_op fstr op refl c x, val_num c = None \/ val_num x = None -> op <> OAdd ->
  cell_spec num_op fstr KMixed op refl c x = c.
Proof. exact cell_mixed_unchanged. Qed.
Print Assumptions C13_mixed_unchanged.

(* the text that + concatenates is Python's str() of the cell: an int is written with every decimal digit whatever
   its size (2**53 + 1, 64-bit ids: no detour through a float), a float with an integral value as that int, nan / inf /
   -inf by name, any other float as str(float) *)
Theorem C13_text_of_numbers :
  forall fstr,
  (forall z, text_of fstr (VInt z) = DecimalString.NilZero.string_of_int (Z.to_int z)) /\
  (forall f, fl_is_finite f && fl_integral f = true -> text_of fstr (VFlt f) = text_of fstr (VInt (fl_trunc f))) /\
  (forall f, fl_is_finite f = true -> fl_integral f = false -> text_of fstr (VFlt f) = fstr f) /\
  text_of fstr (VFlt FNan) = "nan"%string /\ text_of fstr (VFlt (FInf false)) = "inf"%string /\
  text_of fstr (VFlt (FInf true)) = "-inf"%string.
Proof. exact text_of_numbers. Qed.
Print Assumptions C13_text_of_numbers.
Example C13_text_big_int :
  text_of (fun _ => EmptyString) (VInt 9007199254740993) = "9007199254740993"%string /\
  text_of (fun _ => EmptyString) (VInt (-4611686018427387907)) = "-4611686018427387907"%string.
Proof. split; vm_compute; reflexivity. Qed.

(* py3compat.safe_decode -- the helper BaseColumn._operate turns both operands into text with, regenerated from /repo
   as Gen/KCsv.v k_safe_decode and used by the L1 model of + -- yields exactly that text for every cell *)
Theorem C13_safe_decode_is_text :
  forall fstr v, pyv_text (k_safe_decode fstr (pyv_of_val v)) = Ok (text_of fstr v).
Proof. exact safe_decode_kernel_text. Qed.
Print Assumptions C13_safe_decode_is_text.

Theorem C13_float_value :
  forall num_op fstr op a b,
  cell_spec num_op fstr KFloat op false (VFlt a) (VFlt b) = VFlt (num_fl (num_op op (NFlt a) (NFlt b))) /\
  cell_spec num_op fstr KFloat op true (VFlt a) (VFlt b) = VFlt (num_fl (num_op op (NFlt b) (NFlt a))).
Proof. exact cell_float_value. Qed.
Print Assumptions C13_float_value.

Theorem C13_float_nan_propagates :
  forall num_op fstr op refl c x,
  (forall o a b, pow_unit o a b = false -> num_is_nan a || num_is_nan b = true -> num_is_nan (num_op o a b) = true) ->
  num_is_nan (f64_view c) || num_is_nan (f64_view x) = true ->
  (let '(a, b) := ordered refl (f64_view c) (f64_view x) in pow_unit op a b) = false ->
  cell_spec num_op fstr KFloat op refl c x = VFlt FNan.
Proof. exact cell_float_nan. Qed.
Print Assumptions C13_float_nan_propagates.

(* IntColumn: ints; col / x is floor division *)
Theorem C13_int_value :
  forall num_op fstr op a b,
  cell_spec num_op fstr KInt op false (VInt a) (VInt b) =
    VInt (num_int (num_op (match op with OTruediv => OFloordiv | _ => op end) (NInt a) (NInt b))) /\
  cell_spec num_op fstr KInt op true (VInt a) (VInt b) = VInt (num_int (num_op op (NInt b) (NInt a))).
Proof. exact cell_int_value. Qed.
Print Assumptions C13_int_value.

(* map_pointwise *)
Theorem C13_map_pointwise :
  forall f c r, spec_map f c = Ok r ->
  ckind r = ckind c /\ cids r = cids c /\ List.length (ccells r) = List.length (ccells c) /\
  forall i d, (i < List.length (ccells c))%nat -> map_cell (ckind c) (f (nth i (ccells c) d)) = Ok (nth i (ccells r) d).
Proof. exact spec_map_pointwise. Qed.
Print Assumptions C13_map_pointwise.

Theorem C13_map_refines : forall f c r, spec_map f c = Ok r -> map_col f c = Ok r.
Proof. exact map_col_refines. Qed.
Print Assumptions C13_map_refines.

(* the executable instance used for the correspondence satisfies the hypotheses *)
Theorem C13_exact_instance :
  (forall a b, exact_op OMul a b = exact_op OMul b a) /\
  (forall op a b, pow_unit op a b = false -> num_is_nan a || num_is_nan b = true -> num_is_nan (exact_op op a b) = true).
Proof. exact (conj exact_op_mul_comm exact_op_nan). Qed.
Print Assumptions C13_exact_instance.

Theorem C13_operate_pointwise_exact :
  forall fstr d c o r, operate exact_op fstr d c o = Ok r ->
  exists xs, operand_cells (ckind c) o (List.length (ccells c)) = Ok xs /\
             r = Col (ckind c) (cids c) (spec_cells exact_op fstr (ckind c) (dunder_op d) (dunder_refl d) (ccells c) xs).
Proof. exact operate_refines_exact. Qed.
Print Assumptions C13_operate_pointwise_exact.

(* ---------- the IEEE-754 binary64 instance (Spec/ArithIeee.v on Base/Float64Py.v).
   Stated for EVERY implementation F of the four basic operations (a record of functions on the exact dyadic
   values): the theorems do not depend on Coq's primitive floats.  The correspondence runs F = prim_fops
   (PrimFloat.add/sub/mul/div under vm_compute); F = spec_fops is the standard library's pure specification. *)
From DM Require Import Base.Float64Py Spec.ArithIeee Proofs.ArithIeeeFacts Proofs.ArithIeeeGrid.

(* the instance satisfies the hypotheses of the refinement theorems: x * y = y * x, NaN propagates *)
Theorem C13_ieee_instance :
  forall F : fops,
  (forall a b, ieee_op_gen F OMul a b = ieee_op_gen F OMul b a) /\
  (forall op a b, pow_unit op a b = false -> num_is_nan a || num_is_nan b = true -> num_is_nan (ieee_op_gen F op a b) = true).
Proof. exact (fun F => conj (ieee_op_mul_comm F) (ieee_op_nan F)). Qed.
Print Assumptions C13_ieee_instance.

Theorem C13_operate_pointwise_ieee :
  forall (F : fops) fstr d c o r, operate (ieee_op_gen F) fstr d c o = Ok r ->
  exists xs, operand_cells (ckind c) o (List.length (ccells c)) = Ok xs /\
             r = Col (ckind c) (cids c) (spec_cells (ieee_op_gen F) fstr (ckind c) (dunder_op d) (dunder_refl d) (ccells c) xs).
Proof. exact operate_refines_ieee. Qed.
Print Assumptions C13_operate_pointwise_ieee.

(* what the instance is: int o int is the exact big-integer instance; int / int is the exact quotient rounded once;
   as soon as a float is involved both sides become binary64 values (float(int), round to nearest even) and the
   float operation is applied *)
Theorem C13_ieee_int_int_exact :
  forall (F : fops) op x y, op <> OTruediv -> ieee_op_gen F op (NInt x) (NInt y) = exact_op op (NInt x) (NInt y).
Proof. exact ieee_op_int_int. Qed.
Print Assumptions C13_ieee_int_int_exact.

Theorem C13_ieee_int_truediv :
  forall (F : fops) x y, y <> 0 -> ieee_op_gen F OTruediv (NInt x) (NInt y) = NFlt (fl_div_ZZ x y).
Proof. exact ieee_op_int_truediv. Qed.
Print Assumptions C13_ieee_int_truediv.

Theorem C13_ieee_float_converts_first :
  forall (F : fops) o op a b, fop_of op = Some o -> num_is_int a && num_is_int b = false ->
  ieee_op_gen F op a b = NFlt (fl_op F o (num_to_fl a) (num_to_fl b)).
Proof. exact ieee_op_float. Qed.
Print Assumptions C13_ieee_float_converts_first.

(* fmod (the first step of // and %) is exact: x - trunc(x / y) * y on the common grid 2^e *)
Theorem C13_fmod_exact :
  forall sx mx ex sy my ey,
  let e := Z.min ex ey in
  let X := Z.pos mx * 2 ^ (ex - e) in let Y := Z.pos my * 2 ^ (ey - e) in
  fl_fmod (FFin sx mx ex) (FFin sy my ey) = mk_fin sx (X - Z.quot X Y * Y) e.
Proof. exact fl_fmod_exact. Qed.
Print Assumptions C13_fmod_exact.

(* TESTED, not proved for all inputs: on the grid of Spec/ArithIeee.v (51 numbers, all pairs, + - * / // %;
   7177 of the 15606 points are computed by the exact instance with a binary64 result) the exact instance and the
   IEEE instance yield the same value wherever the exact one is defined.  SpecFloat instance: a closed term. *)
Theorem C13_ieee_consistent_with_exact_on_grid_spec : on_grid (consistent_at spec_fops) = true.
Proof. exact grid_consistent_spec. Qed.
Print Assumptions C13_ieee_consistent_with_exact_on_grid_spec.

(* The same for the primitive-float instance, and primitive = SpecFloat bit for bit on the whole grid.  These two
   rest on Coq's primitive operations, which `Print Assumptions` lists (as "Axioms:", they are kernel primitives):
     PrimFloat.float, add, sub, mul, div, opp, abs, eqb, ltb, of_uint63, normfr_mantissa, frshiftexp, ldshiftexp;
     PrimInt63.int, lsl, lsr, lor, land, eqb                                 (these 19, nothing else)
   so they are kept as Examples without a Print Assumptions line. *)
Example C13_ieee_consistent_with_exact_on_grid_prim : on_grid (consistent_at prim_fops) = true.
Proof. exact grid_consistent_prim. Qed.
Example C13_ieee_prim_same_as_specfloat_on_grid : on_grid (same_at prim_fops spec_fops) = true.
Proof. exact grid_prim_same_as_spec. Qed.
Example C13_grid_size : N.of_nat (List.length grid) = 51%N /\ N.of_nat (count_grid op_defined) = 7177%N.
Proof. exact grid_size. Qed.

(* rounding made visible (primitive floats under vm_compute) *)
Example C13_ex_point1_plus_point2 :       (* 0.1 + 0.2 = 0.30000000000000004 *)
  ieee_op OAdd (NFlt (FFin false 3602879701896397 (-55))) (NFlt (FFin false 3602879701896397 (-54)))
  = NFlt (FFin false 1351079888211149 (-52)).
Proof. vm_compute. reflexivity. Qed.
Example C13_ex_third :                    (* 1 / 3 = 0.3333333333333333 (two ints: the exact quotient rounded once) *)
  ieee_op OTruediv (NInt 1) (NInt 3) = NFlt (FFin false 6004799503160661 (-54)).
Proof. vm_compute. reflexivity. Qed.
Example C13_ex_big_int_to_float :         (* (2^53 + 1) - 1.0 = 2^53 - 1.0: the int is rounded first *)
  ieee_op OSub (NInt 9007199254740993) (NFlt (FFin false 1 0)) = NFlt (FFin false 9007199254740991 0).
Proof. vm_compute. reflexivity. Qed.
Example C13_ex_overflow_inf_nan :         (* 1e308 * 10 = inf; inf - inf = nan; 0.0 * inf = nan; 5e-324 / 2 = 0.0 *)
  ieee_op OMul (NFlt (FFin false 156575653125701 976)) (NInt 10) = NFlt (FInf false) /\
  ieee_op OSub (NFlt (FInf false)) (NFlt (FInf false)) = NFlt FNan /\
  ieee_op OMul (NFlt (FZero false)) (NFlt (FInf false)) = NFlt FNan /\
  ieee_op OTruediv (NFlt (FFin false 1 (-1074))) (NInt 2) = NFlt (FZero false).
Proof. vm_compute. repeat split; reflexivity. Qed.
Example C13_ex_floordiv_mod :             (* 1e16 // 1.5 = 6666666666666667.0 (not the exact floor); -7.5 % 2 = 0.5; 1.0 % 0.1 = 0.09999999999999995 *)
  ieee_op OFloordiv (NFlt (FFin false 152587890625 16)) (NFlt (FFin false 3 (-1))) = NFlt (FFin false 6666666666666667 0) /\
  ieee_op OMod (NFlt (FFin true 15 (-1))) (NInt 2) = NFlt (FFin false 1 (-1)) /\
  ieee_op OMod (NFlt (FFin false 1 0)) (NFlt (FFin false 3602879701896397 (-55))) = NFlt (FFin false 3602879701896395 (-55)).
Proof. vm_compute. repeat split; reflexivity. Qed.
Example C13_ex_ieee_column :              (* FloatColumn [0.1; nan; 1e308] * 10 *)
  spec_operate ieee_op (fstr_tab []) OMul true
    (Col KFloat [2%N; 0%N; 1%N] [VFlt (FFin false 3602879701896397 (-55)); VFlt FNan; VFlt (FFin false 156575653125701 976)])
    (OScalar (PInt 10))
  = Ok (Col KFloat [2%N; 0%N; 1%N] [VFlt (FFin false 1 0); VFlt FNan; VFlt (FInf false)]).
Proof. vm_compute. reflexivity. Qed.

(* non-vacuity *)
Open Scope string_scope.
Example C13_ex1 :
  operate exact_op (fstr_tab [(FFin false 5 (-1), "2.5")]) DRAdd
    (Col KMixed [3%N; 1%N; 2%N; 0%N] [VInt 1; VFlt (FFin false 5 (-1)); VStr "a"; VNone]) (OScalar (PStr "x" None None))
  = Ok (Col KMixed [3%N; 1%N; 2%N; 0%N] [VStr "x1"; VStr "x2.5"; VStr "xa"; VStr "xNone"]).
Proof. vm_compute. reflexivity. Qed.
Example C13_ex2 :
  operate exact_op (fstr_tab []) DRSub (Col KInt [5%N; 2%N] [VInt 1; VInt (-7)]) (OSeq [PFloat (FFin false 5 (-1)); PInt 2])
  = Ok (Col KInt [5%N; 2%N] [VInt 1; VInt 9]).
Proof. vm_compute. reflexivity. Qed.
Example C13_ex3 :
  operate exact_op (fstr_tab []) DTruediv (Col KInt [5%N; 2%N] [VInt 1; VInt (-7)]) (OScalar (PInt 2))
  = Ok (Col KInt [5%N; 2%N] [VInt 0; VInt (-4)]).
Proof. vm_compute. reflexivity. Qed.
Example C13_ex4 :
  spec_operate exact_op (fstr_tab []) OSub true (Col KFloat [0%N; 1%N] [VFlt (FFin false 1 0); VFlt FNan]) (OCol KInt [VInt 3; VInt 4])
  = Ok (Col KFloat [0%N; 1%N] [VFlt (FFin false 1 1); VFlt FNan]).
Proof. vm_compute. reflexivity. Qed.
(* ** beyond 2^53 stays exact in an IntColumn (7**20, (-3)**39, 3**35), both operand orders, rows in any order *)
Example C13_ex6 :
  operate exact_op (fstr_tab []) DPow (Col KInt [2%N; 0%N; 1%N] [VInt 7; VInt (-3); VInt 2]) (OSeq [PInt 20; PInt 39; PInt 3])
  = Ok (Col KInt [2%N; 0%N; 1%N] [VInt 79792266297612001; VInt (-4052555153018976267); VInt 8]) /\
  spec_operate exact_op (fstr_tab []) OPow true (Col KInt [1%N; 0%N] [VInt 35; VInt 2]) (OScalar (PInt 3))
  = Ok (Col KInt [1%N; 0%N] [VInt 50031545098999707; VInt 9]).
Proof. vm_compute. split; reflexivity. Qed.
(* col @ f / map_(f, col) hold f(cell_i) also for cells that compare equal: +0.0 / -0.0 under copysign(1.0, x),
   3 / 3.0 in a derived MixedColumn under a function that names the type *)
Example C13_ex7 :
  let f := ftab_fun [(VFlt (FZero false), PFloat (FFin false 1 0)); (VFlt (FZero true), PFloat (FFin true 1 0))] in
  let c := Col KFloat [1%N; 2%N; 0%N] [VFlt (FZero true); VFlt (FZero false); VFlt (FZero true)] in
  spec_map f c = Ok (Col KFloat [1%N; 2%N; 0%N] [VFlt (FFin true 1 0); VFlt (FFin false 1 0); VFlt (FFin true 1 0)]) /\
  map_col f c = spec_map f c.
Proof. vm_compute. split; reflexivity. Qed.
Example C13_ex8 :
  let f := ftab_fun [(VInt 3, PStr "i" None None); (VFlt (FFin false 3 0), PStr "f" None None)] in
  let c := Col KMixed [0%N; 1%N; 2%N] [VFlt (FFin false 3 0); VInt 3; VFlt (FFin false 3 0)] in
  spec_map f c = Ok (Col KMixed [0%N; 1%N; 2%N] [VStr "f"; VStr "i"; VStr "f"]) /\ map_col f c = spec_map f c.
Proof. vm_compute. split; reflexivity. Qed.

(* ---------- SeriesColumn *)
From DM Require Import Spec.ArithSeries Model.ArithSeries Proofs.ArithSeriesFacts.

Theorem C13_series_refines :
  forall (num_op : binop -> num -> num -> num), (forall a b, num_op OMul a b = num_op OMul b a) ->
  forall d c o, series_operate num_op d c o = spec_series num_op (dunder_op d) (dunder_refl d) c o.
Proof. exact series_refines. Qed.
Print Assumptions C13_series_refines.

Theorem C13_series_shape :
  forall num_op op refl c o r, spec_series num_op op refl c o = Ok r ->
  sdepth r = sdepth c /\ sids r = sids c /\ List.length (srows r) = List.length (srows c).
Proof. exact spec_series_shape. Qed.
Print Assumptions C13_series_shape.

Theorem C13_series_scalar :
  forall num_op op refl c x r i j, spec_series num_op op refl c (SScalar x) = Ok r ->
  (i < List.length (srows c))%nat -> (j < List.length (nth i (srows c) []))%nat ->
  nth j (nth i (srows r) []) FNan = scell num_op op refl (nth j (nth i (srows c) []) FNan) x.
Proof. exact spec_series_scalar. Qed.
Print Assumptions C13_series_scalar.

Theorem C13_series_per_row :
  forall num_op op refl c xs r i j, spec_series num_op op refl c (SVec xs) = Ok r ->
  List.length xs = List.length (srows c) ->
  (i < List.length (srows c))%nat -> (j < List.length (nth i (srows c) []))%nat ->
  nth j (nth i (srows r) []) FNan = scell num_op op refl (nth j (nth i (srows c) []) FNan) (nth i xs (NInt 0)).
Proof. exact spec_series_per_row. Qed.
Print Assumptions C13_series_per_row.

Theorem C13_series_per_sample :
  forall num_op op refl c xs r i j, spec_series num_op op refl c (SVec xs) = Ok r ->
  List.length xs <> List.length (srows c) ->
  (i < List.length (srows c))%nat -> List.length (nth i (srows c) []) = List.length xs -> (j < List.length xs)%nat ->
  nth j (nth i (srows r) []) FNan = scell num_op op refl (nth j (nth i (srows c) []) FNan) (nth j xs (NInt 0)).
Proof. exact spec_series_per_sample. Qed.
Print Assumptions C13_series_per_sample.

Theorem C13_series_refines_ieee :
  forall (F : fops) d c o,
  series_operate (ieee_op_gen F) d c o = spec_series (ieee_op_gen F) (dunder_op d) (dunder_refl d) c o.
Proof. exact series_refines_ieee. Qed.
Print Assumptions C13_series_refines_ieee.

Example C13_ex5 :
  series_operate exact_op DRSub (SCol 2 [4%N; 0%N] [[FFin false 1 0; FNan]; [FFin false 3 0; FFin false 1 (-1)]]) (SVec [NInt 1; NInt 5])
  = Ok (SCol 2 [4%N; 0%N] [[FZero false; FNan]; [FFin false 1 1; FFin false 9 (-1)]]).
Proof. vm_compute. reflexivity. Qed.
