(* C05: one normal form per column type on every write path.  Statements only. *)
From Coq Require Import ZArith List Bool String.
From DM Require Import Base.PyVal Spec.Nf Gen.KCheck Model.Store Proofs.NfFacts.

(* Every write path stores nf k v: the per-cell chains are the kernels
   regenerated from _basecolumn.py / _numericcolumn.py. Equality is Python
   equality of the stored value (NaN ~ NaN, 0.0 ~ -0.0), exceptions by class. *)
Theorem C05_path_nf :
  forall (p : path) (k : kind) (v : pyv), pyv_wf v = true -> res_eqv (store p k v) (nf k v) = true.
Proof. exact path_nf. Qed.
Print Assumptions C05_path_nf.

(* For Mixed and Int columns the agreement is syntactic (bit for bit). *)
Theorem C05_store_mixed : forall v, store_cell KMixed v = nf KMixed v.
Proof. exact store_mixed_spec. Qed.
Print Assumptions C05_store_mixed.

Theorem C05_store_int : forall v, store_cell KInt v = nf KInt v.
Proof. exact store_int_spec. Qed.
Print Assumptions C05_store_int.

Theorem C05_from_col_nf : forall (k k2 : kind) (x : val),
  pyv_wf (pyv_of_val x) = true -> res_eqv (store_from_col k k2 x) (nf k (pyv_of_val x)) = true.
Proof. exact from_col_nf. Qed.
Print Assumptions C05_from_col_nf.

Theorem C05_nf_idem : forall k v x, nf k v = Ok x -> nf k (pyv_of_val x) = Ok x.
Proof. exact nf_idem. Qed.
Print Assumptions C05_nf_idem.

Theorem C05_nf_type : forall k v x, nf k v = Ok x ->
  match k, x with
  | KMixed, VFlt f => fl_is_finite f && fl_integral f = false
  | KMixed, _ => True
  | KFloat, VFlt _ => True
  | KInt, VInt _ => True
  | _, _ => False
  end.
Proof. exact nf_type. Qed.
Print Assumptions C05_nf_type.

Theorem C05_int_exact : forall (z : Z) (s : string) (of : option fl),
  nf KMixed (PInt z) = Ok (VInt z) /\ nf KMixed (PStr s (Some z) of) = Ok (VInt z) /\
  nf KInt (PInt z) = Ok (VInt z) /\ nf KInt (PNpInt z) = Ok (VInt z) /\ nf KInt (PStr s (Some z) of) = Ok (VInt z).
Proof. exact nf_int_exact. Qed.
Print Assumptions C05_int_exact.

(* float(int(f)) is f again for every integral binary64 value (the step a
   FloatColumn cell write goes through) *)
Theorem C05_round53_trunc : forall neg m e,
  fl_wf (FFin neg m e) = true -> fl_integral (FFin neg m e) = true ->
  fl_eqv (round53 (fl_trunc (FFin neg m e))) (FFin neg m e) = true.
Proof. exact round53_trunc. Qed.
Print Assumptions C05_round53_trunc.

(* non-vacuity *)
Example C05_ex1 : nf KMixed (PStr "1e3" None (Some (FFin false 125 3))) = Ok (VInt 1000).
Proof. vm_compute. reflexivity. Qed.
Example C05_ex2 : store CellInt KFloat (PFloat (FFin true 3 0)) = Ok (VFlt (FFin true 3 0)).
Proof. vm_compute. reflexivity. Qed.
Example C05_ex3 : store WholeSeq KInt (PFloat (FFin false 7 (-1))) = Ok (VInt 3).
Proof. vm_compute. reflexivity. Qed.

(* ---- the write-path skeletons on the regenerated dispatch kernels (Gen/KC05Paths.v) ---- *)
From DM Require Import Gen.KC05Paths Model.C05Paths Proofs.C05PathsFacts.

(* Scalar write paths routed through the translated exit chain of NumericColumn._tosequence, the translated
   scalar test of BaseColumn._tosequence and the pinned IntColumn._tosequence store the normal form. *)
Theorem C05_path_k_nf :
  forall (p : path) (k : kind) (v : pyv), pyv_wf v = true -> res_eqv (store_k p k v) (nf k v) = true.
Proof. exact path_k_nf. Qed.
Print Assumptions C05_path_k_nf.

(* A column object (of kind k2, handing out the cell raw) assigned by slice, by index list / selection, or as a
   whole column stores the normal form of raw -- with type checking on.  FSetCol: the column takes the value's type. *)
Theorem C05_colval_nf : forall (f : colform) (k k2 : kind) (raw : pyv),
  pyv_wf raw = true -> raw_ok k2 raw = true ->
  res_eqv (store_colval true f k k2 raw) (nf (result_kind f k k2) raw) = true.
Proof. exact colval_nf. Qed.
Print Assumptions C05_colval_nf.

(* The translated guard of BaseColumn._setslicekey: raw storage is copied only when type checking is off and
   the value is a column of exactly the same type. *)
Theorem C05_setslice_fast_only : forall tc same, k_setslice_fast tc same = true -> tc = false /\ same = true.
Proof. exact setslice_fast_only. Qed.
Print Assumptions C05_setslice_fast_only.

(* With the flag off, only a same-type column escapes the check; index-list writes never do. *)
Theorem C05_colval_other_type_flag : forall (k k2 : kind) (raw : pyv),
  kind_eqb k k2 = false -> store_colval false FSlice k k2 raw = store_colval true FSlice k k2 raw.
Proof. exact colval_other_type_flag. Qed.
Print Assumptions C05_colval_other_type_flag.

Theorem C05_colval_seqkey_flag : forall (tc : bool) (k k2 : kind) (raw : pyv),
  store_colval tc FSeqKey k k2 raw = store_colval true FSeqKey k k2 raw.
Proof. exact colval_seqkey_flag. Qed.
Print Assumptions C05_colval_seqkey_flag.

(* dm.name = column (DataMatrix._set_col, translated by-reference test): the column object is entered by
   reference only if it is one of the table's own columns, owned by the table, of its length and row-aligned. *)
Theorem C05_setcol_by_reference_only : forall so own sl si,
  k_setcol_by_reference so own sl si = true -> so = true /\ own = true /\ sl = true /\ si = true.
Proof. exact setcol_by_reference_only. Qed.
Print Assumptions C05_setcol_by_reference_only.

(* Hence a column value that is NOT one of the table's own columns (dm.a / 2, dm.a @ f, dm.a[:], a column of
   another table) is always stored through the normal form of its type. *)
Theorem C05_setcol_not_own_nf : forall (so sl si : bool) (k2 : kind) (raw : pyv),
  pyv_wf raw = true -> raw_ok k2 raw = true -> sl = true ->
  res_eqv (store_setcol so false sl si k2 raw) (nf k2 raw) = true.
Proof. exact setcol_not_own_nf. Qed.
Print Assumptions C05_setcol_not_own_nf.

Theorem C05_setcol_length : forall (so own si : bool) (k2 : kind) (raw : pyv),
  store_setcol so own false si k2 raw = Raise ValueError.
Proof. exact setcol_length. Qed.
Print Assumptions C05_setcol_length.

(* non-vacuity: why the flag matters -- a same-type raw copy keeps 1.0 where the normal form is 1 *)
Example C05_ex4 : store_colval false FSlice KMixed KMixed (PFloat (FFin false 1 0)) = Ok (VFlt (FFin false 1 0))
                  /\ store_colval true FSlice KMixed KMixed (PFloat (FFin false 1 0)) = Ok (VInt 1).
Proof. vm_compute. split; reflexivity. Qed.
Example C05_ex5 : store_colval true FSetCol KInt KFloat (PFloat (FFin false 5 (-1))) = Ok (VFlt (FFin false 5 (-1)))
                  /\ store_colval true FSlice KInt KFloat (PFloat (FFin false 5 (-1))) = Ok (VInt 2).
Proof. vm_compute. split; reflexivity. Qed.
Example C05_ex6 : store_k WholeScalar KFloat (PStr "x" None None) = Ok (VFlt FNan).
Proof. vm_compute. reflexivity. Qed.
Example C05_ex7 : store_setcol true false true true KMixed (PFloat (FFin false 1 0)) = Ok (VInt 1)
                  /\ store_setcol true true true true KMixed (PFloat (FFin false 1 0)) = Ok (VFlt (FFin false 1 0)).
Proof. vm_compute. split; reflexivity. Qed.

(* ---- a scalar written to n addressed cells, n = 0 included ----
   (empty selection, empty slice, empty index list, whole column of a zero-row table, ...) *)
From DM Require Import Spec.Table.

(* The L1 scalar write (column._tosequence(value, n) on the regenerated dispatch kernels, reached by every scalar
   write form through pinned setters) refines the L0 right-hand side rhs_cells for every number n of addressed cells:
   the same exception, or n copies of Python-equal values. *)
Theorem C05_scalar_n_refines : forall (k : kind) (n : nat) (v : pyv), pyv_wf v = true ->
  match store_scalar_n k n v, rhs_cells k n (RScalar v) with
  | Ok xs, Ok ys => exists x y, xs = repeat x n /\ ys = repeat y n /\ val_eqv x y = true
  | Raise e1, Raise e2 => e1 = e2
  | _, _ => False
  end.
Proof. exact scalar_n_refines. Qed.
Print Assumptions C05_scalar_n_refines.

(* The accept / reject verdict of a scalar write does not depend on how many cells are addressed. *)
Theorem C05_scalar_verdict_any_n : forall (k : kind) (n m : nat) (v : pyv),
  match store_scalar_n k n v, store_scalar_n k m v with
  | Ok _, Ok _ => True
  | Raise e1, Raise e2 => e1 = e2
  | _, _ => False
  end.
Proof. exact scalar_verdict_any_n. Qed.
Print Assumptions C05_scalar_verdict_any_n.

(* A write that addresses no cell stores nothing and raises exactly when the normal form of the value raises. *)
Theorem C05_scalar_zero_cells : forall (k : kind) (v : pyv), pyv_wf v = true ->
  match store_scalar_n k 0 v, nf k v with
  | Ok xs, Ok _ => xs = nil
  | Raise e1, Raise e2 => e1 = e2
  | _, _ => False
  end.
Proof. exact scalar_zero_cells. Qed.
Print Assumptions C05_scalar_zero_cells.

(* non-vacuity: an IntColumn rejects "abc" and a FloatColumn an unsupported object even when no cell is addressed;
   a FloatColumn accepts "abc" (stored as NaN in every addressed cell) *)
Example C05_ex8 : store_scalar_n KInt 0 (PStr "abc" None None) = Raise TypeError
                  /\ rhs_cells KInt 0 (RScalar (PStr "abc" None None)) = Raise TypeError
                  /\ store_scalar_n KFloat 0 POther = Raise TypeError
                  /\ store_scalar_n KFloat 0 (PStr "abc" None None) = Ok nil
                  /\ store_scalar_n KFloat 2 (PStr "abc" None None) = Ok (VFlt FNan :: VFlt FNan :: nil).
Proof. vm_compute. repeat split; reflexivity. Qed.
