(* C18: series functions act row by row and follow their formulas.  Statements only. *)
From Coq Require Import ZArith QArith List Bool.
From DM Require Import Spec.Series Gen.KSeries Model.Series Proofs.SeriesFacts.
Import ListNotations.
Local Open Scope nat_scope.

Theorem C18_rowwise_commutes : forall (V : Type) (f : list (option V) -> list (option V)) ps s,
  Forall (fun p => p < length s) ps -> take_rows ps (rowwise f s) = rowwise f (take_rows ps s).
Proof. exact rowwise_commutes. Qed.
Print Assumptions C18_rowwise_commutes.
