(* C18: series functions act row by row and follow their formulas.  Statements only;
   proofs in Proofs/SeriesFacts.v and Proofs/SeriesRefine.v.  Samples: option V, None = NaN.  *1 = L1 model built on the kernels
   regenerated from series.py / _seriescolumn.py; unmarked = L0 specification (Spec/Series.v). *)
From Coq Require Import ZArith QArith List Bool.
From DM Require Import Spec.Series Gen.KSeries Model.Series Proofs.SeriesFacts Proofs.SeriesRefine.
Import ListNotations.
Local Open Scope nat_scope.

(* ---- acting row by row ---- *)
(* every function that is the map of a per-row function commutes with selecting / reordering host rows *)
Theorem C18_rowwise_commutes : forall (V : Type) (f : list (option V) -> list (option V)) ps s,
  Forall (fun p => p < length s) ps -> take_rows ps (rowwise f s) = rowwise f (take_rows ps s).
Proof. exact rowwise_commutes. Qed.
Print Assumptions C18_rowwise_commutes.

Theorem C18_rowwise_one_row_per_row : forall (V : Type) (f : list (option V) -> list (option V)) s,
  length (rowwise f s) = length s.
Proof. exact rowwise_length. Qed.
Print Assumptions C18_rowwise_one_row_per_row.

Theorem C18_rowwise_local : forall (V : Type) (f : list (option V) -> list (option V)) s s' i,
  i < length s -> i < length s' -> nth i s [] = nth i s' [] -> nth i (rowwise f s) [] = nth i (rowwise f s') [].
Proof. exact rowwise_local. Qed.
Print Assumptions C18_rowwise_local.

(* _SeriesColumn._map (used by downsample, smooth, z, interpolate, the filters): for any per-row function whose
   results have one common depth it is the row-wise map *)
Theorem C18_smap_rowwise : forall (V : Type) (f : list (option V) -> list (option V)) d s,
  s <> [] -> (forall c, In c s -> length (f c) = d) -> smap (fun r => Some (f r)) s = Some (rowwise f s).
Proof. exact smap_spec. Qed.
Print Assumptions C18_smap_rowwise.

(* reduce: one value per row, commuting with row selection *)
Theorem C18_reduce_commutes : forall (V Y : Type) (op : list (option V) -> Y) (d : Y) ps s,
  Forall (fun p => p < length s) ps -> map (fun p => nth p (map op s) d) ps = map op (take_rows ps s).
Proof. exact map_commutes_take. Qed.
Print Assumptions C18_reduce_commutes.

(* ---- endlock ---- *)
Theorem C18_endlock_spec : forall (V : Type) (s : list (list (option V))), endlock1 s = Some (endlock s).
Proof. exact endlock_spec_L1. Qed.
Print Assumptions C18_endlock_spec.

Theorem C18_endlock_formula : forall (V : Type) (body : list (option V)) k,
  trailing body = 0 -> endlock_row (body ++ nans k) = nans k ++ body.
Proof. exact endlock_formula. Qed.
Print Assumptions C18_endlock_formula.

(* ---- lock ---- *)
Theorem C18_lock_spec : forall (V : Type) d (s : list (list (option V))) lk,
  lk <> [] -> length s = length lk -> (forall r, In r s -> length r = d) ->
  lock1 d s lk = Some (lock s lk, lock_zero_point lk).
Proof. exact lock_spec_L1. Qed.
Print Assumptions C18_lock_spec.

Theorem C18_lock_depth : forall (V : Type) M m (r : list (option V)) l, (m <= l <= M)%Z ->
  length (lock_row M m r l) = length r + Z.to_nat (M - m).
Proof. exact lock_row_depth. Qed.
Print Assumptions C18_lock_depth.

Theorem C18_lock_rowwise_mod_padding : forall (V : Type) ps (s : list (list (option V))) lk,
  let lk' := map (fun q => nth q lk 0%Z) ps in
  lock (take_rows ps s) lk' = map (fun p => lock_row (zmax lk') (zmin lk') (nth p s []) (nth p lk 0%Z)) ps.
Proof. exact lock_commutes_mod_padding. Qed.
Print Assumptions C18_lock_rowwise_mod_padding.

(* ---- threshold ---- *)
Theorem C18_threshold_spec : forall (V : Type) (inj : Z -> V) hit min_length s,
  threshold1 inj hit min_length s = threshold (inj 1%Z) (inj 0%Z) hit min_length s.
Proof. exact threshold_spec_L1. Qed.
Print Assumptions C18_threshold_spec.

(* exactly the maximal runs: a run of k hits closed by a miss is marked as a whole iff k >= min_length ... *)
Theorem C18_threshold_run_then_miss : forall (V : Type) (inj : Z -> V) hit min_length k x r,
  (forall y, In y k -> hit y = true) -> hit x = false ->
  threshold_row (inj 1%Z) (inj 0%Z) hit min_length (k ++ x :: r)
  = repeat (mark (inj 1%Z) (inj 0%Z) min_length (length k)) (length k)
    ++ Some (inj 0%Z) :: threshold_row (inj 1%Z) (inj 0%Z) hit min_length r.
Proof. exact threshold_run_then_miss. Qed.
Print Assumptions C18_threshold_run_then_miss.

(* ... and so is a run that touches the end of the row *)
Theorem C18_threshold_run_at_end : forall (V : Type) (inj : Z -> V) hit min_length k,
  (forall y, In y k -> hit y = true) ->
  threshold_row (inj 1%Z) (inj 0%Z) hit min_length k
  = repeat (mark (inj 1%Z) (inj 0%Z) min_length (length k)) (length k).
Proof. exact threshold_run_at_end. Qed.
Print Assumptions C18_threshold_run_at_end.

(* ---- window / col[:, a:b], depth setter ---- *)
Theorem C18_window_spec : forall (V : Type) d lo hi (s : list (list (option V))),
  (forall r, In r s -> length r = d) -> window1 d lo hi s = window lo hi s.
Proof. exact window_spec_L1. Qed.
Print Assumptions C18_window_spec.

Theorem C18_window_formula : forall (V : Type) (A B C : list (option V)),
  window_row (Z.of_nat (length A)) (Some (Z.of_nat (length A + length B))) (A ++ B ++ C) = B.
Proof. exact window_formula. Qed.
Print Assumptions C18_window_formula.

Theorem C18_set_depth_spec : forall (V : Type) old (d : Z) (s : list (list (option V))),
  (0 <= d)%Z -> (forall r, In r s -> length r = old) -> set_depth1 old d s = Some (set_depth (Z.to_nat d) s).
Proof. exact set_depth_spec_L1. Qed.
Print Assumptions C18_set_depth_spec.

(* a column created with defaultnan=False fills new cells with 0: the depth setter with a padding value *)
Theorem C18_set_depth_pad_spec : forall (V : Type) (pad : option V) old (d : Z) (s : list (list (option V))),
  (0 <= d)%Z -> (forall r, In r s -> length r = old) ->
  set_depth1_pad pad old d s = Some (set_depth_pad pad (Z.to_nat d) s).
Proof. exact set_depth_pad_spec_L1. Qed.
Print Assumptions C18_set_depth_pad_spec.

Theorem C18_set_depth_pad_nan : forall (V : Type) d (s : list (list (option V))), set_depth_pad None d s = set_depth d s.
Proof. exact set_depth_pad_nan. Qed.
Print Assumptions C18_set_depth_pad_nan.

Theorem C18_set_depth_pad_grow : forall (V : Type) (pad : option V) (r : list (option V)) k,
  set_depth_row_pad pad (length r + k) r = r ++ repeat pad k.
Proof. exact set_depth_row_pad_grow. Qed.
Print Assumptions C18_set_depth_pad_grow.

(* ---- downsample ---- *)
Theorem C18_downsample_spec : forall (by_ : Z) (s : list qrow) d,
  (0 < by_)%Z -> s <> [] -> (forall r, In r s -> length r = d) ->
  downsample1 by_ s = Some (downsample (Z.to_nat by_) s).
Proof. exact downsample_spec_L1. Qed.
Print Assumptions C18_downsample_spec.

Theorem C18_downsample_depth : forall b (r : qrow), length (downsample_row b r) = length r / b.
Proof. exact downsample_row_depth. Qed.
Print Assumptions C18_downsample_depth.

Theorem C18_downsample_formula : forall b (pre blk post : qrow) k,
  0 < b -> length pre = k * b -> length blk = b -> k < (length (pre ++ blk ++ post)) / b ->
  nth k (downsample_row b (pre ++ blk ++ post)) None = nanmean blk.
Proof. exact downsample_formula. Qed.
Print Assumptions C18_downsample_formula.

(* ---- concatenate (L0): joins depths row by row (L1 = L0: C18_concatenate_spec below) ---- *)
Theorem C18_concatenate_row : forall (V : Type) n (ss : list (list (list (option V)))) i, i < n ->
  nth i (concatenate n ss) [] = concat (map (fun s => nth i s []) ss).
Proof. exact concatenate_nth. Qed.
Print Assumptions C18_concatenate_row.

Theorem C18_concatenate_commutes : forall (V : Type) n ps (ss : list (list (list (option V)))),
  Forall (fun p => p < n) ps ->
  concatenate (length ps) (map (take_rows ps) ss) = take_rows ps (concatenate n ss).
Proof. exact concatenate_commutes. Qed.
Print Assumptions C18_concatenate_commutes.

(* ---- normalize_time: the loop of series.py (strip trailing NaN timestamps, searchsorted on arange, scatter) with the
   regenerated depth kernel places sample j at index time_j, for every column of integer timestamps that increase
   inside each row with NaN only at the end, whatever the number of rows and the depth ---- *)
Theorem C18_normalize_time_spec : forall (V : Type) d (s : list (list (option V))) tss,
  forallb times_ok tss = true -> wf_series d s = true -> wf_series d tss = true -> has_time tss = true ->
  normalize_time1 d s tss = Some (normalize_time s tss).
Proof. exact normalize_time_spec_L1. Qed.
Print Assumptions C18_normalize_time_spec.

(* ---- interpolate: np.interp over the valid samples, through _SeriesColumn._map, is the L0 formula (linear between
   the nearest valid neighbours, flat beyond the outermost ones, an all-NaN row unchanged) up to equality of
   rationals, for every non-empty column ---- *)
Theorem C18_interpolate_spec : forall (s : list qrow) d,
  s <> [] -> wf_series d s = true -> exists out, interpolate1 s = Some out /\ rows_equiv out (interpolate s).
Proof. exact interpolate_spec_L1. Qed.
Print Assumptions C18_interpolate_spec.

Theorem C18_interpolate_row : forall y : qrow, row_equiv (interpolate_row1 y) (interpolate_row y).
Proof. exact interpolate_row_spec. Qed.
Print Assumptions C18_interpolate_row.

(* ---- baseline: series -|/ reduce(window(baseline)) through _SeriesColumn._operate (the reduced column broadcast along
   the depth axis) is the per-row formula, for any reduction ---- *)
Theorem C18_baseline_spec : forall d dbl divisive red lo hi (s bl : list qrow),
  Nat.eqb (length s) (length bl) = true -> wf_series d s = true -> wf_series dbl bl = true ->
  baseline1 d dbl divisive red lo hi s bl = Some (baseline divisive red lo hi s bl).
Proof. exact baseline_spec_L1. Qed.
Print Assumptions C18_baseline_spec.

Theorem C18_baseline_formula : forall divisive red lo hi (r bl : qrow) i, i < length r ->
  nth i (baseline_row divisive red lo hi r bl) None
  = lift2 (if divisive then Qdiv else Qminus) (nth i r None) (red (pyslice (Some lo) hi bl)).
Proof. exact baseline_row_nth. Qed.
Print Assumptions C18_baseline_formula.

(* ---- z: (a - nanmean(a)) / nanstd(a) through _SeriesColumn._map is the L0 z-transform, for every function nanstd that
   returns the standard deviations sdf; and the L0 z-transform of a row whose standard deviation is sd <> 0 has mean 0
   and variance (hence standard deviation) 1 ---- *)
Theorem C18_z_spec : forall (nanstd : qrow -> option Q) (sdf : qrow -> Q) (s : list qrow) d,
  s <> [] -> wf_series d s = true -> (forall r, In r s -> nanstd r = Some (sdf r)) ->
  z1 nanstd s = Some (map (fun r => z_row (sdf r) r) s).
Proof. exact z_spec_L1. Qed.
Print Assumptions C18_z_spec.

Theorem C18_z_mean0_sd1 : forall (r : qrow) sd, is_std sd r = true ->
  exists m v, nanmean (z_row sd r) = Some m /\ (m == 0)%Q /\ nanvar (z_row sd r) = Some v /\ (v == 1)%Q.
Proof. exact z_mean0_sd1. Qed.
Print Assumptions C18_z_mean0_sd1.

(* ---- concatenate: the offset loop newseries[:, i:i+s.depth] = s with the regenerated offsets joins the depths row by
   row, for any number of columns of any depths on the same rows; reduce: one value per row ---- *)
Theorem C18_concatenate_spec : forall (V : Type) n (ss : list (nat * list (list (option V)))),
  ss <> [] -> forallb (fun ds => Nat.eqb (length (snd ds)) n && wf_series (fst ds) (snd ds)) ss = true ->
  concatenate1 n ss = Some (concatenate n (map snd ss)).
Proof. exact concatenate_spec_L1. Qed.
Print Assumptions C18_concatenate_spec.

Theorem C18_reduce_spec : forall (op : qrow -> option Q) (s : list qrow), reduce1 op s = reduce op s.
Proof. exact reduce_spec_L1. Qed.
Print Assumptions C18_reduce_spec.

(* ---- non-vacuity ---- *)
Example C18_ex_endlock : endlock1 [[Some 1%Z; None; Some 2%Z; None; None]] = Some [[None; None; Some 1%Z; None; Some 2%Z]].
Proof. vm_compute. reflexivity. Qed.
Example C18_ex_threshold :
  threshold1 (fun k => k) (fun x => match x with Some v => (0 <? v)%Z | None => false end) 2
             [[Some 1%Z; Some 0%Z; Some 5%Z; Some 5%Z]] = [[Some 0%Z; Some 0%Z; Some 1%Z; Some 1%Z]].
Proof. vm_compute. reflexivity. Qed.
Example C18_ex_lock : lock1 2 [[Some 1%Z; Some 2%Z]; [Some 3%Z; Some 4%Z]] [0%Z; 1%Z]
  = Some ([[None; Some 1%Z; Some 2%Z]; [Some 3%Z; Some 4%Z; None]], 1%Z).
Proof. vm_compute. reflexivity. Qed.
Example C18_ex_downsample : downsample1 2 [[Some 1%Q; None; Some 3%Q; Some 5%Q; Some 7%Q]] = Some [[Some (1 / 1)%Q; Some ((3 + (5 + 0)) / 2)%Q]].
Proof. vm_compute. reflexivity. Qed.
(* the premises of the refinement theorems are satisfiable, and the models compute *)
Example C18_ex_normalize_time_premises :
  let tss := [[Some 1%Z; Some 2%Z; Some 4%Z]; [Some 0%Z; Some 3%Z; None]] in
  let s := [[Some 3%Z; Some 1%Z; Some 2%Z]; [Some 1%Z; None; Some 9%Z]] in
  forallb times_ok tss = true /\ wf_series 3 s = true /\ wf_series 3 tss = true /\ has_time tss = true /\
  normalize_time1 3 s tss = Some [[None; Some 3%Z; Some 1%Z; None; Some 2%Z]; [Some 1%Z; None; None; None; None]].
Proof. vm_compute. repeat split; reflexivity. Qed.
Example C18_ex_interpolate :
  option_map (map (map (option_map Qred))) (interpolate1 [[None; Some 1%Q; None; None; Some 4%Q; None]; [None; None; None; None; None; None]])
  = Some [[Some 1%Q; Some 1%Q; Some 2%Q; Some 3%Q; Some 4%Q; Some 4%Q]; [None; None; None; None; None; None]].
Proof. vm_compute. reflexivity. Qed.
Example C18_ex_baseline :
  Nat.eqb 1 1 = true /\ wf_series 3 [[Some 5%Q; None; Some 7%Q]] = true /\ wf_series 2 [[Some 1%Q; Some 3%Q]] = true /\
  option_map (map (map (option_map Qred))) (baseline1 3 2 false nanmean (-100) None [[Some 5%Q; None; Some 7%Q]] [[Some 1%Q; Some 3%Q]])
  = Some [[Some 3%Q; None; Some 5%Q]].
Proof. vm_compute. repeat split; reflexivity. Qed.
Example C18_ex_z :
  is_std 1 [Some 1%Q; None; Some 3%Q] = true /\
  option_map (map (map (option_map Qred))) (z1 (fun _ => Some 1%Q) [[Some 1%Q; None; Some 3%Q]]) = Some [[Some (-1)%Q; None; Some 1%Q]].
Proof. vm_compute. repeat split; reflexivity. Qed.
Example C18_ex_concatenate :
  let ss := [(2, [[Some 1%Z; None]; [Some 3%Z; Some 4%Z]]); (1, [[Some 5%Z]; [None]])] in
  forallb (fun ds => Nat.eqb (length (snd ds)) 2 && wf_series (fst ds) (snd ds)) ss = true /\
  concatenate1 2 ss = Some [[Some 1%Z; None; Some 5%Z]; [Some 3%Z; Some 4%Z; None]].
Proof. vm_compute. split; reflexivity. Qed.
