(* C10: sorting permutes rows into the documented total order.  Statements only. *)
From Coq Require Import ZArith NArith List Bool String Permutation Sorted.
From DM Require Import Base.PyVal Base.SortKey Spec.Nf Spec.Table Spec.Sort Gen.KSort Model.Sort Proofs.SortFacts.
Import ListNotations.
Open Scope Z_scope.

(* ---- the sort keys form a strict weak order: ALL pairs and triples of keys (a float key is never NaN:
   sortable() maps NaN to the SortableNAN singleton, see C10_sortable_total).  py_lt is CPython's `<`
   dispatch over the __lt__/__gt__ bodies regenerated from _sort.py. *)
Theorem C10_py_lt_irrefl : forall a, key_wf a = true -> py_lt a a = false.
Proof. exact py_lt_irrefl. Qed.
Print Assumptions C10_py_lt_irrefl.

Theorem C10_py_lt_asym : forall a b, key_wf a = true -> key_wf b = true -> py_lt a b = true -> py_lt b a = false.
Proof. exact py_lt_asym. Qed.
Print Assumptions C10_py_lt_asym.

Theorem C10_py_lt_trans : forall a b c, key_wf a = true -> key_wf b = true -> key_wf c = true ->
  py_lt a b = true -> py_lt b c = true -> py_lt a c = true.
Proof. exact py_lt_trans. Qed.
Print Assumptions C10_py_lt_trans.

Theorem C10_py_incomp_trans : forall a b c, key_wf a = true -> key_wf b = true -> key_wf c = true ->
  py_lt a b = false -> py_lt b a = false -> py_lt b c = false -> py_lt c b = false ->
  py_lt a c = false /\ py_lt c a = false.
Proof. exact py_incomp_trans. Qed.
Print Assumptions C10_py_incomp_trans.

(* ---- every stored cell gets a well-formed key, and `<` on keys is the documented order
   -inf < finite by value (int/float exactly) < +inf < str by code point < None < NaN *)
Theorem C10_sortable_total : forall v : val, exists k, sortable v = Some k /\ key_wf k = true.
Proof. exact sortable_total. Qed.
Print Assumptions C10_sortable_total.

Theorem C10_py_lt_doc : forall v w a b, sortable v = Some a -> sortable w = Some b ->
  py_lt a b = sort_lt v w.
Proof. exact py_lt_doc. Qed.
Print Assumptions C10_py_lt_doc.

(* ---- a stable sort w.r.t. a strict weak order is unique (justifies insertion sort as model of Timsort) *)
Theorem C10_stable_sort_unique : forall (A : Type) (lt : A -> A -> bool),
  (forall a, lt a a = false) ->
  (forall a b c, lt a b = true -> lt b c = true -> lt a c = true) ->
  (forall a b c, lt a c = true -> lt a b = true \/ lt b c = true) ->
  forall (k : nat) (l : list A) (q : list (A * nat)),
  Permutation q (tagged k l) -> StronglySorted (tlt lt) q -> q = isort (fst_lt lt) (tagged k l).
Proof. exact @isort_unique. Qed.
Print Assumptions C10_stable_sort_unique.

(* ---- the modelled _sortedrowid (sorted() with the generated keys for MixedColumn, argsort for numeric
   columns) names every row once and puts the by-cells in documented order, for EVERY column content *)
Theorem C10_sort_positions : forall k cells, kind_cells_ok k cells ->
  exists p, sort_positions k cells = Some p /\ is_sorting_perm cells p = true.
Proof. exact sort_positions_ok. Qed.
Print Assumptions C10_sort_positions.

Theorem C10_sort_positions_stable_unique : forall k cells p (q : list (val * nat)), kind_cells_ok k cells ->
  sort_positions k cells = Some p ->
  Permutation q (tagged 0 cells) -> StronglySorted (tlt sort_lt) q -> map snd q = p.
Proof. exact sort_positions_stable_unique. Qed.
Print Assumptions C10_sort_positions_stable_unique.

(* ---- operations.sort on the implementation's layout (every column carries its own row ids; cells are
   fetched by id): sort(dm, by) is the positional take of every column along ONE permutation that sorts
   the by-column; ids are kept with their rows, each once; columns stay aligned *)
Theorem C10_sort_dm : forall d by_, NoDup (drowid d) ->
  Forall (fun nc => col_aligned (drowid d) (snd nc)) (dcols d) -> col_aligned (drowid d) by_ ->
  kind_cells_ok (ckind by_) (cseq by_) ->
  exists p r, sort_dm d by_ = Some r /\
    sort_positions (ckind by_) (cseq by_) = Some p /\ is_sorting_perm (cseq by_) p = true /\
    take_pos p (drowid d) = Some (drowid r) /\ NoDup (drowid r) /\
    Forall2 (fun nc rc => fst rc = fst nc /\ ckind (snd rc) = ckind (snd nc) /\
                          col_aligned (drowid r) (snd rc) /\
                          take_pos p (cseq (snd nc)) = Some (cseq (snd rc))) (dcols d) (dcols r).
Proof. exact sort_dm_spec. Qed.
Print Assumptions C10_sort_dm.

(* sort(col) (by_ = obj) and sort(col, by=other): values rearranged the same way, row ids = the source's
   (position-aligned with the DataMatrix, so the result can be assigned back) *)
Theorem C10_sort_col : forall ids obj by_, NoDup ids -> col_aligned ids obj -> col_aligned ids by_ ->
  kind_cells_ok (ckind by_) (cseq by_) ->
  exists p xs, sort_col obj by_ = Some {| ckind := ckind obj; crowid := ids; cseq := xs |} /\
    sort_positions (ckind by_) (cseq by_) = Some p /\
    is_sorting_perm (cseq by_) p = true /\ take_pos p (cseq obj) = Some xs.
Proof. exact sort_col_spec. Qed.
Print Assumptions C10_sort_col.

(* ---- bin_split over the generated guard and bound *)
Theorem C10_bin_split_partition : forall (A : Type) (rows : list A) (bins : Z), 0 < bins ->
  let n := Z.of_nat (List.length rows) in
  (n < bins -> bin_split rows bins = Raise ValueError) /\
  (bins <= n -> exists chunks, bin_split rows bins = Ok chunks /\
     List.concat chunks = rows /\ Z.of_nat (List.length chunks) = bins /\
     Forall (fun c => n / bins <= Z.of_nat (List.length c) <= n / bins + 1) chunks).
Proof. exact @bin_split_partition. Qed.
Print Assumptions C10_bin_split_partition.

Theorem C10_bin_split_valueerror : forall (A : Type) (rows : list A) (bins : Z),
  (exists e, bin_split rows bins = Raise e) <-> Z.of_nat (List.length rows) < bins.
Proof. exact @bin_split_valueerror. Qed.
Print Assumptions C10_bin_split_valueerror.

(* non-vacuity *)
Example C10_ex_keys : map sortable [VInt 3; VFlt FNan; VStr "a"; VNone; VFlt (FInf true)]
  = [Some (KNum (NInt 3)); Some KNan; Some (KStr "a"); Some KNone; Some (KNum (NFlt (FInf true)))].
Proof. vm_compute. reflexivity. Qed.
Example C10_ex_sort : sort_positions KMixed [VNone; VStr "b"; VFlt FNan; VInt 2; VStr "B"; VFlt (FInf false); VInt (-1); VFlt (FInf true)]
  = Some [7; 6; 3; 5; 4; 1; 0; 2]%nat.
Proof. vm_compute. reflexivity. Qed.
Example C10_ex_bin : bin_split [1; 2; 3; 4; 5] 3 = Ok [[1]; [2; 3]; [4; 5]].
Proof. vm_compute. reflexivity. Qed.
Example C10_ex_sort_col :
  sort_col {| ckind := KMixed; crowid := [7; 3; 5]%N; cseq := [VStr "x"; VStr "y"; VStr "z"] |}
           {| ckind := KFloat; crowid := [7; 3; 5]%N; cseq := [VFlt FNan; VFlt (FInf true); VInt 0] |}
  = Some {| ckind := KMixed; crowid := [7; 3; 5]%N; cseq := [VStr "y"; VStr "z"; VStr "x"] |}.
Proof. vm_compute. reflexivity. Qed.
