(* C15 -- weight, fullfactorial, replace, keep_only and z do what they name.
   Statements only; proofs live in Proofs/OpsMiscFacts.v.  L0 = Spec/OpsMisc.v,
   L1 = Model/OpsMisc.v over the kernels regenerated into Gen/KOpsMisc.v. *)
From Coq Require Import ZArith QArith List Bool String Permutation.
From DM Require Import Base.PyVal Spec.Nf Spec.OpsMisc Gen.KOpsMisc Model.OpsMisc Proofs.OpsMiscFacts.
Import ListNotations.
Open Scope Z_scope.

(* ---- weight *)
Theorem C15_weight_refines : forall t wcells, wf t -> wcells <> [] -> List.length wcells = tlen t ->
  weight_model t wcells = weight_spec t wcells.
Proof. exact weight_refines. Qed.
Print Assumptions C15_weight_refines.

Theorem C15_weight_rows : forall t wcells ns t', wf t -> List.length wcells = tlen t ->
  weights_of wcells = Some ns -> weight_spec t wcells = Ok t' ->
  trows t' = rep_by ns (trows t) /\ map cname (tcols t') = map cname (tcols t)
  /\ map ckind (tcols t') = map ckind (tcols t) /\ wf t'.
Proof. exact weight_rows. Qed.
Print Assumptions C15_weight_rows.

Theorem C15_weight_typeerror_iff : forall t wcells,
  weight_model t wcells = Raise TypeError <-> exists w, In w wcells /\ weight_of w = None.
Proof. exact weight_typeerror_iff. Qed.
Print Assumptions C15_weight_typeerror_iff.

(* ---- _fullfact and fullfactorial *)
Theorem C15_fullfact_bijection : forall levels : list Z, Forall (fun l => 0 <= l) levels ->
  List.length (fullfact levels) = Z.to_nat (zprod levels)
  /\ NoDup (fullfact levels)
  /\ (forall r, In r (fullfact levels) <-> Forall2 (fun x l => 0 <= x < l) r levels).
Proof. exact fullfact_bijection. Qed.
Print Assumptions C15_fullfact_bijection.

Theorem C15_fullfactorial_cartesian : forall ig t t',
  tcols t <> [] -> all_mixed t = true -> fullfactorial_model ig t = Ok t' ->
  Permutation (trows t') (fullfactorial_rows ig t)
  /\ map cname (tcols t') = map cname (tcols t)
  /\ tlen t' = List.length (fullfactorial_rows ig t).
Proof. exact fullfactorial_cartesian. Qed.
Print Assumptions C15_fullfactorial_cartesian.

(* ---- replace *)
Theorem C15_replace_exact : forall kd m cs, good_mapping kd m -> replace_model kd m cs = replace_spec kd m cs.
Proof. exact replace_exact. Qed.
Print Assumptions C15_replace_exact.

Theorem C15_replace_spec_cells : forall kd m cs out, replace_spec kd m cs = Ok out ->
  List.length out = List.length cs /\
  forall i c, nth_error cs i = Some c ->
    exists o, nth_error out i = Some o /\
      ((forall k v, In (k, v) m -> key_hits kd k c = false) -> o = c) /\
      (forall v, find_key kd m c = Some v -> nf kd v = Ok o).
Proof. exact replace_spec_cells. Qed.
Print Assumptions C15_replace_spec_cells.

(* ---- keep_only and dm[name, ...] (the latter calls the former: pinned by the translator) *)
Theorem C15_keep_only_exact : forall t wrapped args ss,
  plain_args args = Some ss -> keep_model t wrapped args = Ok (keep_spec t ss).
Proof. exact keep_only_exact. Qed.
Print Assumptions C15_keep_only_exact.

Theorem C15_keep_spec_exact : forall t ss,
  tlen (keep_spec t ss) = tlen t /\
  (forall c, In c (tcols (keep_spec t ss)) <-> In c (tcols t) /\ mem_str (cname c) ss = true) /\
  (wf t -> wf (keep_spec t ss)).
Proof. exact keep_spec_exact. Qed.
Print Assumptions C15_keep_spec_exact.

(* ---- z: over exact rationals; s stands for col.std, of which only s*s = variance is assumed *)
Theorem C15_z_mean0 : forall l s, (2 <= List.length l)%nat -> ~ (s == 0)%Q -> (z_mean (z_model l s) == 0)%Q.
Proof. exact z_mean0. Qed.
Print Assumptions C15_z_mean0.

Theorem C15_z_var1 : forall l s, (2 <= List.length l)%nat -> ~ (s == 0)%Q -> (s * s == z_var l)%Q ->
  (z_var (z_model l s) == 1)%Q.
Proof. exact z_var1. Qed.
Print Assumptions C15_z_var1.

(* ---- non-vacuity *)
Example C15_ex_weight :
  weight_model {| tlen := 3; tcols := [("a"%string, KMixed, [VInt 1; VInt 2; VInt 0]); ("b"%string, KMixed, [VStr "x"; VStr "y"; VStr "z"])] |}
               [VInt 1; VInt 2; VInt 0]
  = Ok {| tlen := 3; tcols := [("a"%string, KMixed, [VInt 1; VInt 2; VInt 2]); ("b"%string, KMixed, [VStr "x"; VStr "y"; VStr "y"])] |}.
Proof. vm_compute. reflexivity. Qed.

Example C15_ex_fullfact : fullfact [2; 3] = [[0; 0]; [1; 0]; [0; 1]; [1; 1]; [0; 2]; [1; 2]].
Proof. vm_compute. reflexivity. Qed.

Example C15_ex_fullfactorial :
  exists t', fullfactorial_model (VStr "") {| tlen := 2; tcols := [("A"%string, KMixed, [VStr "x"; VStr ""]); ("B"%string, KMixed, [VInt 3; VInt 4])] |} = Ok t'
             /\ trows t' = [[VStr "x"; VInt 3]; [VStr "x"; VInt 4]].
Proof. eexists. split; vm_compute; reflexivity. Qed.

Example C15_ex_good_mapping : good_mapping KMixed [(PInt 0, PStr "a" None None); (PInt 2, PStr "c" None None)].
Proof.
  intros k v [E|[E|[]]]; inversion E; subst; (split; [intros X; congruence|]); eexists; (split; [reflexivity|]);
    intros k' v' [E'|[E'|[]]]; inversion E'; subst; reflexivity.
Qed.

Example C15_ex_z : exists s, ~ (s == 0)%Q /\ (s * s == z_var [1#1; 3#1; 5#1])%Q.
Proof. exists (2#1)%Q. split; [intro H; discriminate H|vm_compute; reflexivity]. Qed.
