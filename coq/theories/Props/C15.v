(* C15 -- weight, fullfactorial, replace, keep_only and z do what they name.
   Statements only; proofs live in Proofs/OpsMiscFacts.v.  L0 = Spec/OpsMisc.v,
   L1 = Model/OpsMisc.v over the kernels regenerated into Gen/KOpsMisc.v. *)
From Coq Require Import ZArith QArith List Bool String Permutation.
From DM Require Import Base.PyVal Spec.Nf Spec.OpsMisc Gen.KOpsMisc Model.OpsMisc Proofs.OpsMiscFacts Proofs.OpsMiscObjFacts.
Import ListNotations.
Open Scope Z_scope.

(* ---- weight *)
Theorem C15_weight_refines : forall t wcells, wf t -> wcells <> [] -> List.length wcells = tlen t ->
  weight_model t wcells = weight_spec t wcells.
Proof. exact weight_refines. Qed.
Print Assumptions C15_weight_refines.

Theorem C15_weight_rows : forall t wcells ns t', wf t -> List.length wcells = tlen t ->
  weights_of wcells = Some ns -> weight_spec t wcells = Ok t' ->
  trows t' = rep_by ns (trows t) /\ map cname (tcols t') = map cname (tcols t)
  /\ map ckind (tcols t') = map ckind (tcols t) /\ wf t'.
Proof. exact weight_rows. Qed.
Print Assumptions C15_weight_rows.

Theorem C15_weight_typeerror_iff : forall t wcells,
  weight_model t wcells = Raise TypeError <-> exists w, In w wcells /\ weight_of w = None.
Proof. exact weight_typeerror_iff. Qed.
Print Assumptions C15_weight_typeerror_iff.

(* ---- _fullfact and fullfactorial *)
Theorem C15_fullfact_bijection : forall levels : list Z, Forall (fun l => 0 <= l) levels ->
  List.length (fullfact levels) = Z.to_nat (zprod levels)
  /\ NoDup (fullfact levels)
  /\ (forall r, In r (fullfact levels) <-> Forall2 (fun x l => 0 <= x < l) r levels).
Proof. exact fullfact_bijection. Qed.
Print Assumptions C15_fullfact_bijection.

Theorem C15_fullfactorial_cartesian : forall ig t t',
  tcols t <> [] -> all_mixed t = true -> fullfactorial_model ig t = Ok t' ->
  Permutation (trows t') (fullfactorial_rows ig t)
  /\ map cname (tcols t') = map cname (tcols t)
  /\ tlen t' = List.length (fullfactorial_rows ig t).
Proof. exact fullfactorial_cartesian. Qed.
Print Assumptions C15_fullfactorial_cartesian.

(* ---- replace *)
Theorem C15_replace_exact : forall kd m cs, good_mapping kd m -> replace_model kd m cs = replace_spec kd m cs.
Proof. exact replace_exact. Qed.
Print Assumptions C15_replace_exact.

Theorem C15_replace_spec_cells : forall kd m cs out, replace_spec kd m cs = Ok out ->
  List.length out = List.length cs /\
  forall i c, nth_error cs i = Some c ->
    exists o, nth_error out i = Some o /\
      ((forall k v, In (k, v) m -> key_hits kd k c = false) -> o = c) /\
      (forall v, find_key kd m c = Some v -> nf kd v = Ok o).
Proof. exact replace_spec_cells. Qed.
Print Assumptions C15_replace_spec_cells.

(* the NumPy branch (Float / Int columns) pass by pass, for every key, value and column: no key raises (a key that
   is no number equals no cell and leaves the column unchanged), a value NumPy cannot store raises the exception of
   the store, otherwise the cells designated by the key hold the stored value; the designated cells are those of
   the L0 spec (NaN cells for a NaN key, cells equal to the key otherwise) unless the key is a NaN that is not a
   Python float (numpy.float32 NaN: compared with ==, designates nothing) *)
Theorem C15_replace_numeric_pass : forall kd old new cs, numeric_kind kd = true ->
  pass kd old new cs = bind (np_store kd new) (fun x => Ok (map (fun c => if numeric_hits old c then x else c) cs))
  /\ (nan_key_ok old = true -> forall c, numeric_hits old c = key_hits kd old c).
Proof. exact pass_numeric_exact_b. Qed.
Print Assumptions C15_replace_numeric_pass.

(* ---- keep_only and dm[name, ...] (the latter calls the former: pinned by the translator) *)
Theorem C15_keep_only_exact : forall t wrapped args ss,
  plain_args args = Some ss -> keep_model t wrapped args = Ok (keep_spec t ss).
Proof. exact keep_only_exact. Qed.
Print Assumptions C15_keep_only_exact.

Theorem C15_keep_spec_exact : forall t ss,
  tlen (keep_spec t ss) = tlen t /\
  (forall c, In c (tcols (keep_spec t ss)) <-> In c (tcols t) /\ mem_str (cname c) ss = true) /\
  (wf t -> wf (keep_spec t ss)).
Proof. exact keep_spec_exact. Qed.
Print Assumptions C15_keep_spec_exact.

(* columns passed as OBJECTS, resolved inside the model (BaseColumn.name walks the owner's columns, _colname
   dispatches): the object-level model refines the name-level one for all arguments ... *)
Theorem C15_keep_obj_refines : forall t wrapped args,
  keep_model_obj t wrapped args = keep_model t wrapped (map resolve args).
Proof. exact keep_obj_refines. Qed.
Print Assumptions C15_keep_obj_refines.

(* ... and with names and / or unaliased column objects of the table itself the result has all rows and exactly
   the columns named or passed, under whatever names those objects are held at the time of the call *)
Theorem C15_keep_by_object_exact : forall t ids wrapped args,
  own_args_b t ids args = true -> keep_model_obj t wrapped args = Ok (keep_by_identity t ids args).
Proof. exact keep_by_object_exact. Qed.
Print Assumptions C15_keep_by_object_exact.

(* ---- z: over exact rationals; s stands for col.std, of which only s*s = variance is assumed *)
Theorem C15_z_mean0 : forall l s, (2 <= List.length l)%nat -> ~ (s == 0)%Q -> (z_mean (z_model l s) == 0)%Q.
Proof. exact z_mean0. Qed.
Print Assumptions C15_z_mean0.

Theorem C15_z_var1 : forall l s, (2 <= List.length l)%nat -> ~ (s == 0)%Q -> (s * s == z_var l)%Q ->
  (z_var (z_model l s) == 1)%Q.
Proof. exact z_var1. Qed.
Print Assumptions C15_z_var1.

(* ---- non-vacuity *)
Example C15_ex_weight :
  weight_model {| tlen := 3; tcols := [("a"%string, KMixed, [VInt 1; VInt 2; VInt 0]); ("b"%string, KMixed, [VStr "x"; VStr "y"; VStr "z"])] |}
               [VInt 1; VInt 2; VInt 0]
  = Ok {| tlen := 3; tcols := [("a"%string, KMixed, [VInt 1; VInt 2; VInt 2]); ("b"%string, KMixed, [VStr "x"; VStr "y"; VStr "y"])] |}.
Proof. vm_compute. reflexivity. Qed.

Example C15_ex_fullfact : fullfact [2; 3] = [[0; 0]; [1; 0]; [0; 1]; [1; 1]; [0; 2]; [1; 2]].
Proof. vm_compute. reflexivity. Qed.

Example C15_ex_fullfactorial :
  exists t', fullfactorial_model (VStr "") {| tlen := 2; tcols := [("A"%string, KMixed, [VStr "x"; VStr ""]); ("B"%string, KMixed, [VInt 3; VInt 4])] |} = Ok t'
             /\ trows t' = [[VStr "x"; VInt 3]; [VStr "x"; VInt 4]].
Proof. eexists. split; vm_compute; reflexivity. Qed.

Example C15_ex_good_mapping : good_mapping KMixed [(PInt 0, PStr "a" None None); (PInt 2, PStr "c" None None)].
Proof.
  intros k v [E|[E|[]]]; inversion E; subst; (split; [intros X; congruence|]); eexists; (split; [reflexivity|]);
    intros k' v' [E'|[E'|[]]]; inversion E'; subst; reflexivity.
Qed.

Example C15_ex_z : exists s, ~ (s == 0)%Q /\ (s * s == z_var [1#1; 3#1; 5#1])%Q.
Proof. exists (2#1)%Q. split; [intro H; discriminate H|vm_compute; reflexivity]. Qed.

(* a table whose columns "b", "a" are held by objects 7 and 3; selection by the object 3 and by the name "b" *)
Example C15_ex_own_args :
  let t := {| tlen := 1; tcols := [("b"%string, KMixed, [VInt 1]); ("a"%string, KInt, [VInt 2]); ("c"%string, KMixed, [VNone])] |} in
  own_args_b t [7; 3; 5]%nat [OColumn 3 (own_table t [7; 3; 5]%nat); OStr "b"] = true
  /\ keep_model_obj t false [OColumn 3 (own_table t [7; 3; 5]%nat); OStr "b"]
     = Ok {| tlen := 1; tcols := [("b"%string, KMixed, [VInt 1]); ("a"%string, KInt, [VInt 2])] |}.
Proof. split; vm_compute; reflexivity. Qed.

Example C15_ex_numeric_pass :
  numeric_kind KFloat = true /\ numeric_kind KInt = true /\
  pass KFloat (PFloat nan) (PInt 5) [VFlt (FFin false 1 0); VFlt nan] = Ok [VFlt (FFin false 1 0); VFlt (round53 5)]
  /\ pass KInt (PStr "text" None None) (PInt 1) [VInt 1] = Ok [VInt 1]
  /\ nan_key_ok (PFloat nan) = true /\ nan_key_ok (PStr "text" None None) = true.
Proof. repeat split; vm_compute; reflexivity. Qed.
