(* C04 -- assignment changes exactly the addressed cells.  Statements only. *)
From Coq Require Import ZArith NArith List Bool String.
From DM Require Import Base.PyVal Spec.Nf Spec.Table Spec.Ops Proofs.TableFacts Proofs.OpFacts.
From DM Require Import Model.LTable Gen.KCore Model.Core Proofs.CoreRefine.
From DM Require Import Spec.SeriesEnc Proofs.SeriesEncFacts Proofs.WriteRefine.
Import ListNotations.

Theorem C04_length_kept : forall ps xs cells, List.length (write_at ps xs cells) = List.length cells.
Proof. exact write_at_length. Qed.
Print Assumptions C04_length_kept.

(* cells that are not addressed keep their value *)
Theorem C04_other_cells_unchanged : forall ps xs cells q,
  ~ In q ps -> nth_error (write_at ps xs cells) q = nth_error cells q.
Proof. exact write_at_other. Qed.
Print Assumptions C04_other_cells_unchanged.

(* the i-th addressed cell receives the i-th value (a scalar is the constant sequence) *)
Theorem C04_addressed_cells_written : forall ps xs cells i p,
  NoDup ps -> List.length xs = List.length ps -> Forall (fun q => (q < List.length cells)%nat) ps ->
  nth_error ps i = Some p -> nth_error (write_at ps xs cells) p = nth_error xs i.
Proof. exact write_at_hit. Qed.
Print Assumptions C04_addressed_cells_written.

(* whatever the addressing form and outcome, a cell assignment touches one column of one table:
   same row ids, same names, every other column (slot) of that table unchanged *)
Theorem C04_one_column : forall w ti t name a r t' si,
  get w ti = Some t -> lookup name (names t) = Some si ->
  get (fst (set_cells w ti t name a r)) ti = Some t' ->
  ids t' = ids t /\ names t' = names t /\ fam t' = fam t
  /\ List.length (slots t') = List.length (slots t)
  /\ forall sj, sj <> si -> nth_error (slots t') sj = nth_error (slots t) sj.
Proof. exact set_cells_one_slot. Qed.
Print Assumptions C04_one_column.

(* no other DataMatrix of the pool changes *)
Theorem C04_other_tables_unchanged : forall w ti name a r j,
  (j < List.length (pool w))%nat -> ti <> j -> get (fst (step w (OSetCell ti name a r))) j = get w j.
Proof. intros w ti name a r j H Hne. apply step_frame; [exact H|cbn; congruence]. Qed.
Print Assumptions C04_other_tables_unchanged.

(* col[selection] = value: the positions the implementation computes (MixedColumn: Index position cache;
   numeric columns: argsort + searchsorted) are the positions of the selection's rows, whatever the row order *)
Theorem C04_l1_selection_positions : forall t c key,
  inv_b t = true -> In c (l_cols t) ->
  (forall k, In k (ia (l_rowid key)) -> In k (ia (l_rowid t))) ->
  sel_positions c key = all_some (map (fun r => pos_of r (ia (l_rowid t))) (ia (l_rowid key))).
Proof. exact sel_positions_refines. Qed.
Print Assumptions C04_l1_selection_positions.

(* col[[i, j, ...]] = value: the sequential, range-checked write of BaseColumn._setsequencekey (range test regenerated
   from the source) is the L0 index-list write, including the partial effect before an out-of-range index *)
Theorem C04_l1_index_list_write : forall (w : world) p ti name l r,
  pool w = map abs p -> winv p ->
  match lstep p (OSetCell ti name (AList l) r) with
  | LUpd i t' => step w (OSetCell ti name (AList l) r) = (put w i (abs t'), OkUnit)
  | LErrUpd i t' => step w (OSetCell ti name (AList l) r) = (put w i (abs t'), Err PlainException)
  | LErr => exists e, snd (step w (OSetCell ti name (AList l) r)) = Err e
  | LSkip => True
  | LNew _ => False
  end.
Proof. exact setcell_list_refines. Qed.
Print Assumptions C04_l1_index_list_write.

(* col[selection] = value: the L1 step (row positions by dict lookup for a MixedColumn, by argsort + searchsorted for
   numeric columns; coercion on the regenerated _tosequence bounds) is the L0 operation for EVERY row order of the table
   and of the selection: values go to the rows the selection names, in the selection's order; a selection of another
   family raises (ValueError), a relative holding a row the table lacks raises (KeyError) and nothing is written *)
Theorem C04_l1_selection_write_refines : forall (w : world) p ti name t2 r,
  pool w = map abs p -> winv p ->
  match lstep p (OSetCell ti name (ASel t2) r) with
  | LUpd i t' => step w (OSetCell ti name (ASel t2) r) = (put w i (abs t'), OkUnit)
  | LErr => exists e, snd (step w (OSetCell ti name (ASel t2) r)) = Err e
                      /\ fst (step w (OSetCell ti name (ASel t2) r)) = w
  | LSkip => True
  | _ => False
  end.
Proof. exact setcell_sel_refines. Qed.
Print Assumptions C04_l1_selection_write_refines.

(* the premises are met and all three outcomes occur: a shuffled table written through a selection in another order;
   a relative holding a row the table lacks *)
Example C04_selection_write_example :
  let w := run [ONew 4; OSetColKind 0 "f" KFloat; OSetCol 0 "f" (RSeq [PInt 10; PInt 20; PInt 30; PInt 40]);
                OShuffle 0 [2; 0; 3; 1]%nat (* table 1: ids 2 0 3 1 *); OGetRows 0 [3; 1]%Z (* table 2: ids 3 1 *);
                OGetRows 1 [0; 2]%Z (* table 3: ids 2 3 *);
                OSetCell 1 "f" (ASel 2) (RSeq [PInt 7; PInt 8]);
                OSetCell 3 "f" (ASel 2) (RScalar (PInt 9))] w0 in
  option_map (fun t => map (fun '(n, _, c) => (n, c)) (view t)) (nth_error (pool w) 1)
    = Some [("f", [VFlt (FFin false 15 1); VFlt (FFin false 5 1); VFlt (FFin false 7 0); VFlt (FFin false 1 3)])]   (* 30, 10, 7, 8 *)
  /\ snd (step w (OSetCell 3 "f" (ASel 2) (RScalar (PInt 9)))) = Err KeyError.
Proof. vm_compute. split; reflexivity. Qed.

(* BaseColumn._tosequence on its regenerated bounds (how many cells of the value are read: k_toseq_take; the length
   test: k_toseq_badlen) is the L0 value coercion: a scalar is broadcast, a sequence is applied in order, a sequence of
   another length raises ValueError -- for every kind, length and value *)
Theorem C04_l1_tosequence_kernels : forall k n r, rhs_cells_k k n r = rhs_cells k n r.
Proof. exact rhs_cells_k_spec. Qed.
Print Assumptions C04_l1_tosequence_kernels.

(* col[a:b] = value, col[i] = value and dm[name] = value (existing column) on those kernels refine the L0 operations *)
Theorem C04_l1_slice_write : forall (w : world) p ti name a b r,
  pool w = map abs p -> winv p ->
  match lstep p (OSetCell ti name (ASlice a b) r) with
  | LUpd i t' => step w (OSetCell ti name (ASlice a b) r) = (put w i (abs t'), OkUnit)
  | LErr => exists e, snd (step w (OSetCell ti name (ASlice a b) r)) = Err e
                      /\ fst (step w (OSetCell ti name (ASlice a b) r)) = w
  | LSkip => True
  | _ => False
  end.
Proof. exact setcell_slice_refines. Qed.
Print Assumptions C04_l1_slice_write.

Theorem C04_l1_int_write : forall (w : world) p ti name i v,
  pool w = map abs p -> winv p ->
  match lstep p (OSetCell ti name (AInt i) (RScalar v)) with
  | LUpd j t' => step w (OSetCell ti name (AInt i) (RScalar v)) = (put w j (abs t'), OkUnit)
  | LErr => exists e, snd (step w (OSetCell ti name (AInt i) (RScalar v))) = Err e
                      /\ fst (step w (OSetCell ti name (AInt i) (RScalar v))) = w
  | LSkip => True
  | _ => False
  end.
Proof. exact setcell_int_refines. Qed.
Print Assumptions C04_l1_int_write.

Theorem C04_l1_whole_column_write : forall (w : world) p ti name r,
  pool w = map abs p -> winv p ->
  match lstep p (OSetCol ti name r) with
  | LUpd i t' => step w (OSetCol ti name r) = (put w i (abs t'), OkUnit)
  | LErrUpd i t' => exists e, step w (OSetCol ti name r) = (put w i (abs t'), Err e)
  | LSkip => True
  | _ => False
  end.
Proof. exact setcol_existing_refines. Qed.
Print Assumptions C04_l1_whole_column_write.

(* dm[i].name = value: the generated bound test of _getrow, the creation of a missing column with the table's default
   type, then the cell write; a value that cannot be coerced raises after the column was created, as in L0 *)
Theorem C04_l1_row_write : forall (w : world) p ti name i v,
  pool w = map abs p -> winv p ->
  match lstep p (OSetCell ti name (ARow i) (RScalar v)) with
  | LUpd j t' => step w (OSetCell ti name (ARow i) (RScalar v)) = (put w j (abs t'), OkUnit)
  | LErrUpd j t' => exists e, step w (OSetCell ti name (ARow i) (RScalar v)) = (put w j (abs t'), Err e)
  | LErr => step w (OSetCell ti name (ARow i) (RScalar v)) = (w, Err IndexError)
  | LSkip => True
  | LNew _ => False
  end.
Proof. exact setcell_row_refines. Qed.
Print Assumptions C04_l1_row_write.

(* DataMatrix._getrow: the regenerated bound test rejects exactly the indices Python cannot normalise *)
Theorem C04_getrow_bound_kernel : forall i n,
  k_getrow_oob i (Z.of_nat n) = match norm_index n i with Some _ => false | None => true end.
Proof. exact getrow_oob_spec. Qed.
Print Assumptions C04_getrow_bound_kernel.

(* SeriesColumns (Spec/SeriesEnc.v): dm[name][a] = v -- a scalar, one depth-long series for every addressed row, one
   number per addressed row or a rows x depth matrix, addressed by integer, slice, index list, selection or Row --
   leaves the row ids, the names and every column that is not a sample of that series as they are ... *)
Theorem C04_series_write_touches_only_its_series : forall w t tb name d a v,
  get w t = Some tb -> svalue_fits v d = true ->
  Forall (fun j => has_name tb (sname name j) = true) (upto (Nat.max 1 d)) ->
  exists tb', get (fst (sstep w (SSet t name d a v))) t = Some tb'
              /\ untouched (series_slots tb name (upto (Nat.max 1 d))) tb tb'.
Proof. exact sset_touches_only_its_series. Qed.
Print Assumptions C04_series_write_touches_only_its_series.

(* ... dm[name][a, j] = v touches only the addressed samples ... *)
Theorem C04_series_sample_write_touches_only_its_samples : forall w t tb name a js r,
  get w t = Some tb ->
  Forall (fun j => has_name tb (sname name j) = true) js ->
  exists tb', get (fst (sstep w (SSetSample t name a js r))) t = Some tb'
              /\ untouched (series_slots tb name js) tb tb'.
Proof. exact ssetsample_touches_only_its_samples. Qed.
Print Assumptions C04_series_sample_write_touches_only_its_samples.

(* ... and no series operation changes another DataMatrix *)
Theorem C04_series_other_tables_unchanged : forall w so j,
  (j < List.length (pool w))%nat -> starget so <> Some j -> get (fst (sstep w so)) j = get w j.
Proof. exact sstep_frame. Qed.
Print Assumptions C04_series_other_tables_unchanged.

(* one depth-long series through an index list: every addressed row receives the whole series *)
Example C04_series_example :
  match nth_error (pool (srun [SPlain (ONew 3); SNew 0 "s" 2 0; SSet 0 "s" 2 (AList [2; 0]%Z) (SVSeries [PInt 1; PInt 2])] w0)) 0 with
  | Some t => map (fun '(n, _, c) => (n, c)) (view t) =
              [("s#0", [VFlt (FFin false 1 0); VFlt FNan; VFlt (FFin false 1 0)]);
               ("s#1", [VFlt (FFin false 1 1); VFlt FNan; VFlt (FFin false 1 1)])]
  | None => False
  end.
Proof. vm_compute. reflexivity. Qed.

Example C04_example : write_at [2; 0]%nat [VInt 7; VInt 8] [VNone; VNone; VNone; VNone] = [VInt 8; VNone; VInt 7; VNone].
Proof. reflexivity. Qed.
