(* Numbers as exact canonical rationals (every int and every finite binary64 is one) and the Python list
   builtins the statistics use, over rationals.  Definitions only (lemmas: Proofs/StatsFacts.v). *)
From Coq Require Import ZArith QArith Qcanon List Bool.
From DM Require Import Base.PyVal.
Import ListNotations.

Definition qz (z : Z) : Qc := Q2Qc (inject_Z z).
Definition qc (n : Z) (d : positive) : Qc := Q2Qc (Qmake n d).

(* m * 2^e *)
Definition dy_q (d : Z * Z) : Qc :=
  let '(m, e) := d in
  if (0 <=? e)%Z then qz (m * 2 ^ e) else qc m (Z.to_pos (2 ^ (- e))).
(* the rational a finite float denotes; None for nan and the infinities *)
Definition fl_q (f : fl) : option Qc := option_map dy_q (fl_dy f).

Definition Qcleb (x y : Qc) : bool := Qle_bool x y.
Definition Qceqb (x y : Qc) : bool := Qeq_bool x y.
Definition Qcmin (x y : Qc) : Qc := if Qcleb x y then x else y.
Definition Qcmax (x y : Qc) : Qc := if Qcleb x y then y else x.
Definition qpow (x : Qc) (k : nat) : Qc := Qcpower x k.

Definition zlen {A} (l : list A) : Z := Z.of_nat (List.length l).

(* sum(l): left to right from 0 *)
Definition py_sum (l : list Qc) : Qc := fold_left Qcplus l 0%Qc.
(* max(l) / min(l) of a non-empty list: the first extreme element is kept *)
Definition py_max (l : list Qc) : Qc :=
  match l with [] => 0%Qc | x :: r => fold_left (fun a b => if Qcleb b a then a else b) r x end.
Definition py_min (l : list Qc) : Qc :=
  match l with [] => 0%Qc | x :: r => fold_left (fun a b => if Qcleb a b then a else b) r x end.
(* sorted(l): a stable sort; on rationals any sort gives the same list *)
Fixpoint qinsert (x : Qc) (l : list Qc) : list Qc :=
  match l with
  | [] => [x]
  | y :: r => if Qcleb x y then x :: l else y :: qinsert x r
  end.
Fixpoint qsort (l : list Qc) : list Qc :=
  match l with [] => [] | x :: r => qinsert x (qsort r) end.
(* l[i] with Python's negative indices; out of range (IndexError) is never reached by the callers *)
Definition qnth (l : list Qc) (i : Z) : Qc :=
  nth (Z.to_nat (if (i <? 0)%Z then zlen l + i else i)%Z) l 0%Qc.
