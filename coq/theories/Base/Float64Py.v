(* IEEE-754 binary64 arithmetic for the exact dyadic values `fl` of Base/PyVal.v, and the float semantics of
   Python's / NumPy's  + - * / // %  built on it.  Definitions only (facts: Proofs/ArithIeeeFacts.v).

   Three layers:
   1. `fops`: the four correctly rounded basic operations on `fl`, as a record.  Two instances:
        prim_fops : Coq's primitive floats (PrimFloat.add/sub/mul/div; hardware binary64 under vm_compute),
                    reached through the conversions fl_to_prim / fl_of_prim;
        spec_fops : the standard library's executable specification of binary64 (SpecFloat.SFadd ..., pure
                    Gallina over Z), used to cross-check the primitive instance.
      Everything below is written for an arbitrary `F : fops`, so the theorems about it quantify over F and
      mention no primitive.
   2. exact helpers computed on Z: rounding of a rational to binary64 (round-to-nearest-even, subnormals,
      overflow to infinity), float(int), int / int (CPython rounds the exact quotient once), fmod (exact by
      definition), floor.
   3. Python / NumPy float semantics: fl_op (NaN first, + - * / by F, // and % by CPython's float_divmod =
      NumPy's npy_divmod, transcribed statement by statement).  Python raises ZeroDivisionError for a zero
      divisor where NumPy returns inf / nan: see ieee_zerodiv in Spec/ArithIeee.v.

   Only PrimFloat (with PrimInt63) and SpecFloat are required: not Floats (it exports FloatAxioms) and not Uint63
   (its specification axioms would be listed by coqchk); the two int <-> Z conversions needed are written here. *)
From Coq Require Import ZArith Bool.
From Coq Require PrimInt63 PrimFloat SpecFloat.
From DM Require Import Base.PyVal.
Open Scope Z_scope.

(* ---------- 1. the basic operations *)
Record fops := FOps { f_add : fl -> fl -> fl; f_sub : fl -> fl -> fl; f_mul : fl -> fl -> fl; f_div : fl -> fl -> fl }.

(* a binary64 value: odd mantissa below 2^53, lowest bit at 2^-1074 or above, below 2^1024 *)
Definition fl_is_b64 (f : fl) : bool :=
  match f with
  | FFin _ m e => (Z.pos m <? 2 ^ 53) && Z.odd (Z.pos m) && (-1074 <=? e) && (Z.log2 (Z.pos m) + e <? 1024)
  | _ => true
  end.
Definition fl_sign (f : fl) : bool :=            (* the sign bit (false for NaN) *)
  match f with FInf s | FZero s | FFin s _ _ => s | FNan => false end.
Definition fl_is_zero (f : fl) : bool := match f with FZero _ => true | _ => false end.

(* --- primitive 63-bit integers <-> Z (0 <= z < 2^63) *)
Module I63.                       (* the two literals; PrimInt63 is imported only inside this module *)
  Import PrimInt63.
  Definition zero : int := 0%uint63.
  Definition one : int := 1%uint63.
End I63.
Fixpoint int_of_pos (p : positive) : PrimInt63.int :=
  match p with
  | xH => I63.one
  | xO q => PrimInt63.lsl (int_of_pos q) I63.one
  | xI q => PrimInt63.lor (PrimInt63.lsl (int_of_pos q) I63.one) I63.one
  end.
Definition int_of_Z (z : Z) : PrimInt63.int := match z with Zpos p => int_of_pos p | _ => I63.zero end.
Fixpoint Z_of_int_rec (n : nat) (i : PrimInt63.int) : Z :=
  match n with
  | O => 0
  | S n' =>
      if PrimInt63.eqb i I63.zero then 0
      else (if PrimInt63.eqb (PrimInt63.land i I63.one) I63.zero then 0 else 1) + 2 * Z_of_int_rec n' (PrimInt63.lsr i I63.one)
  end.
Definition Z_of_int (i : PrimInt63.int) : Z := Z_of_int_rec 63 i.

(* --- primitive floats.  frshiftexp / ldshiftexp carry exponents with an offset of 2101 *)
Definition f64_shift : Z := 2101.
Definition f64_clamp (e : Z) : Z := Z.max (Z.min e 2098) (-2099).

(* exact for binary64 values: the mantissa (< 2^53 < 2^63) converts exactly, the scaling by 2^e is exact *)
Definition fl_to_prim (f : fl) : PrimFloat.float :=
  match f with
  | FNan => PrimFloat.nan
  | FInf false => PrimFloat.infinity
  | FInf true => PrimFloat.neg_infinity
  | FZero false => PrimFloat.zero
  | FZero true => PrimFloat.neg_zero
  | FFin s m e =>
      let x := PrimFloat.ldshiftexp (PrimFloat.of_uint63 (int_of_pos m)) (int_of_Z (f64_clamp e + f64_shift)) in
      if s then PrimFloat.opp x else x
  end.
Definition fl_of_prim (x : PrimFloat.float) : fl :=
  if PrimFloat.is_nan x then FNan else
  let s := PrimFloat.get_sign x in
  if PrimFloat.is_zero x then FZero s else
  if PrimFloat.is_infinity x then FInf s else
  let '(r, se) := PrimFloat.frshiftexp x in      (* |r| in [0.5, 1): a 53-bit mantissa, also for subnormal x *)
  mk_fin s (Z_of_int (PrimFloat.normfr_mantissa r)) (Z_of_int se - f64_shift - 53).

Definition prim_lift (g : PrimFloat.float -> PrimFloat.float -> PrimFloat.float) (a b : fl) : fl :=
  fl_of_prim (g (fl_to_prim a) (fl_to_prim b)).
Definition prim_fops : fops :=
  FOps (prim_lift PrimFloat.add) (prim_lift PrimFloat.sub) (prim_lift PrimFloat.mul) (prim_lift PrimFloat.div).

(* --- the standard library's specification of binary64 (Flocq's, pure Z): second implementation *)
(* SFmul / SFdiv expect canonical operands: 53-bit mantissa, or lowest bit at 2^-1074 *)
Definition fl_to_spec (f : fl) : SpecFloat.spec_float :=
  match f with
  | FNan => SpecFloat.S754_nan
  | FInf s => SpecFloat.S754_infinity s
  | FZero s => SpecFloat.S754_zero s
  | FFin s m e =>
      let ec := Z.max (e + Z.log2 (Z.pos m) + 1 - 53) (-1074) in
      match Z.pos m * 2 ^ (e - ec) with
      | Zpos mc => SpecFloat.S754_finite s mc ec
      | _ => SpecFloat.S754_finite s m e           (* not a binary64 value (e < -1074) *)
      end
  end.
Definition fl_of_spec (x : SpecFloat.spec_float) : fl :=
  match x with
  | SpecFloat.S754_nan => FNan
  | SpecFloat.S754_infinity s => FInf s
  | SpecFloat.S754_zero s => FZero s
  | SpecFloat.S754_finite s m e => mk_fin s (Z.pos m) e
  end.
Definition spec_lift (g : SpecFloat.spec_float -> SpecFloat.spec_float -> SpecFloat.spec_float) (a b : fl) : fl :=
  fl_of_spec (g (fl_to_spec a) (fl_to_spec b)).
Definition spec_fops : fops :=
  FOps (spec_lift (SpecFloat.SFadd 53 1024)) (spec_lift (SpecFloat.SFsub 53 1024))
       (spec_lift (SpecFloat.SFmul 53 1024)) (spec_lift (SpecFloat.SFdiv 53 1024)).

(* ---------- 2. exact helpers on Z *)
(* (-1)^neg * (m + d) * 2^e with d = 0 (sticky = false) or 0 < d < 1 (sticky = true), rounded to nearest, ties to
   even, to 53 significant bits with the lowest bit at 2^-1074 or above; 2^1024 and beyond is infinity.
   With sticky = true the caller supplies at least 55 significant bits in m. *)
Definition round_b64 (neg : bool) (m : positive) (e : Z) (sticky : bool) : fl :=
  let n := Z.log2 (Z.pos m) + 1 in
  let t := Z.max (e + n - 53) (-1074) in           (* exponent of the lowest kept bit *)
  let sh := t - e in
  let q' :=
    if sh <=? 0 then Z.pos m * 2 ^ (- sh)
    else
      let q := Z.pos m / 2 ^ sh in
      let r := Z.pos m mod 2 ^ sh in
      let half := 2 ^ (sh - 1) in
      if (half <? r) || ((r =? half) && (sticky || Z.odd q)) then q + 1 else q in
  if q' =? 0 then FZero neg
  else if 1024 <=? Z.log2 q' + t then FInf neg
  else mk_fin neg q' t.

(* float(int): round53 with the overflow made explicit (CPython: OverflowError) *)
Definition Z_overflows (z : Z) : bool := negb (fl_is_b64 (round53 z)).
Definition fl_of_Z (z : Z) : fl := if Z_overflows z then FInf (z <? 0) else round53 z.

(* int / int (b <> 0): CPython's long_true_divide rounds the exact quotient once, whatever the sizes;
   the sign of a zero result is the xor of the signs *)
Definition fl_div_ZZ (a b : Z) : fl :=
  let neg := xorb (a <? 0) (b <? 0) in
  match Z.abs a, Z.abs b with
  | Zpos A, Zpos B =>
      let k := Z.max 0 (Z.log2 (Zpos B) - Z.log2 (Zpos A) + 56) in
      let num := Zpos A * 2 ^ k in
      match num / Zpos B with
      | Zpos q => round_b64 neg q (- k) (negb (num mod Zpos B =? 0))
      | _ => FZero neg
      end
  | _, _ => FZero neg
  end.

(* C fmod(x, y) = x - trunc(x / y) * y, exact, with the sign of x; NaN for an infinite x or a zero y *)
Definition fl_fmod (x y : fl) : fl :=
  match x, y with
  | FNan, _ | _, FNan | FInf _, _ | _, FZero _ => FNan
  | _, FInf _ => x
  | FZero _, _ => x
  | FFin sx mx ex, FFin _ my ey =>
      let e := Z.min ex ey in
      let r := Z.rem (Z.pos mx * 2 ^ (ex - e)) (Z.pos my * 2 ^ (ey - e)) in
      mk_fin sx r e
  end.

(* C floor *)
Definition fl_floor (f : fl) : fl :=
  match f with
  | FFin s m e =>
      if 0 <=? e then f else
      let a := if s then Z.neg m else Z.pos m in
      let q := a / 2 ^ (- e) in                      (* Z division floors *)
      mk_fin s (Z.abs q) 0
  | _ => f
  end.

Definition fl_lt0 (f : fl) : bool := match f with FInf true | FFin true _ _ => true | _ => false end.   (* f < 0 *)
Definition fl_truthy (f : fl) : bool := negb (fl_is_zero f).                                      (* C: if (f) *)
Definition fl_one : fl := FFin false 1 0.
Definition fl_half : fl := FFin false 1 (-1).
Definition fl_gtb (a b : fl) : bool := num_ltb (NFlt b) (NFlt a).

(* ---------- 3. Python / NumPy float semantics *)
Inductive fop := FAdd | FSub | FMul | FDiv | FFloordiv | FMod.

Section Ops.
  Variable F : fops.

  (* IEEE multiplication is commutative; computing it in both orders and demanding identical results makes
     commutativity of fl_mul a theorem about this definition instead of a trusted fact about F
     (a disagreement would yield NaN and be reported by the correspondence) *)
  Definition fl_mul (a b : fl) : fl :=
    let r1 := f_mul F a b in let r2 := f_mul F b a in
    if fl_same r1 r2 && fl_same r2 r1 then r1 else FNan.

  (* CPython floatobject.c _float_div_mod / float_rem (identical to NumPy's npy_divmod for a non-zero divisor):
       mod = fmod(vx, wx);  div = (vx - mod) / wx;
       if (mod) { if ((wx < 0) != (mod < 0)) { mod += wx; div -= 1.0; } } else mod = copysign(0.0, wx);
       if (div) { floordiv = floor(div); if (div - floordiv > 0.5) floordiv += 1.0; }
       else floordiv = copysign(0.0, vx / wx);                                                        *)
  Definition fl_divmod (vx wx : fl) : fl * fl :=
    let mod0 := fl_fmod vx wx in
    let div0 := f_div F (f_sub F vx mod0) wx in
    let '(mod1, div1) :=
      if fl_truthy mod0
      then (if xorb (fl_lt0 wx) (fl_lt0 mod0) then (f_add F mod0 wx, f_sub F div0 fl_one) else (mod0, div0))
      else (FZero (fl_sign wx), div0) in
    let floordiv :=
      if fl_truthy div1
      then (let fd := fl_floor div1 in if fl_gtb (f_sub F div1 fd) fl_half then f_add F fd fl_one else fd)
      else FZero (fl_sign (f_div F vx wx)) in
    (floordiv, mod1).

  (* a o b on two binary64 values, o one of + - * / // %; a NaN operand gives NaN.
     A zero divisor: / is IEEE division (what NumPy returns; Python raises ZeroDivisionError);
     // and % as NumPy's npy_floor_divide / npy_remainder (a / b, fmod = NaN). *)
  Definition fl_op (o : fop) (a b : fl) : fl :=
    if fl_is_nan a || fl_is_nan b then FNan else
    match o with
    | FAdd => f_add F a b
    | FSub => f_sub F a b
    | FMul => fl_mul a b
    | FDiv => f_div F a b
    | FFloordiv => if fl_is_zero b then f_div F a b else fst (fl_divmod a b)
    | FMod => if fl_is_zero b then FNan else snd (fl_divmod a b)
    end.
End Ops.
