(* Sort keys of datamatrix/_datamatrix/_sort.py: the universe the generated
   __lt__/__gt__ bodies (Gen/KSort.v) speak about.  Definitions only.
   KNum n      a plain Python int or float used directly as key
   KStr s      SortableSTR(s)
   KNone/KNan  the singletons sortable_none / sortable_nan *)
From Coq Require Import ZArith List Bool String.
From DM Require Import Base.PyVal.

Inductive key := KNum (n : num) | KStr (s : string) | KNone | KNan.

(* the isinstance tests that occur in the comparison methods *)
Definition is_nan (k : key) : bool := match k with KNan => true | _ => false end.      (* SortableNAN *)
Definition is_none (k : key) : bool := match k with KNone => true | _ => false end.    (* SortableNone *)
Definition is_str (k : key) : bool := match k with KStr _ => true | _ => false end.    (* SortableSTR *)
Definition is_num (k : key) : bool := match k with KNum _ => true | _ => false end.    (* (int, float) *)
(* the _val attribute; only read under an `isinstance(., SortableSTR) and` guard *)
Definition sval (k : key) : string := match k with KStr s => s | _ => EmptyString end.

(* a float key is never NaN (sortable() maps NaN to the SortableNAN singleton) *)
Definition key_wf (k : key) : bool :=
  match k with KNum (NFlt FNan) => false | _ => true end.

(* what _sortable_regular returns, as written in the source, before the
   returned object is classified into `key` *)
Inductive skey :=
  | SKObj (v : pyv)      (* `return val` / `return float(val)`: a plain object *)
  | SKStr (v : pyv)      (* `return SortableSTR(val)` *)
  | SKNone | SKNan.      (* the singletons *)

(* None = outside the model: a key on which comparisons may raise or that is not one of the four classes *)
Definition key_of_skey (s : skey) : option key :=
  match s with
  | SKObj v => match pyv_num v with
               | Some n => match v with PNpInt _ | PNpFloat _ _ => None | _ => Some (KNum n) end
               | None => None
               end
  | SKStr (PStr s _ _) => Some (KStr s)
  | SKStr _ => None
  | SKNone => Some KNone
  | SKNan => Some KNan
  end.
