(* Python semantics used by the persistence model (C17): the `in` operator on
   a str (substring test) or on a list of str (membership), and sorting of
   (key, value) pairs by key as `sorted` does on str keys (code point order =
   byte order on UTF-8, stable).  Definitions only; trusted CPython semantics. *)
From Coq Require Import List Bool String Ascii.
From DM Require Import Base.PyVal.
Import ListNotations.

(* `k in s` for two str objects: k occurs in s as a contiguous substring *)
Fixpoint substr_b (k s : string) : bool :=
  match s with
  | EmptyString => match k with EmptyString => true | _ => false end
  | String _ s' => String.prefix k s || substr_b k s'
  end.

(* the right operand of `k in ignore` as the call sites of OrderedState.__getstate__ pass it *)
Inductive ign := IgnStr (s : string) | IgnList (l : list string).
Definition py_in (k : string) (i : ign) : bool :=
  match i with
  | IgnStr s => substr_b k s
  | IgnList l => existsb (String.eqb k) l
  end.

(* sorted(pairs, key=lambda p: p[0]) / sorted(dict) with the values carried along *)
Fixpoint ins_key {A} (x : string * A) (l : list (string * A)) : list (string * A) :=
  match l with
  | [] => [x]
  | y :: r => if str_leb (fst x) (fst y) then x :: l else y :: ins_key x r
  end.
Definition sort_key {A} (l : list (string * A)) : list (string * A) := fold_right ins_key [] l.

(* which list of cells convert.to_pandas takes from a column: list(col) or col._printable_list() *)
Inductive cellsrc := SrcList | SrcPrintable.
