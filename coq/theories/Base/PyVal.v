(* Value domain shared by all models: exact binary64 values as dyadics,
   Python cell values, the classified universe of assigned Python objects,
   the exception monad and hand-written models of the CPython builtins the
   translated kernels call.  Definitions only (lemmas: Base/PyValFacts.v). *)
From Coq Require Import ZArith List Bool String Ascii.
Import ListNotations.
Open Scope Z_scope.

(* ---------- strings as UTF-8 byte strings; byte-wise order = code point order *)
Definition str_eqb (a b : string) : bool := String.eqb a b.
Definition str_ltb (a b : string) : bool := match String.compare a b with Lt => true | _ => false end.
Definition str_leb (a b : string) : bool := match String.compare a b with Gt => false | _ => true end.
Definition str_gtb (a b : string) : bool := str_ltb b a.
Definition str_geb (a b : string) : bool := str_leb b a.
(* byte list -> string, used by the literal printer for unprintable text *)
Fixpoint sb (l : list nat) : string :=
  match l with [] => EmptyString | n :: r => String (ascii_of_nat n) (sb r) end.

(* ---------- binary64 values, exactly.  FFin neg m e = (-1)^neg * m * 2^e, m odd *)
Inductive fl := FNan | FInf (neg : bool) | FZero (neg : bool) | FFin (neg : bool) (m : positive) (e : Z).

Definition fl_is_nan (f : fl) : bool := match f with FNan => true | _ => false end.
Definition fl_is_inf (f : fl) : bool := match f with FInf _ => true | _ => false end.
Definition fl_is_finite (f : fl) : bool := match f with FZero _ | FFin _ _ _ => true | _ => false end.

(* bit-identity (NaN = NaN, -0.0 <> 0.0): used to compare model and implementation *)
Definition fl_same (a b : fl) : bool :=
  match a, b with
  | FNan, FNan => true
  | FInf x, FInf y => Bool.eqb x y
  | FZero x, FZero y => Bool.eqb x y
  | FFin x m e, FFin y n g => Bool.eqb x y && Pos.eqb m n && Z.eqb e g
  | _, _ => false
  end.

(* extended dyadic: finite value as (signed mantissa, exponent) *)
Definition fl_dy (f : fl) : option (Z * Z) :=
  match f with
  | FZero _ => Some (0, 0)
  | FFin neg m e => Some (if neg then Z.neg m else Z.pos m, e)
  | _ => None
  end.

Definition dy_cmp (a b : Z * Z) : comparison :=
  let '(m1, e1) := a in let '(m2, e2) := b in
  let e := Z.min e1 e2 in
  Z.compare (m1 * 2 ^ (e1 - e)) (m2 * 2 ^ (e2 - e)).

(* numbers of Python's numeric tower that can sit in a cell *)
Inductive num := NInt (z : Z) | NFlt (f : fl).

(* IEEE/Python comparison of two numbers; None = unordered (a NaN involved) *)
Definition num_cmp (a b : num) : option comparison :=
  let ext (n : num) : option (Z + (Z * Z)) :=      (* inl s: infinity of sign s; inr dyadic *)
      match n with
      | NInt z => Some (inr (z, 0))
      | NFlt FNan => None
      | NFlt (FInf neg) => Some (inl (if neg then -1 else 1))
      | NFlt f => match fl_dy f with Some d => Some (inr d) | None => None end
      end in
  match ext a, ext b with
  | Some (inl s), Some (inl t) => Some (Z.compare s t)
  | Some (inl s), Some (inr _) => Some (Z.compare s 0)
  | Some (inr _), Some (inl t) => Some (Z.compare 0 t)
  | Some (inr x), Some (inr y) => Some (dy_cmp x y)
  | _, _ => None
  end.

Definition num_eqb (a b : num) : bool := match num_cmp a b with Some Eq => true | _ => false end.
Definition num_ltb (a b : num) : bool := match num_cmp a b with Some Lt => true | _ => false end.
Definition num_leb (a b : num) : bool := match num_cmp a b with Some Lt | Some Eq => true | _ => false end.

(* integrality and truncation of a finite float *)
Definition fl_integral (f : fl) : bool :=
  match f with
  | FZero _ => true
  | FFin _ m e => (0 <=? e) || (Z.pos m mod 2 ^ (- e) =? 0)
  | _ => false
  end.
Definition fl_trunc (f : fl) : Z :=       (* int(f) for finite f *)
  match f with
  | FFin neg m e =>
      let a := if 0 <=? e then Z.pos m * 2 ^ e else Z.pos m / 2 ^ (- e) in
      if neg then - a else a
  | _ => 0
  end.

(* float(int): round to nearest, ties to even, 53 significant bits *)
Fixpoint pos_norm (m : positive) (e : Z) : positive * Z :=
  match m with xO m' => pos_norm m' (e + 1) | _ => (m, e) end.
Definition mk_fin (neg : bool) (a : Z) (e : Z) : fl :=
  match a with
  | Zpos p => let '(m, e') := pos_norm p e in FFin neg m e'
  | _ => FZero neg
  end.
Definition round53 (z : Z) : fl :=
  let neg := z <? 0 in
  let a := Z.abs z in
  if a =? 0 then FZero false else
  let n := Z.log2 a + 1 in
  if n <=? 53 then mk_fin neg a 0 else
  let sh := n - 53 in
  let q := a / 2 ^ sh in
  let r := a mod 2 ^ sh in
  let half := 2 ^ (sh - 1) in
  let q' := if (half <? r) || ((r =? half) && Z.odd q) then q + 1 else q in
  mk_fin neg q' sh.

(* ---------- cell values as Python sees them when read back *)
Inductive val := VInt (z : Z) | VFlt (f : fl) | VStr (s : string) | VNone.

Definition val_same (a b : val) : bool :=
  match a, b with
  | VInt x, VInt y => Z.eqb x y
  | VFlt x, VFlt y => fl_same x y
  | VStr x, VStr y => str_eqb x y
  | VNone, VNone => true
  | _, _ => false
  end.

Definition comparison_is_eq (c : comparison) : bool := match c with Eq => true | _ => false end.
(* Python-level equality of read-back cells: same type, numerically equal, NaN ~ NaN
   (0.0 and -0.0 are the same value) *)
Definition fl_eqv (a b : fl) : bool :=
  match a, b with
  | FNan, FNan => true
  | FInf x, FInf y => Bool.eqb x y
  | FZero _, FZero _ => true
  | FFin x m e, FFin y n g => Bool.eqb x y && comparison_is_eq (dy_cmp (Z.pos m, e) (Z.pos n, g))
  | _, _ => false
  end.
Definition val_eqv (a b : val) : bool :=
  match a, b with
  | VInt x, VInt y => Z.eqb x y
  | VFlt x, VFlt y => fl_eqv x y
  | VStr x, VStr y => str_eqb x y
  | VNone, VNone => true
  | _, _ => false
  end.
(* a binary64 mantissa: odd and below 2^53 *)
Definition fl_wf (f : fl) : bool :=
  match f with FFin _ m _ => (Z.pos m <? 2 ^ 53) && Z.odd (Z.pos m) | _ => true end.

Definition val_num (v : val) : option num :=
  match v with VInt z => Some (NInt z) | VFlt f => Some (NFlt f) | _ => None end.

(* ---------- exceptions and results *)
Inductive exn := ValueError | TypeError | OverflowError | IndexError | KeyError
               | AttributeError | ZeroDivisionError | PlainException | OtherError.
Definition exn_eqb (a b : exn) : bool :=
  match a, b with
  | ValueError, ValueError | TypeError, TypeError | OverflowError, OverflowError
  | IndexError, IndexError | KeyError, KeyError | AttributeError, AttributeError
  | ZeroDivisionError, ZeroDivisionError | PlainException, PlainException | OtherError, OtherError => true
  | _, _ => false
  end.

Inductive res (A : Type) := Ok (a : A) | Raise (e : exn).
Arguments Ok {A}. Arguments Raise {A}.
Definition bind {A B} (r : res A) (k : A -> res B) : res B :=
  match r with Ok a => k a | Raise e => Raise e end.
(* try: r except (es): h   --  h is used when r raises one of es *)
Definition catch {A} (r : res A) (es : list exn) (h : res A) : res A :=
  match r with
  | Ok a => Ok a
  | Raise e => if existsb (exn_eqb e) es then h else Raise e
  end.
(* bare `except:` *)
Definition catch_all {A} (r : res A) (h : res A) : res A :=
  match r with Ok a => Ok a | Raise _ => h end.
(* try: x = r  except es: h   (es = None: bare except); k continues with x *)
Definition try_bind {A B} (r : res A) (es : option (list exn)) (k : A -> res B) (h : res B) : res B :=
  match r with
  | Ok a => k a
  | Raise e =>
      match es with
      | None => h
      | Some l => if existsb (exn_eqb e) l then h else Raise e
      end
  end.

(* ---------- the universe of assigned Python objects, as classified by the
   harness.  For a str the results of the *builtins* int(s) / float(s) are
   attached (CPython's numeric grammar is an oracle, not repository code). *)
Inductive pyv :=
  | PInt (z : Z) | PBool (b : bool) | PFloat (f : fl)
  | PNpInt (z : Z)                       (* numpy.integer scalar *)
  | PNpFloat (is64 : bool) (f : fl)      (* numpy.floating scalar; float64 subclasses float *)
  | PStr (s : string) (as_int : option Z) (as_float : option fl)
  | PNone | POther.

Definition pyv_of_val (v : val) : pyv :=
  match v with
  | VInt z => PInt z | VFlt f => PFloat f | VNone => PNone
  | VStr s => PStr s None None       (* stored strings are never numeric-looking *)
  end.

(* isinstance tests that occur in the translated kernels *)
Definition is_Integral (v : pyv) : bool := match v with PInt _ | PBool _ | PNpInt _ => true | _ => false end.
Definition is_Number (v : pyv) : bool :=
  match v with PInt _ | PBool _ | PFloat _ | PNpInt _ | PNpFloat _ _ => true | _ => false end.
Definition is_basestring (v : pyv) : bool := match v with PStr _ _ _ => true | _ => false end.
Definition is_bytes (v : pyv) : bool := false.            (* byte strings are outside every claim *)
Definition is_complex (v : pyv) : bool := false.          (* complex values are classified POther: no Number of the model *)
Definition is_int (v : pyv) : bool := match v with PInt _ | PBool _ => true | _ => false end.
Definition is_float (v : pyv) : bool := match v with PFloat _ | PNpFloat true _ => true | _ => false end.
Definition is_int_or_float (v : pyv) : bool := is_int v || is_float v.
Definition is_None (v : pyv) : bool := match v with PNone => true | _ => false end.
Definition is_basestring_or_Number (v : pyv) : bool := is_basestring v || is_Number v.

Definition pyv_float (v : pyv) : option fl :=
  match v with PFloat f | PNpFloat _ f => Some f | _ => None end.

(* builtins *)
Definition int_of_fl (f : fl) : res pyv :=
  match f with
  | FNan => Raise ValueError
  | FInf _ => Raise OverflowError
  | _ => Ok (PInt (fl_trunc f))
  end.
Definition b_int (v : pyv) : res pyv :=
  match v with
  | PInt z | PNpInt z => Ok (PInt z)
  | PBool b => Ok (PInt (if b then 1 else 0))
  | PFloat f | PNpFloat _ f => int_of_fl f
  | PStr _ (Some z) _ => Ok (PInt z)
  | PStr _ None _ => Raise ValueError
  | PNone | POther => Raise TypeError
  end.
Definition b_float (v : pyv) : res pyv :=
  match v with
  | PInt z | PNpInt z => Ok (PFloat (round53 z))
  | PBool b => Ok (PFloat (if b then FFin false 1 0 else FZero false))
  | PFloat f | PNpFloat _ f => Ok (PFloat f)
  | PStr _ _ (Some f) => Ok (PFloat f)
  | PStr _ _ None => Raise ValueError
  | PNone | POther => Raise TypeError
  end.
(* math.isnan / math.isinf: defined on numbers, TypeError otherwise *)
Definition b_isnan (v : pyv) : res bool :=
  match v with
  | PFloat f | PNpFloat _ f => Ok (fl_is_nan f)
  | PInt _ | PBool _ | PNpInt _ => Ok false
  | _ => Raise TypeError
  end.
Definition b_isinf (v : pyv) : res bool :=
  match v with
  | PFloat f | PNpFloat _ f => Ok (fl_is_inf f)
  | PInt _ | PBool _ | PNpInt _ => Ok false
  | _ => Raise TypeError
  end.
(* safe_decode is only reached for byte strings in the translated kernels (outside every claim) *)
Definition b_safe_decode (v : pyv) : pyv := v.

Definition pyv_num (v : pyv) : option num :=
  match v with
  | PInt z | PNpInt z => Some (NInt z)
  | PBool b => Some (NInt (if b then 1 else 0))
  | PFloat f | PNpFloat _ f => Some (NFlt f)
  | _ => None
  end.
(* Python == between classified objects (numbers exactly, str by content) *)
Definition py_eq (a b : pyv) : bool :=
  match pyv_num a, pyv_num b with
  | Some x, Some y => num_eqb x y
  | None, None =>
      match a, b with
      | PStr s _ _, PStr t _ _ => str_eqb s t
      | PNone, PNone => true
      | _, _ => false
      end
  | _, _ => false
  end.

(* turn a kernel result into a stored cell *)
Definition val_of_pyv (v : pyv) : option val :=
  match v with
  | PInt z => Some (VInt z)
  | PFloat f => Some (VFlt f)
  | PStr s _ _ => Some (VStr s)
  | PNone => Some VNone
  | _ => None                      (* bool / numpy scalars / other objects are never stored as such *)
  end.
