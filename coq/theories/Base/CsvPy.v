(* C16 (csv): hand-written models of the CPython builtins the translated csv
   kernels (Gen/KCsv.v) call: str() on the classified objects, str.startswith
   / slicing by code points on UTF-8 byte strings.  Definitions only. *)
From Coq Require Import ZArith List Bool String Ascii DecimalString.
From DM Require Import Base.PyVal.
Import ListNotations.
Open Scope Z_scope.

(* str(int): decimal digits, leading "-" for negatives *)
Definition show_int (z : Z) : string := NilZero.string_of_int (Z.to_int z).

(* str(float): "nan", "inf", "-inf" are CPython constants; the shortest
   round-trip repr of a finite float is an oracle (shf) supplied from outside *)
Definition show_flt (shf : fl -> string) (f : fl) : string :=
  match f with
  | FNan => "nan"
  | FInf false => "inf"
  | FInf true => "-inf"
  | _ => shf f
  end.

(* the builtin str() applied to a classified object.  The result is a Python
   str; only its text is consumed afterwards (the attached int()/float()
   classification is left empty). *)
Definition b_str (shf : fl -> string) (v : pyv) : pyv :=
  match v with
  | PStr s a b => PStr s a b
  | PInt z | PNpInt z => PStr (show_int z) None None
  | PBool b => PStr (if b then "True" else "False") None None
  | PFloat f | PNpFloat _ f => PStr (show_flt shf f) None None
  | PNone => PStr "None" None None
  | POther => PStr "<object>" None None
  end.

(* cells and column names are never exception objects *)
Definition is_Exception (v : pyv) : bool := false.

Definition pyv_text (r : res pyv) : res string :=
  match r with
  | Ok (PStr s _ _) => Ok s
  | Ok _ => Raise OtherError
  | Raise e => Raise e
  end.

(* ---- code points of a UTF-8 byte string ---- *)
(* number of bytes of the UTF-8 sequence introduced by a lead byte *)
Definition cp_len (c : ascii) : nat :=
  let n := nat_of_ascii c in
  if Nat.ltb n 192 then 1%nat else if Nat.ltb n 224 then 2%nat else if Nat.ltb n 240 then 3%nat else 4%nat.

Fixpoint drop_bytes (n : nat) (s : string) : string :=
  match n, s with
  | O, _ => s
  | S k, String _ r => drop_bytes k r
  | S _, EmptyString => EmptyString
  end.

(* s[n:] for a Python str s held as UTF-8 bytes *)
Fixpoint drop_cp (n : nat) (s : string) : string :=
  match n with
  | O => s
  | S k => match s with
           | EmptyString => EmptyString
           | String c _ => drop_cp k (drop_bytes (cp_len c) s)
           end
  end.

(* one-character str arguments (delimiter, quotechar) *)
Definition ascii_of_string1 (s : string) : ascii :=
  match s with String c _ => c | EmptyString => zero end.

(* ---- what DataMatrix.is_2d sees of a column object: the value of its `depth` attribute when the object has
   one (series columns of ANY depth, 0 included), None when it has none (Mixed / Float / Int columns) ---- *)
Definition colobj : Type := option Z.
Definition col_hasattr_depth (c : colobj) : bool :=
  match c with Some _ => true | None => false end.
