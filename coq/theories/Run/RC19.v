From Coq Require Import ZArith List Bool.
From DM Require Import Model.Curry Run.SC19.
Import ListNotations.

Definition to_obs (r : result Z (list Z)) : obs :=
  match r with Val l => OVal l | Fn _ => OFn | NotCallable => OErr end.

Definition obs_eqb (a b : obs) : bool :=
  match a, b with
  | OVal x, OVal y => zlist_eqb x y
  | OFn, OFn => true
  | OErr, OErr => true
  | _, _ => false
  end.

Definition model_agrees (n : nat) (chunks : list (list Z)) (o : obs) : bool :=
  obs_eqb (to_obs (run Z (list Z) (fun l => l) (curry Z n) chunks)) o.

(* ---------- map_, filter_, setcol: the L1 model (Model/Functional.v) against the implementation *)
From Coq Require Import String NArith.
From DM Require Import Base.PyVal Spec.Nf Spec.Table Spec.Functional Model.Functional.

Definition mkl (ids : list N) (srt : bool) (t : tab) : ltab := {| l_ids := ids; l_sorted := srt; l_tab := t |}.
Fixpoint nlist_eqb (a b : list N) : bool :=
  match a, b with
  | [], [] => true
  | x :: a', y :: b' => N.eqb x y && nlist_eqb a' b'
  | _, _ => false
  end.
Fixpoint cols_same (a b : list col) : bool :=
  match a, b with
  | [], [] => true
  | x :: a', y :: b' => col_eqv x y && cols_same a' b'
  | _, _ => false
  end.
(* ids, flags, columns in dict order, kinds, cells as Python values *)
Definition ltab_same (a b : ltab) : bool :=
  nlist_eqb (l_ids a) (l_ids b) && Bool.eqb (l_sorted a) (l_sorted b) &&
  Nat.eqb (tlen (l_tab a)) (tlen (l_tab b)) && kind_eqb (tdflt (l_tab a)) (tdflt (l_tab b)) &&
  cols_same (tcols (l_tab a)) (tcols (l_tab b)).
Definition res_ltab_same (m obs : res ltab) : bool :=
  match m, obs with
  | Ok a, Ok b => ltab_same a b
  | Raise e1, Raise e2 => exn_eqb e1 e2
  | _, _ => false
  end.
Definition res_col_same (m obs : res col) : bool :=
  match m, obs with
  | Ok a, Ok b => dcol_eqv a b
  | Raise OtherError, _ => true
  | Raise e1, Raise e2 => exn_eqb e1 e2
  | _, _ => false
  end.
Definition unwrap_tab (r : res fres) : res ltab :=
  match r with Ok (RTab t) => Ok t | Ok (RCol _) => Raise OtherError | Raise e => Raise e end.
Definition unwrap_col (r : res fres) : res col :=
  match r with Ok (RCol c) => Ok c | Ok (RTab _) => Raise OtherError | Raise e => Raise e end.

Definition model_map_dm (tbl : list (row * upd)) (t : ltab) (obs : res ltab) : bool :=
  res_ltab_same (unwrap_tab (l_map true (fun _ => POther) (tab_rowfun tbl) (ODm t))) obs.
Definition model_filter_dm (tbl : list (row * bool)) (t : ltab) (obs : res ltab) : bool :=
  res_ltab_same (unwrap_tab (l_filter true true 1%Z (fun _ => false) (tab_rowpred tbl) (ODm t))) obs.
Definition model_setcol (name_is_str owner_is_dm : bool) (t : ltab) (n : string) (v : cvalue) (obs : res ltab) : bool :=
  res_ltab_same (l_setcol name_is_str owner_is_dm t n v) obs.
Definition model_map_col (tbl : list (val * pyv)) (t : ltab) (name : option string) (c : col) (obs : res col) : bool :=
  res_col_same (unwrap_col (l_map true (tab_cellfun tbl) (fun _ => []) (OCol t name c))) obs.
Definition model_filter_col (is_function : bool) (nargs : Z) (tbl : list (val * bool)) (t : ltab) (name : option string)
  (c : col) (obs : res col) : bool :=
  res_col_same (unwrap_col (l_filter true is_function nargs (tab_cellpred tbl) (fun _ => false) (OCol t name c))) obs.
(* guards: a non-callable function, an object that is neither a column nor a DataMatrix *)
Definition model_guard_map (is_callable : bool) (obs : exn) : bool :=
  match l_map is_callable (fun _ => POther) (fun _ => []) OOther with Raise e => exn_eqb e obs | Ok _ => false end.
Definition model_guard_filter (is_callable : bool) (obs : exn) : bool :=
  match l_filter is_callable true 1%Z (fun _ => false) (fun _ => false) OOther with Raise e => exn_eqb e obs | Ok _ => false end.
