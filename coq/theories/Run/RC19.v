From Coq Require Import ZArith List Bool.
From DM Require Import Model.Curry Run.SC19.
Import ListNotations.

Definition to_obs (r : result Z (list Z)) : obs :=
  match r with Val l => OVal l | Fn _ => OFn | NotCallable => OErr end.

Definition obs_eqb (a b : obs) : bool :=
  match a, b with
  | OVal x, OVal y => zlist_eqb x y
  | OFn, OFn => true
  | OErr, OErr => true
  | _, _ => false
  end.

Definition model_agrees (n : nat) (chunks : list (list Z)) (o : obs) : bool :=
  obs_eqb (to_obs (run Z (list Z) (fun l => l) (curry Z n) chunks)) o.
