(* L1 correspondence comparators for C18: the executable model (with the regenerated kernels)
   vs. the implementation's observed output, exactly. *)
From Coq Require Import ZArith QArith List Bool.
From DM Require Export Spec.Series Run.SC18.
From DM Require Import Gen.KSeries Model.Series.
Import ListNotations.

Definition mobs_is (m obs : option (list qrow)) : bool :=
  match m, obs with
  | Some a, Some b => rows_eqb a b
  | None, None => true
  | _, _ => false
  end.
Definition m_endlock (s : list qrow) obs : bool := mobs_is (endlock1 s) obs.
Definition m_lock (d : nat) (s : list qrow) (lk : list Z) obs (zp : Z) : bool :=
  match lock1 d s lk, obs with
  | Some (rows, z0), Some o => rows_eqb rows o && Z.eqb z0 zp
  | None, None => true
  | _, _ => false
  end.
Definition m_threshold (p : pred) (min_length : Z) (s : list qrow) obs : bool :=
  mobs_is (Some (threshold1 (fun k => inject_Z k) (pred_hit p) min_length s)) obs.
Definition m_window (d : nat) (lo : Z) (hi : option Z) (s : list qrow) obs : bool :=
  mobs_is (Some (window1 d lo hi s)) obs.
Definition m_getslice (lo hi : option Z) (s : list qrow) obs : bool := mobs_is (Some (getslice1 lo hi s)) obs.
Definition m_concat (n : nat) (ss : list (nat * list qrow)) obs : bool := mobs_is (concatenate1 n ss) obs.
Definition m_normtime (d : nat) (s : list qrow) (tss : list (list (option Z))) obs : bool :=
  mobs_is (normalize_time1 d s tss) obs.
Definition m_setdepth (old : nat) (d : Z) (s : list qrow) obs : bool := mobs_is (set_depth1 old d s) obs.
Definition m_setdepth_pad (pad : option Q) (old : nat) (d : Z) (s : list qrow) obs : bool :=
  mobs_is (set_depth1_pad pad old d s) obs.
Definition m_downsample (by_ : Z) (s : list qrow) obs : bool := mobs_is (downsample1 by_ s) obs.
Definition m_interpolate (s : list qrow) obs : bool := mobs_is (interpolate1 s) obs.
Definition m_reduce (o : redop) (s : list qrow) (obs : option qrow) : bool :=
  match obs with Some r => row_eqb (reduce1 (red_fn o) s) r | None => false end.
Definition m_baseline (d dbl : nat) (divisive : bool) (o : redop) (lo : Z) (hi : option Z) (s bl : list qrow) obs : bool :=
  mobs_is (baseline1 d dbl divisive (red_fn o) lo hi s bl) obs.
(* z: np.nanstd is the table of the exact standard deviations supplied by the harness (rows without one -- the
   deviation is irrational, or some float operation is inexact -- are not compared) *)
Definition std_table (sds : list (option Q)) (s : list qrow) (a : qrow) : option Q :=
  match find (fun p => list_eqb sample_eqb (fst p) a) (combine s sds) with
  | Some (_, sd) => sd
  | None => None
  end.
Definition m_z (sds : list (option Q)) (s : list qrow) obs : bool :=
  match z1 (std_table sds s) s, obs with
  | Some m, Some o =>
      Nat.eqb (length m) (length o) && Nat.eqb (length sds) (length o) &&
      forallb (fun t => match t with (Some _, mrow, orow) => row_eqb mrow orow | (None, _, _) => true end)
              (combine (combine sds m) o)
  | _, _ => false
  end.
