(* L1 correspondence for C13: the model of the operator methods / _operate / _map vs. the implementation *)
From Coq Require Import ZArith List Bool String.
From DM Require Export Base.PyVal Spec.Nf Spec.Arith Spec.ArithSeries Model.Arith Model.ArithSeries.
Import ListNotations.

Definition model_op (t : list (fl * string)) (op : binop) (refl : bool) (c : column) (o : operand)
    (observed : res column) : bool :=
  rescol_eqv_mask (defined_mask t op refl c o) (operate exact_op (fstr_tab t) (dunder_of op refl) c o) observed.
(* malformed operands: only the exception class / success is compared *)
Definition model_outcome (t : list (fl * string)) (op : binop) (refl : bool) (c : column) (o : operand)
    (observed : res column) : bool :=
  match operate exact_op (fstr_tab t) (dunder_of op refl) c o, observed with
  | Raise e1, Raise e2 => exn_eqb e1 e2
  | Ok _, Ok _ => true
  | _, _ => false
  end.
Definition model_map (f : list (val * pyv)) (c : column) (observed : res column) : bool :=
  rescol_eqv (map_col (ftab_fun f) c) observed.

Definition model_series (op : binop) (refl : bool) (c : scolumn) (o : soperand) (observed : res scolumn) : bool :=
  srescol_eqv_mask (series_mask op refl c o) (series_operate exact_op (dunder_of op refl) c o) observed.
