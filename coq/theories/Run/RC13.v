(* L1 correspondence for C13: the model of the operator methods / _operate / _map vs. the implementation,
   with the exact instance (rows it computes) and with the IEEE-754 binary64 instance (every row). *)
From Coq Require Import ZArith List Bool String.
From DM Require Export Base.PyVal Base.Float64Py Spec.Nf Spec.Arith Spec.ArithSeries Spec.ArithIeee Model.Arith Model.ArithSeries.
Import ListNotations.

Definition model_op (t : list (fl * string)) (op : binop) (refl : bool) (c : column) (o : operand)
    (observed : res column) : bool :=
  rescol_eqv_mask (defined_mask t op refl c o) (operate exact_op (fstr_tab t) (dunder_of op refl) c o) observed.

(* binary64 arithmetic F.  A zero divisor in a MixedColumn is judged here (not by the L0 oracle: the property leaves
   zero divisors out): BaseColumn._operate applies Python's operator cell by cell, so the operation raises
   ZeroDivisionError (judged when every other row is modelled).  Float-/IntColumn rows with a zero divisor are not
   judged (NumPy float64: inf / nan; int64: 0; object fallback for ints beyond int64: raises). *)
Definition model_op_ieee_gen (F : fops) (t : list (fl * string)) (op : binop) (refl : bool) (c : column) (o : operand)
    (observed : res column) : bool :=
  let m := defined_mask_ieee t op refl c o in
  let zd := zerodiv_mask op refl c o in
  if existsb (fun b => b) zd then
    if forallb (fun b => b) (map2 orb m zd)
    then match observed with Raise ZeroDivisionError => true | _ => false end
    else true
  else rescol_eqv_mask m (operate (ieee_op_gen F) (fstr_tab t) (dunder_of op refl) c o) observed.
Definition model_op_ieee := model_op_ieee_gen prim_fops.
Definition model_op_ieee_spec := model_op_ieee_gen spec_fops.

(* malformed operands: only the exception class / success is compared *)
Definition model_outcome (t : list (fl * string)) (op : binop) (refl : bool) (c : column) (o : operand)
    (observed : res column) : bool :=
  match operate exact_op (fstr_tab t) (dunder_of op refl) c o, observed with
  | Raise e1, Raise e2 => exn_eqb e1 e2
  | Ok _, Ok _ => true
  | _, _ => false
  end.
Definition model_map (f : list (val * pyv)) (c : column) (observed : res column) : bool :=
  rescol_eqv (map_col (ftab_fun f) c) observed.

Definition model_series (op : binop) (refl : bool) (c : scolumn) (o : soperand) (observed : res scolumn) : bool :=
  srescol_eqv_mask (series_mask op refl c o) (series_operate exact_op (dunder_of op refl) c o) observed.
Definition model_series_ieee_gen (F : fops) (op : binop) (refl : bool) (c : scolumn) (o : soperand) (observed : res scolumn) : bool :=
  srescol_eqv_mask (series_mask_gen ieee_defined op refl c o)
                   (series_operate (ieee_op_gen F) (dunder_of op refl) c o) observed.
Definition model_series_ieee := model_series_ieee_gen prim_fops.
Definition model_series_ieee_spec := model_series_ieee_gen spec_fops.

(* one term per case: both instances on the same arguments *)
Definition model_c13_gen (F : fops) (t : list (fl * string)) (op : binop) (refl : bool) (c : column) (o : operand)
    (observed : res column) : bool :=
  model_op t op refl c o observed && model_op_ieee_gen F t op refl c o observed.
Definition model_c13 := model_c13_gen prim_fops.
Definition model_c13_spec := model_c13_gen spec_fops.
Definition model_series_c13_gen (F : fops) (op : binop) (refl : bool) (c : scolumn) (o : soperand) (observed : res scolumn) : bool :=
  model_series op refl c o observed && model_series_ieee_gen F op refl c o observed.
Definition model_series_c13 := model_series_c13_gen prim_fops.
Definition model_series_c13_spec := model_series_c13_gen spec_fops.
