(* L0 oracle for C13: the observed result column (type, row ids, cells) or exception
   vs. the element-wise specification of Spec/Arith.v, instantiated with exact
   arithmetic; cases the instance does not compute exactly are not judged (and counted). *)
From Coq Require Import ZArith List Bool String.
From DM Require Export Base.PyVal Spec.Nf Spec.Arith Spec.ArithSeries.
Import ListNotations.

Definition oracle_op (t : list (fl * string)) (op : binop) (refl : bool) (c : column) (o : operand)
    (observed : res column) : bool :=
  rescol_eqv_mask (defined_mask t op refl c o) (spec_operate exact_op (fstr_tab t) op refl c o) observed.
(* true: every row of the case is judged *)
Definition judged (t : list (fl * string)) (op : binop) (refl : bool) (c : column) (o : operand) : bool :=
  spec_defined t op refl c o.

(* dm.r = result: the cell read in every row of the table (rows listed by id) is the specified cell of that row *)
Fixpoint opts_eqv (a : list (option (bool * val))) (b : list val) : bool :=
  match a, b with
  | [], [] => true
  | Some (d, x) :: a', y :: b' => (negb d || val_eqv x y) && opts_eqv a' b'
  | _, _ => false
  end.
Fixpoint row_lookup (ids : list N) (m : list bool) (cells : list val) (r : N) : option (bool * val) :=
  match ids, m, cells with
  | i :: ids', d :: m', c :: cells' => if N.eqb i r then Some (d, c) else row_lookup ids' m' cells' r
  | _, _, _ => None
  end.
Definition oracle_assign (t : list (fl * string)) (op : binop) (refl : bool) (c : column) (o : operand)
    (dm_ids : list N) (assigned : list val) : bool :=
  match spec_operate exact_op (fstr_tab t) op refl c o with
  | Ok r => opts_eqv (map (row_lookup (cids r) (defined_mask t op refl c o) (ccells r)) dm_ids) assigned
  | Raise _ => true
  end.

(* col @ f / map_(f, col); f is the table of f's values on the cells *)
Definition oracle_map (f : list (val * pyv)) (c : column) (observed : res column) : bool :=
  match spec_map (ftab_fun f) c with
  | Raise OtherError => true                 (* not specified *)
  | r => rescol_eqv r observed
  end.

(* SeriesColumn: depth, row ids and every judged sample *)
Definition oracle_series (op : binop) (refl : bool) (c : scolumn) (o : soperand) (observed : res scolumn) : bool :=
  srescol_eqv_mask (series_mask op refl c o) (spec_series exact_op op refl c o) observed.
Definition judged_series (op : binop) (refl : bool) (c : scolumn) (o : soperand) : bool :=
  forallb (forallb (fun b => b)) (series_mask op refl c o).
