(* L0 oracle for C13: the observed result column (type, row ids, cells) or exception
   vs. the element-wise specification of Spec/Arith.v, instantiated
   (a) with exact arithmetic: cases the instance does not compute exactly are not judged (and counted);
   (b) with IEEE-754 binary64 arithmetic (Spec/ArithIeee.v on Base/Float64Py.v; Coq's primitive floats):
       every row is judged -- + - * / // % on floats with their rounding, overflow to infinity, inf - inf,
       subnormals; ** as far as (a) goes; zero divisors are outside the property's quantifier.
   Both are evaluated on every case (a disagreement between the two instances would show up as a failure of one
   of them on the unchanged tree). *)
From Coq Require Import ZArith List Bool String.
From DM Require Export Base.PyVal Base.Float64Py Spec.Nf Spec.Arith Spec.ArithSeries Spec.ArithIeee.
Import ListNotations.

Definition oracle_op (t : list (fl * string)) (op : binop) (refl : bool) (c : column) (o : operand)
    (observed : res column) : bool :=
  rescol_eqv_mask (defined_mask t op refl c o) (spec_operate exact_op (fstr_tab t) op refl c o) observed.
(* true: every row of the case is judged *)
Definition judged (t : list (fl * string)) (op : binop) (refl : bool) (c : column) (o : operand) : bool :=
  spec_defined t op refl c o.

(* the same with binary64 arithmetic F *)
Definition oracle_op_ieee_gen (F : fops) (t : list (fl * string)) (op : binop) (refl : bool) (c : column) (o : operand)
    (observed : res column) : bool :=
  rescol_eqv_mask (defined_mask_ieee t op refl c o) (spec_operate (ieee_op_gen F) (fstr_tab t) op refl c o) observed.
Definition oracle_op_ieee := oracle_op_ieee_gen prim_fops.
Definition oracle_op_ieee_spec := oracle_op_ieee_gen spec_fops.
Definition judged_ieee (t : list (fl * string)) (op : binop) (refl : bool) (c : column) (o : operand) : bool :=
  forallb (fun b => b) (defined_mask_ieee t op refl c o).

(* dm.r = result: the cell read in every row of the table (rows listed by id) is the specified cell of that row *)
Fixpoint opts_eqv (a : list (option (bool * val))) (b : list val) : bool :=
  match a, b with
  | [], [] => true
  | Some (d, x) :: a', y :: b' => (negb d || val_eqv x y) && opts_eqv a' b'
  | _, _ => false
  end.
Fixpoint row_lookup (ids : list N) (m : list bool) (cells : list val) (r : N) : option (bool * val) :=
  match ids, m, cells with
  | i :: ids', d :: m', c :: cells' => if N.eqb i r then Some (d, c) else row_lookup ids' m' cells' r
  | _, _, _ => None
  end.
Definition oracle_assign_gen (num_op : binop -> num -> num -> num) (mask : list bool)
    (t : list (fl * string)) (op : binop) (refl : bool) (c : column) (o : operand)
    (dm_ids : list N) (assigned : list val) : bool :=
  match spec_operate num_op (fstr_tab t) op refl c o with
  | Ok r => opts_eqv (map (row_lookup (cids r) mask (ccells r)) dm_ids) assigned
  | Raise _ => true
  end.
Definition oracle_assign (t : list (fl * string)) (op : binop) (refl : bool) (c : column) (o : operand)
    (dm_ids : list N) (assigned : list val) : bool :=
  oracle_assign_gen exact_op (defined_mask t op refl c o) t op refl c o dm_ids assigned.
Definition oracle_assign_ieee_gen (F : fops) (t : list (fl * string)) (op : binop) (refl : bool) (c : column) (o : operand)
    (dm_ids : list N) (assigned : list val) : bool :=
  oracle_assign_gen (ieee_op_gen F) (defined_mask_ieee t op refl c o) t op refl c o dm_ids assigned.
Definition oracle_assign_ieee := oracle_assign_ieee_gen prim_fops.
Definition oracle_assign_ieee_spec := oracle_assign_ieee_gen spec_fops.

(* col @ f / map_(f, col); f is the table of f's values on the cells *)
Definition oracle_map (f : list (val * pyv)) (c : column) (observed : res column) : bool :=
  match spec_map (ftab_fun f) c with
  | Raise OtherError => true                 (* not specified *)
  | r => rescol_eqv r observed
  end.

(* SeriesColumn: depth, row ids and every judged sample *)
Definition oracle_series (op : binop) (refl : bool) (c : scolumn) (o : soperand) (observed : res scolumn) : bool :=
  srescol_eqv_mask (series_mask op refl c o) (spec_series exact_op op refl c o) observed.
Definition judged_series (op : binop) (refl : bool) (c : scolumn) (o : soperand) : bool :=
  forallb (forallb (fun b => b)) (series_mask op refl c o).
Definition oracle_series_ieee_gen (F : fops) (op : binop) (refl : bool) (c : scolumn) (o : soperand) (observed : res scolumn) : bool :=
  srescol_eqv_mask (series_mask_gen ieee_defined op refl c o) (spec_series (ieee_op_gen F) op refl c o) observed.
Definition oracle_series_ieee := oracle_series_ieee_gen prim_fops.
Definition oracle_series_ieee_spec := oracle_series_ieee_gen spec_fops.
Definition judged_series_ieee (op : binop) (refl : bool) (c : scolumn) (o : soperand) : bool :=
  forallb (forallb (fun b => b)) (series_mask_gen ieee_defined op refl c o).

(* ---------- one term per case: both instances on the same arguments (the case literals are parsed once) *)
Definition oracle_c13_gen (F : fops) (t : list (fl * string)) (op : binop) (refl : bool) (c : column) (o : operand)
    (observed : res column) (assigned : option (list N * list val)) : bool :=
  oracle_op t op refl c o observed && oracle_op_ieee_gen F t op refl c o observed &&
  match assigned with
  | Some (ids, vs) => oracle_assign t op refl c o ids vs && oracle_assign_ieee_gen F t op refl c o ids vs
  | None => true
  end.
Definition oracle_c13 := oracle_c13_gen prim_fops.
Definition oracle_c13_spec := oracle_c13_gen spec_fops.
(* [oracle; every row of the case is judged] *)
Definition vec_c13_gen (F : fops) (t : list (fl * string)) (op : binop) (refl : bool) (c : column) (o : operand)
    (observed : res column) (assigned : option (list N * list val)) : list bool :=
  [oracle_c13_gen F t op refl c o observed assigned; judged_ieee t op refl c o].
Definition vec_c13 := vec_c13_gen prim_fops.
Definition vec_c13_spec := vec_c13_gen spec_fops.

Definition oracle_series_c13_gen (F : fops) (op : binop) (refl : bool) (c : scolumn) (o : soperand) (observed : res scolumn) : bool :=
  oracle_series op refl c o observed && oracle_series_ieee_gen F op refl c o observed.
Definition oracle_series_c13 := oracle_series_c13_gen prim_fops.
Definition oracle_series_c13_spec := oracle_series_c13_gen spec_fops.
Definition vec_series_c13_gen (F : fops) (op : binop) (refl : bool) (c : scolumn) (o : soperand) (observed : res scolumn) : list bool :=
  [oracle_series_c13_gen F op refl c o observed; judged_series_ieee op refl c o].
Definition vec_series_c13 := vec_series_c13_gen prim_fops.
Definition vec_series_c13_spec := vec_series_c13_gen spec_fops.
