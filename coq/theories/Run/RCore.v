(* L1 correspondence for histories: before every step the L1 state is the
   implementation's own dumped object graph; the L1 algorithm of the step
   (Model/Core.v: lookup by id through the Index cache / argsort+searchsorted,
   merge by membership masks, resize with the generated id kernels, ...) is run
   on it and its result must denote (abs) the same table as the
   implementation's dumped result. *)
From Coq Require Import ZArith NArith List Bool String.
From DM Require Export Run.SCore Model.Core.
Import ListNotations.

Fixpoint apply_dumps (p : list ltable) (ds : list (nat * ltable)) : list ltable :=
  match ds with
  | [] => p
  | (i, t) :: r => apply_dumps (if Nat.ltb i (List.length p) then set_nth i t p else p ++ [t]) r
  end.

Definition is_err (o : outcome) : bool := match o with Err _ => true | _ => false end.

Definition step_model_ok (p p' : list ltable) (s : stepobs) : bool :=
  match lstep p (so_op s) with
  | LSkip => true
  | LErr => is_err (so_out s)
  | LNew t =>
      match so_out s, nth_error p' (List.length p) with
      | OkNew, Some d => table_eqb (abs t) (abs d)
      | _, _ => false
      end
  | LUpd i t =>
      match so_out s, nth_error p' i with
      | OkUnit, Some d => table_eqb (abs t) (abs d)
      | _, _ => false
      end
  | LErrUpd i t =>
      match so_out s, nth_error p' i with
      | Err _, Some d => table_eqb (abs t) (abs d)
      | _, _ => false
      end
  end.

(* the L1 steps are judged while the history is inside the model: a step on which the L0 spec answers OutOfModel
   (e.g. a merge of same-named columns of different kinds) ends the judgement, as it does for the oracle *)
Fixpoint model_steps (w : world) (p : list ltable) (steps : list stepobs) : bool :=
  match steps with
  | [] => true
  | s :: r =>
      let '(w', out) := step w (so_op s) in
      match out with
      | OutOfModel => true
      | _ => let p' := apply_dumps p (so_dumps s) in
             step_model_ok p p' s && model_steps w' p' r
      end
  end.

Definition hist_model_ok (steps : list stepobs) (final : list ltable) : bool := model_steps w0 [] steps.
