(* L1 correspondence for histories: before every step the L1 state is the
   implementation's own dumped object graph; the L1 algorithm of the step
   (Model/Core.v: lookup by id through the Index cache / argsort+searchsorted,
   merge by membership masks, resize with the generated id kernels, ...) is run
   on it and its result must denote (abs) the same table as the
   implementation's dumped result. *)
From Coq Require Import ZArith NArith List Bool String.
From DM Require Export Run.SCore Model.Core.
Import ListNotations.

Fixpoint apply_dumps (p : list ltable) (ds : list (nat * ltable)) : list ltable :=
  match ds with
  | [] => p
  | (i, t) :: r => apply_dumps (if Nat.ltb i (List.length p) then set_nth i t p else p ++ [t]) r
  end.

Definition is_err (o : outcome) : bool := match o with Err _ => true | _ => false end.

(* a << b: the L1 concatenation (result length and slice bounds regenerated from __lshift__) from the dumped operands;
   the family of the new table is read off the dump (its freshness is judged by the L0 check) *)
Definition concat_model_ok (teq : table -> table -> bool) (p p' : list ltable) (ti t2i : nat) (out : outcome) : bool :=
  match nth_error p ti, nth_error p t2i with
  | Some a, Some b =>
      match out, nth_error p' (List.length p) with
      | OkNew, Some d => match concat_l a b (l_fam d) with
                         | Ok r => teq (abs r) (abs d)
                         | Raise _ => false
                         end
      | Err _, _ => match concat_l a b 0 with Raise _ => true | Ok _ => false end
      | _, _ => false
      end
  | _, _ => true
  end.

Definition step_model_ok_with (teq : table -> table -> bool) (p p' : list ltable) (s : stepobs) : bool :=
  match so_op s with
  | OConcat ti t2i => concat_model_ok teq p p' ti t2i (so_out s)
  | _ =>
  match lstep p (so_op s) with
  | LSkip => true
  | LErr => is_err (so_out s)
  | LNew t =>
      match so_out s, nth_error p' (List.length p) with
      | OkNew, Some d => teq (abs t) (abs d)
      | _, _ => false
      end
  | LUpd i t =>
      match so_out s, nth_error p' i with
      | OkUnit, Some d => teq (abs t) (abs d)
      | _, _ => false
      end
  | LErrUpd i t =>
      match so_out s, nth_error p' i with
      | Err _, Some d => teq (abs t) (abs d)
      | _, _ => false
      end
  end
  end.

Definition step_model_ok := step_model_ok_with table_eqb.

(* the L1 steps are judged while the history is inside the model: a step on which the L0 spec answers OutOfModel
   (e.g. a merge of same-named columns of different kinds) ends the judgement, as it does for the oracle *)
Fixpoint model_steps (w : world) (p : list ltable) (steps : list stepobs) : bool :=
  match steps with
  | [] => true
  | s :: r =>
      let '(w', out) := step w (so_op s) in
      match out with
      | OutOfModel => true
      | _ => let p' := apply_dumps p (so_dumps s) in
             step_model_ok p p' s && model_steps w' p' r
      end
  end.

Definition hist_model_ok (steps : list stepobs) (final : list ltable) : bool := model_steps w0 [] steps.

(* DataMatrix.__getitem__: the isinstance facts the running interpreter gives for one key of every class, and the
   operation that key selected (0-6 as in k_getitem_dispatch), against the model's table and the generated dispatch *)
Definition facts_eqb (a b : bool * bool * bool * bool * bool * bool) : bool :=
  let '(a1, a2, a3, a4, a5, a6) := a in let '(b1, b2, b3, b4, b5, b6) := b in
  Bool.eqb a1 b1 && Bool.eqb a2 b2 && Bool.eqb a3 b3 && Bool.eqb a4 b4 && Bool.eqb a5 b5 && Bool.eqb a6 b6.
Definition getitem_ok (obs : list (pykey * (bool * bool * bool * bool * bool * bool) * Z)) : bool :=
  forallb (fun '(k, f, d) => facts_eqb (key_facts k) f && Z.eqb (getitem_dispatch k) d) obs.
