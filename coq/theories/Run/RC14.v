(* L1 comparators for C14: the executable model (Model/SplitGroup.v, on the
   regenerated kernels) against what the implementation returned. *)
From Coq Require Import ZArith NArith List Bool String.
From DM Require Import Base.PyVal Spec.Nf Spec.Table Spec.SplitGroup Model.SplitGroup Run.SC14.
Import ListNotations.

Fixpoint leqb2 {A B} (e : A -> B -> bool) (a : list A) (b : list B) : bool :=
  match a, b with
  | [], [] => true
  | x :: a', y :: b' => e x y && leqb2 e a' b'
  | _, _ => false
  end.
Definition part_eqb (a : list val * mdm) (b : list val * cols) : bool :=
  leqb val_eqv (fst a) (fst b) && cols_eqb (m_cols (snd a)) (snd b).

(* split(col1, ..., colk): the yielded (values, part) tuples, in order.  Where the order of `unique` is not
   modelled (see SC14.orderable) the tuples are matched by their values instead. *)
Definition split_model (rid : list N) (src : cols) (knames : list string) (obs : list (list val * cols)) : bool :=
  match knames, key_cols src knames with
  | first :: rest, Some kcols =>
      match m_split {| m_rid := rid; m_cols := src |} first rest [] with
      | SPairs l =>
          if forallb orderable kcols then leqb2 part_eqb l obs
          else Nat.eqb (List.length l) (List.length obs)
               && forallb (fun o => existsb (fun x => part_eqb x o) l) obs
      | _ => false
      end
  | _, _ => false
  end.

Definition splitv_model (rid : list N) (src : cols) (kname : string) (vs : list val) (obs : list cols) : bool :=
  match vs with
  | [] => false
  | _ => match m_split {| m_rid := rid; m_cols := src |} kname [] vs with
         | SBare l => leqb cols_eqb (map m_cols l) obs
         | _ => false
         end
  end.

(* group: same table, groups in the same order; and the source as dumped satisfies the premise of the refinement
   theorem C14_model_group_refines (so that the theorem speaks about the states the implementation really has) *)
Definition group_model (rid : list N) (src : cols) (bynames : list string) (obs : gtable) : bool :=
  wf_group_b {| m_rid := rid; m_cols := src |} bynames
  && match m_group {| m_rid := rid; m_cols := src |} bynames with
     | Some g => gtable_eqb g obs
     | None => false
     end.
