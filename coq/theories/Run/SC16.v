(* L0 oracles for C16: the implementation's observed behaviour vs. the property text (Spec/Csv.v) *)
From Coq Require Import ZArith List Bool String Ascii.
From DM Require Export Base.PyVal Spec.Nf Spec.Csv.
Import ListNotations.

(* a table was written by writetxt and read back by readtxt *)
Definition oracle_rt (names : list string) (rows : list (list val))
                     (names' : list string) (rows' : list (list val)) : bool :=
  roundtrip_ok (names, rows) (names', rows').

(* a hand-made file with logical content hdr / recs (any line ending, optional BOM) was read *)
Definition oracle_read (cl : list (string * (option Z * option fl))) (hdr : list string) (recs : list (list string))
                       (names' : list string) (rows' : list (list val)) : bool :=
  read_ok (cls_of cl) hdr recs (names', rows').

(* the operation must raise e *)
Definition oracle_raises (e : exn) (observed : option exn) : bool :=
  match observed with Some x => exn_eqb e x | None => false end.

(* writetxt of a table whose columns are / are not series columns (one flag per column, any depth): TypeError iff
   at least one of them is; a table of plain columns must be written without an exception *)
Definition oracle_write_guard (series : list bool) (observed : option exn) : bool :=
  if existsb (fun b => b) series then oracle_raises TypeError observed
  else match observed with None => true | Some _ => false end.
