(* L0 oracle for C14: the implementation's observed parts / grouped table are
   compared with Spec.SplitGroup.  Depends on nothing generated. *)
From Coq Require Import ZArith List Bool String.
From DM Require Export Base.PyVal Spec.Nf Spec.Table Spec.SplitGroup.
Import ListNotations.

Definition kind_eqb14 (a b : kind) : bool :=
  match a, b with KMixed, KMixed | KFloat, KFloat | KInt, KInt => true | _, _ => false end.
Fixpoint leqb {A} (e : A -> A -> bool) (a b : list A) : bool :=
  match a, b with
  | [], [] => true
  | x :: a', y :: b' => e x y && leqb e a' b'
  | _, _ => false
  end.
(* cells by Python equality of the stored value (NaN ~ NaN, 0.0 ~ -0.0), names and column types exactly *)
Definition cols_eqb (a b : cols) : bool :=
  leqb (fun '(n, k, c) '(m, j, d) => String.eqb n m && kind_eqb14 k j && leqb val_eqv c d) a b.
Fixpoint pairwise_distinct {A} (e : A -> A -> bool) (l : list A) : bool :=
  match l with [] => true | x :: r => negb (existsb (e x) r) && pairwise_distinct e r end.

(* is the order of `unique` determined by the spec for this column?  (not when a non-integral float sits in a
   column ordered by text, nor when two distinct values have the same text, e.g. None and 'None') *)
Definition opt_str_eqb (a b : option string) : bool :=
  match a, b with Some x, Some y => String.eqb x y | _, _ => true end.
Definition orderable (cells : list val) : bool :=
  let d := distinct key_eq cells in
  forallb is_num d || forallb is_str d || pairwise_distinct opt_str_eqb (map text_key d).

Definition key_cols (src : cols) (knames : list string) : option (list (list val)) :=
  all_some (map (fun n => col_cells n src) knames).

(* ops.split(col1, ..., colk) without values: obs = [(values, part read column-wise)] in yield order *)
Definition split_oracle (src : cols) (knames : list string) (obs : list (list val * cols)) : bool :=
  match key_cols src knames with
  | None => false
  | Some kcols =>
      let expd := splitm kcols (seq 0 (nrows_of src)) in
      Nat.eqb (List.length expd) (List.length obs)
      && forallb (fun '(vs, o) =>
                    match find (fun '(ws, _) => keys_eq vs ws) expd with
                    | Some (_, ps) => cols_eqb (take_cols ps src) o
                    | None => false
                    end) obs
      && pairwise_distinct keys_eq (map fst obs)
      && (if forallb orderable kcols then leqb keys_eq (map fst obs) (map fst expd) else true)
  end.

(* ops.split(col, v1, ..., vn): obs = the parts in yield order *)
Definition splitv_oracle (src : cols) (kname : string) (vs : list val) (obs : list cols) : bool :=
  match col_cells kname src with
  | None => false
  | Some cells =>
      leqb cols_eqb (map (fun ps => take_cols ps src) (splitv cells vs (seq 0 (nrows_of src)))) obs
  end.

(* ops.group: rows compared as a set (the documentation leaves the order of groups open) *)
Definition g_row (t : gtable) (i : nat) : list val * list (list fl) :=
  (map (fun '(_, _, cs) => nth i cs VNone) (g_by t), map (fun '(_, _, rs) => nth i rs []) (g_series t)).
Definition g_row_eqb (a b : list val * list (list fl)) : bool :=
  leqb val_eqv (fst a) (fst b) && leqb (leqb fl_same) (snd a) (snd b).
Definition g_shape_eqb (a b : gtable) : bool :=
  Nat.eqb (g_n a) (g_n b)
  && leqb (fun '(n, k, c) '(m, j, d) => String.eqb n m && kind_eqb14 k j
                                        && Nat.eqb (List.length c) (g_n a) && Nat.eqb (List.length d) (g_n b))
          (g_by a) (g_by b)
  && leqb (fun '(n, x, r) '(m, y, s) => String.eqb n m && Nat.eqb x y
                                        && Nat.eqb (List.length r) (g_n a) && Nat.eqb (List.length s) (g_n b))
          (g_series a) (g_series b).
Definition group_oracle (src : cols) (bynames : list string) (obs : gtable) : bool :=
  match group src bynames with
  | None => false
  | Some g =>
      let idx := seq 0 (g_n obs) in
      g_shape_eqb g obs
      && forallb (fun i => existsb (fun j => g_row_eqb (g_row g j) (g_row obs i)) idx) idx
      && pairwise_distinct (leqb val_eqv) (map (fun i => fst (g_row obs i)) idx)
  end.
(* the same in the order of first occurrence (what the code does now; used for diagnostics and by the model tie) *)
Definition gtable_eqb (a b : gtable) : bool :=
  g_shape_eqb a b && forallb (fun i => g_row_eqb (g_row a i) (g_row b i)) (seq 0 (g_n a)).
