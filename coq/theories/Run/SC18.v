(* L0 oracle comparators for C18: the implementation's observed output vs. Spec/Series.v.
   Imports nothing generated.  Samples are exact rationals (a finite binary64 is one); None = NaN.
   obs = None means the implementation raised an exception. *)
From Coq Require Import ZArith QArith List Bool.
From DM Require Export Spec.Series.
Import ListNotations.

Definition z (n : Z) : option Q := Some (n # 1).
Definition q (n : Z) (d : positive) : option Q := Some (n # d).
Definition nn : option Q := None.

Definition sample_eqb (a b : option Q) : bool :=
  match a, b with
  | None, None => true
  | Some x, Some y => Qeq_bool x y
  | _, _ => false
  end.
Fixpoint list_eqb {X} (e : X -> X -> bool) (a b : list X) : bool :=
  match a, b with
  | [], [] => true
  | x :: a', y :: b' => e x y && list_eqb e a' b'
  | _, _ => false
  end.
Definition row_eqb := list_eqb sample_eqb.
Definition rows_eqb := list_eqb row_eqb.
Definition obs_is (expected : list qrow) (obs : option (list qrow)) : bool :=
  match obs with Some o => rows_eqb expected o | None => false end.
Definition wf (d : nat) (s : list qrow) : bool := forallb (fun r => Nat.eqb (length r) d) s.

(* predicates handed to threshold (Python: lambda v: v > c, ...) *)
Inductive pred := PGt (c : Q) | PLt (c : Q) | PGe (c : Q) | PValid | PNan.
Definition pred_hit (p : pred) (x : option Q) : bool :=
  match p, x with
  | PGt c, Some v => negb (Qle_bool v c)
  | PLt c, Some v => negb (Qle_bool c v)
  | PGe c, Some v => Qle_bool c v
  | PValid, Some _ => true
  | PNan, None => true
  | _, _ => false
  end.
(* the `operation` of reduce / the `reduce_fnc` of baseline, applied to ONE row (the property: "applies the operation per
   row").  RMean .. RVar ignore NaN (np.nanmean, nanmedian, nansum, nanmax, nanmin, max - min of the valid samples,
   nanvar); RStrict o is the plain NumPy reducer (np.mean, np.median, np.sum, np.max, np.min, np.ptp, np.var): NaN as
   soon as the row holds a NaN, otherwise o. *)
Inductive redop := RMean | RMedian | RSum | RMax | RMin | RPtp | RVar | RStrict (o : redop).
Definition qpick (keep_first : Q -> Q -> bool) (l : list Q) : option Q :=
  match l with [] => None | x :: t => Some (fold_left (fun a b => if keep_first a b then a else b) t x) end.
Definition nansum (r : qrow) : option Q := Some (qsum (valid r)).
Definition nanmax (r : qrow) : option Q := qpick (fun a b => Qle_bool b a) (valid r).
Definition nanmin (r : qrow) : option Q := qpick Qle_bool (valid r).
Definition nanptp (r : qrow) : option Q := lift2 Qminus (nanmax r) (nanmin r).
Definition has_nan (r : qrow) : bool := existsb (fun x => match x with None => true | Some _ => false end) r.
Fixpoint red_fn (o : redop) : qrow -> option Q :=
  match o with
  | RMean => nanmean | RMedian => nanmedian | RSum => nansum | RMax => nanmax | RMin => nanmin | RPtp => nanptp
  | RVar => nanvar
  | RStrict o' => fun r => if has_nan r then None else red_fn o' r
  end.

Definition o_endlock (s : list qrow) obs : bool := obs_is (endlock s) obs.
Definition o_lock (s : list qrow) (lk : list Z) obs (zp : Z) : bool :=
  obs_is (lock s lk) obs && Z.eqb zp (lock_zero_point lk).
Definition o_threshold (p : pred) (min_length : Z) (s : list qrow) obs : bool :=
  obs_is (threshold 1%Q 0%Q (pred_hit p) min_length s) obs.
Definition o_window (lo : Z) (hi : option Z) (s : list qrow) obs : bool := obs_is (window lo hi s) obs.
Definition o_getslice (lo hi : option Z) (s : list qrow) obs : bool := obs_is (map (pyslice lo hi) s) obs.
Definition o_concat (n : nat) (ss : list (list qrow)) obs : bool := obs_is (concatenate n ss) obs.
(* timestamps outside the quantifier (not increasing, NaN inside, negative): the oracle is silent *)
Definition o_normtime (s : list qrow) (tss : list (list (option Z))) obs : bool :=
  if forallb times_ok tss && Nat.eqb (length s) (length tss) && has_time tss then obs_is (normalize_time s tss) obs else true.
Definition o_setdepth (d : nat) (s : list qrow) obs : bool := obs_is (set_depth d s) obs.
(* a column created with defaultnan=False: the depth setter fills new cells with `pad` (0) *)
Definition o_setdepth_pad (pad : option Q) (d : nat) (s : list qrow) obs : bool := obs_is (set_depth_pad pad d s) obs.
Definition o_downsample (by_ : nat) (s : list qrow) obs : bool :=
  match by_ with O => true | _ => obs_is (downsample by_ s) obs end.
Definition o_interpolate (s : list qrow) obs : bool := obs_is (interpolate s) obs.
Definition o_reduce (o : redop) (s : list qrow) (obs : option qrow) : bool :=
  match obs with Some r => row_eqb (reduce (red_fn o) s) r | None => false end.
Definition o_baseline (divisive : bool) (o : redop) (lo : Z) (hi : option Z) (s bl : list qrow) obs : bool :=
  obs_is (baseline divisive (red_fn o) lo hi s bl) obs.
(* z: the harness supplies, per row, the standard deviation as a rational witness (when it is one) *)
Definition o_z (sds : list (option Q)) (s : list qrow) obs : bool :=
  match obs with
  | None => false
  | Some o =>
      Nat.eqb (length o) (length s) && Nat.eqb (length sds) (length s) &&
      forallb (fun t => match t with
                        | (Some sd, r, orow) => is_std sd r && row_eqb (z_row sd r) orow
                        | (None, _, _) => true
                        end) (combine (combine sds s) o)
  end.
(* metamorphic statement checked inside Coq as well: f(take ps rows) = take ps (f rows) *)
Definition o_commutes (ps : list nat) (out_all out_sel : list qrow) : bool :=
  rows_eqb (take_rows ps out_all) out_sel.
