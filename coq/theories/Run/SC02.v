(* L0 oracle for C02: the rows the implementation returned for `column OP reference`
   versus Spec.Select.select on the dumped source table.  Imports Base/ and Spec/ only. *)
From Coq Require Import ZArith NArith List Bool String.
From DM Require Export Base.PyVal Spec.Nf Spec.Table Spec.Select.
Import ListNotations.
Open Scope Z_scope.

(* the dump of a DataMatrix: row ids and the columns in creation order *)
Definition cols_t := list (string * kind * list val).
Definition mk_table (rid : list N) (cols : cols_t) : table :=
  {| fam := 0; ids := rid;
     names := combine (map (fun '(n, _, _) => n) cols) (seq 0 (List.length cols));
     slots := map (fun '(_, k, c) => {| skind := k; scells := c |}) cols;
     tsorted := true; dflt := KMixed |}.

(* the reference as the harness classified it *)
Inductive oref :=
  | OScalar (v : pyv) | OSeq (vs : list pyv) | OSet (vs : list pyv) | OPred (i : nat) | OType (t : pytype).

(* the fixed family of one-argument predicates (harness/c02.py PREDICATES holds the Python text of each) *)
Definition truthy (v : val) : bool :=
  match v with
  | VInt z => negb (z =? 0)
  | VFlt (FZero _) => false
  | VFlt _ => true
  | VStr s => negb (String.eqb s EmptyString)
  | VNone => false
  end.
Definition pred_family (i : nat) : option (val -> bool) :=
  match i with
  | 0%nat => Some (fun _ => true)
  | 1%nat => Some (fun _ => false)
  | 2%nat => Some (fun x => py_cmp CEq x (VInt 1))
  | 3%nat => Some is_nan_val
  | 4%nat => Some (fun x => match x with VNone => true | _ => false end)
  | 5%nat => Some (fun x => match x with VStr _ => true | _ => false end)
  | 6%nat => Some (fun x => py_cmp CGt x (VInt 0))
  | 7%nat => Some (fun x => existsb (py_cmp CEq x) [VInt 2; VStr "a"; VNone])
  | 8%nat => Some truthy
  | _ => None            (* partial or ill-formed predicates: outside the property's quantifier *)
  end.

(* a reference object that is a value of the cell domain (plain int / float / non-numeric text / None) *)
Definition plain (v : pyv) : option val :=
  match v with
  | PInt z => Some (VInt z)
  | PFloat f => Some (VFlt f)
  | PNone => Some VNone
  | PStr s None None => Some (VStr s)
  | _ => None
  end.
Definition to_ref (o : oref) : option ref :=
  match o with
  | OScalar v => match plain v with Some x => Some (RScalar x) | None => None end
  | OSeq vs => match all_some (map plain vs) with Some xs => Some (RSeq xs) | None => None end
  | OSet vs => match all_some (map plain vs) with Some xs => Some (RSet xs) | None => None end
  | OPred i => match pred_family i with Some f => Some (RPred f) | None => None end
  | OType t => Some (RType t)
  end.

Inductive obs := ObsOk (rid : list N) (cols : cols_t) | ObsRaise (e : exn).

Fixpoint list_eqb {A} (e : A -> A -> bool) (a b : list A) : bool :=
  match a, b with
  | [], [] => true
  | x :: a', y :: b' => e x y && list_eqb e a' b'
  | _, _ => false
  end.
Definition kind_eqb (a b : kind) : bool :=
  match a, b with KMixed, KMixed | KFloat, KFloat | KInt, KInt => true | _, _ => false end.
(* cells intact: bit for bit (NaN = NaN, -0.0 <> 0.0) *)
Definition cols_same (a b : cols_t) : bool :=
  list_eqb (fun '(n, k, c) '(m, j, d) => String.eqb n m && kind_eqb k j && list_eqb val_same c d) a b.

(* is the case inside the property's quantifier? *)
Definition in_dom (cols : cols_t) (c : string) (op : cmpop) (o : oref) : bool :=
  match to_ref o, slot_of (mk_table [] cols) c with
  | Some r, Some s => in_domain (skind s) op r (scells s)
  | _, _ => false
  end.

Definition oracle1 (rid : list N) (cols : cols_t) (c : string) (o : oref) (x : cmpop * obs) : bool :=
  let '(op, ob) := x in
  let t := mk_table rid cols in
  match to_ref o with
  | None => true
  | Some r =>
      if in_dom cols c op o then
        match select t c op r, ob with
        | Some t', ObsOk rid' cols' => list_eqb N.eqb (ids t') rid' && cols_same (view t') cols'
        | _, _ => false
        end
      else true
  end.
Definition oracle (rid : list N) (cols : cols_t) (c : string) (o : oref) (xs : list (cmpop * obs)) : bool :=
  forallb (oracle1 rid cols c o) xs.
(* aux: some operator of the case is inside the quantifier (the oracle judged something) *)
Definition some_in_dom (cols : cols_t) (c : string) (o : oref) (xs : list (cmpop * obs)) : bool :=
  existsb (fun '(op, _) => in_dom cols c op o) xs.
