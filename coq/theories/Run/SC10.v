(* L0 oracle comparators for C10 (kernel-free: Base + Spec only) *)
From Coq Require Import ZArith NArith List Bool String.
From DM Require Export Base.PyVal Spec.Nf Spec.Table Spec.Sort.
Import ListNotations.

(* direct `sortable(v) < sortable(w)` observed on the implementation vs. the documented order *)
Definition o_lt (v w : val) (observed : bool) : bool := Bool.eqb (sort_lt v w) observed.

Definition o_sort_dm := sort_dm_ok.
Definition o_sort_col := sort_col_ok.
Definition o_bin := bin_split_ok.
