(* L1 correspondence for C15: the executable model of Model/OpsMisc.v against the implementation, cell for cell. *)
From Coq Require Import ZArith QArith List Bool String.
From DM Require Export Run.SC15 Model.OpsMisc.
Import ListNotations.
Open Scope Z_scope.

Definition res_tbl_agrees (r : res tbl) (o : obs) : bool :=
  match r, o with
  | Ok t, OTbl t' => tbl_same t t'
  | Raise e, OExn e' => exn_eqb e e'
  | _, _ => false
  end.
Definition res_col_agrees (kd : kind) (r : res (list val)) (o : obs) : bool :=
  match r, o with
  | Ok cs, OCol k' cs' => kind_eqb kd k' && cells_same cs cs'
  | Raise e, OExn e' => exn_eqb e e'
  | _, _ => false
  end.

Definition weight_agrees (t : tbl) (wname : string) (o : obs) : bool :=
  match find_col wname (tcols t) with
  | None => false
  | Some wc => res_tbl_agrees (weight_model t (cells wc)) o
  end.
Definition ff_agrees (ig : val) (t : tbl) (o : obs) : bool := res_tbl_agrees (fullfactorial_model ig t) o.
Definition fullfact_agrees (levels : list Z) (h : list (list Z)) : bool := forall2b zlist_eqb (fullfact levels) h.
Definition replace_agrees (kd : kind) (m : list (pyv * pyv)) (cs : list val) (o : obs) : bool :=
  res_col_agrees kd (replace_model kd m cs) o.
Definition keep_agrees (t : tbl) (wrapped : bool) (args : list karg) (o : obs) : bool :=
  res_tbl_agrees (keep_model t wrapped args) o.
(* column objects resolved by the model itself (BaseColumn.name over the owner's columns, _colname dispatch) *)
Definition keep_obj_agrees (t : tbl) (wrapped : bool) (args : list oarg) (o : obs) : bool :=
  res_tbl_agrees (keep_model_obj t wrapped args) o.
(* z on inputs whose standard deviation s is rational: exact agreement of every numeric cell *)
Definition z_exact_agrees (xs : list Q) (s : Q) (out : list Q) : bool :=
  Qeq_bool (s * s) (z_var xs) && forall2b Qeq_bool (z_model xs s) out.
