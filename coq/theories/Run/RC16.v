(* L1 correspondence for C16: Model/Csv.v vs. the implementation *)
From Coq Require Import ZArith List Bool String Ascii.
From DM Require Export Base.PyVal Base.CsvPy Spec.Nf Spec.Csv Model.Csv.
Import ListNotations.

(* repr of the finite non-integral floats that occur in the case, computed by CPython *)
Definition shf_of (l : list (fl * string)) : fl -> string :=
  fun f => match find (fun e => fl_same (fst e) f) l with Some e => snd e | None => "?"%string end.

(* byte equality of the written file (or same exception) *)
Definition write_agrees (sh : list (fl * string)) (d q : ascii) (is_2d : bool)
                        (names : list string) (rows : list (list val)) (observed : res string) : bool :=
  match writetxt (shf_of sh) d q is_2d (names, rows), observed with
  | Ok a, Ok b => str_eqb a b
  | Raise e1, Raise e2 => exn_eqb e1 e2
  | _, _ => false
  end.

(* the table read from a file (columns matched by name, cells bit for bit) or the same exception *)
Definition read_agrees (cl : list (string * (option Z * option fl))) (d q : ascii) (bytes : string)
                       (observed : res table) : bool :=
  match readtxt (cls_of cl) d q bytes, observed with
  | Ok t, Ok t' => tables_ok val_same t t'
  | Raise e1, Raise e2 => exn_eqb e1 e2
  | _, _ => false
  end.

Fixpoint lbeq {A} (eq : A -> A -> bool) (a b : list A) : bool :=
  match a, b with
  | [], [] => true
  | x :: r, y :: t => eq x y && lbeq eq r t
  | _, _ => false
  end.

(* the reader model recovers the logical content a hand-made file was rendered from *)
Definition records_agree (d q : ascii) (bytes : string) (recs : list (list string)) : bool :=
  match read_records d q bytes with
  | Ok rs => lbeq (lbeq str_eqb) rs recs
  | Raise _ => false
  end.

(* the same with the guard computed from the column objects of the table (name, Some depth for a series column) *)
Definition write_agrees_cols (sh : list (fl * string)) (d q : ascii) (cols : list (string * colobj))
                             (names : list string) (rows : list (list val)) (observed : res string) : bool :=
  match writetxt_dm (shf_of sh) d q cols (names, rows), observed with
  | Ok a, Ok b => str_eqb a b
  | Raise e1, Raise e2 => exn_eqb e1 e2
  | _, _ => false
  end.
