(* Run-time evaluation of the premise of the whole-history simulation theorem (Props/C01.v:
   C01_l1_histories_simulate): the L1 model, run FROM SCRATCH on the history the implementation executed (same
   operations, same oracle arguments), must stay in step with the L0 reference model for as long as the history is
   inside the model -- result shapes agree at every step (Model/CoreRun.sim_step) and, checked here in addition and
   directly, the L1 pool denotes the L0 pool after every step.  A history leaves the model where Spec.step answers
   OutOfModel; the judgement ends there, as it does for the oracle and for the per-step L1 replay (Run/RCore.v). *)
From Coq Require Import ZArith NArith List Bool String.
From DM Require Export Run.RCore Model.CoreRun.
Import ListNotations.

Definition pool_eqb (a : list table) (b : list ltable) : bool :=
  Nat.eqb (List.length a) (List.length b) && forallb (fun '(x, y) => table_eqb x (abs y)) (combine a b).

Fixpoint sim_prefix (w : world) (p : list ltable) (ops : list op) : bool :=
  match ops with
  | [] => true
  | o :: r =>
      let '(w', out) := step w o in
      match out with
      | OutOfModel => true
      | _ => let p' := lapply p (lstep_all p (nextfam w) o) in
             sim_step w p o && pool_eqb (pool w') p' && sim_prefix w' p' r
      end
  end.

Definition hist_sim_ok (steps : list stepobs) : bool := sim_prefix w0 [] (map so_op steps).

(* one term for the harness (the step literal is parsed once): the per-step L1 replay from dumped states AND the
   from-scratch simulation *)
Definition hist_model_sim_ok (steps : list stepobs) (final : list ltable) : bool :=
  hist_model_ok steps final && hist_sim_ok steps.
