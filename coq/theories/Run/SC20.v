(* L0 oracle for C20 (memoize): the acceptor of Spec/Memo.v on the harness'
   concrete alphabet.  Depends on nothing generated.
   argument classes A = nat:  a = base + 1000 * t, where t = number of callables
   (thunks) that replace values of the base form (leading arguments, or values
   further down inside list / tuple / dict / keyword arguments);
   keys K = Z: the key of class a is Z.of_nat a, explicit keys are negative;
   values V = Z: the id of the value the unwrapped body returns, f a = base;
   folders F = Z;  sizes are supplied per value id by the harness
   (sys.getsizeof(pickle.dumps(value))). *)
From Coq Require Import ZArith List Bool String.
From DM Require Export Base.PyVal Spec.Memo Spec.MemoExn Spec.MemoKey Spec.MemoLazy.
Import ListNotations.
Open Scope Z_scope.

Definition cf (a : nat) : Z := Z.of_nat (Nat.modulo a 1000).
Definition ckey (a : nat) : Z := Z.of_nat a.
Definition cthunks (a : nat) : nat := Nat.div a 1000.
Fixpoint csize (tab : list (Z * Z)) (v : Z) : Z :=
  match tab with [] => 0 | (v', s) :: r => if Z.eqb v v' then s else csize r v end.

Definition mo (p : bool) (x : option Z) (l : bool) (m : Z) (fo : Z) : opts Z Z :=
  {| persistent := p; xkey := x; lazy := l; max_size := m; folder := fo |}.
Definition me (r : Z) (ran : bool) (forced : nat) (keys : list Z) (cs : Z) (files : list Z) : event Z Z :=
  {| e_ret := r; e_ran := ran; e_forced := forced; e_keys := keys; e_csize := cs; e_files := files |}.
Definition tN (o : opts Z Z) : tev nat Z Z Z := TNew o.
Definition tX (i : nat) : tev nat Z Z Z := TClear i.
Definition tC (i : nat) (a : nat) (e : event Z Z) : tev nat Z Z Z := TCall i a e.

(* true = the observed trace satisfies the property *)
Definition oracle (sizes : list (Z * Z)) (tr : list (tev nat Z Z Z)) : bool :=
  accept nat Z Z Z cf ckey cthunks (csize sizes) Z.eqb Z.eqb Z.eqb w0 tr.

(* ---- histories in which calls may RAISE (Spec/MemoExn.v).  The raising argument lists of the harness' alphabet:
   bases 160-162 -- the body raises (whatever callables stand for its arguments); class 2163 = base 163 with both of
   its callables -- the second callable raises while it is evaluated (lazy instances; the body does not run). ---- *)
Definition cexn (a : nat) : option bool :=
  let b := Nat.modulo a 1000 in
  if Nat.leb 160 b && Nat.leb b 162 then Some true
  else if Nat.eqb a 2163 then Some false else None.
Definition mx (ran : bool) (forced : nat) (keys : list Z) (cs : Z) (files : list Z) : xevent Z :=
  {| x_ran := ran; x_forced := forced; x_keys := keys; x_csize := cs; x_files := files |}.
Definition xT (t : tev nat Z Z Z) : xtev nat Z Z Z := XT t.
Definition xR (i : nat) (a : nat) (e : xevent Z) : xtev nat Z Z Z := XRaise i a e.
Definition oracle_x (sizes : list (Z * Z)) (tr : list (xtev nat Z Z Z)) : bool :=
  accept_x nat Z Z Z cf cexn ckey cthunks (csize sizes) Z.eqb Z.eqb Z.eqb w0 tr.

(* ---- the key: does the implementation give two argument lists the same key exactly when they are the same
   argument list (Spec/MemoKey.v: tuple ~ list, keyword/dict order irrelevant, everything else distinguished)? ---- *)
Definition mkcall (a : list arg) (k : list (string * arg)) : call := {| c_args := a; c_kwargs := k |}.
Definition key_pair_ok (c c' : call) (same_key : bool) : bool :=
  call_wfb c && call_wfb c' && Bool.eqb (call_eqvb c c') same_key.
(* all pairs of a list of (argument list, id of the key the implementation derived for it) *)
Definition key_matrix_ok (forms : list (call * Z)) : bool :=
  forallb (fun x => call_wfb (fst x)
                    && forallb (fun y => Bool.eqb (call_eqvb (fst x) (fst y)) (Z.eqb (snd x) (snd y))) forms) forms.

(* ---- lazy mode: one observed execution of the body (Spec/MemoLazy.lazy_observed_ok): every callable of the argument
   list -- at any depth -- was evaluated once, the body received no callable, and what it received is the argument list
   with every callable replaced by its value (a tuple and a list of equal content are the same argument) ---- *)
Definition lazy_ok (tab : list (string * arg)) (c received : call) (forced : nat) : bool :=
  lazy_observed_ok tab c received forced.
