(* L1 correspondence for the column variants of C11: the L1 algorithms of Model/ShuffleCol.v (by-ID fetch through the
   Index cache / argsort + searchsorted, re-labelling, argument check chain, copies, per-row write-back; on the
   regenerated kernels) are run on the implementation's own dumped source and must produce the dumped result. *)
From Coq Require Import ZArith NArith List Bool String.
From DM Require Export Run.SC11x Model.Core Model.ShuffleCol.
Import ListNotations.

Definition lcol_eqb (a b : lcol) : bool :=
  kind_eqb (lc_kind a) (lc_kind b) && ids_eqb (ia (lc_rowid a)) (ia (lc_rowid b))
  && list_eqb val_eqv (lc_cells a) (lc_cells b) && Bool.eqb (lc_owner a) (lc_owner b) && Bool.eqb (lc_tc a) (lc_tc b).

Definition col_model (o : colobs) : bool :=
  match lcol_of (co_src o) (co_name o) with
  | None => false
  | Some c =>
      match co_k o, co_res o with
      | None, Ok r =>
          match read_perm (lc_cells c) (lc_cells r) [] with
          | Some perm => match l_shuffle_col c perm with Ok m => lcol_eqb m r | Raise _ => false end
          | None => false
          end
      | None, Raise _ => false
      | Some k, Ok r =>
          match all_some (map (fun x => pos_of x (ia (lc_rowid c))) (ia (lc_rowid r))) with
          | Some choice => match l_sample_col c k choice with Ok m => lcol_eqb m r | Raise _ => false end
          | None => false
          end
      | Some k, Raise e =>
          match l_sample_col c k [] with
          | Raise ValueError => exn_eqb e ValueError
          | _ => false
          end
      end
  end.

Definition horiz_model (o : horizobs) : bool :=
  let t := ho_src o in
  match ho_res o with
  | Ok r =>
      match find_hperms (abs t) (ho_args o) (abs r) with
      | Some perms => match l_shuffle_horiz t (ho_args o) perms with
                      | Ok m => table_eqb (abs m) (abs r)
                      | Raise _ => false
                      end
      | None => false
      end
  | Raise e =>
      (* the argument check and the naming decide themselves; a coercion refusal depends on the permutation *)
      match bind (l_horiz_args t (ho_args o)) (l_keep_names t) with
      | Raise e' => exn_eqb e e' && negb (exn_eqb e' OtherError)
      | Ok _ => exn_eqb e TypeError && horiz_may_raise (abs t) (ho_args o) e
      end
  end.

(* judged on sources inside the model only (see Run/SC11x.v, guarded) *)
Definition col_model_g (o : colobs) : bool := negb (inv_b (co_src o)) || col_model o.
Definition horiz_model_g (o : horizobs) : bool := negb (inv_b (ho_src o)) || horiz_model o.
