(* L1 correspondence for C02: Model.Select.l_select versus the implementation (rows, cells, exception class) *)
From Coq Require Import ZArith NArith List Bool String.
From DM Require Export Base.PyVal Spec.Nf Spec.Table Spec.Select Model.SelectRef Model.Select Run.SC02.
Import ListNotations.
Open Scope Z_scope.

Definition lift_pred (f : val -> bool) : mref := inj_ref (RPred f).
Definition mfun (i : nat) : mref :=
  match pred_family i with
  | Some f => lift_pred f
  | None =>
      match i with
      | 9%nat => MFun 1 (fun o => py_op CGt o (PInt 1))            (* lambda x: x > 1 : raises on text / None *)
      | 10%nat => MFun 2 (fun _ => Ok true)                        (* lambda x, y: True *)
      | _ => MFun 0 (fun _ => Ok true)                             (* lambda: True *)
      end
  end.
Definition to_mref (o : oref) : mref :=
  match o with
  | OScalar v => MVal v | OSeq vs => MSeq vs | OSet vs => MSet vs | OPred i => mfun i | OType t => MType t
  end.

Definition model1 (rid : list N) (cols : cols_t) (c : string) (o : oref) (x : cmpop * obs) : bool :=
  let '(op, ob) := x in
  match l_select (mk_table rid cols) c op (to_mref o), ob with
  | Ok (Some t'), ObsOk rid' cols' => list_eqb N.eqb (ids t') rid' && cols_same (view t') cols'
  | Raise e, ObsRaise e' => exn_eqb e e'
  | _, _ => false
  end.
Definition model_agrees (rid : list N) (cols : cols_t) (c : string) (o : oref) (xs : list (cmpop * obs)) : bool :=
  forallb (model1 rid cols c o) xs.
