(* L1 correspondence for C02: Model.Select.l_select versus the implementation (rows, cells, exception class) *)
From Coq Require Import ZArith NArith List Bool String.
From DM Require Export Base.PyVal Spec.Nf Spec.Table Spec.Select Model.SelectRef Model.Select Run.SC02.
Import ListNotations.
Open Scope Z_scope.

Definition lift_pred (f : val -> bool) : mref := inj_ref (RPred f).
Definition mfun (i : nat) : mref :=
  match pred_family i with
  | Some f => lift_pred f
  | None =>
      match i with
      | 9%nat => MFun 1 (fun o => py_op CGt o (PInt 1))            (* lambda x: x > 1 : raises on text / None *)
      | 10%nat => MFun 2 (fun _ => Ok true)                        (* lambda x, y: True *)
      | _ => MFun 0 (fun _ => Ok true)                             (* lambda: True *)
      end
  end.
Definition to_mref (o : oref) : mref :=
  match o with
  | OScalar v => MVal v | OSeq vs => MSeq vs | OSet vs => MSet vs | OPred i => mfun i | OType t => MType t
  end.

(* Inside the property's quantifier the dumped source satisfies the premises of C02_l_select_refines
   (well-formed, duplicate-free row ids, cells of the column's type, reference floats binary64): the theorem
   then says that the model's answer IS the L0 selection, so model = implementation is the same fact as
   oracle = true seen from the other side.  A source that lost a premise (e.g. a row id handed out twice by a
   resize) is reported here even if no comparison happens to touch the damaged rows. *)
Definition premises_ok (rid : list N) (cols : cols_t) (c : string) (op : cmpop) (o : oref) : bool :=
  let t := mk_table rid cols in
  match to_ref o, slot_of t c with
  | Some r, Some s =>
      negb (in_domain (skind s) op r (scells s))
      || (wf_table t && nodup_N rid && forallb (cell_of (skind s)) (scells s) && ref_wf r)
  | _, _ => true
  end.

Definition model1 (rid : list N) (cols : cols_t) (c : string) (o : oref) (x : cmpop * obs) : bool :=
  let '(op, ob) := x in
  premises_ok rid cols c op o &&
  match l_select (mk_table rid cols) c op (to_mref o), ob with
  | Ok (Some t'), ObsOk rid' cols' => list_eqb N.eqb (ids t') rid' && cols_same (view t') cols'
  | Raise e, ObsRaise e' => exn_eqb e e'
  | _, _ => false
  end.
Definition model_agrees (rid : list N) (cols : cols_t) (c : string) (o : oref) (xs : list (cmpop * obs)) : bool :=
  forallb (model1 rid cols c o) xs.
