(* L0 oracle and L1 correspondence for operation histories on tables that hold
   SeriesColumns (Spec/SeriesEnc.v): a series column of depth d is dumped as d
   FloatColumn pseudo-columns name#j.  Pseudo-columns created by a later depth
   change sit next to their siblings in the implementation but at the end of
   the creation order in the encoding, so tables are compared up to the order
   of names (the creation order of real columns is judged by the histories
   without series columns).  Depends on nothing generated (the L1 part is
   Run/RSeries.v). *)
From Coq Require Import ZArith NArith List Bool String.
From DM Require Export Run.SCore Spec.SeriesEnc.
Import ListNotations.

Fixpoint insert_name (x : string * nat) (l : list (string * nat)) : list (string * nat) :=
  match l with
  | [] => [x]
  | y :: r => if str_leb (fst x) (fst y) then x :: l else y :: insert_name x r
  end.
Definition norm_names (t : table) : table :=
  {| fam := fam t; ids := ids t; names := fold_right insert_name [] (names t); slots := slots t;
     tsorted := tsorted t; dflt := dflt t |}.
Definition table_eqb_u (a b : table) : bool := table_eqb (norm_names a) (norm_names b).

Record sstepobs := { ss_op : sop; ss_out : outcome; ss_dumps : list (nat * ltable); ss_pyok : bool }.

Definition sobs_ok (w : world) (d : nat * ltable) : bool :=
  let '(i, lt) := d in
  inv_b lt && match get w i with Some t => table_eqb_u t (abs lt) | None => false end.

(* 0 = agrees, 1 = disagrees, 2 = the history left the model *)
Fixpoint check_ssteps (w : world) (steps : list sstepobs) : nat * world :=
  match steps with
  | [] => (0%nat, w)
  | s :: r =>
      let '(w', out) := sstep w (ss_op s) in
      match out with
      | OutOfModel => (2%nat, w)
      | _ => if outcome_eqb out (ss_out s) && ss_pyok s && forallb (sobs_ok w') (ss_dumps s)
             then check_ssteps w' r else (1%nat, w')
      end
  end.

Definition check_shistory (steps : list sstepobs) (final : list ltable) : nat :=
  let '(c, w) := check_ssteps w0 steps in
  match c with
  | O => if Nat.eqb (List.length (pool w)) (List.length final)
            && forallb (sobs_ok w) (combine (seq 0 (List.length final)) final)
         then 0%nat else 1%nat
  | _ => c
  end.

Definition shist_vec (steps : list sstepobs) (final : list ltable) : list bool :=
  let c := check_shistory steps final in [negb (Nat.eqb c 1); negb (Nat.eqb c 2)].
Definition shist_ok (steps : list sstepobs) (final : list ltable) : bool :=
  negb (Nat.eqb (check_shistory steps final) 1).

Fixpoint sfirst_bad (w : world) (steps : list sstepobs) (i : nat) : option nat :=
  match steps with
  | [] => None
  | s :: r =>
      let '(w', out) := sstep w (ss_op s) in
      match out with
      | OutOfModel => None
      | _ => if outcome_eqb out (ss_out s) && ss_pyok s && forallb (sobs_ok w') (ss_dumps s)
             then sfirst_bad w' r (S i) else Some i
      end
  end.

(* diagnostics for replays *)
Fixpoint sdiagnose (w : world) (steps : list sstepobs) (i : nat) : option diag :=
  match steps with
  | [] => None
  | s :: r =>
      let '(w', out) := sstep w (ss_op s) in
      match out with
      | OutOfModel => Some {| dg_step := i; dg_spec_out := out; dg_obs_out := ss_out s; dg_tables := [] |}
      | _ => if outcome_eqb out (ss_out s) && ss_pyok s && forallb (sobs_ok w') (ss_dumps s)
             then sdiagnose w' r (S i)
             else Some {| dg_step := i; dg_spec_out := out; dg_obs_out := ss_out s;
                          dg_tables := map (fun '(j, lt) => (j, inv_b lt, get w' j, abs lt))
                                           (filter (fun d => negb (sobs_ok w' d)) (ss_dumps s)) |}
      end
  end.

