(* L1 correspondence for C12: Model/Stats.v (built on the regenerated kernels) vs. the implementation. *)
From Coq Require Import ZArith QArith Qcanon List Bool String.
From DM Require Export Base.PyVal Base.QcPy Spec.Nf Spec.Stats Model.Stats Model.StatsOp Run.SC12.
Import ListNotations.

(* ref here is the harness' Fraction evaluation of what the implementation computes (ints seen through float()
   in a MixedColumn); it must equal the L1 model's rational *)
Definition mstat_agrees (k : kind) (s : stat) (cells : list xcell) (ref : claim) (impl : fl) (md : mode) : bool :=
  match xl1_stat k s cells with
  | MOut => true
  | MNan => fl_is_nan impl && match ref with CNan => true | _ => false end
  | MVal q => match ref with CVal r => Qceqb r q | CNan => false end
              && fl_is_finite impl && mode_ok md s q impl
  end.

Fixpoint klist_eqb (a b : list key) : bool :=
  match a, b with
  | [], [] => true
  | x :: a', y :: b' => key_eqb x y && klist_eqb a' b'
  | _, _ => false
  end.
Definition unique_agrees (k : kind) (cells u : list xcell) : bool :=
  match xl1_unique k cells with
  | UOrdered l => klist_eqb l (xkeys u)
  | UAnyOrder l => knodup (xkeys u) && forallb (fun x => kmem x l) (xkeys u) && forallb (fun x => kmem x (xkeys u)) l
  end.

Definition leaves_model (k : kind) (cells : list xcell) : bool :=
  match xl1_stat k Mean cells with MOut => true | _ => false end.

Definition model_agrees (k : kind) (cells : list xcell) (obs : list ob) (u : list xcell) (cnt : Z) : bool :=
  forallb (fun o : ob => let '(s, r, x, e) := o in mstat_agrees k s cells r x e) obs
  && unique_agrees k cells u && (cnt =? xl1_count k cells u)%Z.
(* every reading with the column type the column had at that time *)
Definition model_seq (rs : list (kind * reading)) : bool :=
  forallb (fun kr : kind * reading => let '(k, (cells, obs, u, cnt)) := kr in model_agrees k cells obs u cnt) rs.
Definition in_scope_seq (rs : list reading) : bool :=
  forallb (fun r : reading => let '(cells, _, _, _) := r in xin_scope cells) rs.

(* the buffer `_seq` of an IntColumn as dumped from the implementation at a reading (Model/StatsOp.v): it holds whole
   numbers -- the cast of IntColumn._operate is the identity on it, so the statistics NumPy reduces from it are those
   of the cells -- and the cells read from the column are int_cells of it *)
Fixpoint qlist_eqb (a b : list Qc) : bool :=
  match a, b with
  | [], [] => true
  | x :: a', y :: b' => Qceqb x y && qlist_eqb a' b'
  | _, _ => false
  end.
Fixpoint zlist_eqb (a b : list Z) : bool :=
  match a, b with
  | [], [] => true
  | x :: a', y :: b' => (x =? y)%Z && zlist_eqb a' b'
  | _, _ => false
  end.
Definition int_buffer_ok (buf : list Qc) (cells : list xcell) : bool :=
  qlist_eqb (int_cast buf) buf &&
  match all_v cells with
  | Some vs => match i_vals vs with Some zs => zlist_eqb zs (int_cells buf) | None => false end
  | None => false
  end.
Definition int_buffers_ok (l : list (list Qc * list xcell)) : bool :=
  forallb (fun p : list Qc * list xcell => int_buffer_ok (fst p) (snd p)) l.
