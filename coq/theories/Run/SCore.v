(* L0 oracle for operation histories on a pool of DataMatrix objects.
   The implementation's observed outcome and dumped object graphs (changed
   tables after each step, the whole pool at the end) are checked against
   Spec.step:  inv_b holds on every dump and abs(dump) is observationally
   the table Spec predicts.  Depends on nothing generated. *)
From Coq Require Import ZArith NArith List Bool String.
From DM Require Export Base.PyVal Spec.Nf Spec.Table Spec.Ops Model.LTable.
Import ListNotations.

Record stepobs := { so_op : op; so_out : outcome; so_dumps : list (nat * ltable);
                    so_pyok : bool }.   (* Python-side probes and audits A1-A2 found nothing at this step *)

Definition outcome_eqb (a b : outcome) : bool :=
  match a, b with
  | OkNew, OkNew | OkUnit, OkUnit => true
  | Err x, Err y => exn_eqb x y
  | _, _ => false
  end.

Definition obs_ok (w : world) (d : nat * ltable) : bool :=
  let '(i, lt) := d in
  inv_b lt && match get w i with Some t => table_eqb t (abs lt) | None => false end.

(* 0 = agrees, 1 = disagrees, 2 = the history left the model (OutOfModel step) *)
Fixpoint check_steps (w : world) (steps : list stepobs) : nat * world :=
  match steps with
  | [] => (0%nat, w)
  | s :: r =>
      let '(w', out) := step w (so_op s) in
      match out with
      | OutOfModel => (2%nat, w)
      | _ => if outcome_eqb out (so_out s) && so_pyok s && forallb (obs_ok w') (so_dumps s)
             then check_steps w' r else (1%nat, w')
      end
  end.

Definition check_history (steps : list stepobs) (final : list ltable) : nat :=
  let '(c, w) := check_steps w0 steps in
  match c with
  | O => if Nat.eqb (List.length (pool w)) (List.length final)
            && forallb (obs_ok w) (combine (seq 0 (List.length final)) final)
         then 0%nat else 1%nat
  | _ => c
  end.

Definition hist_ok (steps : list stepobs) (final : list ltable) : bool :=
  negb (Nat.eqb (check_history steps final) 1).
Definition hist_in_model (steps : list stepobs) (final : list ltable) : bool :=
  negb (Nat.eqb (check_history steps final) 2).

(* first failing step, for replay diagnostics *)
Fixpoint first_bad (w : world) (steps : list stepobs) (i : nat) : option nat :=
  match steps with
  | [] => None
  | s :: r =>
      let '(w', out) := step w (so_op s) in
      match out with
      | OutOfModel => None
      | _ => if outcome_eqb out (so_out s) && so_pyok s && forallb (obs_ok w') (so_dumps s)
             then first_bad w' r (S i) else Some i
      end
  end.

(* diagnostics for replays: at the first disagreeing step, what Spec expects and what was observed *)
Record diag := { dg_step : nat; dg_spec_out : outcome; dg_obs_out : outcome;
                 dg_tables : list (nat * bool * option table * table) }.   (* index, inv_b, spec table, abs(dump) *)
Fixpoint diagnose (w : world) (steps : list stepobs) (i : nat) : option diag :=
  match steps with
  | [] => None
  | s :: r =>
      let '(w', out) := step w (so_op s) in
      match out with
      | OutOfModel => Some {| dg_step := i; dg_spec_out := out; dg_obs_out := so_out s; dg_tables := [] |}
      | _ => if outcome_eqb out (so_out s) && so_pyok s && forallb (obs_ok w') (so_dumps s)
             then diagnose w' r (S i)
             else Some {| dg_step := i; dg_spec_out := out; dg_obs_out := so_out s;
                          dg_tables := map (fun '(j, lt) => (j, inv_b lt, get w' j, abs lt))
                                           (filter (fun d => negb (obs_ok w' d)) (so_dumps s)) |}
      end
  end.

(* [history agrees; history stayed inside the model] in one evaluation *)
Definition hist_vec (steps : list stepobs) (final : list ltable) : list bool :=
  let c := check_history steps final in [negb (Nat.eqb c 1); negb (Nat.eqb c 2)].
