(* L0 oracle comparators for C17 (pickle, JSON, pandas).  They judge the
   object graphs dumped from the implementation with inv_b/abs of
   Model/LTable.v (hand-written, kernel-free) against Spec/Persist.v.
   Depends on nothing generated. *)
From Coq Require Import ZArith NArith List Bool String.
From DM Require Export Base.PyVal Spec.Nf Spec.Table Model.LTable Spec.Persist.
Import ListNotations.

(* a pair (table on the original side, table on the restored side) after the same operations *)
Definition pair_ok (p : ltable * ltable) : bool :=
  let '(o, r) := p in
  implb (inv_b o) (inv_b r) && restored_like (abs o) (abs r).

(* derived tables are related to their roots in the same way on both sides *)
Definition fam_consistent (root : ltable * ltable) (p : ltable * ltable) : bool :=
  Bool.eqb (Nat.eqb (l_fam (fst p)) (l_fam (fst root))) (Nat.eqb (l_fam (snd p)) (l_fam (snd root))).

(* used: families of every table alive before unpickling; follow: the pairs dumped after each follow-up operation *)
Definition pickle_case (used : list nat) (orig rest : ltable) (follow : list (ltable * ltable)) : bool :=
  pair_ok (orig, rest) && fresh_fam used (abs rest)
  && forallb pair_ok follow
  && forallb (fun p => negb (mem_nat (l_fam (snd p)) used)) follow.

Definition follow_fams (root : ltable * ltable) (l : list (ltable * ltable)) : bool := forallb (fam_consistent root) l.

Definition json_case (used : list nat) (orig rest : ltable) : bool :=
  implb (inv_b orig) (inv_b rest) && json_image_ok (abs orig) (abs rest) && fresh_fam used (abs rest).

Definition text_case (a b : ltable) (same_text : bool) : bool := json_text_ok (abs a) (abs b) same_text.

Definition pandas_case (t : ltable) (frame : list (string * list pcell)) (series : list (string * list pcell)) : bool :=
  pandas_ok (abs t) frame && forallb (fun '(n, ser) => pandas_series_ok (abs t) n ser) series.

(* ====================================================================
   Tables that may hold SeriesColumns (object graph: Model/XTable.v, kernel-free) and the family bookkeeping *)
From DM Require Export Model.XTable.

Definition xpair_ok (p : xtable * xtable) : bool :=
  let '(o, r) := p in
  implb (xinv_b o) (xinv_b r) && xrestored_like (xabs o) (xabs r).

Definition xpickle_case (used : list nat) (orig rest : xtable) (follow : list (xtable * xtable)) : bool :=
  xpair_ok (orig, rest) && fresh_fam used (xs_table (xabs rest))
  && forallb xpair_ok follow
  && forallb (fun p => negb (mem_nat (x_fam (snd p)) used)) follow.

(* relatedness is preserved: two tables of the original side are of one family exactly when their counterparts on
   the restored side are.  `used`: families alive before the case began (each its own counterpart, except the
   family of the original, whose counterpart is the restored table); `roots`: the families handed out afterwards to
   constructed / restored / from_json tables, in order: pairwise different and not in use before *)
Definition rel_iso (l : list (nat * nat)) : bool :=
  forallb (fun p => forallb (fun q => Bool.eqb (Nat.eqb (fst p) (fst q)) (Nat.eqb (snd p) (snd q))) l) l.
Definition fams_case (used roots : list nat) (root : nat * nat) (pairs : list (nat * nat)) : bool :=
  fresh_roots used roots
  && rel_iso (map (fun u => (u, u)) (filter (fun u => negb (Nat.eqb u (fst root))) used) ++ root :: pairs).
Definition xfams (l : list (xtable * xtable)) : list (nat * nat) := map (fun p => (x_fam (fst p), x_fam (snd p))) l.

Definition xjson_case (used : list nat) (orig rest : xtable) : bool :=
  implb (xinv_b orig) (xinv_b rest) && xjson_image_ok (xabs orig) (xabs rest) && fresh_fam used (xs_table (xabs rest)).
Definition xtext_case (a b : xtable) (same_text : bool) : bool := xjson_text_ok (xabs a) (xabs b) same_text.

Definition xpandas_case (t : xtable) (frame : list (string * list xpcell)) (series : list (string * list xpcell)) : bool :=
  xpandas_ok (xabs t) frame && forallb (fun '(n, ser) => xpandas_series_ok (xabs t) n ser) series.
