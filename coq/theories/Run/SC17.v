(* L0 oracle comparators for C17 (pickle, JSON, pandas).  They judge the
   object graphs dumped from the implementation with inv_b/abs of
   Model/LTable.v (hand-written, kernel-free) against Spec/Persist.v.
   Depends on nothing generated. *)
From Coq Require Import ZArith NArith List Bool String.
From DM Require Export Base.PyVal Spec.Nf Spec.Table Model.LTable Spec.Persist.
Import ListNotations.

(* a pair (table on the original side, table on the restored side) after the same operations *)
Definition pair_ok (p : ltable * ltable) : bool :=
  let '(o, r) := p in
  implb (inv_b o) (inv_b r) && restored_like (abs o) (abs r).

(* derived tables are related to their roots in the same way on both sides *)
Definition fam_consistent (root : ltable * ltable) (p : ltable * ltable) : bool :=
  Bool.eqb (Nat.eqb (l_fam (fst p)) (l_fam (fst root))) (Nat.eqb (l_fam (snd p)) (l_fam (snd root))).

(* used: families of every table alive before unpickling; follow: the pairs dumped after each follow-up operation *)
Definition pickle_case (used : list nat) (orig rest : ltable) (follow : list (ltable * ltable)) : bool :=
  pair_ok (orig, rest) && fresh_fam used (abs rest)
  && forallb pair_ok follow
  && forallb (fun p => negb (mem_nat (l_fam (snd p)) used)) follow.

Definition follow_fams (root : ltable * ltable) (l : list (ltable * ltable)) : bool := forallb (fam_consistent root) l.

Definition json_case (used : list nat) (orig rest : ltable) : bool :=
  implb (inv_b orig) (inv_b rest) && json_image_ok (abs orig) (abs rest) && fresh_fam used (abs rest).

Definition text_case (a b : ltable) (same_text : bool) : bool := json_text_ok (abs a) (abs b) same_text.

Definition pandas_case (t : ltable) (frame : list (string * list pcell)) (series : list (string * list pcell)) : bool :=
  pandas_ok (abs t) frame && forallb (fun '(n, ser) => pandas_series_ok (abs t) n ser) series.
