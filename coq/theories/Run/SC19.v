(* L0 oracle for C19 (curry part): depends on nothing generated. *)
From Coq Require Import ZArith List Bool.
Import ListNotations.

Inductive obs := OVal (l : list Z) | OFn | OErr.

Fixpoint zlist_eqb (a b : list Z) : bool :=
  match a, b with
  | [], [] => true
  | x :: a', y :: b' => Z.eqb x y && zlist_eqb a' b'
  | _, _ => false
  end.

Definition nonemptyb {X} (l : list X) : bool := match l with [] => false | _ => true end.

(* what the property promises about applying curry(f) (f of arity n returning
   its argument tuple) successively to `chunks`; silent (true) outside the
   property's quantifier *)
Definition oracle (n : nat) (chunks : list (list Z)) (o : obs) : bool :=
  if forallb nonemptyb chunks && nonemptyb chunks then
    let total := length (concat chunks) in
    if Nat.eqb total n then match o with OVal l => zlist_eqb l (concat chunks) | _ => false end
    else if Nat.ltb total n then match o with OFn => true | _ => false end
    else true
  else true.

(* ---------- map_, filter_, setcol: the implementation's result against Spec/Functional.v.
   The user function is tabulated by the harness on the arguments it was applied to. *)
From Coq Require Import String.
From DM Require Export Base.PyVal Spec.Nf Spec.Table Spec.Functional.

Definition mkc (n : string) (k : kind) (xs : list val) : col := {| cname := n; ckind := k; ccells := xs |}.
Definition mkt (n : nat) (d : kind) (cs : list col) : tab := {| tlen := n; tdflt := d; tcols := cs |}.

Definition kind_eqb (a b : kind) : bool :=
  match a, b with KMixed, KMixed | KFloat, KFloat | KInt, KInt => true | _, _ => false end.
Fixpoint cells_eqv (a b : list val) : bool :=
  match a, b with
  | [], [] => true
  | x :: a', y :: b' => val_eqv x y && cells_eqv a' b'
  | _, _ => false
  end.
Definition col_eqv (a b : col) : bool :=
  String.eqb (cname a) (cname b) && kind_eqb (ckind a) (ckind b) && cells_eqv (ccells a) (ccells b).
(* same columns by name (the order of the column dict is not part of the claim), same kinds, cells equal as Python values *)
Definition tab_eqv (a b : tab) : bool :=
  Nat.eqb (tlen a) (tlen b) && Nat.eqb (List.length (tcols a)) (List.length (tcols b)) &&
  forallb (fun c => match find_col (cname c) (tcols b) with Some c' => col_eqv c c' | None => false end) (tcols a).
(* type and cells of a detached column *)
Definition dcol_eqv (a b : col) : bool := kind_eqb (ckind a) (ckind b) && cells_eqv (ccells a) (ccells b).

Fixpoint row_same (a b : row) : bool :=
  match a, b with
  | [], [] => true
  | (n, x) :: a', (m, y) :: b' => String.eqb n m && val_same x y && row_same a' b'
  | _, _ => false
  end.
Fixpoint assoc_by {K V} (eqb : K -> K -> bool) (k : K) (l : list (K * V)) : option V :=
  match l with [] => None | (k', v) :: r => if eqb k k' then Some v else assoc_by eqb k r end.

(* a row the function was never applied to yields a value no column accepts, so the comparison fails *)
Definition unseen : upd := [("__unseen__"%string, POther)].
Definition tab_rowfun (tbl : list (row * upd)) (r : row) : upd :=
  match assoc_by row_same r tbl with Some u => u | None => unseen end.
Definition tab_rowpred (tbl : list (row * bool)) (r : row) : bool :=
  match assoc_by row_same r tbl with Some b => b | None => false end.
Definition tab_cellfun (tbl : list (val * pyv)) (x : val) : pyv :=
  match assoc_by val_same x tbl with Some u => u | None => POther end.
Definition tab_cellpred (tbl : list (val * bool)) (x : val) : bool :=
  match assoc_by val_same x tbl with Some b => b | None => false end.

Definition res_tab_ok (spec obs : res tab) : bool :=
  match spec, obs with
  | Ok a, Ok b => tab_eqv a b
  | Raise _, Raise _ => true
  | _, _ => false
  end.
Definition oracle_map_dm (tbl : list (row * upd)) (t : tab) (obs : res tab) : bool :=
  res_tab_ok (map_dm (tab_rowfun tbl) t) obs.
Definition oracle_filter_dm (tbl : list (row * bool)) (t : tab) (obs : res tab) : bool :=
  forallb (fun j => match assoc_by row_same (read_row t j) tbl with Some _ => true | None => false end) (seq 0 (tlen t)) &&
  res_tab_ok (Ok (filter_dm (tab_rowpred tbl) t)) obs.
Definition oracle_setcol (t : tab) (n : string) (v : cvalue) (obs : res tab) : bool :=
  res_tab_ok (setcol t n v) obs.
Definition oracle_map_col (tbl : list (val * pyv)) (c : col) (obs : res col) : bool :=
  match map_col (tab_cellfun tbl) c, obs with
  | Ok a, Ok b => dcol_eqv a b
  | Raise OtherError, _ => true                    (* outside what the spec speaks about *)
  | Raise _, Raise _ => true
  | _, _ => false
  end.
Definition oracle_filter_col (tbl : list (val * bool)) (c : col) (obs : res col) : bool :=
  forallb (fun x => match assoc_by val_same x tbl with Some _ => true | None => false end) (ccells c) &&
  match obs with Ok b => dcol_eqv (filter_col (tab_cellpred tbl) c) b | Raise _ => false end.
