(* L0 oracle for C19 (curry part): depends on nothing generated. *)
From Coq Require Import ZArith List Bool.
Import ListNotations.

Inductive obs := OVal (l : list Z) | OFn | OErr.

Fixpoint zlist_eqb (a b : list Z) : bool :=
  match a, b with
  | [], [] => true
  | x :: a', y :: b' => Z.eqb x y && zlist_eqb a' b'
  | _, _ => false
  end.

Definition nonemptyb {X} (l : list X) : bool := match l with [] => false | _ => true end.

(* what the property promises about applying curry(f) (f of arity n returning
   its argument tuple) successively to `chunks`; silent (true) outside the
   property's quantifier *)
Definition oracle (n : nat) (chunks : list (list Z)) (o : obs) : bool :=
  if forallb nonemptyb chunks && nonemptyb chunks then
    let total := length (concat chunks) in
    if Nat.eqb total n then match o with OVal l => zlist_eqb l (concat chunks) | _ => false end
    else if Nat.ltb total n then match o with OFn => true | _ => false end
    else true
  else true.
