(* L0 oracle for C12: the implementation's observed statistics against Spec/Stats.v.  Nothing generated.
   Per statistic the harness passes: ref = its own exact (Fraction) evaluation of the textbook formula, which
   must EQUAL the L0 rational computed here (so the tolerance comparison the harness makes on the Python side is a
   comparison with the L0 value); impl = the float the implementation returned; a mode (below) saying how impl is
   compared with the L0 rational here. *)
From Coq Require Import ZArith QArith Qcanon List Bool String.
From DM Require Export Base.PyVal Base.QcPy Spec.Stats.
Import ListNotations.

Inductive claim := CNan | CVal (q : Qc).

Definition oq_eqb (a b : option Qc) : bool :=
  match a, b with Some x, Some y => Qceqb x y | None, None => true | _, _ => false end.
Definition fl_nonneg (f : fl) : bool := match f with FZero _ | FFin false _ _ => true | _ => false end.
Definition fl_is_zero (f : fl) : bool := match f with FZero _ => true | _ => false end.

(* exact comparison of the returned float with the L0 rational; for Var the float is the standard deviation *)
Definition exact_ok (s : stat) (q : Qc) (impl : fl) : bool :=
  match s with
  | Var => fl_nonneg impl && match fl_q impl with Some x => Qceqb (x * x)%Qc q | None => false end
  | _ => oq_eqb (fl_q impl) (Some q)
  end.

(* cells are xcell (Spec/Stats.v): what the column holds, whatever type it was stored with *)
(* how the returned float is compared with the rational q (decided by the harness from the input only):
   MExact: every floating-point operation is exact on this input: equal.
   MHalfUlp: the result is one correctly rounded operation on exactly computed operands: q lies within half a unit
   in the last place of the returned float x = m * 2^e (m odd), i.e. |x - q| <= 2^(log2 m + e - 53).
   MFinite: finite; the tolerance comparison is made on the Python side against ref, which is checked equal to q. *)
Inductive mode := MExact | MHalfUlp | MFinite.
Definition half_ulp_ok (q : Qc) (impl : fl) : bool :=
  match impl with
  | FZero _ => Qceqb q 0%Qc
  | FFin _ m e =>
      match fl_q impl with
      | Some x => let h := dy_q (1, Z.log2 (Z.pos m) + e - 53)%Z in Qcleb (x - q)%Qc h && Qcleb (q - x)%Qc h
      | None => false
      end
  | _ => false
  end.
Definition mode_ok (md : mode) (s : stat) (q : Qc) (impl : fl) : bool :=
  match md with
  | MExact => exact_ok s q impl
  | MHalfUlp => match s with Var => false | _ => half_ulp_ok q impl end
  | MFinite => true
  end.

Definition stat_ok (s : stat) (cells : list xcell) (ref : claim) (impl : fl) (md : mode) : bool :=
  if xin_scope cells then
    match xcol_stat s cells with
    | None => fl_is_nan impl && match ref with CNan => true | _ => false end
    | Some q =>
        match s, xnums cells with
        | Sum, [] => fl_is_nan impl || fl_is_zero impl        (* left open by the property text *)
        | _, _ =>
            match ref with CVal r => Qceqb r q | CNan => false end
            && fl_is_finite impl && mode_ok md s q impl
        end
    end
  else true.

Definition ob := (stat * claim * fl * mode)%type.
Definition oracle (cells : list xcell) (obs : list ob) (u : list xcell) (cnt : Z) : bool :=
  forallb (fun o : ob => let '(s, r, x, e) := o in stat_ok s cells r x e) obs
  && xunique_ok cells u && (cnt =? zlen u)%Z.
(* a column read several times with modifications in between: every reading describes the cells held at that time *)
Definition reading := (list xcell * list ob * list xcell * Z)%type.
Definition oracle_seq (rs : list reading) : bool :=
  forallb (fun r : reading => let '(cells, obs, u, cnt) := r in oracle cells obs u cnt) rs.
