(* L0 oracle for C12: the implementation's observed statistics against Spec/Stats.v.  Nothing generated.
   Per statistic the harness passes: ref = its own exact (Fraction) evaluation of the textbook formula, which
   must EQUAL the L0 rational computed here (so the tolerance comparison the harness makes on the Python side is a
   comparison with the L0 value); impl = the float the implementation returned; exact = true when every
   floating-point operation involved is exact on this input, in which case impl is compared exactly here. *)
From Coq Require Import ZArith QArith Qcanon List Bool String.
From DM Require Export Base.PyVal Base.QcPy Spec.Stats.
Import ListNotations.

Inductive claim := CNan | CVal (q : Qc).

Definition oq_eqb (a b : option Qc) : bool :=
  match a, b with Some x, Some y => Qceqb x y | None, None => true | _, _ => false end.
Definition fl_nonneg (f : fl) : bool := match f with FZero _ | FFin false _ _ => true | _ => false end.
Definition fl_is_zero (f : fl) : bool := match f with FZero _ => true | _ => false end.

(* exact comparison of the returned float with the L0 rational; for Var the float is the standard deviation *)
Definition exact_ok (s : stat) (q : Qc) (impl : fl) : bool :=
  match s with
  | Var => fl_nonneg impl && match fl_q impl with Some x => Qceqb (x * x)%Qc q | None => false end
  | _ => oq_eqb (fl_q impl) (Some q)
  end.

Definition stat_ok (s : stat) (cells : list val) (ref : claim) (impl : fl) (exact : bool) : bool :=
  if in_scope cells then
    match col_stat s cells with
    | None => fl_is_nan impl && match ref with CNan => true | _ => false end
    | Some q =>
        match s, nums cells with
        | Sum, [] => fl_is_nan impl || fl_is_zero impl        (* left open by the property text *)
        | _, _ =>
            match ref with CVal r => Qceqb r q | CNan => false end
            && fl_is_finite impl && (if exact then exact_ok s q impl else true)
        end
    end
  else true.

Definition ob := (stat * claim * fl * bool)%type.
Definition oracle (cells : list val) (obs : list ob) (u : list val) (cnt : Z) : bool :=
  forallb (fun o : ob => let '(s, r, x, e) := o in stat_ok s cells r x e) obs
  && unique_ok cells u && (cnt =? zlen u)%Z.
