(* L0 oracle for C15: the implementation's observed behaviour against Spec/OpsMisc.v.
   Depends on nothing generated. Silent (true) outside the property's quantifier. *)
From Coq Require Import ZArith QArith List Bool String.
From DM Require Export Base.PyVal Spec.Nf Spec.OpsMisc.
Import ListNotations.
Open Scope Z_scope.

Inductive obs := OTbl (t : tbl) | OCol (k : kind) (cs : list val) | OExn (e : exn).

Definition kind_eqb (a b : kind) : bool :=
  match a, b with KMixed, KMixed | KFloat, KFloat | KInt, KInt => true | _, _ => false end.
Fixpoint forall2b {A B} (f : A -> B -> bool) (a : list A) (b : list B) : bool :=
  match a, b with
  | [], [] => true
  | x :: a', y :: b' => f x y && forall2b f a' b'
  | _, _ => false
  end.
Definition cells_same (a b : list val) : bool := forall2b val_same a b.
Definition col_same (a b : col) : bool :=
  String.eqb (cname a) (cname b) && kind_eqb (ckind a) (ckind b) && cells_same (cells a) (cells b).
Definition tbl_same (a b : tbl) : bool := Nat.eqb (tlen a) (tlen b) && forall2b col_same (tcols a) (tcols b).

(* multiset equality of row lists *)
Fixpoint remove_row (r : list val) (l : list (list val)) : option (list (list val)) :=
  match l with
  | [] => None
  | x :: l' => if cells_same r x then Some l'
               else match remove_row r l' with Some l'' => Some (x :: l'') | None => None end
  end.
Fixpoint perm_b (a b : list (list val)) : bool :=
  match a with
  | [] => match b with [] => true | _ => false end
  | r :: a' => match remove_row r b with Some b' => perm_b a' b' | None => false end
  end.

(* ---- weight: defined for non-empty well-formed tables *)
Definition weight_oracle (t : tbl) (wname : string) (o : obs) : bool :=
  match find_col wname (tcols t) with
  | None => true
  | Some wc =>
      if negb (wf_b t) || Nat.eqb (tlen t) 0 then true else
      match weight_spec t (cells wc), o with
      | Ok t', OTbl r => tbl_same t' r
      | Raise e, OExn e' => exn_eqb e e'
      | _, _ => false
      end
  end.

(* ---- fullfactorial: designs of at least one column, MixedColumns only *)
Definition all_mixed_b (t : tbl) : bool :=
  forallb (fun c => kind_eqb (ckind c) KMixed) (tcols t).
Definition ff_oracle (ig : val) (t : tbl) (o : obs) : bool :=
  match tcols t with
  | [] => true
  | _ =>
      if negb (wf_b t && all_mixed_b t) then true else
      match o with
      | OTbl r =>
          wf_b r && all_mixed_b r
          && forall2b String.eqb (map cname (tcols t)) (map cname (tcols r))
          && perm_b (trows r) (fullfactorial_rows ig t)
      | _ => false
      end
  end.

(* ---- _fullfact: every index tuple of the product exactly once *)
Fixpoint zlist_eqb (a b : list Z) : bool :=
  match a, b with
  | [], [] => true
  | x :: a', y :: b' => Z.eqb x y && zlist_eqb a' b'
  | _, _ => false
  end.
Fixpoint nodup_rows (l : list (list Z)) : bool :=
  match l with [] => true | r :: l' => negb (existsb (zlist_eqb r) l') && nodup_rows l' end.
Definition in_range_row (levels r : list Z) : bool :=
  forall2b (fun x l => (0 <=? x) && (x <? l)) r levels.
Definition fullfact_oracle (levels : list Z) (h : list (list Z)) : bool :=
  Z.eqb (Z.of_nat (List.length h)) (fold_right Z.mul 1 levels)
  && nodup_rows h && forallb (in_range_row levels) h.

(* ---- replace: mappings whose keys and stored values are disjoint *)
Definition numeric_value (v : pyv) : bool := match pyv_num v with Some _ => true | None => false end.
Definition replace_oracle (kd : kind) (m : list (pyv * pyv)) (cs : list val) (o : obs) : bool :=
  if negb (disjoint_b kd m) then true else
  match kd with
  | KMixed =>
      match replace_spec kd m cs, o with
      | Ok out, OCol k' cs' => kind_eqb kd k' && cells_same out cs'
      | Raise e, OExn e' => exn_eqb e e'
      | _, _ => false
      end
  | _ =>
      (* values are numbers; any key: one that is no number equals no cell (unchanged copy, no exception);
         a NaN key that is not a Python float (numpy.float32) is outside the claim *)
      if negb (forallb (fun kv => (negb (pyv_is_nan (fst kv)) || is_float (fst kv)) && numeric_value (snd kv)
                                  && match nf kd (snd kv) with Ok _ => true | Raise _ => false end) m) then true else
      match replace_spec kd m cs, o with
      | Ok out, OCol k' cs' => kind_eqb kd k' && cells_same out cs'
      | Ok _, _ => false
      | Raise _, _ => true
      end
  end.

(* ---- keep_only / dm[name, ...] with the requested names (column objects resolved to their name) *)
Definition keep_oracle (t : tbl) (names : list string) (o : obs) : bool :=
  match o with OTbl r => tbl_same (keep_spec t names) r | _ => false end.

(* the same by identity: ids = the object holding each column of t, args = names / column objects of t itself;
   the result has all rows and exactly the columns named or passed *)
Definition keep_id_oracle (t : tbl) (ids : list nat) (args : list oarg) (o : obs) : bool :=
  match o with OTbl r => tbl_same (keep_by_identity t ids args) r | _ => false end.

(* ---- z: shape only (mean 0 / std 1 are checked with a tolerance on the Python side) *)
Definition z_oracle (kd : kind) (cs : list val) (o : obs) : bool :=
  (* z scores of an IntColumn are returned as a FloatColumn *)
  match o with OCol k' out => kind_eqb (match kd with KInt => KFloat | _ => kd end) k' && z_shape cs out | _ => false end.

(* ---- the source is not modified *)
Definition unchanged (before after : tbl) : bool := tbl_same before after.
