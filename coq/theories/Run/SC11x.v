(* L0 oracle for the column variants of C11 (ops.shuffle / ops.random_sample on a column, ops.shuffle_horiz):
   the implementation's dumped source (before and after), result and follow-up observations are judged against
   Spec/ShuffleCol.v.  The permutation(s) / the choice made by `random` are read off the result HERE and validated
   by the spec functions.  Depends on nothing generated. *)
From Coq Require Import ZArith NArith List Bool String.
From DM Require Export Run.SCore Spec.ShuffleCol Model.ShuffleColAbs.
Import ListNotations.

(* ---------- reading a permutation off a rearranged list: for every result cell the first not yet used source
   position holding an equal value (complete: equality of cells is an equivalence) ---------- *)
Fixpoint first_unused (x : val) (cells : list val) (used : list nat) (i : nat) : option nat :=
  match cells with
  | [] => None
  | c :: r => if val_eqv c x && negb (mem_nat i used) then Some i else first_unused x r used (S i)
  end.
Fixpoint read_perm (src res : list val) (used : list nat) : option (list nat) :=
  match res with
  | [] => Some []
  | x :: r => match first_unused x src used 0 with
              | Some p => match read_perm src r (p :: used) with Some ps => Some (p :: ps) | None => None end
              | None => None
              end
  end.

(* ---------- observations ---------- *)
Record follow := { fo_cmp : cmpop; fo_ref : val;
                   fo_sel : option ltable;            (* result == ref (etc.): the selected DataMatrix; None: it raised *)
                   fo_read : option (list val) }.     (* result[selection] *)
Record colobs := { co_src : ltable; co_after : ltable;  (* the DataMatrix before and after the operation *)
                   co_name : string;
                   co_k : option Z;                    (* None: shuffle;  Some k: random_sample(col, k) *)
                   co_res : res lcol;
                   co_follow : option follow;
                   co_assign : option (string * res ltable) }.    (* dm[name] = result: outcome, the DataMatrix afterwards *)

Definition follow_ok (t : table) (c : column) (f : follow) : bool :=
  match fo_sel f, fo_read f with
  | Some sel, Some cells =>
      inv_b sel
      && match select_by (fun cell => py_cmp (fo_cmp f) cell (fo_ref f)) c t with
         | Some e => table_eqb e (abs sel)
         | None => false
         end
      && match read_rows c (ia (l_rowid sel)) with
         | Some e => list_eqb val_eqv e cells
         | None => false
         end
  | _, _ => false
  end.

Definition assign_ok (t : table) (c : column) (a : string * res ltable) : bool :=
  match assign_col t (fst a) c, snd a with
  | Ok e, Ok d => inv_b d && table_eqb e (abs d)
  | Raise e, Raise e' => exn_eqb e e'
  | _, _ => false
  end.

Definition after_ok (t : table) (c : column) (o : colobs) : bool :=
  match co_follow o with Some f => follow_ok t c f | None => true end
  && match co_assign o with Some a => assign_ok t c a | None => true end.

Definition source_untouched (src after : ltable) : bool :=
  inv_b src && inv_b after && table_eqb (abs src) (abs after).

(* The theorems assume inv_b of the source.  A source that does not satisfy it was produced by an earlier step of
   the history on which the L0 model answers OutOfModel (e.g. a merge of same-named columns of different types);
   how it was reached is judged step by step by the history check (Run/SCore.v), and the case counts as one that
   left the model here: [holds or vacuous; stayed inside the model]. *)
Definition guarded (src : ltable) (b : bool) : list bool := [negb (inv_b src) || b; inv_b src].

Definition col_oracle (o : colobs) : bool :=
  source_untouched (co_src o) (co_after o)
  && let t := abs (co_src o) in
     match col_of t (co_name o) with
     | None => false
     | Some c =>
         match co_k o, co_res o with
         | None, Ok r =>
             lcol_wf r
             && match read_perm (c_cells c) (lc_cells r) [] with
                | Some perm => match shuffle_col perm c with
                               | Ok c' => column_eqb c' (abs_col r) && after_ok t c' o
                               | Raise _ => false
                               end
                | None => false
                end
         | None, Raise _ => false                        (* a shuffle has nothing to refuse *)
         | Some k, Ok r =>
             lcol_wf r
             && match all_some (map (fun x => pos_of x (c_ids c)) (ia (lc_rowid r))) with
                | Some choice => match sample_col k choice c with
                                 | Ok c' => column_eqb c' (abs_col r) && after_ok t c' o
                                 | Raise _ => false
                                 end
                | None => false
                end
         | Some k, Raise e =>
             match sample_col k [] c with
             | Raise ValueError => exn_eqb e ValueError
             | _ => false
             end
         end
     end.

(* ---------- shuffle_horiz ---------- *)
Record horizobs := { ho_src : ltable; ho_after : ltable; ho_args : list harg; ho_res : res ltable }.

Fixpoint insert_all (x : nat) (l : list nat) : list (list nat) :=
  match l with
  | [] => [[x]]
  | y :: r => (x :: l) :: map (cons y) (insert_all x r)
  end.
Fixpoint perms_of (l : list nat) : list (list nat) :=
  match l with [] => [[]] | x :: r => flat_map (insert_all x) (perms_of r) end.

(* the chosen columns (canonical order), their kinds and the source rows restricted to them *)
Definition horiz_frame (t : table) (args : list harg) : option (list string * list kind * list (list val)) :=
  match chosen_names t args with
  | Raise _ => None
  | Ok ns =>
      let order := chosen_order t ns in
      match all_some (map (slot_of t) order) with
      | None => None
      | Some ss => Some (order, map skind ss, map (fun i => row_at i (map scells ss)) (seq 0 (nrows t)))
      end
  end.

(* per row a permutation that explains the result row, if there is one *)
Definition find_hperms (t : table) (args : list harg) (r : table) : option (list (list nat)) :=
  match horiz_frame t args with
  | None => Some []
  | Some (order, kinds, rows) =>
      let cands := perms_of (seq 0 (List.length order)) in
      all_some (map (fun '(i, row) =>
                       find (fun p => match hrow kinds p row with
                                      | Ok x => list_eqb val_eqv x (trow r order i)
                                      | Raise _ => false
                                      end) cands)
                    (combine (seq 0 (List.length rows)) rows))
  end.

(* the exception classes the operation may raise on these arguments: the argument check / the naming decide
   themselves; a coercion refusal (TypeError) depends on the permutation, so one must exist that meets it *)
Definition horiz_may_raise (t : table) (args : list harg) (e : exn) : bool :=
  match chosen_names t args with
  | Raise e' => exn_eqb e e' && negb (exn_eqb e' OtherError)
  | Ok _ =>
      match horiz_frame t args with
      | None => false
      | Some (order, kinds, rows) =>
          exn_eqb e TypeError
          && existsb (fun row => existsb (fun p => match hrow kinds p row with Raise TypeError => true | _ => false end)
                                         (perms_of (seq 0 (List.length order)))) rows
      end
  end.

Definition horiz_oracle (o : horizobs) : bool :=
  source_untouched (ho_src o) (ho_after o)
  && let t := abs (ho_src o) in
     match ho_res o with
     | Ok r =>
         inv_b r
         && match find_hperms t (ho_args o) (abs r) with
            | Some perms => match shuffle_horiz t (ho_args o) perms with
                            | Ok e => table_eqb e (abs r)
                            | Raise _ => false
                            end
            | None => false
            end
     | Raise e => horiz_may_raise t (ho_args o) e
     end.

Definition col_vec (o : colobs) : list bool := guarded (co_src o) (col_oracle o).
Definition horiz_vec (o : horizobs) : list bool := guarded (ho_src o) (horiz_oracle o).
