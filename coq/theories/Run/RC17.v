(* L1 model comparators for C17: Model/Persist.v (with the regenerated
   kernels) run on the dumped original must agree with what the
   implementation produced. *)
From Coq Require Import ZArith NArith List Bool String.
From DM Require Export Base.PyVal Base.PersistPy Spec.Nf Spec.Table Model.LTable Spec.Persist Gen.KPersist Model.Persist.
Import ListNotations.
Open Scope string_scope.

Definition strs_eqb := list_eqb String.eqb.
Definition sort_strs (l : list string) : list string := map fst (sort_key (map (fun s => (s, tt)) l)).

(* the attribute names read from live objects are the ones the model's dictionaries have *)
Definition attrs_ok (dm_live index_live mixed_live float_live int_live : list string) : bool :=
  strs_eqb (sort_strs dm_live) (sort_strs dm_attr_names)
  && strs_eqb (sort_strs index_live) (sort_strs index_attr_names)
  && (match mixed_live with [] => true | _ => strs_eqb (sort_strs mixed_live) (sort_strs (col_attr_names KMixed)) end)
  && (match float_live with [] => true | _ => strs_eqb (sort_strs float_live) (sort_strs (col_attr_names KFloat)) end)
  && (match int_live with [] => true | _ => strs_eqb (sort_strs int_live) (sort_strs (col_attr_names KInt)) end).

(* the key lists returned by the live __getstate__ calls are the model's *)
Definition keys_ok (t : ltable) (dm_keys index_keys : list string) (col_keys : list (list string)) : bool :=
  strs_eqb (fst (dm_getstate t)) dm_keys
  && strs_eqb (fst (index_getstate (l_rowid t))) index_keys
  && list_eqb strs_eqb (map (fun c => fst (cs_state (col_getstate c))) (l_cols t)) col_keys.

Definition lt_agree (m r : ltable) : bool :=
  table_eqb (abs m) (abs r) && Bool.eqb (inv_b m) (inv_b r).

Definition m_pickle (orig rest : ltable) : bool :=
  match unpickle (l_fam rest) orig with
  | Some (m, n') => lt_agree m rest && Nat.ltb (l_fam rest) n'
  | None => false
  end.

Definition jcol_same (a b : jcol) : bool :=
  String.eqb (fst a) (fst b) && String.eqb (fst (snd a)) (fst (snd b)) && list_eqb val_same (snd (snd a)) (snd (snd b)).
Definition jdoc_same (a b : jdoc) : bool := ids_eqb (fst a) (fst b) && list_eqb jcol_same (snd a) (snd b).

(* the document parsed back from the implementation's text is the model's document *)
Definition m_json_doc (t : ltable) (obs : jdoc) : bool := jdoc_same (json_doc t) obs.
(* from_json, with the identity as dumps/loads *)
Definition m_from_json (orig rest : ltable) : bool :=
  match from_json jdoc (fun d => d) (l_fam rest) (to_json jdoc (fun d => d) orig) with
  | Some m => lt_agree m rest
  | None => false
  end.
(* equal text exactly when the documents are identical *)
Definition m_text (a b : ltable) (same_text : bool) : bool := Bool.eqb same_text (jdoc_same (json_doc a) (json_doc b)).

Fixpoint payload_ok (p : list (string * list val)) (frame : list (string * list pcell)) : bool :=
  match p, frame with
  | [], [] => true
  | (n, c) :: p', (m, ps) :: f' => String.eqb n m && cells_ok c ps && payload_ok p' f'
  | _, _ => false
  end.
Definition m_pandas (t : ltable) (frame : list (string * list pcell)) : bool := payload_ok (pandas_payload t) frame.

(* ====================================================================
   Tables that may hold SeriesColumns, and the id counter *)
From DM Require Export Model.XTable Model.PersistSeries.

(* the counter values read from the running module around a restore / a construction / a mutation are what the
   regenerated kernels compute *)
Definition zpair_eqb (a b : Z * Z) : bool := Z.eqb (fst a) (fst b) && Z.eqb (snd a) (snd b).
Definition m_ids_restore (c0 own c1 : Z) : bool := zpair_eqb (k_setstate_ids c0) (own, c1).
Definition m_ids_new (c0 own c1 : Z) : bool := zpair_eqb (k_init_ids c0) (own, c1).
Definition m_ids_mutate (own0 c0 own c1 : Z) : bool := zpair_eqb (k_mutate_ids own0 c0) (own, c1).
Definition m_id_start (c : Z) : bool := Z.leb k_id_start c.

Definition xattrs_ok (dm_live index_live mixed_live float_live int_live ser_live : list string) : bool :=
  attrs_ok dm_live index_live mixed_live float_live int_live
  && (match ser_live with [] => true | _ => strs_eqb (sort_strs ser_live) (sort_strs ser_attr_names) end).
Definition xkeys_ok (x : xtable) (dm_keys index_keys : list string) (col_keys : list (list string)) : bool :=
  strs_eqb (fst (xdm_getstate x)) dm_keys
  && strs_eqb (fst (index_getstate (x_rowid x))) index_keys
  && list_eqb strs_eqb (map (fun c => match xcol_getstate c with XcP s => fst (cs_state s) | XcS s => fst s end) (x_cols x)) col_keys.

Definition rows_same (a b : list (list fl)) : bool := list_eqb (list_eqb fl_same) a b.
Definition payload_same (a b : option (nat * bool * list (list fl))) : bool :=
  match a, b with
  | None, None => true
  | Some (d, f, r), Some (e, g, q) => Nat.eqb d e && Bool.eqb f g && rows_same r q
  | _, _ => false
  end.
Definition xt_agree (m r : xtable) : bool :=
  table_eqb (abs (shadow m)) (abs (shadow r)) && Bool.eqb (xinv_b m) (xinv_b r)
  && list_eqb payload_same (map ser_payload (x_cols m)) (map ser_payload (x_cols r)).

(* the family numbers in the dumps are the harness' own numbering: the restored table is compared up to its family
   here, and the family is tied through m_ids_restore on the real counter values *)
Definition with_xfam (f : nat) (x : xtable) : xtable :=
  {| x_fam := f; x_rowid := x_rowid x; x_names := x_names x; x_cols := x_cols x; x_sorted := x_sorted x; x_dflt := x_dflt x |}.
Definition m_xpickle (orig rest : xtable) : bool :=
  match unpickle_x 0 orig with
  | Some (m, _) => xt_agree (with_xfam (x_fam rest) m) rest
  | None => false
  end.

Definition xjpay_same (a b : xjpay) : bool :=
  match a, b with
  | JList c, JList d => list_eqb val_same c d
  | JArr r c rows, JArr r' c' rows' => Nat.eqb r r' && Nat.eqb c c' && rows_same rows rows'
  | _, _ => false
  end.
Definition xjcol_same (a b : xjcol) : bool :=
  String.eqb (fst a) (fst b) && String.eqb (fst (snd a)) (fst (snd b)) && xjpay_same (snd (snd a)) (snd (snd b)).
Definition xjdoc_same (a b : xjdoc) : bool := ids_eqb (fst a) (fst b) && list_eqb xjcol_same (snd a) (snd b).
Definition m_xjson_doc (x : xtable) (obs : xjdoc) : bool := xjdoc_same (json_doc_x x) obs.
Definition m_xfrom_json (orig rest : xtable) : bool :=
  match from_json_x xjdoc (fun d => d) (x_fam rest) (to_json_x xjdoc (fun d => d) orig) with
  | Some m => xt_agree m rest
  | None => false
  end.
Definition m_xtext (a b : xtable) (same_text : bool) : bool := Bool.eqb same_text (xjdoc_same (json_doc_x a) (json_doc_x b)).

(* the cells handed to pandas, against what is read back from the frame *)
Definition is_text (p : xpcell) : bool := match p with XCell (PText _) => true | _ => false end.
Definition pcells_ok (c : pcells) (ps : list xpcell) : bool :=
  match c with
  | PcVals l => xcells_ok l ps
  | PcRows rows => rows_ok rows ps
  | PcText n => Nat.eqb (List.length ps) n && forallb is_text ps
  end.
Fixpoint xpayload_ok (p : list (string * pcells)) (frame : list (string * list xpcell)) : bool :=
  match p, frame with
  | [], [] => true
  | (n, c) :: p', (m, ps) :: f' => String.eqb n m && pcells_ok c ps && xpayload_ok p' f'
  | _, _ => false
  end.
Definition m_xpandas (x : xtable) (frame : list (string * list xpcell)) (series : list (string * list xpcell)) : bool :=
  xpayload_ok (pandas_payload_x x) frame
  && forallb (fun '(n, ser) => match lookup n (x_names x) with
                               | Some i => match nth_error (x_cols x) i with
                                           | Some c => pcells_ok (pandas_series_x c) ser
                                           | None => false
                                           end
                               | None => false
                               end) series.
