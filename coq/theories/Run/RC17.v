(* L1 model comparators for C17: Model/Persist.v (with the regenerated
   kernels) run on the dumped original must agree with what the
   implementation produced. *)
From Coq Require Import ZArith NArith List Bool String.
From DM Require Export Base.PyVal Base.PersistPy Spec.Nf Spec.Table Model.LTable Spec.Persist Gen.KPersist Model.Persist.
Import ListNotations.
Open Scope string_scope.

Definition strs_eqb := list_eqb String.eqb.
Definition sort_strs (l : list string) : list string := map fst (sort_key (map (fun s => (s, tt)) l)).

(* the attribute names read from live objects are the ones the model's dictionaries have *)
Definition attrs_ok (dm_live index_live mixed_live float_live int_live : list string) : bool :=
  strs_eqb (sort_strs dm_live) (sort_strs dm_attr_names)
  && strs_eqb (sort_strs index_live) (sort_strs index_attr_names)
  && (match mixed_live with [] => true | _ => strs_eqb (sort_strs mixed_live) (sort_strs (col_attr_names KMixed)) end)
  && (match float_live with [] => true | _ => strs_eqb (sort_strs float_live) (sort_strs (col_attr_names KFloat)) end)
  && (match int_live with [] => true | _ => strs_eqb (sort_strs int_live) (sort_strs (col_attr_names KInt)) end).

(* the key lists returned by the live __getstate__ calls are the model's *)
Definition keys_ok (t : ltable) (dm_keys index_keys : list string) (col_keys : list (list string)) : bool :=
  strs_eqb (fst (dm_getstate t)) dm_keys
  && strs_eqb (fst (index_getstate (l_rowid t))) index_keys
  && list_eqb strs_eqb (map (fun c => fst (cs_state (col_getstate c))) (l_cols t)) col_keys.

Definition lt_agree (m r : ltable) : bool :=
  table_eqb (abs m) (abs r) && Bool.eqb (inv_b m) (inv_b r).

Definition m_pickle (orig rest : ltable) : bool :=
  match unpickle (l_fam rest) orig with
  | Some (m, n') => lt_agree m rest && Nat.ltb (l_fam rest) n'
  | None => false
  end.

Definition jcol_same (a b : jcol) : bool :=
  String.eqb (fst a) (fst b) && String.eqb (fst (snd a)) (fst (snd b)) && list_eqb val_same (snd (snd a)) (snd (snd b)).
Definition jdoc_same (a b : jdoc) : bool := ids_eqb (fst a) (fst b) && list_eqb jcol_same (snd a) (snd b).

(* the document parsed back from the implementation's text is the model's document *)
Definition m_json_doc (t : ltable) (obs : jdoc) : bool := jdoc_same (json_doc t) obs.
(* from_json, with the identity as dumps/loads *)
Definition m_from_json (orig rest : ltable) : bool :=
  match from_json jdoc (fun d => d) (l_fam rest) (to_json jdoc (fun d => d) orig) with
  | Some m => lt_agree m rest
  | None => false
  end.
(* equal text exactly when the documents are identical *)
Definition m_text (a b : ltable) (same_text : bool) : bool := Bool.eqb same_text (jdoc_same (json_doc a) (json_doc b)).

Fixpoint payload_ok (p : list (string * list val)) (frame : list (string * list pcell)) : bool :=
  match p, frame with
  | [], [] => true
  | (n, c) :: p', (m, ps) :: f' => String.eqb n m && cells_ok c ps && payload_ok p' f'
  | _, _ => false
  end.
Definition m_pandas (t : ltable) (frame : list (string * list pcell)) : bool := payload_ok (pandas_payload t) frame.
