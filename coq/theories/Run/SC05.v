(* L0 oracle for C05: observed stored cell (or exception) vs. the normal form of the property text *)
From Coq Require Import ZArith List Bool String.
From DM Require Export Base.PyVal Spec.Nf.

Definition oracle (k : kind) (v : pyv) (observed : res val) : bool := res_eqv (nf k v) observed.

(* a cell taken from a column of kind k2 (where v was stored first) and assigned to a column of kind k *)
Definition oracle_from (k k2 : kind) (v : pyv) (observed : res val) : bool :=
  match nf k2 v with
  | Ok x => res_eqv (nf k (pyv_of_val x)) observed
  | Raise _ => true
  end.

(* a column object (of kind k2, handing out the cell v) as value.  setform: dm.name = column / dm[name] = column,
   where the column takes the type of the value; otherwise the target keeps its kind k.  kobs = the kind of the
   column after the write (only judged when the write succeeded). *)
Definition kind_same (a b : kind) : bool :=
  match a, b with KMixed, KMixed | KFloat, KFloat | KInt, KInt => true | _, _ => false end.
Definition oracle_colval (setform : bool) (k k2 kobs : kind) (v : pyv) (observed : res val) : bool :=
  let kexp := if setform then k2 else k in
  res_eqv (nf kexp v) observed && match observed with Ok _ => kind_same kobs kexp | Raise _ => true end.

(* a scalar written through a form that addresses NO cell (empty selection / slice / index list, zero-row table):
   the L0 right-hand side (Spec/Table.rhs_cells with n = 0) still evaluates the coercion of the scalar, so the
   write raises exactly when the normal form raises.  observed = None: accepted; Some e: e was raised. *)
From DM Require Import Spec.Table.
Definition oracle_zero (k : kind) (v : pyv) (observed : option exn) : bool :=
  match rhs_cells k 0 (RScalar v), observed with
  | Ok nil, None => true
  | Raise e, Some e' => exn_eqb e e'
  | _, _ => false
  end.
