(* L0 oracle for C05: observed stored cell (or exception) vs. the normal form of the property text *)
From Coq Require Import ZArith List Bool String.
From DM Require Export Base.PyVal Spec.Nf.

Definition oracle (k : kind) (v : pyv) (observed : res val) : bool := res_eqv (nf k v) observed.

(* a cell taken from a column of kind k2 (where v was stored first) and assigned to a column of kind k *)
Definition oracle_from (k k2 : kind) (v : pyv) (observed : res val) : bool :=
  match nf k2 v with
  | Ok x => res_eqv (nf k (pyv_of_val x)) observed
  | Raise _ => true
  end.
