(* L1 comparator for C20: the model of Model/Memo.v (generated kernels) is run
   on the operations of an observed trace and must predict every observation. *)
From Coq Require Import ZArith List Bool String Ascii.
From DM Require Import Run.SC20 Model.Memo Model.MemoExn Model.MemoKey Model.MemoLazy.
Import ListNotations.
Open Scope Z_scope.

Definition ops_of (tr : list (tev nat Z Z Z)) : list (op nat Z Z) :=
  map (fun t => match t with TNew o => ONew o | TClear i => OClear i | TCall i a _ => OCall i a end) tr.

(* the serialised-store model (Model/Memo.v, Section MemoSerialised); values and their pickles are both identified by
   the value id, sizes are those of the pickles *)
Definition model_trace (sizes : list (Z * Z)) (ops : list (op nat Z Z)) : list (tev nat Z Z Z) :=
  snd (wrun_s nat Z Z Z Z cf ckey cthunks (fun v => v) (fun p => p) (csize sizes) Z.eqb Z.eqb w0 ops).

Definition opt_eqb (a b : option Z) : bool :=
  match a, b with Some x, Some y => Z.eqb x y | None, None => true | _, _ => false end.
Definition opts_eqb (a b : opts Z Z) : bool :=
  Bool.eqb (persistent a) (persistent b) && opt_eqb (xkey a) (xkey b) && Bool.eqb (lazy a) (lazy b)
  && Z.eqb (max_size a) (max_size b) && Z.eqb (folder a) (folder b).
Definition event_eqb (a b : event Z Z) : bool :=
  Z.eqb (e_ret a) (e_ret b) && Bool.eqb (e_ran a) (e_ran b) && Nat.eqb (e_forced a) (e_forced b)
  && keys_eqb Z Z.eqb (e_keys a) (e_keys b) && Z.eqb (e_csize a) (e_csize b)
  && same_keys Z Z.eqb (e_files a) (e_files b).
Definition tev_eqb (a b : tev nat Z Z Z) : bool :=
  match a, b with
  | TNew o, TNew o' => opts_eqb o o'
  | TClear i, TClear j => Nat.eqb i j
  | TCall i x e, TCall j y e' => Nat.eqb i j && Nat.eqb x y && event_eqb e e'
  | _, _ => false
  end.
Fixpoint trace_eqb (a b : list (tev nat Z Z Z)) : bool :=
  match a, b with
  | [], [] => true
  | x :: a', y :: b' => tev_eqb x y && trace_eqb a' b'
  | _, _ => false
  end.

Definition model_agrees (sizes : list (Z * Z)) (tr : list (tev nat Z Z Z)) : bool :=
  trace_eqb (model_trace sizes (ops_of tr)) tr.

(* ---- histories in which calls may raise: the model of Model/MemoExn.v (by value) must predict every observation,
   also that a call raised and what was observed then ---- *)
Definition ops_of_x (tr : list (xtev nat Z Z Z)) : list (op nat Z Z) :=
  map (fun t => match t with
                | XT (TNew o) => ONew o | XT (TClear i) => OClear i | XT (TCall i a _) => OCall i a
                | XRaise i a _ => OCall i a
                end) tr.
Definition model_trace_x (sizes : list (Z * Z)) (ops : list (op nat Z Z)) : list (xtev nat Z Z Z) :=
  snd (wrun_x nat Z Z Z cf cexn ckey cthunks (csize sizes) Z.eqb Z.eqb w0 ops).
Definition xevent_eqb (a b : xevent Z) : bool :=
  Bool.eqb (x_ran a) (x_ran b) && Nat.eqb (x_forced a) (x_forced b) && keys_eqb Z Z.eqb (x_keys a) (x_keys b)
  && Z.eqb (x_csize a) (x_csize b) && same_keys Z Z.eqb (x_files a) (x_files b).
Definition xtev_eqb (a b : xtev nat Z Z Z) : bool :=
  match a, b with
  | XT t, XT t' => tev_eqb t t'
  | XRaise i x e, XRaise j y e' => Nat.eqb i j && Nat.eqb x y && xevent_eqb e e'
  | _, _ => false
  end.
Fixpoint trace_x_eqb (a b : list (xtev nat Z Z Z)) : bool :=
  match a, b with
  | [], [] => true
  | x :: a', y :: b' => xtev_eqb x y && trace_x_eqb a' b'
  | _, _ => false
  end.
Definition model_agrees_x (sizes : list (Z * Z)) (tr : list (xtev nat Z Z Z)) : bool :=
  trace_x_eqb (model_trace_x sizes (ops_of_x tr)) tr.

(* ---- the key derivation: the text the model hashes against the text the implementation hashes ----
   float.__repr__ is not modelled: the harness supplies it for the floats of the case (tab);
   in_alphabet: the harness' own reading of the alphabet predicate (a disagreement is a harness/model drift) *)
Definition ftab_repr (tab : list (fl * string)) (f : fl) : text :=
  match find (fun e => fl_same (fst e) f) tab with
  | Some e => tx (snd e)
  | None => tx "<float?>"
  end.
Definition keytext_agrees (tab : list (fl * string)) (name : string) (c : call) (impl_text : string)
           (in_alphabet : bool) : bool :=
  text_eqb (memkey_text (ftab_repr tab) name c) (tx impl_text) && Bool.eqb (call_okb name c) in_alphabet.

(* ---- lazy evaluation: what the model of _lazy_evaluation_args / _lazy_evaluation_kwargs (regenerated dispatch chain
   k_lazy_obj, test k_lazy_test) hands to the body, and how many callables it evaluates, against what the body of the
   implementation received (compared exactly: a rebuilt sequence is a list, dict items in the order written) ---- *)
Definition lazy_agrees (tab : list (string * arg)) (lazy : bool) (c received : call) (forced : nat) : bool :=
  call_eqb (lazy_call (fun_table tab) lazy c) received && Nat.eqb (lazy_call_forced lazy c) forced.
