(* L1 correspondence for C10: the model built on the regenerated kernels vs. the implementation *)
From Coq Require Import ZArith NArith List Bool String.
From DM Require Export Base.PyVal Base.SortKey Spec.Nf Spec.Table Spec.Sort Gen.KSort Model.Sort.
Import ListNotations.

(* sortable(x) < sortable(y) for arbitrary classified objects; true when the model declares the pair outside *)
Definition m_key (x : pyv) : option key :=
  match k_sortable x with Ok s => key_of_skey s | Raise _ => None end.
Definition m_lt (x y : pyv) (observed : bool) : bool :=
  match m_key x, m_key y with
  | Some a, Some b => Bool.eqb (py_lt a b) observed
  | _, _ => true
  end.
Definition m_lt_in_model (x y : pyv) : bool :=
  match m_key x, m_key y with Some _, Some _ => true | _, _ => false end.

Definition cells_at (c : mcol) (rids : list N) : option (list val) := all_some (map (cell_by_id c) rids).
Fixpoint list_eqv (a b : list val) : bool :=
  match a, b with
  | [], [] => true
  | x :: a', y :: b' => val_eqv x y && list_eqv a' b'
  | _, _ => false
  end.
(* the order: exact for sorted() (stable), modulo ties for argsort *)
Definition m_order (by_ : mcol) (rids : list N) : bool :=
  match sortedrowid by_ with
  | Some sr =>
      match ckind by_ with
      | KMixed => list_eqN sr rids
      | _ => match cells_at by_ sr, cells_at by_ rids with
             | Some a, Some b => list_eqv a b
             | _, _ => false
             end
      end
  | None => false
  end.

Definition mcol_same (a b : mcol) : bool :=
  list_eqN (crowid a) (crowid b) && list_same (cseq a) (cseq b).
Definition mdm_same (a b : mdm) : bool :=
  list_eqN (drowid a) (drowid b) &&
  forallb2 (fun x y => String.eqb (fst x) (fst y) && mcol_same (snd x) (snd y)) (dcols a) (dcols b).

(* sort(dm, by): the model's order agrees, and selecting the implementation's order gives the observed table *)
Definition m_sort_dm (d : mdm) (by_ : mcol) (observed : mdm) : bool :=
  m_order by_ (drowid observed) &&
  match selectrowid d (drowid observed) with Some r => mdm_same r observed | None => false end &&
  match ckind by_ with
  | KMixed => match sort_dm d by_ with Some r => mdm_same r observed | None => false end
  | _ => true
  end.

(* sort(obj, by): p = witness positions (into by's rows) of the implementation's order *)
Definition m_sort_col (obj by_ : mcol) (p : list nat) (observed : mcol) : bool :=
  match take_pos p (crowid by_) with
  | Some sr =>
      m_order by_ sr &&
      match getrowidkey obj sr with
      | Some c => mcol_same {| ckind := ckind c; crowid := crowid obj; cseq := cseq c |} observed
      | None => false
      end &&
      match ckind by_ with
      | KMixed => match sort_col obj by_ with Some r => mcol_same r observed | None => false end
      | _ => true
      end
  | None => false
  end.

Fixpoint chunks_eq (a b : list (list N)) : bool :=
  match a, b with
  | [], [] => true
  | x :: a', y :: b' => list_eqN x y && chunks_eq a' b'
  | _, _ => false
  end.
(* bin_split: the loop over the generated bound applied to the rows in the implementation's sorted order *)
Definition m_bin (ids : list N) (bins : Z) (obs : res (list (list N))) : bool :=
  match obs with
  | Ok chunks =>
      let rows := List.concat chunks in
      Nat.eqb (List.length rows) (List.length ids) &&
      match bin_split rows bins with Ok c => chunks_eq c chunks | Raise _ => false end
  | Raise e => match bin_split ids bins with Raise e' => exn_eqb e e' | Ok _ => false end
  end.

(* ---------- sort keys with UNCHECKED cells (a column mapped with `@` / functional.map_ and used as `by` without
   being assigned): the cells are classified as they are (NumPy scalars, bools, numeric-looking text ...), their
   keys are what the regenerated _sortable_regular builds for them, sorted() is the stable sort over py_lt.
   rids = the row ids in the order the implementation produced.  true when a cell leaves the model. *)
Definition x_sortedrowid (cells : list pyv) (ids : list N) : option (list N) :=
  match all_some (map m_key cells) with
  | Some ks => if Nat.eqb (List.length ks) (List.length ids)
               then Some (map snd (isort (fst_lt py_lt) (combine ks ids))) else None
  | None => None
  end.
Definition m_order_x (cells : list pyv) (ids rids : list N) : bool :=
  match x_sortedrowid cells ids with Some sr => list_eqN sr rids | None => true end.
Definition m_order_x_in_model (cells : list pyv) (ids : list N) : bool :=
  match x_sortedrowid cells ids with Some _ => true | None => false end.
