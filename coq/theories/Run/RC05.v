(* L1 correspondence for C05: the model of the write path vs. the implementation, bit for bit *)
From Coq Require Import ZArith List Bool String.
From DM Require Export Base.PyVal Spec.Nf Model.Store.

Definition res_same (a b : res val) : bool :=
  match a, b with
  | Ok x, Ok y => val_same x y
  | Raise e1, Raise e2 => exn_eqb e1 e2
  | _, _ => false
  end.
Definition model_agrees (p : path) (k : kind) (v : pyv) (observed : res val) : bool :=
  res_same (store p k v) observed.

Definition model_agrees_from (k k2 : kind) (v : pyv) (observed : res val) : bool :=
  match store_cell k2 v with
  | Ok x => res_same (store_from_col k k2 x) observed
  | Raise _ => true
  end.
