(* L1 correspondence for C05: the model of the write path vs. the implementation, bit for bit *)
From Coq Require Import ZArith List Bool String.
From DM Require Export Base.PyVal Spec.Nf Model.Store.

Definition res_same (a b : res val) : bool :=
  match a, b with
  | Ok x, Ok y => val_same x y
  | Raise e1, Raise e2 => exn_eqb e1 e2
  | _, _ => false
  end.
Definition model_agrees (p : path) (k : kind) (v : pyv) (observed : res val) : bool :=
  res_same (store p k v) observed.

Definition model_agrees_from (k k2 : kind) (v : pyv) (observed : res val) : bool :=
  match store_cell k2 v with
  | Ok x => res_same (store_from_col k k2 x) observed
  | Raise _ => true
  end.

(* scalar / cell write paths through the regenerated dispatch kernels *)
From DM Require Export Model.C05Paths.
Definition model_agrees_k (p : path) (k : kind) (v : pyv) (observed : res val) : bool :=
  res_same (store_k p k v) observed.

(* a column object as value; tc = the _typechecking flag of the target column observed before the write *)
Definition model_agrees_colval (tc : bool) (f : colform) (k k2 : kind) (raw : pyv) (observed : res val) : bool :=
  res_same (store_colval tc f k k2 raw) observed.

(* dm.name = column: the four facts the by-reference test of DataMatrix._set_col looks at, observed before the write *)
Definition model_agrees_setcol (same_owner is_own_column same_len same_ids : bool) (k2 : kind) (raw : pyv)
  (observed : res val) : bool :=
  res_same (store_setcol same_owner is_own_column same_len same_ids k2 raw) observed.

(* a scalar written through a form that addresses no cell: the L1 scalar write with n = 0 *)
Definition model_agrees_zero (k : kind) (v : pyv) (observed : option exn) : bool :=
  match store_scalar_n k 0 v, observed with
  | Ok nil, None => true
  | Raise e, Some e' => exn_eqb e e'
  | _, _ => false
  end.
