(* L1 correspondence for histories with series columns (see Run/SSeries.v). *)
From Coq Require Import ZArith NArith List Bool String.
From DM Require Export Run.SSeries Run.RCore.
Import ListNotations.

(* L1: the alphabet operations of a series history are replayed by the L1 algorithms from the dumped pre-state
   (pseudo-columns are numeric columns: argsort + searchsorted, isin masks, exactly the code SeriesColumns inherit) *)
Definition sstep_model_ok (p p' : list ltable) (s : sstepobs) : bool :=
  match ss_op s with
  | SPlain o => step_model_ok_with table_eqb_u p p' {| so_op := o; so_out := ss_out s; so_dumps := ss_dumps s; so_pyok := ss_pyok s |}
  | _ => true
  end.
Fixpoint model_ssteps (w : world) (p : list ltable) (steps : list sstepobs) : bool :=
  match steps with
  | [] => true
  | s :: r =>
      let '(w', out) := sstep w (ss_op s) in
      match out with
      | OutOfModel => true
      | _ => let p' := apply_dumps p (ss_dumps s) in
             sstep_model_ok p p' s && model_ssteps w' p' r
      end
  end.
Definition shist_model_ok (steps : list sstepobs) (final : list ltable) : bool := model_ssteps w0 [] steps.
