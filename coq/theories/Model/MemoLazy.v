(* L1 for the lazy clause of C20: _lazy_evaluation_obj / _lazy_evaluation_args / _lazy_evaluation_kwargs on the argument
   datatype of Spec/MemoKey.v, every decision taken by the regenerated dispatch chain Gen/KMemo.k_lazy_obj (the four
   tests answer as in Model/MemoKey.v: is_callable, is_dict, is_seq, is_str).  No proofs here. *)
From Coq Require Import ZArith List Bool String.
From DM Require Import Base.PyVal Gen.KMemo Spec.MemoKey Model.MemoKey.
Import ListNotations.
Local Open Scope nat_scope.

Section LazyModel.
  Variable value_of : option string -> arg.      (* what the callable of that name returns *)

  (* _lazy_evaluation_obj: the evaluated argument (a rebuilt sequence is a list, as the comprehension makes it) *)
  Fixpoint lazy_obj (a : arg) : arg :=
    match k_lazy_obj (is_callable a) (is_dict a) (is_seq a) (is_str a) with
    | LCall => match a with AFun n => value_of n | _ => a end
    | LKwargs => match a with ADict d => ADict (map (fun kv => let '(k, v) := kv in (k, lazy_obj v)) d) | _ => a end
    | LArgs => match a with AList l | ATuple l => AList (map lazy_obj l) | _ => a end
    | LSelf => a
    end.

  (* how many callables that walk evaluates *)
  Fixpoint lazy_forced (a : arg) : nat :=
    match k_lazy_obj (is_callable a) (is_dict a) (is_seq a) (is_str a) with
    | LCall => 1
    | LKwargs => match a with
                 | ADict d => fold_right (fun kv s => (let '(_, v) := kv in lazy_forced v) + s) 0 d
                 | _ => 0
                 end
    | LArgs => match a with AList l | ATuple l => fold_right (fun x s => lazy_forced x + s) 0 l | _ => 0 end
    | LSelf => 0
    end.

  (* args = self._lazy_evaluation_args(args); kwargs = self._lazy_evaluation_kwargs(kwargs), under `if self._lazy` *)
  Definition lazy_call (lazy : bool) (c : call) : call :=
    if k_lazy_test lazy
    then {| c_args := map lazy_obj (c_args c);
            c_kwargs := map (fun kv => let '(k, v) := kv in (k, lazy_obj v)) (c_kwargs c) |}
    else c.
  Definition lazy_call_forced (lazy : bool) (c : call) : nat :=
    if k_lazy_test lazy
    then fold_right (fun x s => lazy_forced x + s) 0 (c_args c)
         + fold_right (fun kv s => (let '(_, v) := kv in lazy_forced v) + s) 0 (c_kwargs c)
    else 0.
End LazyModel.

(* exact comparison of two arguments (a list is not a tuple here; dict items in the order written) *)
Fixpoint arg_eqb (a b : arg) {struct a} : bool :=
  match a, b with
  | AInt x, AInt y => Z.eqb x y
  | AFloat x, AFloat y => fl_same x y
  | ABool x, ABool y => Bool.eqb x y
  | AStr x, AStr y => String.eqb x y
  | ANone, ANone => true
  | AList l, AList l' | ATuple l, ATuple l' =>
      (fix go (l l' : list arg) : bool :=
         match l, l' with
         | [], [] => true
         | x :: r, y :: r' => arg_eqb x y && go r r'
         | _, _ => false
         end) l l'
  | ADict d, ADict d' =>
      (fix go (d d' : list (string * arg)) : bool :=
         match d, d' with
         | [], [] => true
         | (k, v) :: r, (k', v') :: r' => String.eqb k k' && arg_eqb v v' && go r r'
         | _, _ => false
         end) d d'
  | ADM x, ADM y => String.eqb x y
  | AFun x, AFun y => ostr_eqb x y
  | _, _ => false
  end.
Definition call_eqb (c c' : call) : bool :=
  arg_eqb (AList (c_args c)) (AList (c_args c')) && arg_eqb (ADict (c_kwargs c)) (ADict (c_kwargs c')).
