(* L1 model of memoize for calls that raise -- executable, no proofs.  _call_without_arguments as in Model/Memo.v:
   _read_cache (kernel k_read_cache: the flag set by clear() is reset THERE, at the lookup), then -- on a miss -- the
   lazy evaluation of the arguments (k_lazy_test) and the body; when either of them raises, the exception leaves
   _call_without_arguments before _write_cache is reached: the state is the one _read_cache left. *)
From Coq Require Import ZArith List Bool.
From DM Require Import Gen.KMemo Spec.Memo Spec.MemoExn Model.Memo.
Import ListNotations.
Open Scope Z_scope.

Section MemoExnModel.
  Variables (A K V F : Type).
  Variable f : A -> V.
  Variable exn : A -> option bool.
  Variable key_of : A -> K.
  Variable thunks : A -> nat.
  Variable size : V -> Z.
  Variables (keqb : K -> K -> bool) (feqb : F -> F -> bool).

  (* does the call raise once the lookup has missed?  (a callable argument is only evaluated in lazy mode) *)
  Definition raises1 (o : opts K F) (a : A) : option bool :=
    match exn a with
    | Some true => Some true
    | Some false => if k_lazy_test (lazy o) then Some false else None
    | None => None
    end.

  Definition icall_x (o : opts K F) (st : inst K V) (d : list (F * K * V)) (a : A)
    : (event K V + xevent K) * inst K V * list (F * K * V) :=
    let k := memkey A K F key_of o a in
    let '(hit, st1, d1) := read_cache K V F keqb feqb o st d k in
    match hit with
    | Some v => (inl (mk_event K V F size feqb o v false 0 st1 d1), st1, d1)
    | None =>
        let forced := if k_lazy_test (lazy o) then thunks a else 0%nat in
        match raises1 o a with
        | Some body_ran =>
            (inr {| x_ran := body_ran; x_forced := forced; x_keys := map fst (cache st1);
                    x_csize := total K V size (cache st1); x_files := dkeys K V F feqb (folder o) d1 |}, st1, d1)
        | None =>
            let v := f a in
            let '(st2, d2) := write_cache K V F size keqb feqb o st1 d1 k v in
            (inl (mk_event K V F size feqb o v true forced st2 d2), st2, d2)
        end
    end.

  Definition wstep_x (w : world K V F) (p : op A K F) : world K V F * xtev A K V F :=
    match p with
    | ONew o => ({| insts := insts w ++ [(o, fresh)]; disk := disk w |}, XT (TNew o))
    | OClear i =>
        match nth_error (insts w) i with
        | Some (o, st) => (upd K V F w i o (iclear K V st) (disk w), XT (TClear i))
        | None => (w, XT (TClear i))
        end
    | OCall i a =>
        match nth_error (insts w) i with
        | Some (o, st) =>
            let '(ev, st', d') := icall_x o st (disk w) a in
            (upd K V F w i o st' d', match ev with inl e => XT (TCall i a e) | inr x => XRaise i a x end)
        | None => (w, XT (TClear i))
        end
    end.

  Fixpoint wrun_x (w : world K V F) (ops : list (op A K F)) : world K V F * list (xtev A K V F) :=
    match ops with
    | [] => (w, [])
    | p :: r => let '(w1, t) := wstep_x w p in let '(w2, tr) := wrun_x w1 r in (w2, t :: tr)
    end.
End MemoExnModel.
