(* L1: the implementation-shaped algorithms of the DataMatrix core, on the
   object graph of Model/LTable.v: row ids are looked up BY ID -- through the
   Index position cache (a dict: the last occurrence wins) in MixedColumns,
   through argsort + searchsorted in numeric columns -- exactly as
   _basecolumn.py / _numericcolumn.py / _datamatrix.py / _index.py do it.
   Integer and decision fragments are the kernels regenerated from the source
   (Gen/KCore.v).  Executable; no proofs here (Proofs/CoreRefine.v). *)
From Coq Require Import ZArith NArith List Bool String.
From DM Require Import Base.PyVal Spec.Nf Spec.Table Spec.Ops Model.LTable Gen.KCore.
Import ListNotations.
Open Scope Z_scope.

(* ---------- Index ---------- *)
Definition idx_of_list (l : list N) : index := {| ia := l; imeta := None; imax := None |}.     (* Index(list / set / ndarray) *)
Definition idx_range (n : nat) : index :=                                                     (* Index(int) *)
  {| ia := iotaN 0 n; imeta := None; imax := Some (k_index_init_max (Z.of_nat n)) |}.
Definition idx_append (i : index) (k : N) : index :=
  {| ia := ia i ++ [k]; imeta := None;
     imax := match imax i with Some m => Some (k_append_max (Z.of_N k) m) | None => None end |}.
Definition idx_meta (i : index) : list (N * nat) :=
  match imeta i with Some m => m | None => combine (ia i) (seq 0 (List.length (ia i))) end.
(* dict built by enumerate: a later entry overwrites an earlier one *)
Fixpoint dict_get (k : N) (m : list (N * nat)) : option nat :=
  match m with
  | [] => None
  | (a, p) :: r => match dict_get k r with
                   | Some q => Some q
                   | None => if N.eqb a k then Some p else None
                   end
  end.
Definition idx_index (i : index) (k : N) : option nat := dict_get k (idx_meta i).   (* Index.index: KeyError = None *)
Definition idx_max (i : index) : Z := match imax i with Some m => m | None => Z.of_N (maxN (ia i)) end.
Definition idx_add (i j : index) : index := idx_of_list (ia i ++ ia j).               (* Index.__add__ (new object) *)
Definition idx_sorted (i : index) : index := {| ia := sort_N (ia i); imeta := None; imax := imax i |}.

(* ---------- NumPy on id arrays ---------- *)
Fixpoint insert_by (x : N * nat) (l : list (N * nat)) : list (N * nat) :=
  match l with
  | [] => [x]
  | y :: r => if N.leb (fst x) (fst y) then x :: l else y :: insert_by x r
  end.
Definition argsort (ids : list N) : list nat :=
  map snd (fold_right insert_by [] (combine ids (seq 0 (List.length ids)))).
Definition searchsorted (sorted : list N) (k : N) : nat := List.length (filter (fun x => N.ltb x k) sorted).

(* ---------- _getrowidkey ---------- *)
Definition is_mixed (c : lcol) : bool := match lc_kind c with KMixed => true | _ => false end.

Definition positions_by_id (c : lcol) (key : list N) : option (list nat) :=
  if is_mixed c
  then all_some (map (idx_index (lc_rowid c)) key)
  else let ids := ia (lc_rowid c) in
       let orig := argsort ids in
       let sorted_ids := map (fun p => nth p ids 0%N) orig in
       all_some (map (fun k => nth_error orig (searchsorted sorted_ids k)) key).

Definition getrowidkey (c : lcol) (key : index) : option lcol :=
  match positions_by_id c (ia key) with
  | None => None
  | Some ps =>
      match take_pos ps (lc_cells c), take_pos ps (ia (lc_rowid c)) with
      | Some cells, Some rid =>
          Some {| lc_kind := lc_kind c;
                  (* MixedColumn: col._rowid = key (the Index object itself); numeric: self._rowid[selected_indices] *)
                  lc_rowid := if is_mixed c then key else idx_of_list rid;
                  lc_cells := cells; lc_owner := true; lc_tc := true |}
      | _, _ => None
      end
  end.

(* DataMatrix._selectrowid: a new DataMatrix of the same family; one new column object per NAME *)
Definition selectrowid (t : ltable) (key : index) : option ltable :=
  match all_some (map (fun '(_, i) => match nth_error (l_cols t) i with
                                      | Some c => getrowidkey c key | None => None end) (l_names t)) with
  | Some cols => Some {| l_fam := l_fam t; l_rowid := key;
                         l_names := combine (map fst (l_names t)) (seq 0 (List.length (l_names t)));
                         l_cols := cols; l_sorted := true; l_dflt := KMixed |}
  | None => None
  end.

Definition lcol_of (t : ltable) (n : string) : option lcol :=
  match lookup n (l_names t) with Some i => nth_error (l_cols t) i | None => None end.

(* ---------- comparison with a scalar: the ids of the matching rows ---------- *)
Definition compare_ids (c : lcol) (op : cmpop) (ref : val) : index :=
  let hits := map fst (filter (fun '(_, cell) => py_cmp op cell ref) (combine (ia (lc_rowid c)) (lc_cells c))) in
  if is_mixed c
  then fold_left idx_append hits (idx_range 0)          (* _rowid = Index(0); _rowid.append(rowid) *)
  else idx_of_list hits.                                 (* Index(self._rowid[np.where(b)[0]]) *)

(* ---------- positional derivations: Index.__getitem__ and column __getitem__ ---------- *)
Definition slice_col (c : lcol) (ps : list nat) : option lcol :=
  match take_pos ps (lc_cells c), take_pos ps (ia (lc_rowid c)) with
  | Some cells, Some rid =>
      Some {| lc_kind := lc_kind c; lc_rowid := idx_of_list rid; lc_cells := cells; lc_owner := true; lc_tc := true |}
  | _, _ => None
  end.
Definition slice_table (t : ltable) (ps : list nat) : option ltable :=
  match take_pos ps (ia (l_rowid t)),
        all_some (map (fun '(_, i) => match nth_error (l_cols t) i with
                                      | Some c => slice_col c ps | None => None end) (l_names t)) with
  | Some rid, Some cols =>
      Some {| l_fam := l_fam t; l_rowid := idx_of_list rid;
              l_names := combine (map fst (l_names t)) (seq 0 (List.length (l_names t)));
              l_cols := cols; l_sorted := true; l_dflt := KMixed |}
  | _, _ => None
  end.

(* ---------- merging: ids from the set operation, cells by id lookup, left operand first ---------- *)
Definition merge_col (a b : lcol) (rid : index) : option lcol :=
  if is_mixed a then
    (* BaseColumn._merge: self._seq[self._rowid.index(row)] if row in self_row_id else other... *)
    match all_some (map (fun r => if mem_N r (ia (lc_rowid a))
                                  then match idx_index (lc_rowid a) r with
                                       | Some p => nth_error (lc_cells a) p | None => None end
                                  else match idx_index (lc_rowid b) r with
                                       | Some p => nth_error (lc_cells b) p | None => None end) (ia rid)) with
    | Some cells => Some {| lc_kind := lc_kind a; lc_rowid := rid; lc_cells := cells; lc_owner := true; lc_tc := true |}
    | None => None
    end
  else
    (* NumericColumn._merge: isin masks, concatenate, then _getrowidkey on the concatenation *)
    let ida := ia (lc_rowid a) in let idb := ia (lc_rowid b) in
    let keep_a := filter (fun '(r, _) => mem_N r (ia rid)) (combine ida (lc_cells a)) in
    let keep_b := filter (fun '(r, _) => negb (mem_N r ida) && mem_N r (ia rid)) (combine idb (lc_cells b)) in
    let cat := keep_a ++ keep_b in
    getrowidkey {| lc_kind := lc_kind a; lc_rowid := idx_of_list (map fst cat); lc_cells := map snd cat;
                   lc_owner := true; lc_tc := true |} rid.

Definition merge_tables (o : mergeop) (a b : ltable) : option ltable :=
  let set_ids := match o with
                 | MAnd => filter (fun x => mem_N x (ia (l_rowid b))) (ia (l_rowid a))
                 | MOr => ia (l_rowid a) ++ filter (fun x => negb (mem_N x (ia (l_rowid a)))) (ia (l_rowid b))
                 | MXor => filter (fun x => negb (mem_N x (ia (l_rowid b)))) (ia (l_rowid a))
                           ++ filter (fun x => negb (mem_N x (ia (l_rowid a)))) (ia (l_rowid b))
                 end in
  let rid := idx_sorted (idx_of_list set_ids) in      (* Index(set(...)).sorted() *)
  match all_some (map (fun '(n, i) => match nth_error (l_cols a) i, lcol_of b n with
                                      | Some ca, Some cb => merge_col ca cb rid
                                      | _, _ => None end) (l_names a)) with
  | Some cols => Some {| l_fam := l_fam a; l_rowid := rid;
                         l_names := combine (map fst (l_names a)) (seq 0 (List.length (l_names a)));
                         l_cols := cols; l_sorted := true; l_dflt := KMixed |}
  | None => None
  end.

(* ---------- resizing ---------- *)
Definition nrows_l (t : ltable) : nat := List.length (ia (l_rowid t)).
Definition fresh_ids (t : ltable) (value : Z) : list N :=
  let len := Z.of_nat (nrows_l t) in
  let startid := k_startid len (idx_max (l_rowid t)) in
  map (fun i => Z.to_N (k_fresh_id (Z.of_nat i) startid)) (seq 0 (Z.to_nat (k_fresh_count value len))).

Definition addrowid (c : lcol) (new : list N) : lcol :=
  {| lc_kind := lc_kind c; lc_rowid := idx_add (lc_rowid c) (idx_of_list new);
     lc_cells := lc_cells c ++ repeat (default_cell (lc_kind c)) (List.length new);
     lc_owner := lc_owner c; lc_tc := lc_tc c |}.

Definition setlength (t : ltable) (value : Z) : option ltable :=
  let len := Z.of_nat (nrows_l t) in
  if k_setlength_shrinks value len then
    match slice_table t (seq 0 (Z.to_nat value)) with
    | Some s => Some {| l_fam := l_fam t; l_rowid := l_rowid s; l_names := l_names s; l_cols := l_cols s;
                        l_sorted := l_sorted t; l_dflt := l_dflt t |}
    | None => None
    end
  else
    let new := fresh_ids t value in
    Some {| l_fam := l_fam t; l_rowid := idx_add (l_rowid t) (idx_of_list new); l_names := l_names t;
            l_cols := map (fun c => addrowid c new) (l_cols t);     (* each column OBJECT once *)
            l_sorted := l_sorted t; l_dflt := l_dflt t |}.

(* ---------- row deletion: select the remaining ids, in their order, then adopt the columns ---------- *)
Definition delrows (t : ltable) (dead : list nat) : option ltable :=
  match take_pos dead (ia (l_rowid t)) with
  | None => None
  | Some dead_ids =>
      let keep := filter (fun r => negb (mem_N r dead_ids)) (ia (l_rowid t)) in
      match selectrowid t (idx_of_list keep) with
      | Some s => Some {| l_fam := l_fam t; l_rowid := l_rowid s; l_names := l_names s; l_cols := l_cols s;
                          l_sorted := l_sorted t; l_dflt := l_dflt t |}
      | None => None
      end
  end.

(* ---------- selection-addressed positions (col[dm] = ...) ---------- *)
Definition sel_positions (c : lcol) (key : ltable) : option (list nat) := positions_by_id c (ia (l_rowid key)).

(* BaseColumn._setsequencekey: write in order, stop (raise) at the first index the generated range test rejects *)
Fixpoint write_list_k (len : Z) (l : list Z) (xs : list val) (cells : list val) : list val * bool :=
  match l, xs with
  | i :: l', x :: xs' => if k_seqkey_oob i len then (cells, false)
                         else write_list_k len l' xs' (set_nth (Z.to_nat i) x cells)
  | _, _ => (cells, true)
  end.

(* ---------- BaseColumn._tosequence on the generated bounds: a scalar is broadcast; of a sequence
   k_toseq_take(length) cells are read and coerced, and the generated length test decides ---------- *)
Definition rhs_cells_k (k : kind) (n : nat) (r : rhs) : res (list val) :=
  match r with
  | RScalar v => bind (nf k v) (fun x => Ok (repeat x n))
  | RSeq vs => bind (coerce_all k (firstn (Z.to_nat (k_toseq_take (Z.of_nat n))) vs))
                    (fun xs => if k_toseq_badlen (Z.of_nat (List.length xs)) (Z.of_nat n)
                               then Raise ValueError else Ok xs)
  end.

Definition with_cells (t : ltable) (ci : nat) (c : lcol) (cells : list val) : ltable :=
  {| l_fam := l_fam t; l_rowid := l_rowid t; l_names := l_names t;
     l_cols := set_nth ci {| lc_kind := lc_kind c; lc_rowid := lc_rowid c; lc_cells := cells;
                             lc_owner := lc_owner c; lc_tc := lc_tc c |} (l_cols t);
     l_sorted := l_sorted t; l_dflt := l_dflt t |}.

(* ---------- DataMatrix._set_col with a column object as the value ----------
   inserted by reference (the deliberate alias) when the generated guard says so, refused when the generated
   length test says so, otherwise copied into a new column of the value's type (value._empty_col + col[:] = value) *)
Definition lbind (t : ltable) (n : string) (ci : nat) (cols : list lcol) : ltable :=
  {| l_fam := l_fam t; l_rowid := l_rowid t;
     l_names := match lookup n (l_names t) with
                | Some _ => replace_name n ci (l_names t)
                | None => l_names t ++ [(n, ci)]
                end;
     l_cols := cols; l_sorted := l_sorted t; l_dflt := l_dflt t |}.

Inductive setcol_res := SCAlias (t : ltable) | SCCopy (t : ltable) | SCBadLen | SCStuck.
Definition setcol_value (t : ltable) (name : string) (v : lcol) (same_owner is_own : bool) (own_index : option nat) : setcol_res :=
  let same_len := Nat.eqb (List.length (lc_cells v)) (nrows_l t) in
  let same_ids := ids_eqb (ia (lc_rowid v)) (ia (l_rowid t)) in
  if k_setcol_byref same_owner is_own same_len same_ids then
    match own_index with Some ci => SCAlias (lbind t name ci (l_cols t)) | None => SCStuck end
  else if k_setcol_badlen (Z.of_nat (List.length (lc_cells v))) (Z.of_nat (nrows_l t)) then SCBadLen
  else SCCopy (lbind t name (List.length (l_cols t))
                     (l_cols t ++ [{| lc_kind := lc_kind v; lc_rowid := idx_of_list (ia (l_rowid t));
                                      lc_cells := lc_cells v; lc_owner := true; lc_tc := true |}])).

(* ---------- DataMatrix.__lshift__: a new table of k_concat_len rows; every column of self is created with default
   cells and its first rows are filled by the slice [:k_concat_left_stop]; every column of other is created if missing
   (a same-named column of another type is a TypeError) and filled by the slice [k_concat_right_start:] ---------- *)
Definition lview (t : ltable) : list (string * lcol) :=
  flat_map (fun '(n, i) => match nth_error (l_cols t) i with Some c => [(n, c)] | None => [] end) (l_names t).

Definition fill_slice (total : nat) (a b : option Z) (cells : list val) (k : kind) (base : list val) : list val :=
  write_at (slice_pos total a b) cells base.

Definition concat_l (a b : ltable) (newfam : nat) : res ltable :=
  let na := nrows_l a in let nb := nrows_l b in
  let total := Z.to_nat (k_concat_len (Z.of_nat na) (Z.of_nat nb)) in
  let va := lview a in let vb := lview b in
  let findc (n : string) (v : list (string * lcol)) := lookup n v in
  if existsb (fun '(n, c) => match findc n va with
                             | Some c2 => negb (kind_eqb (lc_kind c) (lc_kind c2))
                             | None => false end) vb
  then Raise TypeError
  else
    let mk (n : string) (k : kind) (cells : list val) :=
        (n, {| lc_kind := k; lc_rowid := idx_of_list (iotaN 0 total); lc_cells := cells; lc_owner := true; lc_tc := true |}) in
    let cols_a := map (fun '(n, c) =>
                         let left := fill_slice total None (Some (k_concat_left_stop (Z.of_nat na))) (lc_cells c) (lc_kind c)
                                                (repeat (default_cell (lc_kind c)) total) in
                         mk n (lc_kind c)
                            match findc n vb with
                            | Some c2 => fill_slice total (Some (k_concat_right_start (Z.of_nat na))) None (lc_cells c2) (lc_kind c) left
                            | None => left
                            end) va in
    let cols_b := flat_map (fun '(n, c) =>
                              match findc n va with
                              | Some _ => []
                              | None => [mk n (lc_kind c)
                                            (fill_slice total (Some (k_concat_right_start (Z.of_nat na))) None (lc_cells c) (lc_kind c)
                                                        (repeat (default_cell (lc_kind c)) total))]
                              end) vb in
    let cols := cols_a ++ cols_b in
    Ok {| l_fam := newfam; l_rowid := idx_range total;
          l_names := combine (map fst cols) (seq 0 (List.length cols));
          l_cols := map snd cols; l_sorted := true; l_dflt := KMixed |}.

(* ---------- DataMatrix.__getitem__: the key, classified by the isinstance facts CPython gives for it ---------- *)
Inductive pykey := KeyColumn | KeyStr | KeyInt | KeyBool | KeySlice | KeyNames (* non-empty list/tuple of names/columns *)
                 | KeyEmptySeq | KeyInts (* list/tuple holding an int *) | KeyTable | KeyOther.
(* (BaseColumn, basestring, int, slice, Sequence, all items are names): a str is a Sequence, a bool is an int,
   all() of an empty sequence is True, a column or a DataMatrix is not a registered Sequence *)
Definition key_facts (k : pykey) : bool * bool * bool * bool * bool * bool :=
  match k with
  | KeyColumn => (true, false, false, false, false, false)
  | KeyStr => (false, true, false, false, true, true)        (* its items are one-character strings *)
  | KeyInt | KeyBool => (false, false, true, false, false, false)
  | KeySlice => (false, false, false, true, false, false)
  | KeyNames => (false, false, false, false, true, true)
  | KeyEmptySeq => (false, false, false, false, true, true)
  | KeyInts => (false, false, false, false, true, false)
  | KeyTable | KeyOther => (false, false, false, false, false, false)
  end.
Definition getitem_dispatch (k : pykey) : Z :=
  let '(a, b, c, d, e, f) := key_facts k in k_getitem_dispatch a b c d e f.

(* ---------- one L1 step on the operations whose algorithms are id-based ---------- *)
Inductive lres := LNew (t : ltable) | LUpd (i : nat) (t : ltable) | LErr | LErrUpd (i : nat) (t : ltable) | LSkip.
(* LErrUpd: the operation raised after a partial effect *)

Definition lstep (p : list ltable) (o : op) : lres :=
  match o with
  | OSelect ti name c ref =>
      match nth_error p ti with
      | Some t => match lcol_of t name with
                  | Some col => if negb (ref_ok (lc_kind col) ref) then LSkip
                                else match selectrowid t (compare_ids col c ref) with Some r => LNew r | None => LErr end
                  | None => LErr end
      | None => LSkip
      end
  | OSlice ti a b =>
      match nth_error p ti with
      | Some t => match slice_table t (slice_pos (nrows_l t) a b) with Some r => LNew r | None => LErr end
      | None => LSkip
      end
  | OGetRows ti l =>
      match nth_error p ti with
      | Some t => match l, all_some (map (norm_index (nrows_l t)) l) with
                  | [], _ => LSkip
                  | _, Some ps => if nodup_nat ps then match slice_table t ps with Some r => LNew r | None => LErr end
                                  else LSkip
                  | _, None => LErr end
      | None => LSkip
      end
  | OSample ti k perm =>
      match nth_error p ti with
      | Some t => if (k <? 0) || (Z.of_nat (nrows_l t) <? k) then LErr
                  else match take_pos perm (ia (l_rowid t)) with
                       | Some rid => match selectrowid t (idx_of_list rid) with Some r => LNew r | None => LErr end
                       | None => LErr end
      | None => LSkip
      end
  | OSort ti _ perm | OShuffle ti perm =>
      (* the order comes from sorted() / random; the rows are then fetched BY ID *)
      match nth_error p ti with
      | Some t => match take_pos perm (ia (l_rowid t)) with
                  | Some rid => match selectrowid t (idx_of_list rid) with Some r => LNew r | None => LErr end
                  | None => LErr end
      | None => LSkip
      end
  | OMerge mo ti t2i =>
      match nth_error p ti, nth_error p t2i with
      | Some a, Some b =>
          if negb (Nat.eqb (l_fam a) (l_fam b)) then LErr
          else if negb (forallb (fun '(n, i) => match nth_error (l_cols a) i, lcol_of b n with
                                                | Some ca, Some cb => kind_eqb (lc_kind ca) (lc_kind cb)
                                                | _, _ => true end) (l_names a)) then LSkip
          else match merge_tables mo a b with Some r => LNew r | None => LErr end
      | _, _ => LSkip
      end
  | OSetLength ti n =>
      match nth_error p ti with
      | Some t => if n <? 0 then LSkip else match setlength t n with Some r => LUpd ti r | None => LErr end
      | None => LSkip
      end
  | ODelRows ti l =>
      match nth_error p ti with
      | Some t => match all_some (map (norm_index (nrows_l t)) l) with
                  | Some dead => match delrows t dead with Some r => LUpd ti r | None => LErr end
                  | None => LErr end
      | None => LSkip
      end
  | OSetCell ti name (ASel t2i) r =>
      (* col[dm] = value: positions by id (dict / argsort+searchsorted), then the index-list write *)
      match nth_error p ti, nth_error p t2i with
      | Some t, Some k =>
          match lookup name (l_names t) with
          | None => LErr
          | Some ci =>
              match nth_error (l_cols t) ci with
              | None => LSkip
              | Some c =>
                  if negb (Nat.eqb (l_fam k) (l_fam t)) then LErr
                  (* rows the column lacks: Index.index raises KeyError, as does the exactness test after searchsorted *)
                  else if negb (forallb (fun x => mem_N x (ia (l_rowid t))) (ia (l_rowid k))) then LErr
                  else match sel_positions c k with
                       | None => LErr
                       | Some ps =>
                           match rhs_cells_k (lc_kind c) (List.length ps) r with
                           | Raise _ => LErr
                           | Ok xs =>
                               LUpd ti {| l_fam := l_fam t; l_rowid := l_rowid t; l_names := l_names t;
                                          l_cols := set_nth ci {| lc_kind := lc_kind c; lc_rowid := lc_rowid c;
                                                                  lc_cells := write_at ps xs (lc_cells c);
                                                                  lc_owner := lc_owner c; lc_tc := lc_tc c |} (l_cols t);
                                          l_sorted := l_sorted t; l_dflt := l_dflt t |}
                           end
                       end
              end
          end
      | _, _ => LSkip
      end
  | ORename ti old new ident =>
      (* DataMatrix.rename: the guard chain regenerated from the source decides; the recipe keeps the position *)
      match nth_error p ti with
      | None => LSkip
      | Some t =>
          let has n := match lookup n (l_names t) with Some _ => true | None => false end in
          let d := k_rename_decision (String.eqb old new) (has old) (has new) true ident false in
          if d =? 0 then LUpd ti t
          else if d =? 1 then LErr
          else LUpd ti {| l_fam := l_fam t; l_rowid := l_rowid t;
                          l_names := map (fun '(n, i) => if String.eqb n old then (new, i) else (n, i)) (l_names t);
                          l_cols := l_cols t; l_sorted := l_sorted t; l_dflt := l_dflt t |}
      end
  | OSetCell ti name (AList l) r =>
      (* col[[i, j, ...]] = value: sequential writes, each index range-checked by the generated test *)
      match nth_error p ti with
      | None => LSkip
      | Some t =>
          match lookup name (l_names t) with
          | None => LErr
          | Some ci =>
              match nth_error (l_cols t) ci with
              | None => LSkip
              | Some c =>
                  match rhs_cells_k (lc_kind c) (List.length l) r with
                  | Raise _ => LErr
                  | Ok xs =>
                      let '(cells, ok) := write_list_k (Z.of_nat (List.length (lc_cells c))) l xs (lc_cells c) in
                      let t' := {| l_fam := l_fam t; l_rowid := l_rowid t; l_names := l_names t;
                                   l_cols := set_nth ci {| lc_kind := lc_kind c; lc_rowid := lc_rowid c; lc_cells := cells;
                                                           lc_owner := lc_owner c; lc_tc := lc_tc c |} (l_cols t);
                                   l_sorted := l_sorted t; l_dflt := l_dflt t |} in
                      if ok then LUpd ti t' else LErrUpd ti t'
                  end
              end
          end
      end
  | OSetCell ti name (ASlice a b) r =>
      (* col[a:b] = value: the addressed positions are Python's slice, the value goes through _tosequence *)
      match nth_error p ti with
      | None => LSkip
      | Some t =>
          match lookup name (l_names t) with
          | None => LErr
          | Some ci =>
              match nth_error (l_cols t) ci with
              | None => LSkip
              | Some c =>
                  let ps := slice_pos (nrows_l t) a b in
                  match rhs_cells_k (lc_kind c) (List.length ps) r with
                  | Raise _ => LErr
                  | Ok xs => LUpd ti (with_cells t ci c (write_at ps xs (lc_cells c)))
                  end
              end
          end
      end
  | OSetCell ti name (AInt i) (RScalar v) =>
      (* col[i] = value: _setintkey coerces first, then Python's list / array indexing *)
      match nth_error p ti with
      | None => LSkip
      | Some t =>
          match lookup name (l_names t) with
          | None => LErr
          | Some ci =>
              match nth_error (l_cols t) ci with
              | None => LSkip
              | Some c =>
                  match nf (lc_kind c) v with
                  | Raise _ => LErr
                  | Ok x => match norm_index (nrows_l t) i with
                            | None => LErr
                            | Some q => LUpd ti (with_cells t ci c (write_at [q] [x] (lc_cells c)))
                            end
                  end
              end
          end
      end
  | OSetCol ti name r =>
      (* dm[name] = value on an EXISTING column: _set_col ends in col[:] = value, i.e. _tosequence for the whole length
         (a missing column is created first: left to the L0 check) *)
      match nth_error p ti with
      | None => LSkip
      | Some t =>
          match lookup name (l_names t) with
          | None => LSkip
          | Some ci =>
              match nth_error (l_cols t) ci with
              | None => LSkip
              | Some c =>
                  match rhs_cells_k (lc_kind c) (nrows_l t) r with
                  | Raise _ => LErrUpd ti t
                  | Ok xs => LUpd ti (with_cells t ci c xs)
                  end
              end
          end
      end
  | OSetCell ti name (ARow i) (RScalar v) =>
      (* dm[i].name = value: DataMatrix._getrow rejects the index with the generated bound test; Row.__setitem__ creates a
         missing column (default type, default cells) and then assigns the cell like col[i] = value *)
      match nth_error p ti with
      | None => LSkip
      | Some t =>
          if k_getrow_oob i (Z.of_nat (nrows_l t)) then LErr
          else
            let t1 := match lookup name (l_names t) with
                      | Some _ => t
                      | None => lbind t name (List.length (l_cols t))
                                      (l_cols t ++ [{| lc_kind := l_dflt t; lc_rowid := idx_of_list (ia (l_rowid t));
                                                       lc_cells := repeat (default_cell (l_dflt t)) (nrows_l t);
                                                       lc_owner := true; lc_tc := true |}])
                      end in
            match lookup name (l_names t1) with
            | None => LSkip
            | Some ci =>
                match nth_error (l_cols t1) ci with
                | None => LSkip
                | Some c =>
                    match nf (lc_kind c) v, norm_index (nrows_l t1) i with
                    | Ok x, Some q => LUpd ti (with_cells t1 ci c (write_at [q] [x] (lc_cells c)))
                    | _, _ => LErrUpd ti t1
                    end
                end
            end
      end
  | ODelCol ti name =>
      (* del dm[name]: the name is dropped, or ValueError *)
      match nth_error p ti with
      | None => LSkip
      | Some t =>
          match lookup name (l_names t) with
          | None => LErr
          | Some _ => LUpd ti {| l_fam := l_fam t; l_rowid := l_rowid t;
                                 l_names := filter (fun '(n, _) => negb (String.eqb n name)) (l_names t);
                                 l_cols := l_cols t; l_sorted := l_sorted t; l_dflt := l_dflt t |}
          end
      end
  | OSetSorted ti b =>
      match nth_error p ti with
      | None => LSkip
      | Some t => LUpd ti {| l_fam := l_fam t; l_rowid := l_rowid t; l_names := l_names t; l_cols := l_cols t;
                             l_sorted := b; l_dflt := l_dflt t |}
      end
  | OSetColKind ti name k =>
      (* dm[name] = <column type>: a new column object of that type holding its default cells *)
      match nth_error p ti with
      | None => LSkip
      | Some t =>
          LUpd ti (lbind t name (List.length (l_cols t))
                         (l_cols t ++ [{| lc_kind := k; lc_rowid := idx_of_list (ia (l_rowid t));
                                          lc_cells := repeat (default_cell k) (nrows_l t);
                                          lc_owner := true; lc_tc := true |}]))
      end
  | OSetColFromCol ti name t2i name2 =>
      (* dm[name] = dm2[name2]: a column of a pool table belongs to that table and is one of its columns *)
      match nth_error p ti, nth_error p t2i with
      | Some t, Some t2 =>
          match lookup name2 (l_names t2) with
          | None => LErr
          | Some ci =>
              match nth_error (l_cols t2) ci with
              | None => LSkip
              | Some v =>
                  match setcol_value t name v (Nat.eqb ti t2i) (Nat.eqb ti t2i) (Some ci) with
                  | SCAlias r | SCCopy r => LUpd ti r
                  | SCBadLen => LErr
                  | SCStuck => LSkip
                  end
              end
          end
      | _, _ => LSkip
      end
  | OSetColFromSlice ti name name2 l =>
      (* dm[name] = dm[name2][[i, j, ...]]: the slice belongs to dm but is not one of its columns *)
      match nth_error p ti with
      | None => LSkip
      | Some t =>
          match lcol_of t name2 with
          | None => LErr
          | Some c =>
              match all_some (map (norm_index (nrows_l t)) l) with
              | None => LErr
              | Some ps =>
                  match slice_col c ps with
                  | None => LSkip
                  | Some v =>
                      match setcol_value t name v true false None with
                      | SCAlias r | SCCopy r => LUpd ti r
                      | SCBadLen => LErr
                      | SCStuck => LSkip
                      end
                  end
              end
          end
      end
  | _ => LSkip
  end.
