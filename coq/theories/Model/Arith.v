(* L1 for C13: BaseColumn._operate / NumericColumn._operate / IntColumn._operate,
   the operator methods, _tosequence of the other operand and _map, composed
   from the regenerated kernels (Gen/KArith.v: operator table, per-cell code;
   Gen/KCheck.v: the _checktype chains) and the NumPy cast models of
   Model/Store.v.  No proofs here. *)
From Coq Require Import ZArith List Bool String.
From DM Require Import Base.PyVal Base.CsvPy Spec.Nf Spec.Arith Gen.KCheck Gen.KArith Gen.KCsv Model.Store.
Import ListNotations.
Open Scope Z_scope.

Section ArithModel.
  Variable num_op : binop -> num -> num -> num.
  Variable fstr : fl -> string.

  (* py3compat.safe_decode on a cell value: the regenerated decision chain of Gen/KCsv.v (k_safe_decode: str as is;
     Integral -> str(int(s)); try: assert int(s) == float(s); str(int(s))  except: try: str(float(s)) except: pass;
     finally str(s)) applied to the cell as a Python object; it always yields a str *)
  Definition safe_decode (v : val) : string :=
    match pyv_text (k_safe_decode fstr (pyv_of_val v)) with
    | Ok s => s
    | Raise _ => EmptyString             (* never reached (safe_decode_text) *)
    end.

  (* operator.X applied to two Python numbers held in cells *)
  Definition py_number_op (op : binop) (a b : val) : val :=
    match val_num a, val_num b with
    | Some p, Some q => val_of_num (num_op op p q)
    | _, _ => VNone                       (* never reached: guarded by the NUMBER test *)
    end.
  Definition concat_op (has_str_op : bool) : option (string -> string -> string) :=
    if has_str_op then Some String.append else None.

  (* NumPy views of a value that sits in (or is broadcast against) a float64 / int64 array *)
  Definition np_f64 (v : val) : num := match val_num v with Some n => NFlt (num_fl n) | None => NFlt FNan end.
  Definition np_i64 (v : val) : num := match val_num v with Some n => NInt (num_int n) | None => NInt 0 end.
  Definition as_f64 (n : num) : num := NFlt (num_fl n).
  Definition as_i64 (n : num) : num := NInt (num_int n).

  (* ---- _tosequence(other, len(self)) *)
  Definition seq_cells (k : kind) (vs : list pyv) (n : nat) : res (list val) :=
    (* BaseColumn._tosequence: _checktype on the first n+1 items, then the length test *)
    bind (all_ok (map (store_cell k) (firstn (S n) vs)))
         (fun xs => if Nat.eqb (List.length xs) n then Ok xs else Raise ValueError).

  Definition scalar_cell (k : kind) (v : pyv) : res val :=
    match k with
    | KMixed => store_cell KMixed v
    | KFloat => store_scalar_direct KFloat v
    | KInt => bind (k_int_checktype v) (fun v' => store_cell KInt v')     (* IntColumn._tosequence, then BaseColumn._tosequence *)
    end.

  Definition takes_array (k k2 : kind) : bool :=
    match k, k2 with KFloat, (KFloat | KInt) => true | _, _ => false end.

  Definition operand_cells (k : kind) (o : operand) (n : nat) : res (list val) :=
    match o with
    | OScalar v => bind (scalar_cell k v) (fun x => Ok (repeat x n))
    | OSeq vs => seq_cells k vs n
    | OCol k2 cells =>
        if takes_array k k2 && Nat.eqb (List.length cells) n
        then all_ok (map (store_from_col k k2) cells)           (* NumericColumn: value.array *)
        else seq_cells k (map pyv_of_val cells) n               (* iterated like any sequence *)
    end.

  (* ---- the element-wise operation *)
  Definition is_neg_int (v : val) : bool := match v with VInt z => z <? 0 | _ => false end.

  Definition operate_cells (k : kind) (d : dunder) (cells xs : list val) : res (list val) :=
    match k with
    | KMixed =>
        let '(op, has_str, flip) := k_base_dunder d in
        Ok (map2 (fun c x => k_base_cell (py_number_op op) (concat_op has_str) safe_decode flip (k_base_pair flip c x))
                 cells xs)
    | KFloat =>
        let '(op, _, flip) := k_base_dunder d in
        Ok (map2 (fun c x => val_of_num (k_numeric_cell (fun a b => as_f64 (num_op op a b)) flip (np_f64 c) (np_f64 x)))
                 cells xs)
    | KInt =>
        let '(op, _, flip) := k_int_dunder d in
        (* NumPy: integers to negative integer powers are not allowed (any element) *)
        if match op with OPow => existsb is_neg_int (if flip then cells else xs) | _ => false end
        then Raise ValueError
        else Ok (map2 (fun c x => val_of_num (k_int_cell as_i64 (num_op op) flip (np_i64 c) (np_i64 x))) cells xs)
    end.

  Definition result_ids (k : kind) (ids : list N) : list N :=
    match k with KMixed => k_base_rowid ids | _ => k_numeric_rowid ids end.

  (* the operator method d of column c applied to the other operand o *)
  Definition operate (d : dunder) (c : column) (o : operand) : res column :=
    bind (operand_cells (ckind c) o (List.length (ccells c))) (fun xs =>
    bind (operate_cells (ckind c) d (ccells c) xs) (fun out =>
    Ok (Col (ckind c) (result_ids (ckind c) (cids c)) out))).

  (* ---- _map: col @ f, map_(f, col) *)
  (* np.array([...], dtype=float / int) on one Python object *)
  Definition np_array_cast (k : kind) (r : pyv) : res val :=
    match k with
    | KMixed => to_val r                          (* stored as returned *)
    | KFloat =>
        match r with
        | PNone => Ok (VFlt FNan)
        | PStr _ _ (Some f) => Ok (VFlt f)
        | PStr _ _ None => Raise ValueError
        | POther => Raise TypeError
        | _ => np_to_float r
        end
    | KInt =>
        match r with
        | PStr _ (Some z) _ => Ok (VInt z)
        | PStr _ None _ => Raise ValueError
        | PFloat f | PNpFloat _ f => bind (int_of_fl f) np_to_int
        | PNone | POther => Raise TypeError
        | _ => np_to_int r
        end
    end.

  Definition map_ids (k : kind) (ids : list N) : list N :=
    match k with KMixed => k_base_map_rowid ids | _ => k_numeric_map_rowid ids end.

  Definition map_col (f : val -> pyv) (c : column) : res column :=
    let k := ckind c in
    bind (all_ok (match k with
                  | KMixed => map (np_array_cast KMixed) (k_base_map f (ccells c))
                  | _ => k_numeric_map (np_array_cast k) f (ccells c)
                  end))
         (fun out => Ok (Col k (map_ids k (cids c)) out)).
End ArithModel.
