(* L1 for C12: the statistics as the implementation computes them.
   MixedColumn (BaseColumn): _numbers built by the generated filter/conversion kernels, then the generated
   guards / index / weight / denominator kernels around Python's sum, sorted, max, min (Base/QcPy.v).
   FloatColumn / IntColumn (NumericColumn): NumPy's nan-reductions, modelled as "drop NaN, then the textbook
   function" (NumPy trusted) around the generated emptiness guards and the generated ddof.
   Rational arithmetic is exact; IEEE rounding is not modelled.  No proofs in this file. *)
From Coq Require Import ZArith QArith Qcanon List Bool String.
From DM Require Import Base.PyVal Base.QcPy Spec.Nf Spec.Stats Gen.KCheck Gen.KStats.
Import ListNotations.

(* MOut: the input left the model (an infinity among the numbers, a kernel raised, a cell the column type cannot hold) *)
Inductive mres := MNan | MVal (q : Qc) | MOut.

Definition mres_eqb (a b : mres) : bool :=
  match a, b with
  | MNan, MNan | MOut, MOut => true
  | MVal x, MVal y => Qceqb x y
  | _, _ => false
  end.

(* ---- BaseColumn._numbers *)
Fixpoint m_numbers (cells : list val) : res (list fl) :=
  match cells with
  | [] => Ok []
  | v :: r =>
      bind (k_numbers_keep (pyv_of_val v)) (fun keep =>
        if keep then
          bind (k_numbers_conv (pyv_of_val v)) (fun x =>
            match x with
            | PFloat f => bind (m_numbers r) (fun t => Ok (f :: t))
            | _ => Raise TypeError
            end)
        else m_numbers r)
  end.
Fixpoint all_q (l : list fl) : option (list Qc) :=
  match l with
  | [] => Some []
  | f :: r => match fl_q f, all_q r with Some q, Some t => Some (q :: t) | _, _ => None end
  end.
Definition m_nums (cells : list val) : option (list Qc) :=
  match m_numbers cells with Ok l => all_q l | Raise _ => None end.
Definition on_nums (o : option (list Qc)) (f : list Qc -> mres) : mres :=
  match o with Some n => f n | None => MOut end.

(* ---- BaseColumn.mean / median / std (the argument of math.sqrt) / max / min / sum on n = self._numbers *)
Definition b_mean (n : list Qc) : mres :=
  if k_mean_isempty (zlen n) then MNan else MVal (k_mean_val (py_sum n) (zlen n)).
Definition b_median (n0 : list Qc) : mres :=
  let n := qsort n0 in
  if k_median_isempty (zlen n) then MNan else
  let i := k_median_i (zlen n) in
  if k_median_isodd (zlen n) then MVal (qnth n (k_median_odd_idx (zlen n) i))
  else MVal (k_median_even n (zlen n) i).
Definition b_var (n : list Qc) : mres :=
  let m := b_mean n in
  if k_std_few (zlen n) then MNan else
  match m with
  | MVal m => MVal (k_std_var (py_sum (map (fun x => k_std_term x m) n)) (zlen n))
  | _ => MOut
  end.
Definition b_max (n : list Qc) : mres := if k_max_isempty (zlen n) then MNan else MVal (py_max n).
Definition b_min (n : list Qc) : mres := if k_min_isempty (zlen n) then MNan else MVal (py_min n).
Definition b_sum (n : list Qc) : mres := if k_sum_isempty (zlen n) then MNan else MVal (py_sum n).
Definition base_stat (s : stat) (n : list Qc) : mres :=
  match s with
  | Mean => b_mean n | Median => b_median n | Var => b_var n
  | Min => b_min n | Max => b_max n | Sum => b_sum n
  end.
Definition m_stat (s : stat) (cells : list val) : mres := on_nums (m_nums cells) (base_stat s).

(* ---- NumericColumn: nanmean / nanmedian / nanstd(ddof) / nanmax / nanmin / nansum on the array *)
Fixpoint f_vals (cells : list val) : option (list fl) :=
  match cells with
  | [] => Some []
  | VFlt f :: r => option_map (cons f) (f_vals r)
  | _ => None
  end.
Fixpoint i_vals (cells : list val) : option (list Z) :=
  match cells with
  | [] => Some []
  | VInt z :: r => option_map (cons z) (i_vals r)
  | _ => None
  end.
(* the non-NaN elements; None when one of them is infinite *)
Fixpoint np_nums (fs : list fl) : option (list Qc) :=
  match fs with
  | [] => Some []
  | FNan :: r => np_nums r
  | f :: r => match fl_q f, np_nums r with Some q, Some t => Some (q :: t) | _, _ => None end
  end.
Definition np_var (n : list Qc) : mres :=
  let dof := (zlen n - k_np_ddof)%Z in
  if (dof <=? 0)%Z then MNan else MVal (qsum (map (sqdev (mean n)) n) / qz dof)%Qc.
Definition num_stat (s : stat) (len_seq : Z) (n : list Qc) : mres :=
  match s with
  | Mean => if nonempty n then MVal (mean n) else MNan
  | Median => if nonempty n then MVal (median n) else MNan
  | Var => np_var n
  | Max => if k_np_max_isempty len_seq then MNan else if nonempty n then MVal (qmax n) else MNan
  | Min => if k_np_min_isempty len_seq then MNan else if nonempty n then MVal (qmin n) else MNan
  | Sum => if k_np_sum_isempty len_seq then MNan else MVal (qsum n)
  end.
Definition f_stat (s : stat) (fs : list fl) : mres := on_nums (np_nums fs) (num_stat s (zlen fs)).
Definition i_stat (s : stat) (zs : list Z) : mres := num_stat s (zlen zs) (map qz zs).

Definition l1_stat (k : kind) (s : stat) (cells : list val) : mres :=
  match k with
  | KMixed => m_stat s cells
  | KFloat => match f_vals cells with Some fs => f_stat s fs | None => MOut end
  | KInt => match i_vals cells with Some zs => i_stat s zs | None => MOut end
  end.

(* ---- unique / count.  set(self._seq) keeps one representative per value (NaN objects are compared by
   identity and are not modelled); sorted() gives ascending order when everything is a number and no NaN is
   present, otherwise (fallback key, NaN) the order is left open.  np.unique: ascending distinct values. *)
Inductive umodel := UOrdered (l : list key) | UAnyOrder (l : list key).
Definition key_q (k : key) : option Qc := match k with KNum q => Some q | _ => None end.
Fixpoint all_some {A} (l : list (option A)) : option (list A) :=
  match l with
  | [] => Some []
  | Some a :: r => option_map (cons a) (all_some r)
  | None :: _ => None
  end.
Definition has_nan (cells : list val) : bool := existsb (fun v => match v with VFlt FNan => true | _ => false end) cells.
Definition l1_unique (k : kind) (cells : list val) : umodel :=
  let d := distinct cells in
  match all_some (map key_q d) with
  | Some qs => if (match k with KMixed => has_nan cells | _ => false end) then UAnyOrder d
               else UOrdered (map KNum (qsort qs))
  | None => UAnyOrder d
  end.
(* count = len(unique); np.unique lists NaN once *)
Definition l1_count (k : kind) (cells u : list val) : Z :=
  match k with
  | KMixed => zlen u
  | _ => (zlen (distinct cells) + (if has_nan cells then 1 else 0))%Z
  end.

(* ---- a MixedColumn holding cells that were stored without the type check (Spec/Stats.v xcell): _numbers sees
   the objects themselves -- bool, NumPy scalars -- through the same generated filter / conversion kernels.
   Fraction / Decimal objects are outside the classified universe pyv: the model answers MOut for such a column. *)
Definition pyv_of_xcell (c : xcell) : option pyv :=
  match c with
  | XV v => Some (pyv_of_val v)
  | XBool b => Some (PBool b)
  | XNpInt z => Some (PNpInt z)
  | XNpFlt is64 f => Some (PNpFloat is64 f)
  | XRat _ => None
  end.
Fixpoint p_numbers (ps : list pyv) : res (list fl) :=
  match ps with
  | [] => Ok []
  | p :: r =>
      bind (k_numbers_keep p) (fun keep =>
        if keep then
          bind (k_numbers_conv p) (fun x =>
            match x with
            | PFloat f => bind (p_numbers r) (fun t => Ok (f :: t))
            | _ => Raise TypeError
            end)
        else p_numbers r)
  end.
Definition xm_nums (cells : list xcell) : option (list Qc) :=
  match all_some (map pyv_of_xcell cells) with
  | Some ps => match p_numbers ps with Ok l => all_q l | Raise _ => None end
  | None => None
  end.
Definition xm_stat (s : stat) (cells : list xcell) : mres := on_nums (xm_nums cells) (base_stat s).
Fixpoint all_v (cells : list xcell) : option (list val) :=
  match cells with
  | [] => Some []
  | XV v :: r => option_map (cons v) (all_v r)
  | _ => None
  end.
(* FloatColumn / IntColumn store through NumPy arrays: they only ever hold val cells *)
Definition xl1_stat (k : kind) (s : stat) (cells : list xcell) : mres :=
  match k with
  | KMixed => xm_stat s cells
  | _ => match all_v cells with Some vs => l1_stat k s vs | None => MOut end
  end.
Definition xhas_nan (cells : list xcell) : bool :=
  existsb (fun c => match c with XV (VFlt FNan) | XNpFlt _ FNan => true | _ => false end) cells.
(* Fraction and Decimal objects do not compare with each other (TypeError: safe_sorted falls back to the order of
   their string forms): with such a cell the order of unique is left open *)
Definition xhas_rat (cells : list xcell) : bool :=
  existsb (fun c => match c with XRat _ => true | _ => false end) cells.
Definition xl1_unique (k : kind) (cells : list xcell) : umodel :=
  let d := xdistinct cells in
  match all_some (map key_q d) with
  | Some qs => if (match k with KMixed => xhas_nan cells || xhas_rat cells | _ => false end) then UAnyOrder d
               else UOrdered (map KNum (qsort qs))
  | None => UAnyOrder d
  end.
Definition xl1_count (k : kind) (cells u : list xcell) : Z :=
  match k with
  | KMixed => zlen u
  | _ => (zlen (xdistinct cells) + (if xhas_nan cells then 1 else 0))%Z
  end.
