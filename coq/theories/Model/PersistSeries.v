(* L1 for C17 on tables with SeriesColumns (object graph: Model/XTable.v):
   pickling through OrderedState (a _SeriesColumn inherits BaseColumn.__getstate__,
   hence the same substring skip test with "_datamatrix"; its __dict__ has the
   two extra attributes _depth and defaultnan and a 2-D _seq), DataMatrix.__setstate__
   with the regenerated id kernel, to_json/from_json with the '_SeriesColumn'
   branch (depth = seq.shape[1], defaultnan back to its default True), and the
   cell lists to_pandas hands to pandas (regenerated: which list, and the depth
   test of _SeriesColumn._printable_list).  Executable, no proofs inside. *)
From Coq Require Import ZArith NArith List Bool String.
From DM Require Import Base.PyVal Base.PersistPy Spec.Nf Spec.Table Model.LTable Spec.Persist Gen.KPersist Model.Persist
  Model.XTable.
Import ListNotations.
Open Scope string_scope.

(* ---------- a series column's __dict__ *)
Inductive sval := SvDepth (n : nat) | SvDnan (b : bool) | SvOwner (b : bool) | SvTc (b : bool) | SvArr (a : list N)
                | SvArgsort | SvSeq (c : list (list fl)).
Definition sstate := (list string * list sval)%type.
Definition ser_attr_names : list string :=
  ["_depth"; "defaultnan"; "_datamatrix"; "_typechecking"; "_rowid"; "_rowid_argsort_cache"; "_seq"].
Definition ser_dict (s : scol) : dict sval :=
  [("_depth", SvDepth (sc_depth s)); ("defaultnan", SvDnan (sc_dnan s)); ("_datamatrix", SvOwner (sc_owner s));
   ("_typechecking", SvTc (sc_tc s)); ("_rowid", SvArr (sc_rowid s)); ("_rowid_argsort_cache", SvArgsort);
   ("_seq", SvSeq (sc_cells s))].
Definition ser_getstate (s : scol) : sstate := getstate k_ignore_col (ser_dict s).
Definition ser_setstate (st : sstate) : option scol :=
  let d := setstate st in
  let owner := match lookup "_datamatrix" d with Some (SvOwner b) => b | _ => false end in
  match lookup "_depth" d, lookup "defaultnan" d, lookup "_rowid" d, lookup "_seq" d, lookup "_typechecking" d with
  | Some (SvDepth n), Some (SvDnan b), Some (SvArr a), Some (SvSeq c), Some (SvTc tc) =>
      Some {| sc_depth := n; sc_dnan := b; sc_rowid := a; sc_cells := c; sc_owner := owner; sc_tc := tc |}
  | _, _, _, _, _ => None
  end.

Inductive xcstate := XcP (s : cstate) | XcS (s : sstate).
Definition xcol_getstate (c : xcol) : xcstate :=
  match c with XP c => XcP (col_getstate c) | XS s => XcS (ser_getstate s) end.
Definition xcol_setstate (s : xcstate) : option xcol :=
  match s with
  | XcP s => match col_setstate s with Some c => Some (XP c) | None => None end
  | XcS s => match ser_setstate s with Some c => Some (XS c) | None => None end
  end.

(* ---------- DataMatrix *)
Inductive xdval := XvCols (names : list (string * nat)) (objs : list xcstate) | XvRowid (st : istate) | XvDflt (k : kind)
                 | XvSorted (b : bool) | XvId (n : nat).
Definition xdstate := (list string * list xdval)%type.
Definition xdm_dict (x : xtable) : dict xdval :=
  [("_cols", XvCols (x_names x) (map xcol_getstate (x_cols x))); ("_rowid", XvRowid (index_getstate (x_rowid x)));
   ("_default_col_type", XvDflt (x_dflt x)); ("_id", XvId (x_fam x)); ("_sorted", XvSorted (x_sorted x))].
Definition xdm_getstate (x : xtable) : xdstate := getstate k_ignore_dm (xdm_dict x).

Definition set_sowner (s : scol) : scol :=
  {| sc_depth := sc_depth s; sc_dnan := sc_dnan s; sc_rowid := sc_rowid s; sc_cells := sc_cells s; sc_owner := true;
     sc_tc := sc_tc s |}.
Definition xset_owner (c : xcol) : xcol := match c with XP c => XP (set_owner c) | XS s => XS (set_sowner s) end.
(* for name, column in self.columns: column._datamatrix = self *)
Definition xreattach (listed : list (string * nat)) (cols : list xcol) : list xcol :=
  map (fun ic => if mem_nat (fst ic) (map snd listed) then xset_owner (snd ic) else snd ic)
      (combine (seq 0 (List.length cols)) cols).

Definition xdm_setstate (nextid : nat) (st : xdstate) : option (xtable * nat) :=
  let d := dict_set "_id" (XvId (fst (setstate_ids nextid))) (setstate st) in
  match lookup "_cols" d, lookup "_rowid" d, lookup "_default_col_type" d, lookup "_id" d, lookup "_sorted" d with
  | Some (XvCols nm objs), Some (XvRowid ist), Some (XvDflt k), Some (XvId f), Some (XvSorted b) =>
      match all_some (map xcol_setstate objs), index_setstate ist with
      | Some cols, Some rid =>
          Some ({| x_fam := f; x_rowid := rid; x_names := nm; x_cols := xreattach (to_list b nm) cols;
                   x_sorted := b; x_dflt := k |},
                snd (setstate_ids nextid))
      | _, _ => None
      end
  | _, _, _, _, _ => None
  end.
Definition unpickle_x (nextid : nat) (x : xtable) : option (xtable * nat) := xdm_setstate nextid (xdm_getstate x).

(* closed form *)
Definition restore_scol (owner : bool) (s : scol) : scol :=
  {| sc_depth := sc_depth s; sc_dnan := sc_dnan s; sc_rowid := sc_rowid s; sc_cells := sc_cells s; sc_owner := owner;
     sc_tc := sc_tc s |}.
Definition restore_xcol (owner : bool) (c : xcol) : xcol :=
  match c with XP c => XP (restore_col owner c) | XS s => XS (restore_scol owner s) end.
Definition restore_x (f : nat) (x : xtable) : xtable :=
  {| x_fam := f; x_rowid := drop_meta (x_rowid x); x_names := x_names x;
     x_cols := map (fun ic => restore_xcol (mem_nat (fst ic) (map snd (x_names x))) (snd ic))
                   (combine (seq 0 (List.length (x_cols x))) (x_cols x));
     x_sorted := x_sorted x; x_dflt := x_dflt x |}.

(* ---------- JSON: the document handed to json_tricks.dumps; a 2-D ndarray is written with its shape *)
Inductive xjpay := JList (cells : list val) | JArr (nr nc : nat) (rows : list (list fl)).
Definition xjcol := (string * (string * xjpay))%type.
Definition xjdoc := (list N * list xjcol)%type.
Definition series_typename : string := "_SeriesColumn".
Definition xjcol_of (x : xtable) (ni : string * nat) : xjcol :=
  match nth_error (x_cols x) (snd ni) with
  | Some (XP c) => (fst ni, (typename (lc_kind c), JList (lc_cells c)))
  | Some (XS s) => (fst ni, (series_typename, JArr (List.length (sc_cells s)) (sc_depth s) (sc_cells s)))
  | None => (fst ni, (typename KMixed, JList []))
  end.
Definition json_doc_x (x : xtable) : xjdoc :=
  (ia (x_rowid x), map (xjcol_of x) (to_list (x_sorted x) (x_names x))).

(* if coltype == '_SeriesColumn': dm[name] = SeriesColumn(depth=seq.shape[1]); dm[name]._seq = seq
   else: dm[name] = globals()[coltype]; dm[name]._seq = seq *)
Definition json_col_x (n : nat) (jc : xjcol) : option xcol :=
  if String.eqb (fst (snd jc)) series_typename then
    match snd (snd jc) with
    | JArr _ d rows => Some (XS {| sc_depth := d; sc_dnan := true; sc_rowid := iotaN 0 n; sc_cells := rows;
                                   sc_owner := true; sc_tc := true |})
    | JList _ => None                       (* a list has no .shape *)
    end
  else
    match snd (snd jc) with
    | JList cells => match json_col n (fst jc, (fst (snd jc), cells)) with Some c => Some (XP c) | None => None end
    | JArr _ _ _ => None                    (* a 2-D array as the cells of a plain column: outside the model *)
    end.
Definition from_json_doc_x (nextid : nat) (d : xjdoc) : option xtable :=
  let n := List.length (fst d) in
  if nodup_str (map fst (snd d)) then
    match all_some (map (json_col_x n) (snd d)) with
    | Some cols => Some {| x_fam := nextid; x_rowid := fresh_index n;
                           x_names := combine (map fst (snd d)) (seq 0 (List.length (snd d)));
                           x_cols := cols; x_sorted := true; x_dflt := KMixed |}
    | None => None
    end
  else None.

Section JsonX.
  Variable text : Type.
  Variable dumps : xjdoc -> text.
  Variable loads : text -> xjdoc.
  Definition to_json_x (x : xtable) : text := dumps (json_doc_x x).
  Definition from_json_x (nextid : nat) (s : text) : option xtable := from_json_doc_x nextid (loads s).
End JsonX.

(* a series read by name: depth and rows *)
Definition xser_view (x : xtable) (n : string) : option (nat * list (list fl)) :=
  match lookup n (x_names x) with
  | Some i => match nth_error (x_cols x) i with Some (XS s) => Some (sc_depth s, sc_cells s) | _ => None end
  | None => None
  end.

(* ---------- pandas: what to_pandas puts under a column name / hands to pandas.Series.
   PcText n: n strings (the ellipsized print form of _SeriesColumn._printable_list) *)
Inductive pcells := PcVals (l : list val) | PcRows (rows : list (list fl)) | PcText (n : nat).
Definition cells_of (src : cellsrc) (c : xcol) : pcells :=
  match c with
  | XP c => PcVals (lc_cells c)              (* list(col) = col._printable_list() = the cells (pinned) *)
  | XS s => match src with
            | SrcList => PcRows (sc_cells s)
            | SrcPrintable => if k_printable_keeps_rows (Z.of_nat (sc_depth s)) then PcRows (sc_cells s)
                              else PcText (List.length (sc_cells s))
            end
  end.
Definition pandas_payload_x (x : xtable) : list (string * pcells) :=
  map (fun ni => match nth_error (x_cols x) (snd ni) with
                 | Some c => (fst ni, cells_of k_pandas_src_dm c)
                 | None => (fst ni, PcVals [])
                 end) (to_list (x_sorted x) (x_names x)).
Definition pandas_series_x (c : xcol) : pcells := cells_of k_pandas_src_col c.
(* the cells themselves *)
Definition true_cells (c : xcol) : pcells :=
  match c with XP c => PcVals (lc_cells c) | XS s => PcRows (sc_cells s) end.
