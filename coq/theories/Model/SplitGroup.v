(* L1 for C14: ops.split / ops.group as the code computes them -- row ids,
   selection by row id (_compare_* -> _selectrowid -> _getrowidkey), the
   recursive generator of split, group's key numbering through a dict, the
   hashed IntColumn, the growing series -- on top of the kernels regenerated
   from the source (Gen/KSplitGroup.v).  No proofs here. *)
From Coq Require Import ZArith NArith List Bool String.
From DM Require Import Base.PyVal Spec.Nf Spec.Table Spec.SplitGroup Gen.KSplitGroup.
Import ListNotations.

(* a DataMatrix: its row ids and its columns (every column carries the same ids) *)
Record mdm := { m_rid : list N; m_cols : cols }.

Fixpoint find_col (n : string) (v : cols) : option (kind * list val) :=
  match v with
  | [] => None
  | (m, k, cs) :: r => if String.eqb n m then Some (k, cs) else find_col n r
  end.

(* Index.index / the argsort+searchsorted lookup of numeric columns: position of a row id *)
Fixpoint idx_of (r : N) (l : list N) : nat :=
  match l with [] => O | x :: t => if N.eqb r x then O else S (idx_of r t) end.
(* BaseColumn._getrowidkey: [self._seq[self._rowid.index(_rowid)] for _rowid in key] *)
Definition m_getrowidkey (rid : list N) (cells : list val) (key : list N) : list val :=
  map (fun r => cell cells (idx_of r rid)) key.
(* DataMatrix._selectrowid *)
Definition m_selectrowid (d : mdm) (key : list N) : mdm :=
  {| m_rid := key;
     m_cols := map (fun '(n, k, cs) => (n, k, m_getrowidkey (m_rid d) cs key)) (m_cols d) |}.

Definition is_flt (v : val) : bool := match v with VFlt _ => true | _ => false end.
Definition is_inf_val (v : val) : bool := match v with VFlt (FInf _) => true | _ => false end.
(* the row ids kept by a loop `for rowid, val in zip(rowid, seq): if keep val: append rowid` / by np.where(mask) *)
Definition keep_ids (keep : val -> bool) (rid : list N) (cells : list val) : list N :=
  map fst (filter (fun rc => keep (snd rc)) (combine rid cells)).

(* col == other for a scalar `other` *)
Definition m_compare_eq (k : kind) (rid : list N) (cells : list val) (other : val) : list N :=
  match k_compare_route (is_flt other) (is_nan other) with
  | 1%nat => keep_ids (fun c => k_cmpnan_keep (is_flt c) (is_nan c)) rid cells           (* _compare_nan *)
  | 0%nat =>
      match k with
      | KMixed => keep_ids (fun c => py_cmp CEq c other) rid cells                        (* op(val, other), errors = no *)
      | KFloat | KInt =>
          match val_num other with                  (* _checktype(other): a number stays that number *)
          | Some _ => keep_ids (fun c => k_num_eq_cell (is_nan other) (is_inf_val other) (is_nan c) (py_cmp CEq c other))
                               rid cells
          | None => []                              (* IntColumn.__eq__: TypeError -> nothing is equal *)
          end
      end
  | _ => []
  end.

(* list(safe_sorted(set(seq))): set removes ==-duplicates; sorted() works when all values are numbers or all are
   text, otherwise the values are sorted by their text *)
Definition m_safe_sorted (l : list val) : list val :=
  if forallb is_num l then isort num_le l
  else if forallb is_str l then isort str_le l
  else isort text_le l.
Definition m_unique (k : kind) (cells : list val) : list val :=
  match k with
  | KMixed => m_safe_sorted (distinct (py_cmp CEq) cells)
  | KFloat | KInt => isort num_le (distinct key_eq cells)         (* np.unique: sorted, NaNs collapsed *)
  end.

(* split(col) / split(col, v1, ...) : for val in _values: dm = col == val; yield *)
Definition m_split_vals (d : mdm) (kname : string) (given : option (list val)) : list (val * mdm) :=
  match find_col kname (m_cols d) with
  | None => []
  | Some (k, cells) =>
      let has_values := match given with Some (_ :: _) => true | _ => false end in
      let vals := k_split_values has_values (match given with Some g => g | None => [] end) (m_unique k cells) in
      map (fun v => (v, m_selectrowid d (m_compare_eq k (m_rid d) cells v))) vals
  end.
(* split(col1, col2, ...): for val1, dm in split(col1): for rest in split(cols of dm): yield (val1, *rest) *)
Fixpoint m_splitm (names : list string) (d : mdm) : list (list val * mdm) :=
  match names with
  | [] => [([], d)]
  | n :: r => flat_map (fun vd => map (fun x => (fst vd :: fst x, snd x)) (m_splitm r (snd vd)))
                       (m_split_vals d n None)
  end.
(* the generator as called by the user: which branch, what is yielded *)
Inductive split_out := SPairs (l : list (list val * mdm)) | SBare (l : list mdm) | SRaise (e : exn).
Definition m_split (d : mdm) (first : string) (more_cols : list string) (values : list val) : split_out :=
  let has_values := match more_cols, values with [], [] => false | _, _ => true end in
  let any_col := match more_cols with [] => false | _ => true end in
  let all_col := match values with [] => true | _ => false end in
  if k_split_multi has_values any_col then
    if k_split_bad all_col then SRaise ValueError else SPairs (m_splitm (first :: more_cols) d)
  else if k_split_yield_bare has_values then SBare (map snd (m_split_vals d first (Some values)))
  else SPairs (map (fun vd => ([fst vd], snd vd)) (m_split_vals d first None)).

(* ---------- group *)
(* dict lookup by tuple equality *)
Fixpoint tuple_eq (a b : list val) : bool :=
  match a, b with
  | [], [] => true
  | x :: a', y :: b' => py_cmp CEq x y && tuple_eq a' b'
  | _, _ => false
  end.
(* the dict `keyids`, generic in the equality that identifies keys (the code: tuple ==) *)
Section KeyIds.
  Context {K : Type}.
  Variable e : K -> K -> bool.
  Fixpoint gdict_get (k : K) (d : list (K * Z)) : option Z :=
    match d with [] => None | (k', v) :: r => if e k k' then Some v else gdict_get k r end.
  (* [keyids.setdefault(key, len(keyids)) for key in keys] *)
  Fixpoint gnumber_keys (keys : list K) (d : list (K * Z)) : list Z :=
    match keys with
    | [] => []
    | k :: r => match gdict_get k d with
                | Some i => i :: gnumber_keys r d
                | None => let i := k_group_newid (Z.of_nat (List.length d)) in i :: gnumber_keys r (d ++ [(k, i)])
                end
    end.
End KeyIds.
Definition dict_get : list val -> list (list val * Z) -> option Z := gdict_get tuple_eq.
Definition number_keys : list (list val) -> list (list val * Z) -> list Z := gnumber_keys tuple_eq.
(* the key cell: NaN is replaced by the text nan *)
Definition m_keycell (v : val) : val := k_group_keycell (negb (py_cmp CEq v v)) (VStr "nan") v.

(* the growing series of one grouped column: depth and rows *)
Definition pad_to (depth : nat) (row : list fl) : list fl := row ++ repeat FNan (depth - List.length row).
Definition series_step (st : nat * list (list fl)) (i : nat) (vals : list fl) : nat * list (list fl) :=
  let '(depth, rows) := st in
  let n := Z.of_nat (List.length vals) in
  let '(depth1, rows1) :=
    if k_group_grow (Z.of_nat depth) n
    then let d1 := Z.to_nat (k_group_newdepth (Z.of_nat depth) n) in (d1, map (pad_to d1) rows)
    else (depth, rows) in
  let w := Z.to_nat (k_group_fill (Z.of_nat depth) n) in
  (depth1, map (fun jr => if Nat.eqb (fst jr) i then firstn w vals ++ skipn w (snd jr) else snd jr)
               (combine (seq 0 (List.length rows1)) rows1)).
Fixpoint series_run (st : nat * list (list fl)) (i : nat) (groups : list (list fl)) : nat * list (list fl) :=
  match groups with
  | [] => st
  | g :: r => series_run (series_step st i g) (S i) r
  end.

Definition m_group (d : mdm) (bynames : list string) : option gtable :=
  match all_some (map (fun n => find_col n (m_cols d)) bynames) with
  | None => None
  | Some bys =>
      let n := List.length (m_rid d) in
      let bycols := map (fun kc => map m_keycell (snd kc)) bys in
      let keys := map (fun p => map (fun c => cell c p) bycols) (seq 0 n) in     (* the tuples of zip over bycols; one empty tuple per row when there is no by-column *)
      let hashed := map VInt (number_keys keys []) in                            (* the IntColumn bycol_hashed *)
      let ukeys := m_unique KInt hashed in
      let sel := map (fun k => m_selectrowid d (m_compare_eq KInt (m_rid d) hashed k)) ukeys in   (* dm_ per key *)
      let ng := List.length ukeys in
      Some {| g_n := ng;
              g_by := flat_map (fun '(nm, k, _) =>
                                  if existsb (String.eqb nm) bynames
                                  then [(nm, k, map (fun s => match find_col nm (m_cols s) with
                                                              | Some (_, cs) => cell cs (Z.to_nat k_group_bycell_row)
                                                              | None => VNone end) sel)]
                                  else []) (m_cols d);
              g_series := flat_map (fun '(nm, _, _) =>
                                  if existsb (String.eqb nm) bynames then []
                                  else let vals := map (fun s => match find_col nm (m_cols s) with
                                                                 | Some (_, cs) => map to_fl cs
                                                                 | None => [] end) sel in
                                       let '(depth, rows) := series_run (O, repeat [] ng) O vals in
                                       [(nm, depth, rows)]) (m_cols d) |}
  end.

(* ---------- the premise of the refinement theorem for group (Props/C14.v), as a boolean so that it can be
   evaluated on every dumped source: distinct row ids, at least one column unless there are no rows, every column as
   long as the row-id list, distinct column names, and no by-cell is the literal text nan (C05: no column stores it) *)
Fixpoint nodup_str (l : list string) : bool :=
  match l with [] => true | x :: r => negb (existsb (String.eqb x) r) && nodup_str r end.
Definition not_nan_text_b (v : val) : bool := match v with VStr s => negb (String.eqb s "nan") | _ => true end.
Definition wf_group_b (d : mdm) (bynames : list string) : bool :=
  nodup_N (m_rid d)
  && Nat.eqb (nrows_of (m_cols d)) (List.length (m_rid d))
  && forallb (fun '(_, _, cs) => Nat.eqb (List.length cs) (List.length (m_rid d))) (m_cols d)
  && nodup_str (map (fun c => fst (fst c)) (m_cols d))
  && forallb (fun '(n, _, cs) => negb (existsb (String.eqb n) bynames) || forallb not_nan_text_b cs) (m_cols d).
