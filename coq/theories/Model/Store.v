(* L1: what each write path stores in a cell, composed from the generated
   type-checking kernels (Gen/KCheck.v) and hand-written models of the NumPy
   casts that follow them.  No proofs here. *)
From Coq Require Import ZArith List Bool String.
From DM Require Import Base.PyVal Spec.Nf Gen.KCheck.
Import ListNotations.
Open Scope Z_scope.

(* NumPy: float64_array[i] = x  for a Python/NumPy number x *)
Definition np_to_float (v : pyv) : res val :=
  match v with
  | PInt z | PNpInt z => Ok (VFlt (round53 z))
  | PBool b => Ok (VFlt (if b then FFin false 1 0 else FZero false))
  | PFloat f | PNpFloat _ f => Ok (VFlt f)
  | PNone => Raise TypeError
  | _ => Raise ValueError
  end.
(* NumPy: int64_array[i] = x  for a Python int / bool (what IntColumn._checktype returns) *)
Definition np_to_int (v : pyv) : res val :=
  match v with
  | PInt z | PNpInt z => Ok (VInt z)
  | PBool b => Ok (VInt (if b then 1 else 0))
  | _ => Raise TypeError
  end.

Definition to_val (v : pyv) : res val :=
  match val_of_pyv v with Some x => Ok x | None => Raise OtherError end.

(* the per-cell chain:  column._checktype(value) followed by the store *)
Definition store_cell (k : kind) (v : pyv) : res val :=
  match k with
  | KMixed => bind (k_base_checktype v) to_val
  | KFloat => bind (k_numeric_checktype (PFloat nan) v) np_to_float
  | KInt => bind (k_int_checktype v) np_to_int
  end.

(* NumericColumn._tosequence casts a bare Python int/float/bool scalar directly (no _checktype) *)
Definition store_scalar_direct (k : kind) (v : pyv) : res val :=
  match k with
  | KFloat => if is_int_or_float v then np_to_float v else store_cell k v
  | _ => store_cell k v
  end.

(* the write paths of C05 and which per-cell function they go through *)
Inductive path :=
  | WholeScalar | WholeSeq | CellInt | SliceScalar | SliceSeq | IndexList | Selection
  | RowAttr | CtorKeyword | ConcatDM | ConcatDict | CsvRead.

Definition scalar_path (p : path) : bool :=
  match p with WholeScalar | SliceScalar | CtorKeyword | Selection => true | _ => false end.
(* Selection: col[dm] = scalar goes through col[index list] = scalar, i.e. _tosequence(scalar) *)

Definition store (p : path) (k : kind) (v : pyv) : res val :=
  if scalar_path p then store_scalar_direct k v else store_cell k v.

(* col[a:b] = other_column : the cells of `other` (kind k2, already in normal form) are stored in a column of kind k.
   NumericColumn._tosequence takes a NumericColumn operand of matching length as an array (NumPy cast);
   IntColumn._tosequence and BaseColumn._tosequence go cell by cell. *)
Definition store_from_col (k k2 : kind) (x : val) : res val :=
  match k, k2, x with
  | KFloat, (KFloat | KInt), VInt z => Ok (VFlt (round53 z))
  | KFloat, (KFloat | KInt), VFlt f => Ok (VFlt f)
  | _, _, _ => store_cell k (pyv_of_val x)
  end.

Fixpoint store_all (k : kind) (vs : list pyv) : res (list val) :=
  match vs with
  | [] => Ok []
  | v :: r => bind (store_cell k v) (fun x => bind (store_all k r) (fun xs => Ok (x :: xs)))
  end.
