(* L1 state: the implementation-shaped object graph of one DataMatrix -- per
   column row ids, position caches, owner pointers, type-checking flags --
   as it is dumped from the running implementation and as the L1 model
   manipulates it.  Plus: the boolean representation invariant inv_b, the
   abstraction abs to the L0 table, and comparison up to observability.
   Definitions only. *)
From Coq Require Import ZArith NArith List Bool String.
From DM Require Import Base.PyVal Spec.Nf Spec.Table.
Import ListNotations.
Open Scope Z_scope.

(* an Index object: array of ids + the two caches (None = not filled) *)
Record index := { ia : list N; imeta : option (list (N * nat)); imax : option Z }.

Record lcol := { lc_kind : kind;
                 lc_rowid : index;          (* numeric columns hold a bare id array: caches are None *)
                 lc_cells : list val;
                 lc_owner : bool;           (* col._datamatrix is the DataMatrix that lists it *)
                 lc_tc : bool }.            (* _typechecking *)
Record ltable := { l_fam : nat; l_rowid : index;
                   l_names : list (string * nat);      (* name -> index of the column object in l_cols *)
                   l_cols : list lcol;
                   l_sorted : bool; l_dflt : kind }.

Definition kind_eqb (a b : kind) : bool :=
  match a, b with KMixed, KMixed | KFloat, KFloat | KInt, KInt => true | _, _ => false end.
Fixpoint list_eqb {A} (e : A -> A -> bool) (a b : list A) : bool :=
  match a, b with
  | [], [] => true
  | x :: a', y :: b' => e x y && list_eqb e a' b'
  | _, _ => false
  end.
Definition ids_eqb := list_eqb N.eqb.

(* caches: absent or exactly what would be computed now *)
Definition meta_ok (i : index) : bool :=
  match imeta i with
  | None => true
  | Some m => list_eqb (fun '(a, p) '(b, q) => N.eqb a b && Nat.eqb p q) m
                       (combine (ia i) (seq 0 (List.length (ia i))))
  end.
Definition max_ok (i : index) : bool :=
  match imax i with
  | None => true
  | Some m => match ia i with [] => m =? -1 | _ => m =? Z.of_N (maxN (ia i)) end
  end.
Definition index_ok (i : index) : bool := meta_ok i && max_ok i.

(* cells of a column are normal forms of its kind *)
Definition cell_ok (k : kind) (c : val) : bool :=
  match k, c with
  | KMixed, VInt _ | KMixed, VStr _ | KMixed, VNone => true
  | KMixed, VFlt f => negb (fl_is_finite f && fl_integral f)
  | KFloat, VFlt _ => true
  | KInt, VInt z => (- 2 ^ 63 <=? z) && (z <? 2 ^ 63)
  | _, _ => false
  end.

Definition col_ok (t : ltable) (c : lcol) : bool :=
  ids_eqb (ia (lc_rowid c)) (ia (l_rowid t))
  && Nat.eqb (List.length (lc_cells c)) (List.length (ia (l_rowid t)))
  && lc_owner c && lc_tc c
  && index_ok (lc_rowid c)
  && forallb (cell_ok (lc_kind c)) (lc_cells c).

Fixpoint nodup_str (l : list string) : bool :=
  match l with [] => true | x :: r => negb (existsb (String.eqb x) r) && nodup_str r end.

(* the representation invariant of one DataMatrix, as a boolean *)
Definition inv_b (t : ltable) : bool :=
  nodup_N (ia (l_rowid t))
  && index_ok (l_rowid t)
  && nodup_str (map fst (l_names t))
  && forallb (fun '(_, i) => Nat.ltb i (List.length (l_cols t))) (l_names t)
  && forallb (col_ok t) (l_cols t).

(* what the object graph denotes *)
Definition abs (t : ltable) : table :=
  {| fam := l_fam t; ids := ia (l_rowid t); names := l_names t;
     slots := map (fun c => {| skind := lc_kind c; scells := lc_cells c |}) (l_cols t);
     tsorted := l_sorted t; dflt := l_dflt t |}.

(* ---------- observational equality of L0 tables: ids, family, flags, the
   column-wise view and which names share a column (slot numbering and
   unreferenced slots are not observable) *)
Fixpoint first_with {A} (i : nat) (l : list (A * nat)) (k : nat) : nat :=
  match l with
  | [] => k
  | (_, j) :: r => if Nat.eqb i j then k else first_with i r (S k)
  end.
Definition alias_canon (t : table) : list nat := map (fun '(_, i) => first_with i (names t) 0) (names t).

Definition view_eqb (a b : list (string * kind * list val)) : bool :=
  list_eqb (fun '(n, k, c) '(m, j, d) => String.eqb n m && kind_eqb k j && list_eqb val_eqv c d) a b.
(* cells are compared by Python equality of the stored value (NaN ~ NaN, 0.0 ~ -0.0) *)

Definition table_eqb (a b : table) : bool :=
  Nat.eqb (fam a) (fam b) && ids_eqb (ids a) (ids b)
  && view_eqb (view a) (view b)
  && list_eqb Nat.eqb (alias_canon a) (alias_canon b)
  && Bool.eqb (tsorted a) (tsorted b) && kind_eqb (dflt a) (dflt b).
