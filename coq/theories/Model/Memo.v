(* L1 model of datamatrix._functional._memoize.memoize -- executable, no proofs.
   Mirrors _call_without_arguments -> _read_cache -> lazy evaluation -> body ->
   _write_cache (OrderedDict store + eviction loop).  Every decision is taken by
   a kernel of Gen/KMemo.v regenerated from the source.  State types are those
   of Spec/Memo.v (the implementation's fields _cache, _ignore_cache_once, the
   options and the cache folders are exactly the spec's vocabulary).

   Two readings of what the stores hold.  Section MemoModel: the value itself (by value; the pickle round trip is
   collapsed).  Section MemoSerialised, as the code does it: both stores hold pickle.dumps(retval) -- _cache[memkey]
   = pickle.dumps(retval), pickle.dump(retval, fd) -- a hit returns pickle.loads(...) of the stored bytes, a miss
   returns retval itself, cache_size adds up sys.getsizeof of the BYTES; _read_cache / _write_cache are the same
   functions, at the type of pickles.  Proofs/MemoSerialFacts.v: under loads (dumps v) = v the serialised model
   produces the trace of the by-value model (so every theorem about traces holds for it), and what a hit returns
   is rebuilt from the stored bytes.  (Isolation -- mutating a returned object never changes a later result -- is
   then a fact about types: no state of the serialised model holds a value, only pickles.  Coq values cannot be
   mutated, so this says nothing about aliasing in the implementation: that is probed by the harness.) *)
From Coq Require Import ZArith List Bool.
From DM Require Import Gen.KMemo Spec.Memo.
Import ListNotations.
Open Scope Z_scope.

Section MemoModel.
  Variables (A K V F : Type).
  Variable f : A -> V.
  Variable key_of : A -> K.
  Variable thunks : A -> nat.
  Variable size : V -> Z.
  Variables (keqb : K -> K -> bool) (feqb : F -> F -> bool).

  Notation opts := (opts K F).
  Notation inst := (inst K V).
  Notation world := (world K V F).
  Notation event := (event K V).
  Notation lookup := (lookup K V keqb).
  Notation remove := (remove K V keqb).
  Notation dlookup := (dlookup K V F keqb feqb).
  Notation dremove := (dremove K V F keqb feqb).
  Notation dkeys := (dkeys K V F feqb).
  Notation total := (total K V size).

  Definition is_some {X} (o : option X) : bool := match o with Some _ => true | None => false end.

  (* OrderedDict.__setitem__: an existing key keeps its position *)
  Fixpoint od_set (k : K) (v : V) (m : list (K * V)) : list (K * V) :=
    match m with
    | [] => [(k, v)]
    | (k', v') :: r => if keqb k k' then (k', v) :: r else (k', v') :: od_set k v r
    end.
  (* writing a cache file: replaces the file if it exists *)
  Fixpoint dset (fo : F) (k : K) (v : V) (d : list (F * K * V)) : list (F * K * V) :=
    match d with
    | [] => [(fo, k, v)]
    | e :: r => if at_ K V F keqb feqb fo k e then (fo, k, v) :: r else e :: dset fo k v r
    end.

  (* OrderedDict.popitem(last=...) *)
  Definition pop (last : bool) (m : list (K * V)) : list (K * V) :=
    if last then removelast m else tl m.

  (* while self.cache_size > self._max_size: self._cache.popitem(last=False)
     fuel = number of entries (popitem on an empty dict raises: left to the
     hypothesis 0 <= max_size) *)
  Fixpoint evict (fuel : nat) (mx : Z) (m : list (K * V)) : list (K * V) :=
    match fuel with
    | O => m
    | S n => if k_evict_test (total m) mx then evict n mx (pop k_pop_last m) else m
    end.

  Definition memkey (o : opts) (a : A) : K :=
    match xkey o with
    | None => k_memkey true (key_of a) (key_of a)
    | Some x => k_memkey false (key_of a) x
    end.

  (* _read_cache: (value if cached, new instance state, new disk) *)
  Definition read_cache (o : opts) (st : inst) (d : list (F * K * V)) (k : K)
    : option V * inst * list (F * K * V) :=
    let fo := folder o in
    let dec := k_read_cache (ign st) (persistent o) (is_some (dlookup fo k d)) (is_some (lookup k (cache st))) in
    let st' := {| cache := if r_delmem dec then remove k (cache st) else cache st;
                  ign := if r_reset dec then false else ign st |} in
    let d' := if r_deldisk dec then dremove fo k d else d in
    let hit := match r_hit dec with
               | Some SDisk => dlookup fo k d
               | Some SMem => lookup k (cache st)
               | None => None
               end in
    (hit, st', d').

  (* _write_cache *)
  Definition write_cache (o : opts) (st : inst) (d : list (F * K * V)) (k : K) (v : V)
    : inst * list (F * K * V) :=
    let fo := folder o in
    let dec := k_write_cache (persistent o) (is_some (dlookup fo k d)) in
    let d' := if w_disk dec then dset fo k v d else d in
    let m1 := if w_mem dec then od_set k v (cache st) else cache st in
    let m2 := if w_evict dec then evict (length m1) (max_size o) m1 else m1 in
    ({| cache := m2; ign := ign st |}, d').

  Definition mk_event (o : opts) (v : V) (ran : bool) (forced : nat) (st : inst) (d : list (F * K * V)) : event :=
    {| e_ret := v; e_ran := ran; e_forced := forced; e_keys := map fst (cache st);
       e_csize := total (cache st); e_files := dkeys (folder o) d |}.

  (* _call_without_arguments *)
  Definition icall (o : opts) (st : inst) (d : list (F * K * V)) (a : A)
    : event * inst * list (F * K * V) :=
    let k := memkey o a in
    let '(hit, st1, d1) := read_cache o st d k in
    match hit with
    | Some v => (mk_event o v false 0 st1 d1, st1, d1)
    | None =>
        let forced := if k_lazy_test (lazy o) then thunks a else 0%nat in
        let v := f a in
        let '(st2, d2) := write_cache o st1 d1 k v in
        (mk_event o v true forced st2 d2, st2, d2)
    end.

  Definition iclear (st : inst) : inst := {| cache := cache st; ign := true |}.

  (* one operation on the world; the event of a call *)
  Definition wstep (w : world) (p : op A K F) : world * tev A K V F :=
    match p with
    | ONew o => ({| insts := insts w ++ [(o, fresh)]; disk := disk w |}, TNew o)
    | OClear i =>
        match nth_error (insts w) i with
        | Some (o, st) => (upd K V F w i o (iclear st) (disk w), TClear i)
        | None => (w, TClear i)
        end
    | OCall i a =>
        match nth_error (insts w) i with
        | Some (o, st) =>
            let '(ev, st', d') := icall o st (disk w) a in
            (upd K V F w i o st' d', TCall i a ev)
        | None => (w, TClear i)       (* no such instance: nothing happens, nothing observed *)
        end
    end.

  Fixpoint wrun (w : world) (ops : list (op A K F)) : world * list (tev A K V F) :=
    match ops with
    | [] => (w, [])
    | p :: r => let '(w1, t) := wstep w p in let '(w2, tr) := wrun w1 r in (w2, t :: tr)
    end.

  (* single-instance histories *)
  Inductive iop := ICall (a : A) | IClear.
  Fixpoint irun (o : opts) (st : inst) (d : list (F * K * V)) (ops : list iop)
    : list (A * event) * inst * list (F * K * V) :=
    match ops with
    | [] => ([], st, d)
    | IClear :: r => irun o (iclear st) d r
    | ICall a :: r =>
        let '(ev, st1, d1) := icall o st d a in
        let '(evs, st2, d2) := irun o st1 d1 r in
        ((a, ev) :: evs, st2, d2)
    end.
End MemoModel.

Arguments ICall {A}. Arguments IClear {A}.

Section MemoSerialised.
  Variables (A K V P F : Type).
  Variable f : A -> V.
  Variable key_of : A -> K.
  Variable thunks : A -> nat.
  Variable dumps : V -> P.               (* pickle.dumps(retval) / pickle.dump(retval, fd) *)
  Variable loads : P -> V.               (* pickle.loads(...) / pickle.load(fd) *)
  Variable psize : P -> Z.               (* sys.getsizeof of the pickled bytes *)
  Variables (keqb : K -> K -> bool) (feqb : F -> F -> bool).

  Definition mk_event_s (o : opts K F) (v : V) (ran : bool) (forced : nat) (st : inst K P) (d : list (F * K * P))
    : event K V :=
    {| e_ret := v; e_ran := ran; e_forced := forced; e_keys := map fst (cache st);
       e_csize := total K P psize (cache st); e_files := dkeys K P F feqb (folder o) d |}.

  (* _call_without_arguments *)
  Definition icall_s (o : opts K F) (st : inst K P) (d : list (F * K * P)) (a : A)
    : event K V * inst K P * list (F * K * P) :=
    let k := memkey A K F key_of o a in
    let '(hit, st1, d1) := read_cache K P F keqb feqb o st d k in
    match hit with
    | Some p => (mk_event_s o (loads p) false 0 st1 d1, st1, d1)          (* a fresh object rebuilt from the bytes *)
    | None =>
        let forced := if k_lazy_test (lazy o) then thunks a else 0%nat in
        let v := f a in
        let '(st2, d2) := write_cache K P F psize keqb feqb o st1 d1 k (dumps v) in
        (mk_event_s o v true forced st2 d2, st2, d2)                       (* the caller gets retval itself *)
    end.

  Definition wstep_s (w : world K P F) (p : op A K F) : world K P F * tev A K V F :=
    match p with
    | ONew o => ({| insts := insts w ++ [(o, fresh)]; disk := disk w |}, TNew o)
    | OClear i =>
        match nth_error (insts w) i with
        | Some (o, st) => (upd K P F w i o (iclear K P st) (disk w), TClear i)
        | None => (w, TClear i)
        end
    | OCall i a =>
        match nth_error (insts w) i with
        | Some (o, st) =>
            let '(ev, st', d') := icall_s o st (disk w) a in
            (upd K P F w i o st' d', TCall i a ev)
        | None => (w, TClear i)
        end
    end.

  Fixpoint wrun_s (w : world K P F) (ops : list (op A K F)) : world K P F * list (tev A K V F) :=
    match ops with
    | [] => (w, [])
    | p :: r => let '(w1, t) := wstep_s w p in let '(w2, tr) := wrun_s w1 r in (w2, t :: tr)
    end.
End MemoSerialised.
