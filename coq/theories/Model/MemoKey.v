(* L1 model of the key derivation of datamatrix._functional._memoize.memoize -- executable, no proofs.

     _memkey            md5( repr([fnc.__name__, _serialize_args(args), _serialize_kwargs(kwargs)]).encode('utf-8') )
     _serialize_args    [ _serialize_obj(a) for a in args ]
     _serialize_kwargs  { k: _serialize_obj(v) for k, v in sorted(kwargs.items(), key=lambda kv: repr(kv[0])) }
     _serialize_obj     callable -> name | dict -> _serialize_kwargs | Sequence, not str -> _serialize_args
                        | DataMatrix -> convert.to_json | json_tricks.dumps

   Regenerated from the source (Gen/KMemo.v): the dispatch chain k_serialize_obj (as a decision over the answers
   to its six tests), the sort key k_kwsort_key, the elements of the hashed list k_memkey_parts.
   Hand-written here, tied by the correspondence (every argument class of harness/c20.py, text against text):
   - what the six tests answer for each kind of object of the alphabet (is_callable ... is_dm);
   - json_tricks.dumps on scalars (json_int via the decimal printer of the standard library, "true"/"false",
     "null", strings with the escapes of json.dumps(ensure_ascii=True) after decoding UTF-8; floats through an
     abstract printer float_repr, a Section variable: CPython's float.__repr__ is not modelled);
   - repr on what _serialize_* builds (str, list, dict with str keys), i.e. unicode_repr (quote choice, escapes of
     backslash, quote, \t \n \r, \xNN for other control characters; bytes >= 0x80 are copied, which is right for
     printable non-ASCII characters only), list_repr, dict_repr;
   - sorted(..., key=...) as a stable insertion sort comparing the keys as code-point sequences (on UTF-8 bytes
     byte order is code-point order);
   - md5 is NOT modelled: memkey_md5 takes it as a parameter (hypothesis md5_injective of the theorems).
   The dict comprehension serialises the values after sorting; the model sorts the serialised items: the sort key
   reads the dict key only (k_kwsort_key is polymorphic in the value), so the result is the same list. *)
From Coq Require Import ZArith NArith List Bool String Ascii DecimalString.
From DM Require Import Base.PyVal Gen.KMemo Spec.MemoKey.
Import ListNotations.
Open Scope N_scope.

Definition text := list ascii.
Definition tx (s : string) : text := list_ascii_of_string s.
Definition code (c : ascii) : N := N_of_ascii c.
Definition chr (n : N) : ascii := ascii_of_N n.

Fixpoint text_eqb (a b : text) : bool :=
  match a, b with
  | [], [] => true
  | x :: a', y :: b' => Ascii.eqb x y && text_eqb a' b'
  | _, _ => false
  end.

(* ---------- characters ---------- *)
Definition q1 : ascii := "'"%char.
Definition q2 : ascii := """"%char.
Definition bsl : ascii := "\"%char.

Definition hexdigit (n : N) : ascii := chr (if n <? 10 then 48 + n else 87 + n).
Definition hex2 (n : N) : text := [hexdigit ((n / 16) mod 16); hexdigit (n mod 16)].
Definition hex4 (n : N) : text :=
  [hexdigit ((n / 4096) mod 16); hexdigit ((n / 256) mod 16); hexdigit ((n / 16) mod 16); hexdigit (n mod 16)].

(* UTF-8 bytes -> code points (well-formed input, as produced by str.encode) *)
Fixpoint utf8_decode (l : list N) : list N :=
  match l with
  | [] => []
  | b :: r =>
      if b <? 128 then b :: utf8_decode r
      else if b <? 224 then
        match r with
        | b2 :: r2 => ((b - 192) * 64 + (b2 - 128)) :: utf8_decode r2
        | _ => b :: utf8_decode r
        end
      else if b <? 240 then
        match r with
        | b2 :: b3 :: r3 => ((b - 224) * 4096 + (b2 - 128) * 64 + (b3 - 128)) :: utf8_decode r3
        | _ => b :: utf8_decode r
        end
      else
        match r with
        | b2 :: b3 :: b4 :: r4 =>
            ((b - 240) * 262144 + (b2 - 128) * 4096 + (b3 - 128) * 64 + (b4 - 128)) :: utf8_decode r4
        | _ => b :: utf8_decode r
        end
  end.

(* ---------- json.dumps on scalars ---------- *)
(* one code point inside a JSON string, ensure_ascii=True *)
Definition json_esc (c : N) : text :=
  if c =? 34 then [bsl; q2]
  else if c =? 92 then [bsl; bsl]
  else if c =? 10 then [bsl; "n"%char]
  else if c =? 13 then [bsl; "r"%char]
  else if c =? 9 then [bsl; "t"%char]
  else if c =? 8 then [bsl; "b"%char]
  else if c =? 12 then [bsl; "f"%char]
  else if (32 <=? c) && (c <=? 126) then [chr c]
  else if c <? 65536 then bsl :: "u"%char :: hex4 c
  else let v := c - 65536 in
       (bsl :: "u"%char :: hex4 (55296 + v / 1024)) ++ (bsl :: "u"%char :: hex4 (56320 + v mod 1024)).

Definition json_str (s : string) : text :=
  q2 :: flat_map json_esc (utf8_decode (map code (tx s))) ++ [q2].
Definition json_int (z : Z) : text := tx (NilEmpty.string_of_int (Z.to_int z)).
Definition json_bool (b : bool) : text := tx (if b then "true" else "false").
Definition json_null : text := tx "null".

(* ---------- repr ---------- *)
Definition has (c : ascii) (s : text) : bool := existsb (Ascii.eqb c) s.
(* unicode_repr: double quotes only if the string holds a single quote and no double quote *)
Definition repr_quote (s : text) : ascii := if has q1 s && negb (has q2 s) then q2 else q1.
Definition repr_esc (q : ascii) (c : ascii) : text :=
  let n := code c in
  if Ascii.eqb c bsl then [bsl; bsl]
  else if Ascii.eqb c q then [bsl; q]
  else if n =? 9 then [bsl; "t"%char]
  else if n =? 10 then [bsl; "n"%char]
  else if n =? 13 then [bsl; "r"%char]
  else if (n <? 32) || (n =? 127) then bsl :: "x"%char :: hex2 n
  else [c].
Definition repr_str (s : text) : text :=
  let q := repr_quote s in q :: flat_map (repr_esc q) s ++ [q].

(* what _serialize_args / _serialize_kwargs build: str, list, dict with str keys *)
Inductive ser := SStr (s : text) | SList (l : list ser) | SDict (d : list (text * ser)).

(* ", ".join(items) *)
Fixpoint join_tail (items : list text) : text :=
  match items with
  | [] => []
  | i :: r => ","%char :: " "%char :: i ++ join_tail r
  end.
Definition join (items : list text) : text :=
  match items with
  | [] => []
  | i :: r => i ++ join_tail r
  end.

Fixpoint repr_ser (x : ser) : text :=
  match x with
  | SStr s => repr_str s
  | SList l => "["%char :: join (map repr_ser l) ++ ["]"%char]
  | SDict d =>
      "{"%char :: join (map (fun kv => let '(k, v) := kv in repr_str k ++ ":"%char :: " "%char :: repr_ser v) d)
      ++ ["}"%char]
  end.

(* ---------- sorted(items, key=...): stable, keys compared as code-point sequences ---------- *)
Fixpoint text_leb (a b : text) : bool :=
  match a, b with
  | [], _ => true
  | _ :: _, [] => false
  | x :: a', y :: b' =>
      if code x <? code y then true else if code y <? code x then false else text_leb a' b'
  end.

Section Sort.
  Variable X : Type.
  Variable key : X -> text.
  Fixpoint insert_by (x : X) (l : list X) : list X :=
    match l with
    | [] => [x]
    | y :: r => if text_leb (key x) (key y) then x :: y :: r else y :: insert_by x r
    end.
  Definition sort_by (l : list X) : list X := fold_right insert_by [] l.
End Sort.
Arguments insert_by {X}. Arguments sort_by {X}.

(* ---------- what the tests of _serialize_obj answer on the alphabet ---------- *)
Definition is_callable (a : arg) : bool := match a with AFun _ => true | _ => false end.
Definition has_name (a : arg) : bool := match a with AFun (Some _) => true | _ => false end.
Definition is_dict (a : arg) : bool := match a with ADict _ => true | _ => false end.
Definition is_seq (a : arg) : bool := match a with AStr _ | AList _ | ATuple _ => true | _ => false end.
Definition is_str (a : arg) : bool := match a with AStr _ => true | _ => false end.
Definition is_dm (a : arg) : bool := match a with ADM _ => true | _ => false end.

(* a branch applied to an object it is not meant for (a changed dispatch chain): outside the model *)
Definition unmodelled : ser := SStr (tx "<unmodelled>").

Section KeyModel.
  Variable float_repr : fl -> text.            (* json.dumps(x) for a float x, i.e. float.__repr__ *)

  Definition sort_items (items : list (text * ser)) : list (text * ser) :=
    sort_by (k_kwsort_key repr_str) items.

  (* _serialize_obj *)
  Fixpoint ser_arg (a : arg) : ser :=
    (* first answer: isinstance(obj, CallableValue) -- the numbers returned by column statistics are plain numbers of the
       argument datatype (AFloat / AInt), never callables *)
    match k_serialize_obj false (is_callable a) (has_name a) (is_dict a) (is_seq a) (is_str a) (is_dm a) with
    | BName => match a with AFun (Some n) => SStr (tx n) | _ => unmodelled end
    | BLit s => SStr (tx s)
    | BKwargs =>
        match a with
        | ADict d => SDict (sort_items (map (fun kv => let '(k, v) := kv in (tx k, ser_arg v)) d))
        | _ => unmodelled
        end
    | BArgs =>
        match a with
        | AList l | ATuple l => SList (map ser_arg l)
        | _ => unmodelled
        end
    | BToJson => match a with ADM j => SStr (tx j) | _ => unmodelled end
    | BDumps =>
        match a with
        | AInt z => SStr (json_int z)
        | AFloat f => SStr (float_repr f)
        | ABool b => SStr (json_bool b)
        | AStr s => SStr (json_str s)
        | ANone => SStr json_null
        | _ => unmodelled
        end
    end.

  Definition ser_args (l : list arg) : ser := SList (map ser_arg l).
  Definition ser_kwargs (d : list (string * arg)) : ser :=
    SDict (sort_items (map (fun kv => let '(k, v) := kv in (tx k, ser_arg v)) d)).

  (* the text that is hashed *)
  Definition memkey_text (name : string) (c : call) : text :=
    repr_ser (SList (k_memkey_parts (SStr (tx name)) (ser_args (c_args c)) (ser_kwargs (c_kwargs c)))).

  Definition memkey_md5 {K : Type} (md5 : text -> K) (name : string) (c : call) : K := md5 (memkey_text name c).
End KeyModel.

(* ---------- the alphabet on which injectivity is proved (boolean, evaluated on every harness class) ----------
   every string -- str arguments, dict keys, keyword names, the function name, the JSON text of a DataMatrix --
   consists of printable ASCII characters (32..126; quote characters and the backslash included: their escaping by
   json.dumps and by repr is part of the proof; control characters and non-ASCII characters are not: their \uXXXX /
   \xNN escapes and the UTF-8 decoding are modelled and compared with the implementation, not proved injective);
   the JSON text of a DataMatrix starts with an opening brace (json.dumps(ensure_ascii=True) writes printable ASCII
   only, so this covers every DataMatrix); floats are finite; callables have an identifier as name, other than
   true / false / null / __nameless__ (json.dumps writes True, False, None like that, and nameless callables are
   keyed by the constant), or no name at all. *)
Definition in_range (lo hi : N) (c : ascii) : bool := (lo <=? code c) && (code c <=? hi).
Definition pr (c : ascii) : bool := in_range 32 126 c.
Definition is_digit (c : ascii) : bool := in_range 48 57 c.
Definition is_minus (c : ascii) : bool := code c =? 45.
Definition ident_start (c : ascii) : bool := in_range 65 90 c || in_range 97 122 c || (code c =? 95).
Definition ident_char (c : ascii) : bool := ident_start c || is_digit c.
Definition reserved (t : text) : bool :=
  text_eqb t (tx "true") || text_eqb t (tx "false") || text_eqb t (tx "null") || text_eqb t (tx "__nameless__").
Definition name_okb (t : text) : bool :=
  match t with c :: r => ident_start c && forallb ident_char r | [] => false end && negb (reserved t).
Definition dm_okb (t : text) : bool :=
  match t with c :: _ => code c =? 123 | [] => false end && forallb pr t.
Definition float_okb (f : fl) : bool := fl_is_finite f && fl_wf f.
(* the shape of float.__repr__ of a finite float: digits, sign, point, exponent; starts with a digit or a minus
   sign; holds a point or an exponent (so it is not the text of an int) *)
Definition float_char (c : ascii) : bool := is_digit c || is_minus c || (code c =? 43) || (code c =? 46) || (code c =? 101).
Definition float_textb (t : text) : bool :=
  forallb float_char t
  && match t with c :: _ => is_digit c || is_minus c | [] => false end
  && existsb (fun c => (code c =? 46) || (code c =? 101)) t.

Fixpoint arg_okb (a : arg) : bool :=
  match a with
  | AInt _ | ABool _ | ANone => true
  | AFloat f => float_okb f
  | AStr s => forallb pr (tx s)
  | AList l | ATuple l => forallb arg_okb l
  | ADict d => forallb (fun kv => forallb pr (tx (fst kv)) && arg_okb (snd kv)) d
  | ADM j => dm_okb (tx j)
  | AFun None => true
  | AFun (Some n) => name_okb (tx n)
  end.
Definition call_okb (name : string) (c : call) : bool :=
  forallb pr (tx name) && arg_okb (ATuple (c_args c)) && arg_okb (ADict (c_kwargs c)) && call_wfb c.
