(* L1 for C17, the global family-id counter: every DataMatrix object takes its
   `_id` from the module-level counter `_id` of _datamatrix.py.  The three
   functions that touch the counter (DataMatrix.__init__, __setstate__,
   _mutate) are regenerated kernels (Gen/KPersist.v: k_init_ids,
   k_setstate_ids, k_mutate_ids -- the id statements in source order); the
   derived-table recipes (_selectrowid/_slice/_merge: construct, then take the
   family of the source) are pinned.  A world is the counter and the `_id` of
   every DataMatrix object created so far; events are constructions, restores
   (unpickling), derivations and mutations in any interleaving.
   Executable, no proofs inside. *)
From Coq Require Import ZArith List Bool.
From DM Require Import Base.PyVal Spec.Table Gen.KPersist Model.LTable Model.Persist.
Import ListNotations.

Record idworld := { ctr : nat; fams : list nat }.        (* fams: newest object first *)
Inductive idev :=
| EvNew                      (* DataMatrix(...) *)
| EvRestore                  (* pickle.loads / io.readpickle: DataMatrix.__setstate__ *)
| EvDerive (i : nat)         (* selection / slice / merge of object i: constructed, then given the family of i *)
| EvMutate (i : nat).        (* object i changes its columns: _mutate *)

Definition id_step (w : idworld) (e : idev) : idworld :=
  match e with
  | EvNew => let p := init_ids (ctr w) in {| ctr := snd p; fams := fst p :: fams w |}
  | EvRestore => let p := setstate_ids (ctr w) in {| ctr := snd p; fams := fst p :: fams w |}
  | EvDerive i => match nth_error (fams w) i with
                  | Some f => {| ctr := snd (init_ids (ctr w)); fams := f :: fams w |}
                  | None => w
                  end
  | EvMutate i => match nth_error (fams w) i with
                  | Some f => let p := mutate_ids f (ctr w) in {| ctr := snd p; fams := set_nth i (fst p) (fams w) |}
                  | None => w
                  end
  end.
Definition id_run (evs : list idev) (w : idworld) : idworld := fold_left id_step evs w.

(* the family handed out by a construction or a restore (None for the other events) *)
Definition id_root (w : idworld) (e : idev) : option nat :=
  match e with
  | EvNew | EvRestore => match fams (id_step w e) with f :: _ => Some f | [] => None end
  | _ => None
  end.
(* ... by a whole sequence of events, oldest first *)
Fixpoint id_roots (w : idworld) (evs : list idev) : list nat :=
  match evs with
  | [] => []
  | e :: r => match id_root w e with Some f => [f] | None => [] end ++ id_roots (id_step w e) r
  end.

(* the invariant: every id in use lies below the counter *)
Definition ids_below (w : idworld) : bool := forallb (fun f => Nat.ltb f (ctr w)) (fams w).

(* the state in which the module is imported *)
Definition id_world0 : idworld := {| ctr := Z.to_nat k_id_start; fams := [] |}.
