(* L1 for the COLUMN variants of property C11, following datamatrix/operations.py on the object graph of
   Model/LTable.v:

     shuffle(col):          _rowid = Index(col._rowid); random.shuffle(_rowid);
                            c = col._getrowidkey(_rowid)  (cells fetched BY ID);  c._rowid = col._rowid
     random_sample(col, k): _rowid = Index(random.sample(list(Index(col._rowid)), k));  col._getrowidkey(_rowid)
     shuffle_horiz(...):    argument check chain; dm = dm[:]; dm_shuffle = keep_only(dm, ...); per row: the values of
                            the row (in column_names order) shuffled and written back by column position through
                            Row.__setitem__ (type-checked by the receiving column); the shuffled columns re-attached

   The by-ID fetch is Model/Core.v's getrowidkey (dict cache for MixedColumns, argsort + searchsorted for numeric
   ones); guards and decisions are the kernels regenerated from the source (Gen/KShuffle.v, Gen/KOpsMisc.v).  What
   Python's `random` does is an argument: the permutation(s) / the choice.  Executable; no proofs here. *)
From Coq Require Import ZArith NArith List Bool String.
From DM Require Import Base.PyVal Spec.Nf Spec.Table Spec.Ops Spec.ShuffleCol Model.LTable Gen.KCore Model.Core.
From DM Require Import Model.ShuffleColAbs Gen.KOpsMisc Gen.KShuffle.
Import ListNotations.
Open Scope Z_scope.

(* ---------- Index(col._rowid): a MixedColumn holds an Index (the copy constructor hands over both caches), a numeric
   column a bare id array (no caches) ---------- *)
Definition index_ctor (c : lcol) : index :=
  if is_mixed c then lc_rowid c else idx_of_list (ia (lc_rowid c)).

(* random.shuffle(index): Fisher-Yates through Index.__setitem__; every assignment drops both caches, and a sequence
   of two or more items is assigned to at least once *)
Definition index_shuffled (i : index) (perm : list nat) : option index :=
  match take_pos perm (ia i) with
  | Some a => Some (if Nat.ltb 1 (List.length (ia i)) then idx_of_list a
                    else {| ia := a; imeta := imeta i; imax := imax i |})
  | None => None
  end.

(* ---------- ops.shuffle(col) ---------- *)
Definition l_shuffle_col (c : lcol) (perm : list nat) : res lcol :=
  if k_shuffle_is_table false then Raise OtherError
  else if negb (is_perm_of_range perm (List.length (ia (lc_rowid c)))) then Raise OtherError
  else match index_shuffled (index_ctor c) perm with
       | None => Raise OtherError
       | Some key =>
           match getrowidkey c key with
           | None => Raise KeyError
           | Some col => Ok {| lc_kind := lc_kind col; lc_rowid := lc_rowid c;      (* col._rowid = obj._rowid *)
                               lc_cells := lc_cells col; lc_owner := lc_owner col; lc_tc := lc_tc col |}
           end
       end.

(* ---------- ops.random_sample(col, k): random.sample raises ValueError for k < 0 and for k > len ---------- *)
Definition l_sample_col (c : lcol) (k : Z) (choice : list nat) : res lcol :=
  if k_sample_is_table false then Raise OtherError
  else
    let n := List.length (ia (index_ctor c)) in
    if (k <? 0) || (Z.of_nat n <? k) then Raise ValueError
    else if negb (valid_choice choice k n) then Raise OtherError
    else match take_pos choice (ia (index_ctor c)) with
         | None => Raise OtherError
         | Some rid => match getrowidkey c (idx_of_list rid) with
                       | Some col => Ok col
                       | None => Raise KeyError
                       end
         end.

(* ---------- ops.shuffle_horiz ---------- *)
(* the facts the argument check looks at: is it a DataMatrix, is it a BaseColumn, does its DataMatrix belong to the
   family of the first argument's *)
Definition harg_is_table (a : harg) : bool := match a with HTable => true | _ => false end.
Definition harg_same_family (first a : harg) : bool :=
  match first, a with
  | HCol _, HCol _ | HForeign, HForeign => true
  | _, _ => false
  end.

Definition l_horiz_args (t : ltable) (args : list harg) : res (list harg) :=
  let first_is_dm := match args with a :: _ => harg_is_table a | [] => false end in
  let args' := if k_horiz_expand (Z.of_nat (List.length args)) first_is_dm
               then map (fun ni : string * nat => HCol (fst ni)) (l_names t)
               else args in
  if negb (k_horiz_nonempty (Z.of_nat (List.length args'))) then Raise ValueError
  else if negb (forallb (fun a => k_horiz_is_column (harg_is_column a)) args') then Raise ValueError
  else match args' with
       | [] => Raise ValueError
       | first :: _ =>                                   (* dm = obj[0]._datamatrix *)
           match first with
           | HForeign => Raise OtherError                (* the operation on another table: outside this model *)
           | _ => if negb (forallb (fun a => k_horiz_same_dm (harg_same_family first a)) args') then Raise ValueError
                  else Ok args'
           end
       end.

(* BaseColumn.name (through _colname): the names under which this very object is listed by its DataMatrix *)
Definition l_colname (t : ltable) (a : harg) : res (option (list string)) :=
  match a with
  | HCol n =>
      match lookup n (l_names t) with
      | None => Raise OtherError
      | Some ci =>
          let l := map fst (filter (fun ni : string * nat => k_name_keep (Nat.eqb (snd ni) ci)) (l_names t)) in
          k_colname false true None (Some l)
      end
  | _ => Raise OtherError
  end.

Fixpoint l_colnames (t : ltable) (args : list harg) : res (list (list string)) :=
  match args with
  | [] => Ok []
  | a :: r => bind (l_colname t a) (fun o =>
              bind (l_colnames t r) (fun rest =>
                match o with
                | Some l => Ok (l :: rest)
                | None => Raise OtherError
                end))
  end.

(* keep_only on the copy: a column object with several names is a TypeError; a column of the copy is deleted when
   the generated test says so *)
Definition l_keep_names (t : ltable) (args : list harg) : res (list string) :=
  bind (l_colnames t args) (fun ls =>
    if existsb (fun l => negb (k_name_single (Z.of_nat (List.length l)))) ls then Raise TypeError
    else Ok (List.concat ls)).

(* one row: the values in column_names order (alphabetical: a derived DataMatrix is sorted), shuffled, written back
   one by one through column_names[i] -> col[index] = value (coerced by the receiving column; a refusal ends it) *)
Fixpoint write_row (i : nat) (kinds : list kind) (vals : list val) (cellss : list (list val)) : res (list (list val)) :=
  match kinds, vals, cellss with
  | k :: ks, v :: vs, c :: cs =>
      bind (nf k (pyv_of_val v)) (fun x => bind (write_row i ks vs cs) (fun r => Ok (set_nth i x c :: r)))
  | _, _, _ => Ok []
  end.

Fixpoint shuffle_rows (i : nat) (perms : list (list nat)) (kinds : list kind) (cellss : list (list val))
  : res (list (list val)) :=
  match perms with
  | [] => Ok cellss
  | p :: ps =>
      let values := row_at i cellss in
      if negb (is_perm_of_range p (List.length values)) then Raise OtherError
      else match take_pos p values with
           | None => Raise OtherError
           | Some shuffled => bind (write_row i kinds shuffled cellss) (fun c' => shuffle_rows (S i) ps kinds c')
           end
  end.

Definition l_shuffle_horiz (t : ltable) (args : list harg) (perms : list (list nat)) : res ltable :=
  bind (l_horiz_args t args) (fun args' =>
    match slice_table t (slice_pos (nrows_l t) None None) with                   (* dm = dm[:] *)
    | None => Raise OtherError
    | Some d1 =>
        bind (l_keep_names t args') (fun colnames =>                             (* keep_only(dm, *obj) ... *)
          match slice_table d1 (slice_pos (nrows_l d1) None None) with           (* ... works on a copy of the copy *)
          | None => Raise OtherError
          | Some d2 =>
              let kept := filter (fun ni : string * nat => negb (k_keep_delete (mem_str (fst ni) colnames))) (l_names d2) in
              let order := fold_right insert_str [] (map fst kept) in           (* column_names of the sorted copy *)
              match all_some (map (lcol_of d2) order) with
              | None => Raise OtherError
              | Some cs =>
                  if negb (Nat.eqb (List.length perms) (nrows_l d2)) then Raise OtherError
                  else if negb (k_row_key_is_position true) then Raise OtherError
                  else
                    bind (shuffle_rows 0 perms (map lc_kind cs) (map lc_cells cs)) (fun cellss =>
                      (* for colname, column in dm_shuffle.columns: dm._cols[colname] = column; column._datamatrix = dm *)
                      let newcols := combine order (combine cs cellss) in
                      let cols := map (fun ni : string * nat =>
                                         match lookup (fst ni) newcols, nth_error (l_cols d1) (snd ni) with
                                         | Some (c, cells), _ =>
                                             Some {| lc_kind := lc_kind c; lc_rowid := lc_rowid c; lc_cells := cells;
                                                     lc_owner := true; lc_tc := lc_tc c |}
                                         | None, Some c => Some c
                                         | None, None => None
                                         end) (l_names d1) in
                      match all_some cols with
                      | Some cols' => Ok {| l_fam := l_fam d1; l_rowid := l_rowid d1; l_names := l_names d1;
                                            l_cols := cols'; l_sorted := l_sorted d1; l_dflt := l_dflt d1 |}
                      | None => Raise OtherError
                      end)
              end
          end)
    end).

