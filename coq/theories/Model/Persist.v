(* L1 for C17: pickling, JSON and pandas conversion as the implementation does
   them, on the object graph of Model/LTable.v.

   - OrderedState.__getstate__/__setstate__ over an association list
     (the object's __dict__); the skip test is the regenerated kernel k_skip
     (with a str as `ignore` it is a SUBSTRING test);
   - Index/BaseColumn/DataMatrix pickling = __getstate__ bottom-up over the
     object tree, unpickling = __setstate__ bottom-up; pickle itself is the
     identity on that state tree and keeps sharing (trusted);
   - to_json/from_json over an abstract dumps/loads pair; to_pandas' payload.
   Executable, no proofs inside. *)
From Coq Require Import ZArith NArith List Bool String.
From DM Require Import Base.PyVal Base.PersistPy Spec.Nf Spec.Table Model.LTable Gen.KPersist.
Import ListNotations.
Open Scope string_scope.

(* ---------- OrderedState *)
Section OS.
  Context {A : Type}.
  Definition dict := list (string * A).
  (* for k in sorted(self.__dict__): if k in ignore: continue; keys.append(k); values.append(self.__dict__[k]) *)
  Definition getstate (ignore : ign) (d : dict) : list string * list A :=
    split (filter (fun kv => negb (k_skip (fst kv) ignore)) (sort_key d)).
  Fixpoint dict_set (k : string) (a : A) (d : dict) : dict :=
    match d with
    | [] => [(k, a)]
    | (m, x) :: r => if String.eqb k m then (m, a) :: r else (m, x) :: dict_set k a r
    end.
  Definition dict_update (d : dict) (kvs : dict) : dict :=
    fold_left (fun d kv => dict_set (fst kv) (snd kv) d) kvs d.
  (* self.__dict__.update({key: val for key, val in zip(keys, values)}) on the empty __dict__ of object.__new__ *)
  Definition setstate (st : list string * list A) : dict := dict_update [] (combine (fst st) (snd st)).
  (* what the comments in the code intend: drop exactly the attribute `name` *)
  Definition getstate_eq (name : string) (d : dict) : list string * list A :=
    split (filter (fun kv => negb (String.eqb (fst kv) name)) (sort_key d)).
End OS.
Arguments dict : clear implicits.

(* ---------- Index *)
Inductive ival := IvA (a : list N) | IvLen (n : nat) | IvMeta (m : option (list (N * nat))) | IvMax (m : option Z).
Definition istate := (list string * list ival)%type.
Definition index_attr_names : list string := ["_a"; "_length"; "_metaindex"; "_max"].
Definition index_dict (i : index) : dict ival :=
  [("_a", IvA (ia i)); ("_length", IvLen (List.length (ia i))); ("_metaindex", IvMeta (imeta i)); ("_max", IvMax (imax i))].
Definition index_of_dict (d : dict ival) : option index :=
  match lookup "_a" d, lookup "_metaindex" d, lookup "_max" d with
  | Some (IvA a), Some (IvMeta m), Some (IvMax x) => Some {| ia := a; imeta := m; imax := x |}
  | _, _, _ => None
  end.
Definition index_getstate (i : index) : istate := getstate k_ignore_index (index_dict i).
(* OrderedState.__setstate__(self, state); self._metaindex = None *)
Definition index_setstate (st : istate) : option index :=
  index_of_dict (dict_set "_metaindex" (IvMeta None) (setstate st)).

(* ---------- columns.  The class (kind) travels with the state; a MixedColumn
   holds an Index, a numeric column a bare id array and its argsort cache
   (keyed by the id bytes, validated on use: not part of the observable state) *)
Inductive cval := CvIndex (st : istate) | CvArr (a : list N) | CvSeq (c : list val) | CvTc (b : bool)
                | CvOwner (b : bool) | CvArgsort.
Record cstate := { cs_kind : kind; cs_state : list string * list cval }.
Definition col_attr_names (k : kind) : list string :=
  match k with
  | KMixed => ["_datamatrix"; "_typechecking"; "_rowid"; "_seq"]
  | _ => ["_datamatrix"; "_typechecking"; "_rowid"; "_rowid_argsort_cache"; "_seq"]
  end.
Definition col_dict (c : lcol) : dict cval :=
  match lc_kind c with
  | KMixed => [("_datamatrix", CvOwner (lc_owner c)); ("_typechecking", CvTc (lc_tc c));
               ("_rowid", CvIndex (index_getstate (lc_rowid c))); ("_seq", CvSeq (lc_cells c))]
  | _ => [("_datamatrix", CvOwner (lc_owner c)); ("_typechecking", CvTc (lc_tc c));
          ("_rowid", CvArr (ia (lc_rowid c))); ("_rowid_argsort_cache", CvArgsort); ("_seq", CvSeq (lc_cells c))]
  end.
Definition col_getstate (c : lcol) : cstate :=
  {| cs_kind := lc_kind c; cs_state := getstate k_ignore_col (col_dict c) |}.
Definition col_setstate (s : cstate) : option lcol :=
  let d := setstate (cs_state s) in
  let owner := match lookup "_datamatrix" d with Some (CvOwner b) => b | _ => false end in   (* attribute absent: no owner *)
  let rid := match lookup "_rowid" d with
             | Some (CvIndex st) => index_setstate st
             | Some (CvArr a) => Some {| ia := a; imeta := None; imax := None |}
             | _ => None
             end in
  match rid, lookup "_seq" d, lookup "_typechecking" d with
  | Some r, Some (CvSeq c), Some (CvTc b) =>
      Some {| lc_kind := cs_kind s; lc_rowid := r; lc_cells := c; lc_owner := owner; lc_tc := b |}
  | _, _, _ => None
  end.

(* ---------- DataMatrix *)
Inductive dval := DvCols (names : list (string * nat)) (objs : list cstate)   (* OrderedDict name -> column object *)
                | DvRowid (st : istate) | DvDflt (k : kind) | DvSorted (b : bool) | DvId (n : nat).
Definition dstate := (list string * list dval)%type.
Definition dm_attr_names : list string := ["_cols"; "_rowid"; "_default_col_type"; "_id"; "_sorted"].
Definition dm_dict (t : ltable) : dict dval :=
  [("_cols", DvCols (l_names t) (map col_getstate (l_cols t))); ("_rowid", DvRowid (index_getstate (l_rowid t)));
   ("_default_col_type", DvDflt (l_dflt t)); ("_id", DvId (l_fam t)); ("_sorted", DvSorted (l_sorted t))].
Definition dm_getstate (t : ltable) : dstate := getstate k_ignore_dm (dm_dict t).

(* DataMatrix.columns: the name -> object items, sorted by name when flagged sorted *)
Definition to_list {A} (sorted_flag : bool) (l : list (string * A)) : list (string * A) :=
  if k_to_list_sorts sorted_flag then sort_key l else l.
Definition set_owner (c : lcol) : lcol :=
  {| lc_kind := lc_kind c; lc_rowid := lc_rowid c; lc_cells := lc_cells c; lc_owner := true; lc_tc := lc_tc c |}.
(* for name, column in self.columns: column._datamatrix = self *)
Definition reattach (listed : list (string * nat)) (cols : list lcol) : list lcol :=
  map (fun ic => if mem_nat (fst ic) (map snd listed) then set_owner (snd ic) else snd ic)
      (combine (seq 0 (List.length cols)) cols).

(* the id bookkeeping of DataMatrix.__init__ / __setstate__ / _mutate (regenerated kernels, statement order as in
   the source): counter -> (the object's _id, the counter afterwards) *)
Definition to_nat2 (p : Z * Z) : nat * nat := (Z.to_nat (fst p), Z.to_nat (snd p)).
Definition init_ids (n : nat) : nat * nat := to_nat2 (k_init_ids (Z.of_nat n)).
Definition setstate_ids (n : nat) : nat * nat := to_nat2 (k_setstate_ids (Z.of_nat n)).
Definition mutate_ids (own n : nat) : nat * nat := to_nat2 (k_mutate_ids (Z.of_nat own) (Z.of_nat n)).

(* DataMatrix.__setstate__ with the global id counter at nextid; returns the object and the counter *)
Definition dm_setstate (nextid : nat) (st : dstate) : option (ltable * nat) :=
  let d := dict_set "_id" (DvId (fst (setstate_ids nextid))) (setstate st) in
  match lookup "_cols" d, lookup "_rowid" d, lookup "_default_col_type" d, lookup "_id" d, lookup "_sorted" d with
  | Some (DvCols nm objs), Some (DvRowid ist), Some (DvDflt k), Some (DvId f), Some (DvSorted b) =>
      match all_some (map col_setstate objs), index_setstate ist with
      | Some cols, Some rid =>
          Some ({| l_fam := f; l_rowid := rid; l_names := nm; l_cols := reattach (to_list b nm) cols;
                   l_sorted := b; l_dflt := k |},
                snd (setstate_ids nextid))
      | _, _ => None
      end
  | _, _, _, _, _ => None
  end.

(* pickle.loads(pickle.dumps(dm, protocol)) / io.readpickle after io.writepickle: pickle is the identity on the state tree *)
Definition unpickle (nextid : nat) (t : ltable) : option (ltable * nat) := dm_setstate nextid (dm_getstate t).

(* every column object is listed under some name (true of every object graph reachable from a DataMatrix) *)
Definition cols_referenced (t : ltable) : bool :=
  forallb (fun i => mem_nat i (map snd (l_names t))) (seq 0 (List.length (l_cols t))).

(* the closed form the theorems compare with *)
Definition drop_meta (i : index) : index := {| ia := ia i; imeta := None; imax := imax i |}.
Definition restore_col (owner : bool) (c : lcol) : lcol :=
  {| lc_kind := lc_kind c;
     lc_rowid := match lc_kind c with KMixed => drop_meta (lc_rowid c) | _ => {| ia := ia (lc_rowid c); imeta := None; imax := None |} end;
     lc_cells := lc_cells c; lc_owner := owner; lc_tc := lc_tc c |}.
Definition restore (f : nat) (t : ltable) : ltable :=
  {| l_fam := f; l_rowid := drop_meta (l_rowid t); l_names := l_names t;
     l_cols := map (fun ic => restore_col (mem_nat (fst ic) (map snd (l_names t))) (snd ic))
                   (combine (seq 0 (List.length (l_cols t))) (l_cols t));
     l_sorted := l_sorted t; l_dflt := l_dflt t |}.

(* ---------- JSON.  The document handed to json_tricks.dumps:
   OrderedDict([('rowid', ids), ('columns', OrderedDict([(name, (type name, _seq)) ...]))]) *)
Definition jcol := (string * (string * list val))%type.
Definition jdoc := (list N * list jcol)%type.
Definition typename (k : kind) : string :=
  match k with KMixed => "MixedColumn" | KFloat => "FloatColumn" | KInt => "IntColumn" end.
Definition kind_of_typename (s : string) : option kind :=          (* globals()[coltype] *)
  if String.eqb s "MixedColumn" then Some KMixed
  else if String.eqb s "FloatColumn" then Some KFloat
  else if String.eqb s "IntColumn" then Some KInt else None.
Definition jcol_of (t : ltable) (ni : string * nat) : jcol :=
  match nth_error (l_cols t) (snd ni) with
  | Some c => (fst ni, (typename (lc_kind c), lc_cells c))
  | None => (fst ni, (typename KMixed, []))
  end.
Definition json_doc (t : ltable) : jdoc :=
  (ia (l_rowid t), map (jcol_of t) (to_list (l_sorted t) (l_names t))).

(* DataMatrix(length=n): Index(n) *)
Definition fresh_index (n : nat) : index :=
  {| ia := iotaN 0 n; imeta := None; imax := Some (Z.of_nat n - 1)%Z |}.
Definition json_col (n : nat) (jc : jcol) : option lcol :=
  match kind_of_typename (fst (snd jc)) with
  | Some k => Some {| lc_kind := k;
                      lc_rowid := match k with KMixed => fresh_index n | _ => {| ia := iotaN 0 n; imeta := None; imax := None |} end;
                      lc_cells := snd (snd jc); lc_owner := true; lc_tc := true |}
  | None => None
  end.
Definition from_json_doc (nextid : nat) (d : jdoc) : option ltable :=
  let n := List.length (fst d) in
  if nodup_str (map fst (snd d)) then        (* a JSON object read into an OrderedDict has distinct keys *)
    match all_some (map (json_col n) (snd d)) with
    | Some cols => Some {| l_fam := nextid; l_rowid := fresh_index n;
                           l_names := combine (map fst (snd d)) (seq 0 (List.length (snd d)));
                           l_cols := cols; l_sorted := true; l_dflt := KMixed |}
    | None => None
    end
  else None.

Section Json.
  Variable text : Type.
  Variable dumps : jdoc -> text.
  Variable loads : text -> jdoc.
  Definition to_json (t : ltable) : text := dumps (json_doc t).
  Definition from_json (nextid : nat) (s : text) : option ltable := from_json_doc nextid (loads s).
End Json.

(* ---------- pandas: the dict handed to pandas.DataFrame, in insertion order *)
Definition pandas_payload (t : ltable) : list (string * list val) :=
  map (fun ni => match nth_error (l_cols t) (snd ni) with
                 | Some c => (fst ni, lc_cells c)
                 | None => (fst ni, [])
                 end) (to_list (l_sorted t) (l_names t)).
