(* L1 for C16: executable model of io.writetxt / io.readtxt.
   - csv.writer of CPython's _csv.c (QUOTE_MINIMAL, doublequote, no escapechar)
   - text-mode file reading (universal newlines), the file iterator (lines end at LF)
   - csv.reader of _csv.c: the parse_process_char automaton, non-strict,
     and the record loop of Reader_iternext (EOL pseudo-character after each line)
   - readtxt: header registration (BOM strip, OrderedDict keys), row zipping with
     missing-cell fill, _fromdict (cells through MixedColumn's type check, Model/Store.v)
   - writetxt: is_2d guard, safe_str per cell
   Decision fragments come from Gen/KCsv.v (regenerated from /repo).  Characters are
   the bytes of the UTF-8 encoding; delimiter and quote character are single bytes.
   No proofs here. *)
From Coq Require Import ZArith List Bool String Ascii.
From DM Require Import Base.PyVal Base.CsvPy Spec.Nf Spec.Csv Gen.KCheck Model.Store Gen.KCsv.
Import ListNotations.
Open Scope Z_scope.

Definition chars := list ascii.
Definition LF : ascii := "010"%char.
Definition CR : ascii := "013"%char.
Definition aeqb (a b : ascii) : bool := Ascii.eqb a b.
Definition memb (c : ascii) (l : chars) : bool := existsb (aeqb c) l.

(* ====================== csv.writer ====================== *)
(* join_append_data: a field is quoted iff it contains the delimiter, the quote
   character or a character of the line terminator; quotes are doubled *)
Definition needs_quote (d q : ascii) (lt : chars) (f : chars) : bool :=
  existsb (fun c => aeqb c d || aeqb c q || memb c lt) f.

Fixpoint escape (q : ascii) (f : chars) : chars :=
  match f with
  | [] => []
  | c :: r => if aeqb c q then q :: q :: escape q r else c :: escape q r
  end.

Definition render_field (d q : ascii) (lt : chars) (f : chars) : chars :=
  if needs_quote d q lt f then q :: escape q f ++ [q] else f.

Fixpoint join (d : ascii) (fs : list chars) : chars :=
  match fs with
  | [] => []
  | [f] => f
  | f :: r => f ++ d :: join d r
  end.

(* csv_writerow: fields joined by the delimiter; a record that has fields but no
   text (one empty field) is written as an empty quoted field; then the terminator *)
Definition render_row (d q : ascii) (lt : chars) (fs : list chars) : chars :=
  let body := join d (map (render_field d q lt) fs) in
  (match fs, body with
   | _ :: _, [] => [q; q]
   | _, _ => body
   end) ++ lt.

Definition render (d q : ascii) (lt : chars) (rows : list (list chars)) : chars :=
  List.concat (map (render_row d q lt) rows).

(* ====================== reading the file ====================== *)
(* text mode with newline=None: CR LF and lone CR become LF *)
Fixpoint unl (t : chars) : chars :=
  match t with
  | [] => []
  | c :: r =>
      if aeqb c CR then
        LF :: match r with
              | c2 :: r2 => if aeqb c2 LF then unl r2 else unl r
              | [] => []
              end
      else c :: unl r
  end.

(* ---- _csv.c reader ---- *)
Inductive mode := SR | SF | INF | INQ | QINQ | EAT | ERR.
(* START_RECORD, START_FIELD, IN_FIELD, IN_QUOTED_FIELD, QUOTE_IN_QUOTED_FIELD, EAT_CRNL; ERR = csv.Error raised *)
Definition mode_eqb (a b : mode) : bool :=
  match a, b with
  | SR, SR | SF, SF | INF, INF | INQ, INQ | QINQ, QINQ | EAT, EAT | ERR, ERR => true
  | _, _ => false
  end.

(* reversed accumulators; inl = inside a physical line (last character was not LF) *)
Record st := mkst { md : mode; inl : bool; fld : chars; flds : list chars; recs : list (list chars) }.
Definition init : st := mkst SR false [] [] [].
Definition setmd (m : mode) (s : st) : st := mkst m (inl s) (fld s) (flds s) (recs s).
Definition setinl (b : bool) (s : st) : st := mkst (md s) b (fld s) (flds s) (recs s).
Definition push (c : ascii) (s : st) : st := mkst (md s) (inl s) (c :: fld s) (flds s) (recs s).   (* parse_add_char *)
Definition save (s : st) : st := mkst (md s) (inl s) [] (rev (fld s) :: flds s) (recs s).          (* parse_save_field *)
Definition emit (s : st) : st := mkst SR false [] [] (rev (flds s) :: recs s).                     (* iternext returns the fields; parse_reset *)

Definition nlb (c : ascii) : bool := aeqb c LF || aeqb c CR.

(* START_FIELD on an ordinary character (also reached by fall-through from START_RECORD) *)
Definition sf_char (d q : ascii) (s : st) (c : ascii) : st :=
  if aeqb c q then setmd INQ s
  else if aeqb c d then setmd SF (save s)
  else setmd INF (push c s).

(* parse_process_char for a character of the line *)
Definition step_ch (d q : ascii) (s : st) (c : ascii) : st :=
  match md s with
  | SR => if nlb c then setmd EAT s else sf_char d q s c
  | SF => if nlb c then setmd EAT (save s) else sf_char d q s c
  | INF => if nlb c then setmd EAT (save s)
           else if aeqb c d then setmd SF (save s)
           else push c s
  | INQ => if aeqb c q then setmd QINQ s else push c s
  | QINQ => if aeqb c q then setmd INQ (push c s)
            else if aeqb c d then setmd SF (save s)
            else if nlb c then setmd EAT (save s)
            else setmd INF (push c s)                   (* non-strict *)
  | EAT => if nlb c then s else setmd ERR s
  | ERR => s
  end.

(* parse_process_char for the EOL pseudo-character *)
Definition step_eol (s : st) : st :=
  match md s with
  | SR | INQ | ERR => s
  | SF | INF | QINQ => setmd SR (save s)
  | EAT => setmd SR s
  end.

(* end of a line: EOL, then Reader_iternext returns the record iff the state is START_RECORD *)
Definition eol (s : st) : st :=
  let s' := step_eol s in
  match md s' with SR => emit s' | _ => setinl false s' end.

(* one character of the (newline-translated) text; the file iterator ends a line after LF *)
Definition feed (d q : ascii) (s : st) (c : ascii) : st :=
  let s' := setinl true (step_ch d q s c) in
  if aeqb c LF then eol s' else s'.

Definition is_nil {A} (l : list A) : bool := match l with [] => true | _ => false end.

(* end of input: a last line without LF still gets its EOL; then a pending field /
   an open quoted field is saved and returned (non-strict) *)
Definition finish (s : st) : res (list (list chars)) :=
  let s1 := if inl s then eol s else s in
  match md s1 with
  | ERR => Raise OtherError
  | _ => if negb (is_nil (fld s1)) || mode_eqb (md s1) INQ
         then Ok (rev (rev (flds (save s1)) :: recs s1))
         else Ok (rev (recs s1))
  end.

Definition parse (d q : ascii) (t : chars) : res (list (list chars)) :=
  finish (fold_left (feed d q) t init).

(* ====================== readtxt ====================== *)
Definition to_chars (s : string) : chars := list_ascii_of_string s.
Definition to_str (l : chars) : string := string_of_list_ascii l.

Fixpoint dedup (l : list string) : list string :=       (* keys of the OrderedDict d, in first-insertion order *)
  match l with
  | [] => []
  | x :: r => x :: filter (fun y => negb (str_eqb x y)) (dedup r)
  end.

Fixpoint map_res {A B} (f : A -> res B) (l : list A) : res (list B) :=
  match l with
  | [] => Ok []
  | a :: r => bind (f a) (fun b => bind (map_res f r) (fun bs => Ok (b :: bs)))
  end.

(* a str read from the file, as the object handed to MixedColumn: classified by the builtins int()/float() *)
Definition text_obj (cls : cls_t) (s : string) : pyv := PStr s (fst (cls s)) (snd (cls s)).

(* records of the file as the csv reader yields them *)
Definition read_records (d q : ascii) (bytes : string) : res (list (list string)) :=
  bind (parse (k_reader_delimiter d q) (k_reader_quotechar d q) (unl (to_chars bytes)))
       (fun rs => Ok (map (map to_str) rs)).

Definition readtxt (cls : cls_t) (d q : ascii) (bytes : string) : res table :=
  bind (read_records d q bytes) (fun rs =>
  match rs with
  | [] => Raise OtherError                            (* next(reader) on an empty file: StopIteration *)
  | hdr :: rows =>
      let names := dedup (map k_header_name hdr) in
      if is_nil names then Ok ([], []) else          (* no column: the DataMatrix keeps length 0 *)
      (* zip(d.keys(), row) then the fill of the columns the row lacks *)
      let filled := map (fill k_missing (List.length names)) rows in
      (* _fromdict: each column is slice-assigned into a new MixedColumn *)
      bind (map_res (map_res (fun s => store_cell KMixed (text_obj cls s))) filled)
           (fun cells => Ok (names, cells))
  end).

(* ====================== writetxt ====================== *)
Definition cell_text (shf : fl -> string) (v : pyv) : res string := pyv_text (k_cell_str shf v).

Definition writetxt (shf : fl -> string) (d q : ascii) (is_2d : bool) (t : table) : res string :=
  let '(names, rows) := t in
  bind (k_write_guard is_2d) (fun _ =>
  bind (map_res (fun n => cell_text shf (PStr n None None)) names) (fun hdr =>
  bind (map_res (map_res (fun v => cell_text shf (pyv_of_val v))) rows) (fun body =>
  Ok (to_str (render (k_writer_delimiter d q) (k_writer_quotechar d q) (to_chars k_lineterminator)
                     (map (map to_chars) (hdr :: body))))))).

(* writetxt(dm): the guard reads dm.is_2d, which inspects the column objects of the table
   (cols: every column with its depth attribute when it has one -- Base/CsvPy.v colobj) *)
Definition writetxt_dm (shf : fl -> string) (d q : ascii) (cols : list (string * colobj)) (t : table) : res string :=
  writetxt shf d q (k_is_2d cols) t.
