(* L1 for C13, SeriesColumn part: _SeriesColumn._operate through the inherited operator methods (regenerated
   table k_base_dunder) and the regenerated per-sample code k_series_cell; NumPy broadcasting is modelled by hand. *)
From Coq Require Import ZArith List Bool String.
From DM Require Import Base.PyVal Spec.Nf Spec.Arith Spec.ArithSeries Gen.KArith.
Import ListNotations.

Section SeriesModel.
  Variable num_op : binop -> num -> num -> num.

  (* one sample: float64 o float64 *)
  Definition np_sample (op : binop) (flip : bool) (c : fl) (x : num) : fl :=
    num_fl (k_series_cell (fun a b => NFlt (num_fl (num_op op a b))) flip (NFlt c) (NFlt (num_fl x))).

  Definition series_operate (d : dunder) (c : scolumn) (o : soperand) : res scolumn :=
    let '(op, _, flip) := k_base_dunder d in
    let n := List.length (srows c) in
    let ids := k_series_rowid (sids c) in
    match o with
    | SScalar x => Ok (SCol (sdepth c) ids (map (fun row => map (fun s => np_sample op flip s x) row) (srows c)))
    | SVec xs =>
        if Nat.eqb (List.length xs) n                    (* a.shape == (len(self),): one value per row *)
        then Ok (SCol (sdepth c) ids (map2 (fun row x => map (fun s => np_sample op flip s x) row) (srows c) xs))
        else if Nat.eqb (List.length xs) (sdepth c)      (* NumPy broadcasting along the rows *)
        then Ok (SCol (sdepth c) ids (map (fun row => map2 (np_sample op flip) row xs) (srows c)))
        else Raise ValueError
    | SMat xss =>
        if Nat.eqb (List.length xss) n && all_len (sdepth c) xss
        then Ok (SCol (sdepth c) ids (map2 (fun row xs => map2 (np_sample op flip) row xs) (srows c) xss))
        else Raise ValueError
    end.
End SeriesModel.
