(* What a column object of the dumped object graph (Model/LTable.v: lcol) denotes for property C11, and the part of
   the representation invariant that concerns one column.  Hand-written, kernel-free; definitions only. *)
From Coq Require Import ZArith NArith List Bool String.
From DM Require Import Base.PyVal Spec.Nf Spec.Table Spec.ShuffleCol Model.LTable.
Import ListNotations.

Definition abs_col (c : lcol) : column := {| c_ids := ia (lc_rowid c); c_kind := lc_kind c; c_cells := lc_cells c |}.

(* what inv_b asks of a column, apart from WHICH ids it carries: as many ids as cells, owner, type checking on,
   caches absent or valid, cells in normal form *)
Definition lcol_wf (c : lcol) : bool :=
  Nat.eqb (List.length (lc_cells c)) (List.length (ia (lc_rowid c)))
  && lc_owner c && lc_tc c && index_ok (lc_rowid c) && forallb (cell_ok (lc_kind c)) (lc_cells c).

Definition column_eqb (a b : column) : bool :=
  ids_eqb (c_ids a) (c_ids b) && kind_eqb (c_kind a) (c_kind b) && list_eqb val_eqv (c_cells a) (c_cells b).

Definition map_res {A B} (f : A -> B) (r : res A) : res B := match r with Ok a => Ok (f a) | Raise e => Raise e end.
