(* L1 model of datamatrix/series.py and _SeriesColumn (C18) -- executable, no proofs here.
   The functions mirror the loops and NumPy calls of the source; every slice bound, depth
   computation and run-length test is a kernel regenerated from the source (Gen/KSeries.v).
   `None` results stand for an exception raised by NumPy / the function itself.
   Hand-written NumPy models (trusted, exercised by the correspondence): np_get, np_set,
   np_fill (basic slicing with Python bound normalisation), reshape(-1, by), np.interp,
   np.nanmean / np.nanmedian (Spec.Series.nanmean / nanmedian), searchsorted on arange. *)
From Coq Require Import ZArith QArith List Bool.
From DM Require Import Spec.Series Gen.KSeries.
Import ListNotations.

(* ---------- NumPy basic slicing ---------------------------------------- *)
Definition np_get {X} (lo hi : option Z) (l : list X) : list X := pyslice lo hi l.
(* dst[lo:hi] = src, shapes must agree *)
Definition np_set {X} (lo hi : option Z) (dst src : list X) : option (list X) :=
  let n := length dst in
  let a := norm_opt n 0 lo in
  let b := norm_opt n n hi in
  if Nat.eqb (b - a) (length src) then Some (firstn a dst ++ src ++ skipn (Nat.max a b) dst) else None.
(* dst[lo:hi] = scalar *)
Definition np_fill {X} (lo hi : option Z) (v : X) (dst : list X) : list X :=
  let n := length dst in
  let a := norm_opt n 0 lo in
  let b := norm_opt n n hi in
  firstn a dst ++ repeat v (b - a) ++ skipn (Nat.max a b) dst.
Fixpoint set_nth {X} (i : nat) (v : X) (l : list X) : list X :=
  match l, i with
  | [], _ => []
  | _ :: r, O => v :: r
  | x :: r, S i' => x :: set_nth i' v r
  end.
Definition lenZ {X} (l : list X) : Z := Z.of_nat (length l).
Fixpoint all_some {X} (l : list (option X)) : option (list X) :=
  match l with
  | [] => Some []
  | Some x :: r => match all_some r with Some r' => Some (x :: r') | None => None end
  | None :: _ => None
  end.
(* every row of a column has the column's depth *)
Definition wf_series {X} (d : nat) (s : list (list X)) : bool := forallb (fun r => Nat.eqb (length r) d) s.
Definition py_max (l : list Z) : option Z := match l with [] => None | x :: r => Some (fold_left Z.max r x) end.

Section Structural.
  Variable V : Type.
  Notation sample := (option V).
  Notation row := (list (option V)).
  Notation series := (list (list (option V))).

  (* ----- _SeriesColumn._map (functional.map_ on a series column) *)
  Fixpoint smap_loop (n : nat) (f : row -> option row) (cells : series) (i : nat) (newcol : series) (depth : nat)
    : option series :=
    match cells with
    | [] => Some newcol
    | cell :: rest =>
        match f cell with
        | None => None
        | Some a =>
            let newcol' := if Nat.eqb i 0 then repeat (nans (length a)) n else newcol in
            let depth' := if Nat.eqb i 0 then length a else depth in
            if Nat.eqb (length a) depth' then smap_loop n f rest (S i) (set_nth i a newcol') depth' else None
        end
    end.
  Definition smap (f : row -> option row) (s : series) : option series :=
    match s with [] => None | _ => smap_loop (length s) f s 0 [] 0 end.

  (* ----- endlock *)
  Fixpoint nan_positions (i : Z) (r : row) : list Z :=          (* np.where(np.isnan(row))[0] *)
    match r with
    | [] => []
    | x :: r' => if isnan x then i :: nan_positions (i + 1) r' else nan_positions (i + 1) r'
    end.
  Fixpoint endlock_scan (rw dst : row) (nancols : list Z) : option row :=
    match nancols with
    | [] => Some rw                                               (* for ... else: dst[rownr] = row *)
    | c :: rest =>
        if existsb (fun x => negb (isnan x)) (np_get (Some (k_el_tail_lo c)) None rw)
        then endlock_scan rw dst rest                             (* continue *)
        else np_set (Some (k_el_dst_lo c)) None dst (np_get None (Some (k_el_src_hi c)) rw)   (* break *)
    end.
  Definition endlock_row1 (rw : row) : option row :=
    let dst := nans (length rw) in
    if forallb isnan rw then Some dst else endlock_scan rw dst (nan_positions 0 rw).
  Definition endlock1 (s : series) : option series := all_some (map endlock_row1 s).

  (* ----- lock *)
  Definition lock1 (d : nat) (s : series) (lk : list Z) : option (series * Z) :=
    if negb (Nat.eqb (length s) (length lk)) then None else
    match py_max lk with
    | None => None
    | Some zero_point =>
        let lpad := map (k_lock_lpad zero_point) lk in
        match py_max lpad with
        | None => None
        | Some mx =>
            let depth := Z.of_nat d in
            let nd := Z.to_nat (k_lock_depth depth mx) in
            match all_some (map (fun pr => np_set (Some (k_lock_lo (fst pr) depth)) (Some (k_lock_hi (fst pr) depth))
                                                    (nans nd) (snd pr)) (combine lpad s)) with
            | Some rows => Some (rows, zero_point)
            | None => None
            end
        end
    end.

  (* ----- threshold *)
  Section Threshold.
    Variables (inj : Z -> V) (hit : sample -> bool) (min_length : Z).
    Fixpoint thr_loop (tr : row) (j nhit : Z) (out : row) : row * Z :=
      match tr with
      | [] => (out, nhit)
      | val :: r =>
          if hit val then thr_loop r (j + 1) (k_thr_inc nhit) out
          else
            let out' := if k_thr_test nhit min_length
                        then np_fill (Some (k_thr_lo j nhit)) (Some (k_thr_hi j nhit)) (Some (inj k_thr_mark)) out
                        else out in
            thr_loop r (j + 1) k_thr_reset out'
      end.
    Definition threshold_row1 (tr : row) : row :=
      let out0 := repeat (Some (inj k_thr_bg)) (length tr) in
      let res := thr_loop tr 0 k_thr_init out0 in
      let j := lenZ tr - 1 in                                   (* the last value of the loop variable *)
      if k_thr_end_test (snd res) min_length
      then np_fill (Some (k_thr_end_lo j (snd res))) (Some (k_thr_end_hi j (snd res))) (Some (inj k_thr_end_mark)) (fst res)
      else fst res.
    Definition threshold1 (s : series) : series := map threshold_row1 s.
  End Threshold.

  (* ----- window and col[:, a:b] *)
  Definition getslice1 (lo hi : option Z) (s : series) : series := map (np_get lo hi) s.
  Definition window1 (d : nat) (start : Z) (end_ : option Z) (s : series) : series :=
    let e := match end_ with None => Z.of_nat d | Some e => e end in
    getslice1 (Some start) (Some e) s.

  (* ----- concatenate *)
  Definition set_cols (lo hi : Z) (acc s : series) : option series :=
    if negb (Nat.eqb (length acc) (length s)) then None else
    all_some (map (fun pr => np_set (Some lo) (Some hi) (fst pr) (snd pr)) (combine acc s)).
  Fixpoint cat_loop (ss : list (nat * series)) (i : Z) (acc : series) : option series :=
    match ss with
    | [] => Some acc
    | (d, s) :: rest =>
        match set_cols (k_cat_lo i (Z.of_nat d)) (k_cat_hi i (Z.of_nat d)) acc s with
        | Some acc' => cat_loop rest (k_cat_next i (Z.of_nat d)) acc'
        | None => None
        end
    end.
  Definition concatenate1 (n : nat) (ss : list (nat * series)) : option series :=
    match ss with
    | [] => None
    | _ => cat_loop ss k_cat_start (repeat (nans (fold_right Nat.add 0%nat (map fst ss))) n)
    end.

  (* ----- normalize_time *)
  Definition isnone {X} (x : option X) : bool := match x with None => true | _ => false end.
  Fixpoint strictly_inc (ts : list Z) : bool :=
    match ts with
    | a :: ((b :: _) as r) => (a <? b)%Z && strictly_inc r
    | _ => true
    end.
  Fixpoint scatter (D : nat) (ts : list Z) (vs : row) (acc : row) : option row :=
    match ts, vs with
    | t :: ts', v :: vs' =>
        (* np.searchsorted(arange(D), t) for an integer t *)
        let idx := if (t <? 0)%Z then 0%nat else Nat.min (Z.to_nat t) D in
        if Nat.ltb idx D then scatter D ts' vs' (set_nth idx v acc) else None
    | [], [] => Some acc
    | _, _ => None
    end.
  Definition nt_row1 (D : nat) (ts : list (option Z)) (vs : row) : option row :=
    let k := leading isnone (rev ts) in
    let needle := firstn (length ts - k) ts in
    let values := firstn (length vs - k) vs in
    match all_some needle with
    | None => None                                            (* NaN before the end: ValueError *)
    | Some nd => if strictly_inc nd then scatter D nd values (nans D) else None
    end.
  Definition normalize_time1 (d : nat) (s : series) (tss : list (list (option Z))) : option series :=
    let all := flat_map (fun ts => flat_map (fun t => match t with Some z => [z] | None => [] end) ts) tss in
    if existsb (fun t => (t <? 0)%Z) all then None else
    match py_max all with
    | None => None
    | Some mx =>
        let D := Z.to_nat (k_nt_depth mx) in
        all_some (map (fun pr => nt_row1 D (snd pr) (fst pr)) (combine s tss))
    end.

  (* ----- depth setter *)
  Definition set_depth1 (old : nat) (depth : Z) (s : series) : option series :=
    if k_depth_same depth (Z.of_nat old) then Some s
    else if k_depth_grow depth (Z.of_nat old)
         then all_some (map (fun r => np_set None (Some (Z.of_nat old)) (nans (Z.to_nat depth)) r) s)
         else Some (map (np_get None (Some depth)) s).

  (* the depth setter of a column whose new cells hold `pad` (np.zeros, overwritten with NaN only `if self.defaultnan`) *)
  Definition set_depth1_pad (pad : sample) (old : nat) (depth : Z) (s : series) : option series :=
    if k_depth_same depth (Z.of_nat old) then Some s
    else if k_depth_grow depth (Z.of_nat old)
         then all_some (map (fun r => np_set None (Some (Z.of_nat old)) (repeat pad (Z.to_nat depth)) r) s)
         else Some (map (np_get None (Some depth)) s).

  (* ----- fft: abstract per-row transform, then the depth setter *)
  Definition fft1 (f : row -> row) (d : nat) (truncate : bool) (s : series) : option series :=
    let full := map f s in
    if truncate then set_depth1 d (k_fft_depth (Z.of_nat d)) full else Some full.
End Structural.

Arguments smap {V}. Arguments endlock_row1 {V}. Arguments endlock1 {V}. Arguments lock1 {V}.
Arguments threshold_row1 {V}. Arguments threshold1 {V}. Arguments window1 {V}. Arguments getslice1 {V}.
Arguments concatenate1 {V}. Arguments nt_row1 {V}. Arguments normalize_time1 {V}. Arguments set_depth1 {V}. Arguments set_depth1_pad {V}.
Arguments fft1 {V}. Arguments thr_loop {V}. Arguments endlock_scan {V}. Arguments nan_positions {V}.
Arguments smap_loop {V}. Arguments cat_loop {V}. Arguments set_cols {V}. Arguments scatter {V}.

(* ---------- arithmetic per-row helpers ---------------------------------- *)
(* a.reshape(-1, by) *)
Fixpoint reshape {X} (fuel by_ : nat) (l : list X) : option (list (list X)) :=
  match l with
  | [] => Some []
  | _ =>
      match fuel with
      | O => None
      | S f =>
          if Nat.eqb (length (firstn by_ l)) by_ && negb (Nat.eqb by_ 0)
          then match reshape f by_ (skipn by_ l) with Some r => Some (firstn by_ l :: r) | None => None end
          else None
      end
  end.
(* _downsample(a, by, fnc=nanmean) *)
Definition downsample_row1 (by_ : Z) (a : qrow) : option qrow :=
  if (by_ <=? 0)%Z then None else
  let a' := np_get None (Some (k_ds_keep by_ (lenZ a))) a in
  match reshape (length a') (Z.to_nat by_) a' with
  | Some m => Some (map nanmean m)
  | None => None
  end.
Definition downsample1 (by_ : Z) (s : list qrow) : option (list qrow) := smap (downsample_row1 by_) s.

(* np.interp(x, xp, fp) for increasing xp *)
Fixpoint np_interp (pts : list (Z * Q)) (x : Z) : Q :=
  match pts with
  | [] => 0
  | (x0, y0) :: rest =>
      if (x <=? x0)%Z then y0 else
      match rest with
      | [] => y0
      | (x1, y1) :: _ =>
          if (x <? x1)%Z then (y1 - y0) / inject_Z (x1 - x0) * inject_Z (x - x0) + y0 else np_interp rest x
      end
  end.
Fixpoint valid_points (i : Z) (r : qrow) : list (Z * Q) :=
  match r with
  | [] => []
  | Some q :: r' => (i, q) :: valid_points (i + 1) r'
  | None :: r' => valid_points (i + 1) r'
  end.
Fixpoint fill_nans (pts : list (Z * Q)) (i : Z) (r : qrow) : qrow :=
  match r with
  | [] => []
  | Some q :: r' => Some q :: fill_nans pts (i + 1) r'
  | None :: r' => Some (np_interp pts i) :: fill_nans pts (i + 1) r'
  end.
Definition interpolate_row1 (y : qrow) : qrow :=
  let nnan := lenZ (filter isnan y) in
  if k_ip_allnan nnan (lenZ y) then y else fill_nans (valid_points 0 y) 0 y.
Definition interpolate1 (s : list qrow) : option (list qrow) := smap (fun r => Some (interpolate_row1 r)) s.

(* reduce: FloatColumn with operation(series, axis=1) *)
Definition reduce1 (op : qrow -> option Q) (s : list qrow) : list (option Q) := map op s.
(* baseline: series - / reduce(window(baseline)) through _SeriesColumn._operate:
   the reduced column is broadcast along the depth axis (np.rot90(a2)[:] = a) *)
Definition baseline1 (d dbl : nat) (divisive : bool) (red : qrow -> option Q) (bl_start : Z) (bl_end : option Z)
           (s bl : list qrow) : option (list qrow) :=
  let b := reduce1 red (window1 dbl bl_start bl_end bl) in
  if negb (Nat.eqb (length b) (length s)) then None else
  let a2 := map (fun x => repeat x d) b in
  Some (map (fun pr => map (fun xy => lift2 (if divisive then Qdiv else Qminus) (fst xy) (snd xy))
                           (combine (fst pr) (snd pr))) (combine s a2)).
(* z: _map(series, _z) with _z(a) = (a - np.nanmean(a)) / np.nanstd(a), NumPy broadcasting a scalar over the row.
   np.nanstd is a parameter (a square root is not rational in general): the correspondence passes the table of
   the exact standard deviations, the theorems quantify over every function that returns them *)
Definition z_row1 (nanstd : qrow -> option Q) (a : qrow) : qrow :=
  map (fun x => lift2 Qdiv x (nanstd a)) (map (fun x => lift2 Qminus x (nanmean a)) a).
Definition z1 (nanstd : qrow -> option Q) (s : list qrow) : option (list qrow) :=
  smap (fun a => Some (z_row1 nanstd a)) s.
