(* L1 vocabulary for column comparison (C02): the classified reference object
   `other`, the operator object `op`, and hand-written models of the CPython /
   NumPy primitives the kernels regenerated from _basecolumn.py /
   _numericcolumn.py (Gen/KSelect.v) call.  Depends on nothing generated.
   Definitions only. *)
From Coq Require Import ZArith List Bool String.
From DM Require Import Base.PyVal Spec.Nf Spec.Table Spec.Select.
Import ListNotations.
Open Scope Z_scope.

(* the object on the right-hand side of `column OP other` *)
Inductive mref :=
  | MVal (v : pyv)                              (* int / float / bool / str / None / numpy scalar / other object *)
  | MSeq (vs : list pyv)                        (* list or tuple: has __len__, is not a str *)
  | MSet (vs : list pyv)
  | MFun (nargs : Z) (f : pyv -> res bool)      (* types.FunctionType; f = truth value of other(val) *)
  | MType (t : pytype).

(* `op`: one of the six operator functions, or the constant lambdas of IntColumn.__eq__/__ne__ *)
Inductive mop := OpCmp (c : cmpop) | OpConst (b : bool).

Definition op_is_eq (o : mop) : bool := match o with OpCmp CEq => true | _ => false end.
Definition op_is_ne (o : mop) : bool := match o with OpCmp CNe => true | _ => false end.

(* isinstance tests on `other` *)
Definition r_is_float (r : mref) : bool := match r with MVal v => is_float v | _ => false end.
Definition r_is_type (r : mref) : bool := match r with MType _ => true | _ => false end.
Definition r_is_set (r : mref) : bool := match r with MSet _ => true | _ => false end.
Definition r_is_function (r : mref) : bool := match r with MFun _ _ => true | _ => false end.
Definition r_is_basestring (r : mref) : bool := match r with MVal v => is_basestring v | _ => false end.
Definition r_has_len (r : mref) : bool :=
  match r with MSeq _ | MSet _ => true | MVal v => is_basestring v | _ => false end.
Definition r_len (r : mref) : pyv :=
  match r with MSeq vs | MSet vs => PInt (Z.of_nat (List.length vs)) | _ => PInt 0 end.
Definition r_isnan (r : mref) : res bool := match r with MVal v => b_isnan v | _ => Raise TypeError end.
Definition r_val (r : mref) : pyv := match r with MVal v => v | _ => POther end.
Definition r_items (r : mref) : list pyv := match r with MSeq vs | MSet vs => vs | _ => [] end.
Definition r_is_type_int (r : mref) : bool := match r with MType TInt => true | _ => false end.
(* issubclass(int, other): int and object (bool is a subclass of int, not the other way round) *)
Definition r_type_accepts_int (r : mref) : bool := match r with MType TInt | MType TObject => true | _ => false end.
Definition r_nargs (r : mref) : pyv := match r with MFun n _ => PInt n | _ => PInt 0 end.
Definition r_call (r : mref) (v : pyv) : res bool := match r with MFun _ f => f v | _ => Raise TypeError end.
Definition r_type (r : mref) : pytype := match r with MType t => t | _ => TObject end.

(* isinstance(val, type_) for an iterated cell object *)
Definition py_isinstance (v : pyv) (t : pytype) : bool :=
  match t, v with
  | TObject, _ => true
  | TInt, (PInt _ | PBool _) => true
  | TBool, PBool _ => true
  | TFloat, (PFloat _ | PNpFloat true _) => true
  | TStr, PStr _ _ _ => true
  | TNoneType, PNone => true
  | _, _ => false
  end.

(* Python `a OP b` between classified objects: numbers exactly, str by code point,
   ==/!= total, ordering across kinds raises TypeError *)
Definition cmp_holds (op : cmpop) (c : option comparison) : bool :=
  match op, c with
  | CEq, Some Eq => true
  | CNe, Some Eq => false | CNe, _ => true
  | CLt, Some Lt => true
  | CLe, (Some Lt | Some Eq) => true
  | CGt, Some Gt => true
  | CGe, (Some Gt | Some Eq) => true
  | _, _ => false
  end.
Definition str_cmp (a b : string) : comparison := String.compare a b.
Definition py_op (op : cmpop) (a b : pyv) : res bool :=
  match pyv_num a, pyv_num b with
  | Some x, Some y => Ok (cmp_holds op (num_cmp x y))
  | _, _ =>
      match a, b with
      | PStr s _ _, PStr t _ _ => Ok (cmp_holds op (Some (str_cmp s t)))
      | _, _ =>
          match op with
          | CEq => Ok (match a, b with PNone, PNone => true | _, _ => false end)
          | CNe => Ok (match a, b with PNone, PNone => false | _, _ => true end)
          | _ => Raise TypeError
          end
      end
  end.
Definition py_mop (op : mop) (a b : pyv) : res bool :=
  match op with OpCmp c => py_op c a b | OpConst b => Ok b end.

(* the object a loop over column._seq yields for a stored cell:
   MixedColumn: the Python object; FloatColumn: numpy.float64; IntColumn: numpy.int64 *)
Definition iter_obj (k : kind) (c : val) : pyv :=
  match k, c with
  | KFloat, VFlt f => PNpFloat true f
  | KInt, VInt z => PNpInt z
  | _, _ => pyv_of_val c
  end.

(* ---------- NumPy: element-wise operations on the column's array *)
(* the number an array element is compared with when the other operand is a Python / list
   element number: on a float64 array an int operand is converted to float64 *)
Definition np_operand (k : kind) (o : pyv) : option num :=
  match pyv_num o with
  | Some (NInt z) => Some (match k with KFloat => NFlt (round53 z) | _ => NInt z end)
  | x => x
  end.
Definition np_cmp_cell (k : kind) (op : mop) (c : val) (o : pyv) : bool :=
  match op with
  | OpConst b => b
  | OpCmp cop =>
      match val_num c, np_operand k o with
      | Some x, Some y => cmp_holds cop (num_cmp x y)
      | _, _ => match cop with CNe => true | _ => false end
      end
  end.
(* op(self._seq, scalar) *)
Definition v_cmp (k : kind) (op : mop) (seq : list val) (o : pyv) : list bool :=
  map (fun c => np_cmp_cell k op c o) seq.
(* op(self._seq, list): element-wise against the array made from the list *)
Fixpoint v_cmp_seq (k : kind) (op : mop) (seq : list val) (os : list pyv) : list bool :=
  match seq, os with
  | c :: r, o :: s => np_cmp_cell k op c o :: v_cmp_seq k op r s
  | _, _ => []
  end.
Definition v_isnan (seq : list val) : list bool := map is_nan_val seq.
Definition v_not (b : list bool) : list bool := map negb b.
Fixpoint where_from (i : nat) (b : list bool) : list nat :=
  match b with [] => [] | x :: r => if x then i :: where_from (S i) r else where_from (S i) r end.
Definition v_where (b : list bool) : list nat := where_from 0 b.
(* np.isnan / np.isinf of the coerced reference: a Python int outside the C integer range is
   handed to NumPy as an object and the ufunc raises TypeError *)
Definition np_scalar_ok (v : pyv) : bool :=
  match v with PInt z => (- 2 ^ 63 <=? z) && (z <? 2 ^ 64) | _ => true end.
Definition np_isnan (v : pyv) : res bool :=
  if np_scalar_ok v then
    match v with
    | PFloat f | PNpFloat _ f => Ok (fl_is_nan f)
    | PInt _ | PBool _ | PNpInt _ => Ok false
    | _ => Raise TypeError
    end
  else Raise TypeError.
Definition np_isinf (v : pyv) : res bool :=
  if np_scalar_ok v then
    match v with
    | PFloat f | PNpFloat _ f => Ok (fl_is_inf f)
    | PInt _ | PBool _ | PNpInt _ => Ok false
    | _ => Raise TypeError
    end
  else Raise TypeError.

(* rows kept by a per-cell test, in column order; the first raising test aborts *)
Fixpoint keep_where (k : kind) (test : pyv -> res bool) (i : nat) (cells : list val) : res (list nat) :=
  match cells with
  | [] => Ok []
  | c :: r =>
      bind (test (iter_obj k c)) (fun b =>
      bind (keep_where k test (S i) r) (fun ps => Ok (if b then i :: ps else ps)))
  end.
(* the same with a second sequence zipped in *)
Fixpoint keep_where2 (k : kind) (test : pyv -> pyv -> res bool) (i : nat) (cells : list val) (refs : list pyv)
  : res (list nat) :=
  match cells, refs with
  | c :: r, o :: s =>
      bind (test (iter_obj k c) o) (fun b =>
      bind (keep_where2 k test (S i) r s) (fun ps => Ok (if b then i :: ps else ps)))
  | _, _ => Ok []
  end.

(* try: if <test>: append  except: pass *)
Definition swallow (r : res bool) : res bool := match r with Ok b => Ok b | Raise _ => Ok false end.

(* [f(x) for x in islice(value, 0, n + 1)], then the length check of BaseColumn._tosequence *)
Fixpoint map_res (f : pyv -> res pyv) (l : list pyv) : res (list pyv) :=
  match l with
  | [] => Ok []
  | v :: r => bind (f v) (fun x => bind (map_res f r) (fun xs => Ok (x :: xs)))
  end.
Definition base_tosequence (checktype : pyv -> res pyv) (n : nat) (vs : list pyv) : res (list pyv) :=
  bind (map_res checktype (firstn (S n) vs))
       (fun xs => if Nat.eqb (List.length xs) n then Ok xs else Raise ValueError).

(* which helper BaseColumn._compare hands the comparison to *)
Inductive branch := BNan | BType | BSet | BFun | BSeq | BVal.
Definition br_nan (other : mref) (op : mop) : res branch := Ok BNan.
Definition br_type (other : mref) (op : mop) : res branch := Ok BType.
Definition br_set (other : mref) (op : mop) : res branch := Ok BSet.
Definition br_fun (other : mref) (op : mop) : res branch := Ok BFun.
Definition br_seq (other : mref) (op : mop) : res branch := Ok BSeq.
Definition br_val (other : mref) (op : mop) : res branch := Ok BVal.
