(* The complete L1 step and L1 histories (definitions only, no proofs: Run/RSim.v evaluates them at run time and must not
   depend on any proof; Proofs/CoreInv.v and Proofs/CoreSim.v prove the invariant and the simulation about them). *)
From Coq Require Import ZArith NArith List Bool Arith String.
From DM Require Import Base.PyVal Spec.Nf Spec.Table Spec.Ops Model.LTable Gen.KCore Model.Core.
Import ListNotations.
Open Scope nat_scope.

(* ---------- L1 histories ----------
   lstep leaves the two operations that create a family to its callers (Run/RCore.v reads the new family off the dump):
   here DataMatrix(length=n) is the empty table on Index(n), a << b is concat_l, and the family counter advances as
   in Spec.Ops.step.  A pool is updated by LNew = append, LUpd i / LErrUpd i = replace. *)
Definition lnew (fam n : nat) : ltable :=
  {| l_fam := fam; l_rowid := idx_range n; l_names := []; l_cols := []; l_sorted := true; l_dflt := KMixed |}.

(* Row.__setitem__ / DataMatrix.__setitem__ on a missing name: a column of the default type holding default cells *)
Definition create_default (t : ltable) (name : string) : ltable :=
  lbind t name (List.length (l_cols t))
        (l_cols t ++ [{| lc_kind := l_dflt t; lc_rowid := idx_of_list (ia (l_rowid t));
                         lc_cells := repeat (default_cell (l_dflt t)) (nrows_l t); lc_owner := true; lc_tc := true |}]).

Definition lstep_all (p : list ltable) (nf : nat) (o : op) : lres :=
  match o with
  | ONew n => LNew (lnew nf n)
  | OSetCol ti name r =>
      (* dm[name] = value on a MISSING name: the column is created first (it stays when the coercion raises), then
         the step on an existing column applies *)
      match nth_error p ti with
      | Some t => match lookup name (l_names t) with
                  | Some _ => lstep p o
                  | None => lstep (set_nth ti (create_default t name) p) o
                  end
      | None => LSkip
      end
  | OConcat ti t2i =>
      match nth_error p ti, nth_error p t2i with
      | Some a, Some b => match concat_l a b nf with Ok r => LNew r | Raise _ => LErr end
      | _, _ => LSkip
      end
  | _ => lstep p o
  end.

Definition lapply (p : list ltable) (x : lres) : list ltable :=
  match x with
  | LNew r => p ++ [r]
  | LUpd i r | LErrUpd i r => set_nth i r p
  | LErr | LSkip => p
  end.

Definition next_fam (nf : nat) (o : op) (x : lres) : nat :=
  match o, x with
  | ONew _, _ => S nf
  | OConcat _ _, LNew _ => S nf
  | _, _ => nf
  end.

Fixpoint lrun_from (ops : list op) (p : list ltable) (nf : nat) : list ltable :=
  match ops with
  | [] => p
  | o :: r => let x := lstep_all p nf o in lrun_from r (lapply p x) (next_fam nf o x)
  end.
Definition lrun (ops : list op) : list ltable := lrun_from ops [] 0.


(* ---------- histories ----------
   sim_step: the step is inside the model and both sides produced a result of the same shape:
     L1 LNew      with L0 OkNew,
     L1 LUpd      with L0 OkUnit,
     L1 LErrUpd   with L0 Err _   (raised after a partial effect: both sides keep the effect),
     L1 LErr      with L0 Err _   (raised without effect: both sides keep their state).
   Everything else -- L0 OutOfModel, L1 LSkip, or results of different shapes -- is false. *)
Definition sim_step (w : world) (p : list ltable) (o : op) : bool :=
  match lstep_all p (nextfam w) o, snd (step w o) with
  | LNew _, OkNew | LUpd _ _, OkUnit | LErrUpd _ _, Err _ | LErr, Err _ => true
  | _, _ => false
  end.

Fixpoint sim_ok (w : world) (p : list ltable) (ops : list op) : bool :=
  match ops with
  | [] => true
  | o :: r => sim_step w p o && sim_ok (fst (step w o)) (lapply p (lstep_all p (nextfam w) o)) r
  end.

(* the family counter after an L1 history *)
Fixpoint lfam_from (ops : list op) (p : list ltable) (nf : nat) : nat :=
  match ops with
  | [] => nf
  | o :: r => let x := lstep_all p nf o in lfam_from r (lapply p x) (next_fam nf o x)
  end.

