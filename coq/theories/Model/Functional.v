(* L1 for C19: map_, filter_ and setcol as datamatrix/functional.py computes them, on the scripts
   regenerated from the source (Gen/KFunctional.v):
     map_     copy `obj[:]` (positional slice), then per pair (row of the copy, row of the source): read the
              SOURCE Row in its column_names order, d.update(fnc( d )), write EVERY item of d back into the
              row of the copy through Row.__setitem__ (which creates a missing column with the default
              value first) and the integer-key cell write;
     filter_  the list of row ids of the rows / cells that pass, then DataMatrix._selectrowid, which
              fetches the cells BY ID through the position dict of the Index; for a column
              `(col == fnc)[col.name]` through BaseColumn._compare / _compare_function;
     setcol   the guards, the copy `dm[:]`, DataMatrix._set_col on the copy.
   A table carries its row ids; columns are by value (the ids of a column are those of its table,
   which is the invariant inv_b of C01).  Cell coercion is the normal form nf (tied to the code by C05).
   Executable; no proofs here (Proofs/FunctionalFacts.v). *)
From Coq Require Import ZArith NArith List Bool String.
From DM Require Import Base.PyVal Spec.Nf Spec.Table Spec.Functional Gen.KFunctional.
Import ListNotations.
Open Scope nat_scope.

Record ltab := { l_ids : list N; l_sorted : bool; l_tab : tab }.
Definition l_len (t : ltab) : nat := List.length (l_ids t).
Definition l_cols (t : ltab) : list col := tcols (l_tab t).
Definition l_with_tab (t : ltab) (T : tab) : ltab := {| l_ids := l_ids t; l_sorted := l_sorted t; l_tab := T |}.
Definition l_put_col (t : ltab) (c : col) : ltab := l_with_tab t (with_cols (l_tab t) (put c (l_cols t))).

(* a dict handed to a user function, in its canonical representation (ascending keys) *)
Fixpoint ins_item {A} (kv : string * A) (l : list (string * A)) : list (string * A) :=
  match l with
  | [] => [kv]
  | x :: r => if str_leb (fst kv) (fst x) then kv :: l else x :: ins_item kv r
  end.
Definition canon {A} (l : list (string * A)) : list (string * A) := fold_right ins_item [] l.

(* ---------- dm[:] : DataMatrix.__getitem__ -> _slice -> Index / column slices, all positional *)
Definition l_slice (t : ltab) (ps : list nat) : res ltab :=
  match take_pos ps (l_ids t) with
  | None => Raise IndexError
  | Some ids =>
      bind (map_res (fun c => match take_pos ps (ccells c) with
                              | Some xs => Ok (with_cells c xs)
                              | None => Raise IndexError end) (l_cols t))
           (fun cs => Ok {| l_ids := ids; l_sorted := true;       (* DataMatrix(len(_rowid)): sorted, MixedColumn default *)
                            l_tab := {| tlen := List.length ids; tdflt := KMixed; tcols := cs |} |})
  end.
Definition l_copy (t : ltab) : res ltab :=
  match k_dm_getitem false false false true false false with
  | Ok [GSlice] => l_slice t (slice_pos (l_len t) None None)
  | Ok _ => Raise OtherError
  | Raise e => Raise e
  end.

(* ---------- column_names, dm[i], Row.__iter__ *)
Definition l_column_names (t : ltab) : list string :=
  match k_to_list (l_sorted t) with
  | Ok [LSorted] => sort_names (tab_names (l_tab t))
  | _ => tab_names (l_tab t)
  end.
Definition l_getrow (t : ltab) (i : nat) : res nat :=
  match k_getrow (Z.of_nat i) (Z.of_nat (l_len t)) with
  | Ok [GMakeRow] => Ok i
  | Ok _ => Raise OtherError
  | Raise e => Raise e
  end.
Definition l_row_get (t : ltab) (i : nat) (key : string) : val :=
  match find_col key (l_cols t) with Some c => cell_at i c | None => VNone end.
Definition l_row_items (t : ltab) (i : nat) : row := map (fun n => (n, l_row_get t i n)) (l_column_names t).
(* for i in self.rows: yield self[i] *)
Definition l_iter_rows (t : ltab) : res (list nat) := map_res (l_getrow t) (seq 0 (l_len t)).

(* ---------- DataMatrix._set_col *)
Definition rhs_of (v : cvalue) : option rhs :=
  match v with
  | CVScalar x => Some (RScalar x)
  | CVSeq xs => Some (RSeq xs)
  | CVCol _ cells => Some (RSeq (map pyv_of_val cells))
  | CVType _ => None
  end.
(* self._cols[name][:] = value  ->  BaseColumn._setslicekey -> _tosequence(value, len(self._seq[key])) *)
Definition l_fill (t : ltab) (n : string) (v : cvalue) : res ltab :=
  match find_col n (l_cols t), rhs_of v with
  | Some c, Some r => bind (rhs_cells (ckind c) (List.length (ccells c)) r) (fun xs => Ok (l_put_col t (with_cells c xs)))
  | _, _ => Raise OtherError
  end.
Definition empty_col (n : string) (k : kind) (len : nat) : col :=
  {| cname := n; ckind := k; ccells := repeat (default_cell k) len |}.
Definition l_set_col (t : ltab) (n : string) (v : cvalue) (same_dm is_own_column ids_match : bool) : res ltab :=
  let is_type := match v with CVType _ => true | _ => false end in
  let is_col := match v with CVCol _ _ => true | _ => false end in
  let vlen := match v with CVCol _ cells => Z.of_nat (List.length cells) | _ => 0%Z end in
  match k_set_col_head false is_type is_type false false false false is_col same_dm is_own_column ids_match vlen (Z.of_nat (l_len t)) with
  | Raise e => Raise e
  | Ok [CNewOfType; CReturn] =>
      match v with CVType k => Ok (l_put_col t (empty_col n k (l_len t))) | _ => Raise OtherError end
  | Ok [CInsertRef; CReturn] =>
      match v with CVCol k cells => Ok (l_put_col t {| cname := n; ckind := k; ccells := cells |}) | _ => Raise OtherError end
  | Ok pre =>
      match (match pre, v with
             | [CEmptyLike], CVCol k _ => Some (l_put_col t (empty_col n k (l_len t)))
             | [], _ => Some t
             | _, _ => None
             end) with
      | None => Raise OtherError
      | Some t1 =>
          match k_set_col_tail true (negb (has_col n (l_cols t1))) with
          | Raise e => Raise e
          | Ok [CNewDefault; CFill; CMutate] => l_fill (l_put_col t1 (empty_col n (tdflt (l_tab t1)) (l_len t1))) n v
          | Ok [CFill; CMutate] => l_fill t1 n v
          | Ok _ => Raise OtherError
          end
      end
  end.

(* ---------- Row.__setitem__ with a name *)
Definition l_write_cell (t : ltab) (i : nat) (key : string) (v : pyv) : res ltab :=
  match find_col key (l_cols t) with
  | None => Raise AttributeError
  | Some c =>
      match k_col_setitem true false false false with
      | Ok [WInt; WMutate] =>      (* self._seq[key] = self._checktype(value) *)
          bind (nf (ckind c) v) (fun x => Ok (l_put_col t (with_cells c (set_nth i x (ccells c)))))
      | Ok _ => Raise OtherError
      | Raise e => Raise e
      end
  end.
Definition default_value : pyv := PStr "" None None.        (* BaseColumn.default_value, not overridden *)
Definition l_row_set (t : ltab) (i : nat) (key : string) (v : pyv) : res ltab :=
  match k_row_setitem false true (negb (existsb (String.eqb key) (l_column_names t))) with
  | Ok [RCreateDefault; RWriteCell] =>
      bind (l_set_col t key (CVScalar default_value) false false false) (fun t1 => l_write_cell t1 i key v)
  | Ok [RWriteCell] => l_write_cell t i key v
  | Ok _ => Raise OtherError
  | Raise e => Raise e
  end.

(* ---------- map_ : for row, source_row in zip(dm, obj) *)
Definition l_map_row (f : row -> upd) (src t : ltab) (ii : nat * nat) : res ltab :=
  bind (l_getrow t (fst ii)) (fun i =>
  bind (l_getrow src (snd ii)) (fun i' =>
    let items := l_row_items src i' in                               (* d = {col: val for col, val in source_row} *)
    let d := dict_update (row_dict items) (f (canon items)) in       (* d.update(fnc( d )) *)
    fold_left (fun acc kv => bind acc (fun t' => l_row_set t' i (fst kv) (snd kv))) d (Ok t))).
Definition l_map_dm (f : row -> upd) (t : ltab) : res ltab :=
  bind (l_copy t) (fun dm =>
    fold_left (fun acc ii => bind acc (fun t' => l_map_row f t t' ii))
              (combine (seq 0 (l_len dm)) (seq 0 (l_len t))) (Ok dm)).
(* BaseColumn._map / NumericColumn._map: [fnc(val) for val in self._seq], cast to the dtype for numeric columns *)
Definition l_map_col (g : val -> pyv) (c : col) : res col :=
  bind (map_res (fun v => mapped_cell (ckind c) (g v)) (ccells c)) (fun xs => Ok (with_cells c xs)).

(* ---------- _selectrowid: every column fetches its cells by id; Index.index is a dict built by
   enumerate, so the LAST position of an id wins *)
Fixpoint last_index (x : N) (l : list N) (i : nat) : option nat :=
  match l with
  | [] => None
  | y :: r => match last_index x r (S i) with
              | Some p => Some p
              | None => if N.eqb x y then Some i else None
              end
  end.
Definition l_getrowidkey (ids key : list N) (c : col) : res col :=
  bind (map_res (fun id => match last_index id ids 0 with
                           | Some p => match nth_error (ccells c) p with Some x => Ok x | None => Raise IndexError end
                           | None => Raise KeyError
                           end) key)
       (fun xs => Ok (with_cells c xs)).
Definition l_selectrowid (t : ltab) (key : list N) : res ltab :=
  bind (map_res (l_getrowidkey (l_ids t) key) (l_cols t))
       (fun cs => Ok {| l_ids := key; l_sorted := true;
                        l_tab := {| tlen := List.length key; tdflt := KMixed; tcols := cs |} |}).

(* ---------- filter_ on a DataMatrix: Index([rowid for rowid, row in zip(dm._rowid, obj) if keep(fnc, row)]) *)
Definition l_filter_dm (f : row -> bool) (t : ltab) : res ltab :=
  bind (l_iter_rows t) (fun rows =>
    l_selectrowid t (map fst (filter (fun p => f (canon (l_row_items t (snd p)))) (combine (l_ids t) rows)))).

(* ---------- filter_ on a column: (obj == fnc)[obj.name] *)
Definition l_compare_function (t : ltab) (c : col) (g : val -> bool) (nargs : Z) : res ltab :=
  match k_compare_function true false nargs with
  | Raise e => Raise e
  | Ok [TTestIs; TSelect] =>
      l_selectrowid t (map fst (filter (fun p => g (snd p)) (combine (l_ids t) (ccells c))))
  | Ok _ => Raise OtherError
  end.
(* name: the one name under which the column object sits in its table; None: it sits under no name
   (then obj.name is None and dm[None] raises KeyError) *)
Definition l_filter_col (t : ltab) (name : option string) (c : col) (g : val -> bool) (is_function : bool) (nargs : Z)
  : res col :=
  match k_compare false false false false is_function false with
  | Ok [QFunction] =>
      bind (l_compare_function t c g nargs) (fun r =>
        match name with
        | None => Raise KeyError
        | Some n =>
            match k_dm_getitem false true false false false false with
            | Ok [GByName] => match find_col n (l_cols r) with Some c' => Ok c' | None => Raise AttributeError end
            | Ok _ => Raise OtherError
            | Raise e => Raise e
            end
        end)
  | Ok _ => Raise OtherError
  | Raise e => Raise e
  end.

(* ---------- setcol *)
Definition l_setcol (name_is_str owner_is_dm : bool) (t : ltab) (n : string) (v : cvalue) : res ltab :=
  match k_setcol name_is_str (match v with CVCol _ _ => true | _ => false end) owner_is_dm with
  | Raise e => Raise e
  | Ok [SCopy; SAssign; SReturn] => bind (l_copy t) (fun newdm => l_set_col newdm n v false false false)
  | Ok _ => Raise OtherError
  end.

(* ---------- the public functions with their guards and dispatch on the argument type *)
Inductive fobj := OCol (t : ltab) (name : option string) (c : col) | ODm (t : ltab) | OOther.
Inductive fres := RCol (c : col) | RTab (t : ltab).
Definition is_colobj (o : fobj) : bool := match o with OCol _ _ _ => true | _ => false end.
Definition is_dmobj (o : fobj) : bool := match o with ODm _ => true | _ => false end.

Definition l_map (is_callable : bool) (g : val -> pyv) (f : row -> upd) (o : fobj) : res fres :=
  match k_map is_callable (is_colobj o) (is_dmobj o), o with
  | Raise e, _ => Raise e
  | Ok [MColMap], OCol _ _ c => bind (l_map_col g c) (fun r => Ok (RCol r))
  | Ok [MCopy; MRowLoop; MReturn], ODm t => bind (l_map_dm f t) (fun r => Ok (RTab r))
  | Ok _, _ => Raise OtherError
  end.
Definition l_filter (is_callable is_function : bool) (nargs : Z) (g : val -> bool) (f : row -> bool) (o : fobj) : res fres :=
  match k_filter is_callable (is_colobj o) (is_dmobj o), o with
  | Raise e, _ => Raise e
  | Ok [FColFilter], OCol t name c => bind (l_filter_col t name c g is_function nargs) (fun r => Ok (RCol r))
  | Ok [FBind; FKeep; FSelectKept], ODm t => bind (l_filter_dm f t) (fun r => Ok (RTab r))
  | Ok _, _ => Raise OtherError
  end.

(* ---------- a heap of tables: the functions allocate their result and touch nothing else *)
Definition heap := list ltab.
Definition h_alloc (h : heap) (r : res ltab) : heap * res nat :=
  match r with Ok t => (h ++ [t], Ok (List.length h)) | Raise e => (h, Raise e) end.
Definition h_map_dm (f : row -> upd) (h : heap) (i : nat) : heap * res nat :=
  match nth_error h i with Some t => h_alloc h (l_map_dm f t) | None => (h, Raise OtherError) end.
Definition h_filter_dm (f : row -> bool) (h : heap) (i : nat) : heap * res nat :=
  match nth_error h i with Some t => h_alloc h (l_filter_dm f t) | None => (h, Raise OtherError) end.
Definition h_setcol (h : heap) (i : nat) (n : string) (v : cvalue) : heap * res nat :=
  match nth_error h i with Some t => h_alloc h (l_setcol true true t n v) | None => (h, Raise OtherError) end.
