(* The object graph of a DataMatrix that may hold SeriesColumns, as it is
   dumped from the running implementation (C17).  Model/LTable.v (shared) has
   no series kind, so a column object is either a plain column (lcol) or a
   series column: a NumericColumn (bare row-id array, owner, type-checking
   flag) with the attributes _depth, defaultnan and a 2-D _seq.
   `shadow` forgets the series payloads (a series column becomes the float
   column it is an instance of, cells blanked) so that inv_b/abs of LTable.v
   and every theorem about ltable apply; `ser_payload` is what it forgets.
   Kernel-free; definitions only. *)
From Coq Require Import ZArith NArith List Bool String.
From DM Require Import Base.PyVal Spec.Nf Spec.Table Model.LTable Spec.Persist.
Import ListNotations.

Record scol := { sc_depth : nat; sc_dnan : bool; sc_rowid : list N; sc_cells : list (list fl);
                 sc_owner : bool; sc_tc : bool }.
Inductive xcol := XP (c : lcol) | XS (s : scol).
Record xtable := { x_fam : nat; x_rowid : index; x_names : list (string * nat); x_cols : list xcol;
                   x_sorted : bool; x_dflt : kind }.

Definition nan_cells (rows : list (list fl)) : list val := map (fun _ => VFlt FNan) rows.
Definition shadow_col (c : xcol) : lcol :=
  match c with
  | XP c => c
  | XS s => {| lc_kind := KFloat; lc_rowid := {| ia := sc_rowid s; imeta := None; imax := None |};
               lc_cells := nan_cells (sc_cells s); lc_owner := sc_owner s; lc_tc := sc_tc s |}
  end.
Definition shadow (x : xtable) : ltable :=
  {| l_fam := x_fam x; l_rowid := x_rowid x; l_names := x_names x; l_cols := map shadow_col (x_cols x);
     l_sorted := x_sorted x; l_dflt := x_dflt x |}.
Definition of_ltable (t : ltable) : xtable :=
  {| x_fam := l_fam t; x_rowid := l_rowid t; x_names := l_names t; x_cols := map XP (l_cols t);
     x_sorted := l_sorted t; x_dflt := l_dflt t |}.

(* depth, defaultnan flag, rows *)
Definition ser_payload (c : xcol) : option (nat * bool * list (list fl)) :=
  match c with XP _ => None | XS s => Some (sc_depth s, sc_dnan s, sc_cells s) end.

(* the representation invariant: that of the shadow (row ids of every column = the table's, one cell per row,
   owners, caches, ...) and every row of a series has `depth` samples *)
Definition ser_ok (c : xcol) : bool :=
  match c with
  | XP _ => true
  | XS s => forallb (fun r => Nat.eqb (List.length r) (sc_depth s)) (sc_cells s)
  end.
Definition xinv_b (x : xtable) : bool := inv_b (shadow x) && forallb ser_ok (x_cols x).

(* what the object graph denotes *)
Definition xabs (x : xtable) : xspec :=
  {| xs_table := abs (shadow x);
     xs_series := map (fun c => match c with XP _ => None | XS s => Some (sc_depth s, sc_cells s) end) (x_cols x) |}.
