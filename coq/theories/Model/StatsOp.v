(* C12: the statistics of the RESULT column of an operator on an IntColumn, read from the result object itself.
   NumericColumn._operate stores number_op's array in the result's buffer `_seq` -- a float64 array for a true division
   (`7 / col`: IntColumn overrides __truediv__, not the reflected __rtruediv__) -- and IntColumn._operate casts it back:
   `col._seq = col._seq.astype(self.dtype)` (truncation toward zero).  The cells of the result are read through
   NumericColumn._getintkey, `self.dtype(self._seq[key])` = int(...), while the NumPy statistics (Model/Stats.v
   num_stat) reduce the buffer.  Both statements are pinned by translate/gen_stats.py.  No proofs in this file. *)
From Coq Require Import ZArith QArith Qcanon List Bool.
From DM Require Import Base.PyVal Base.QcPy Spec.Nf Spec.Stats Model.Stats.
Import ListNotations.

(* int(x) and ndarray.astype(int) on a finite number: truncation toward zero *)
Definition qtrunc (q : Qc) : Z := Z.quot (Qnum q) (Zpos (Qden q)).
(* the cells of an IntColumn whose buffer is buf: dtype(_seq[i]) for every i *)
Definition int_cells (buf : list Qc) : list Z := map qtrunc buf.
(* IntColumn._operate: the buffer after `.astype(self.dtype)` *)
Definition int_cast (buf : list Qc) : list Qc := map (fun q => qz (qtrunc q)) buf.
(* the NumPy statistics of a numeric column reduce its buffer *)
Definition buf_stat (s : stat) (buf : list Qc) : mres := num_stat s (zlen buf) buf.
