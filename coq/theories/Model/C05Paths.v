(* L1 (C05): the write-path skeletons built on the regenerated dispatch kernels of Gen/KC05Paths.v
   (guard of the unchecked fast path of BaseColumn._setslicekey, scalar test of BaseColumn._tosequence,
   exit chain of NumericColumn._tosequence) and the per-cell chains of Gen/KCheck.v.  No proofs here. *)
From Coq Require Import ZArith List Bool String.
From DM Require Import Base.PyVal Spec.Nf Gen.KCheck Gen.KC05Paths Model.Store.
Import ListNotations.
Open Scope Z_scope.

Definition kind_eqb (a b : kind) : bool :=
  match a, b with KMixed, KMixed | KFloat, KFloat | KInt, KInt => true | _, _ => false end.
Definition is_numeric_kind (k : kind) : bool := match k with KMixed => false | _ => true end.

Inductive toseq_exit := XChecktype | XDirect | XArray | XSuper | XUnknown.
Definition numeric_exit (is_numcol same_len : bool) (v : pyv) : toseq_exit :=
  match k_numeric_toseq_branch is_numcol same_len v with
  | Ok (PInt 0) => XChecktype | Ok (PInt 1) => XDirect | Ok (PInt 2) => XArray | Ok (PInt 3) => XSuper
  | _ => XUnknown
  end.

(* the store that follows _checktype: list cell (Mixed), float64 / int64 buffer *)
Definition buffer_store (k : kind) (v : pyv) : res val :=
  match k with KMixed => to_val v | KFloat => np_to_float v | KInt => np_to_int v end.

(* ---- a scalar (None, text, number, or an object that is not iterable) handed to column._tosequence ---- *)

(* BaseColumn._tosequence(value) for such a value: broadcast of one _checktype result, or iter(value) fails *)
Definition base_toseq_scalar (k : kind) (v : pyv) : res val :=
  if k_base_toseq_scalar v then store_cell k v else Raise TypeError.

Definition toseq_scalar (k : kind) (v : pyv) : res val :=
  match k with
  | KMixed => base_toseq_scalar KMixed v
  | KFloat =>
      match numeric_exit false false v with
      | XChecktype => store_cell KFloat v
      | XDirect => np_to_float v
      | XSuper => base_toseq_scalar KFloat v
      | XArray | XUnknown => Raise OtherError
      end
  | KInt =>
      (* pinned IntColumn._tosequence: list(value) fails, value = self._checktype(value), then the base function *)
      bind (k_int_checktype v) (fun v' => base_toseq_scalar KInt v')
  end.

(* the write paths of Model/Store.v, scalar paths through the dispatch kernels *)
Definition store_k (p : path) (k : kind) (v : pyv) : res val :=
  if scalar_path p then toseq_scalar k v else store_cell k v.

(* ---- a column object of kind k2 as value; raw = its cell as the column hands it out ---- *)

(* column._tosequence(value) for a column object of matching length *)
Definition toseq_col (k k2 : kind) (raw : pyv) : res val :=
  match k with
  | KMixed => if k_base_toseq_scalar POther then Raise OtherError else store_cell KMixed raw
  | KFloat =>
      match numeric_exit (is_numeric_kind k2) true POther with
      | XArray => np_to_float raw                (* value.array, cast by the float64 buffer *)
      | XSuper => if k_base_toseq_scalar POther then Raise OtherError else store_cell KFloat raw
      | _ => Raise OtherError
      end
  | KInt => store_cell KInt raw                  (* pinned IntColumn._tosequence: list(value), then per element *)
  end.

Inductive colform :=
  | FSlice      (* col[a:b] = value            : _setslicekey *)
  | FSeqKey     (* col[index list] = value, col[selection] = value : _setsequencekey *)
  | FSetCol.    (* dm.name = value / dm[name] = value, value owned by another table or not row-aligned:
                   a fresh column of the value's type, then [:] = value *)

Definition result_kind (f : colform) (k k2 : kind) : kind := match f with FSetCol => k2 | _ => k end.

Definition setslice_col (tc : bool) (k k2 : kind) (raw : pyv) : res val :=
  if k_setslice_fast tc (kind_eqb k k2) then buffer_store k raw else toseq_col k k2 raw.

(* tc = the _typechecking flag of the target column *)
Definition store_colval (tc : bool) (f : colform) (k k2 : kind) (raw : pyv) : res val :=
  match f with
  | FSlice => setslice_col tc k k2 raw
  | FSeqKey => toseq_col k k2 raw
  | FSetCol => setslice_col true k2 k2 raw
  end.

(* what a column of kind k2 can hold in its storage: numeric columns hold numbers (NumPy buffer) *)
Definition raw_ok (k2 : kind) (raw : pyv) : bool :=
  match k2 with KMixed => true | _ => is_Number raw end.

(* ---- dm.name = value / dm[name] = value / constructor keyword, value a column object of kind k2 ----
   DataMatrix._set_col: the translated test k_setcol_by_reference decides between the deliberate alias (the
   column object itself is entered under the new name: its storage is what is read back) and the copying exit
   (length check, a fresh column of the value's type with type checking on, then [:] = value). *)
Definition store_setcol (same_owner is_own_column same_len same_ids : bool) (k2 : kind) (raw : pyv) : res val :=
  if k_setcol_by_reference same_owner is_own_column same_len same_ids then buffer_store k2 raw
  else if negb same_len then Raise ValueError
  else setslice_col true k2 k2 raw.

(* ---- a scalar written to n addressed cells (n may be 0) ----
   Every scalar write form ends in column._tosequence(value, n): col[a:b] = v (_setslicekey, pinned), col[index list] = v
   (_setsequencekey, pinned), col[selection] = v (both _setdatamatrixkey, pinned: self[index list] = val),
   dm.name = v / dm[name] = v / constructor keyword (tail of _set_col, pinned: self._cols[name][:] = value).
   _tosequence evaluates the coercion of the scalar ONCE, before the broadcast to n cells, so the verdict does not
   depend on n: a write that addresses no cell at all still rejects what the column type rejects. *)
Definition store_scalar_n (k : kind) (n : nat) (v : pyv) : res (list val) :=
  bind (toseq_scalar k v) (fun x => Ok (repeat x n)).
