(* L1 for C10: the sort machinery as implemented -- sortable() keys and the
   comparison methods are the kernels regenerated from _sort.py (Gen/KSort.v);
   hand-written here: CPython's `<` dispatch, sorted() as stable insertion
   sort, ndarray.argsort, _getrowidkey/_selectrowid by row id, operations.sort
   and the bin_split loop.  No proofs here. *)
From Coq Require Import ZArith NArith List Bool String.
From DM Require Import Base.PyVal Base.SortKey Spec.Nf Spec.Table Gen.KSort.
Import ListNotations.

(* ---------- CPython `x < y` on sort keys: type(x).__lt__(x, y); int/float return NotImplemented for the
   Sortable* classes, then the reflected type(y).__gt__(y, x) is used.  The Sortable* methods never return
   NotImplemented.  int/float compare natively and exactly. *)
Definition py_lt (x y : key) : bool :=
  match x with
  | KNum a =>
      match y with
      | KNum b => num_ltb a b
      | KStr _ => SortableSTR_gt y x
      | KNone => SortableNone_gt y x
      | KNan => SortableNAN_gt y x
      end
  | KStr _ => SortableSTR_lt x y
  | KNone => SortableNone_lt x y
  | KNan => SortableNAN_lt x y
  end.

(* sortable(cell) for a stored cell; None = the call raises or leaves the four key classes *)
Definition sortable (v : val) : option key :=
  match k_sortable (pyv_of_val v) with
  | Ok s => key_of_skey s
  | Raise _ => None
  end.

(* ---------- sorted(): stable insertion sort that only asks `y < x` *)
Section ISort.
  Context {A : Type} (lt : A -> A -> bool).
  Fixpoint insert (x : A) (l : list A) : list A :=
    match l with
    | [] => [x]
    | y :: r => if lt y x then y :: insert x r else x :: l
    end.
  Definition isort (l : list A) : list A := fold_right insert [] l.
End ISort.

Definition fst_lt {K B} (lt : K -> K -> bool) (a b : K * B) : bool := lt (fst a) (fst b).

(* sorted(items, key=f): decorate, sort by key, undecorate *)
Definition decorate {B} (f : B -> option key) (items : list B) : option (list (key * B)) :=
  all_some (map (fun x => match f x with Some k => Some (k, x) | None => None end) items).
Definition py_sorted {B} (f : B -> option key) (items : list B) : option (list B) :=
  match decorate f items with
  | Some d => Some (map snd (isort (fst_lt py_lt) d))
  | None => None
  end.

(* ---------- ndarray.argsort on float64 / int64 data: IEEE order, NaN last.  NumPy's default sort is not
   stable; the model takes the stable answer and the correspondence compares modulo ties. *)
Definition val_is_nan (v : val) : bool := match v with VFlt FNan => true | _ => false end.
Definition np_lt (a b : val) : bool :=
  match val_num a, val_num b with
  | Some x, Some y => if val_is_nan b then negb (val_is_nan a) else num_ltb x y
  | _, _ => false
  end.

(* ---------- columns and tables as the implementation lays them out: every column has its own row ids *)
Record mcol := { ckind : kind; crowid : list N; cseq : list val }.
Record mdm := { drowid : list N; dcols : list (string * mcol) }.

(* BaseColumn._sortedrowid:    s = sorted(zip(self._seq, self._rowid), key=lambda x: sortable(x[0]))
                               return Index([rowid for val, rowid in s])
   NumericColumn._sortedrowid: return Index(self._rowid[self._seq.argsort()])
   (generic in what is zipped with the cells: row ids for the implementation, positions for the theorems) *)
Definition sorted_tags {B} (k : kind) (cells : list val) (tags : list B) : option (list B) :=
  match k with
  | KMixed =>
      match py_sorted (fun x : val * B => sortable (fst x)) (combine cells tags) with
      | Some s => Some (map snd s)
      | None => None
      end
  | _ => Some (map snd (isort (fst_lt np_lt) (combine cells tags)))
  end.
Definition sortedrowid (c : mcol) : option (list N) := sorted_tags (ckind c) (cseq c) (crowid c).
Definition sort_positions (k : kind) (cells : list val) : option (list nat) :=
  sorted_tags k cells (seq 0 (List.length cells)).

(* column._getrowidkey(key): [self._seq[self._rowid.index(r)] for r in key]  (the numeric variant finds the
   same cells through argsort + searchsorted whenever every id of key is present) *)
Definition cell_by_id (c : mcol) (r : N) : option val :=
  match pos_of r (crowid c) with Some p => nth_error (cseq c) p | None => None end.
Definition getrowidkey (c : mcol) (key : list N) : option mcol :=
  match all_some (map (cell_by_id c) key) with
  | Some s => Some {| ckind := ckind c; crowid := key; cseq := s |}
  | None => None
  end.
(* DataMatrix._selectrowid *)
Definition selectrowid (d : mdm) (key : list N) : option mdm :=
  match all_some (map (fun nc : string * mcol =>
                         match getrowidkey (snd nc) key with Some c => Some (fst nc, c) | None => None end) (dcols d)) with
  | Some cs => Some {| drowid := key; dcols := cs |}
  | None => None
  end.

(* operations.sort(dm, by=col) *)
Definition sort_dm (d : mdm) (by_ : mcol) : option mdm :=
  match sortedrowid by_ with Some sr => selectrowid d sr | None => None end.
(* operations.sort(col, by=other)  (by=None: by = obj):
     col = obj._getrowidkey(by._sortedrowid()); col._rowid = obj._rowid *)
Definition sort_col (obj by_ : mcol) : option mcol :=
  match sortedrowid by_ with
  | Some sr =>
      match getrowidkey obj sr with
      | Some c => Some {| ckind := ckind c; crowid := crowid obj; cseq := cseq c |}
      | None => None
      end
  | None => None
  end.

(* ---------- bin_split.  dm[start:end] on a list of rows, with Python's clamping *)
Definition pslice {A} (l : list A) (a b : Z) : list A :=
  let lo := clamp (List.length l) (Some a) 0 in
  let hi := clamp (List.length l) (Some b) 0 in
  firstn (Z.to_nat (hi - lo)) (skipn (Z.to_nat lo) l).
(* for i in range(bins): end = <k_bin_end>; yield dm[start:end]; start = end *)
Fixpoint bin_loop {A} (rows : list A) (bins : Z) (i : nat) (todo : nat) (start : Z) : list (list A) :=
  match todo with
  | O => []
  | S n =>
      let e := k_bin_end (Z.of_nat (List.length rows)) (Z.of_nat i) bins in
      pslice rows start e :: bin_loop rows bins (S i) n e
  end.
(* rows: the rows of sort(col._datamatrix, by=col); len(col) = len(dm) = the number of rows *)
Definition bin_split {A} (rows : list A) (bins : Z) : res (list (list A)) :=
  if k_bin_guard (Z.of_nat (List.length rows)) bins then Raise ValueError
  else Ok (bin_loop rows bins 0 (Z.to_nat bins) k_bin_start).
