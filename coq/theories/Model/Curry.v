(* L1 model of datamatrix.functional.curry -- executable, no proofs here.
   A curried object is the underlying function's arity together with the
   chain of functools.partial applications made so far.  The arithmetic and
   the call test are the generated kernels of Gen/KCurry.v. *)
From Coq Require Import ZArith List Bool.
From DM Require Import Gen.KCurry.
Import ListNotations.
Open Scope Z_scope.

Section Curry.
  Variables (A R : Type).
  Variable f : list A -> R.          (* the wrapped function applied to its full positional argument list *)

  Record curried := { arity : Z; chain : list (list A) }.   (* chain: oldest partial first *)

  Inductive result := Val (r : R) | Fn (c : curried) | NotCallable.

  Definition lenZ {X} (l : list X) : Z := Z.of_nat (length l).

  (* _count_unbound_arguments: walk the partial chain *)
  Definition unbound (c : curried) : Z :=
    k_unbound (arity c) (fold_left (fun nb link => k_nbound_step nb (lenZ link)) (chain c) 0).

  (* curry.inner, called with an argument tuple *)
  Definition call (c : curried) (args : list A) : result :=
    if k_call_now (unbound c) (lenZ args)
    then Val (f (concat (chain c) ++ args))
    else Fn {| arity := arity c; chain := chain c ++ [args] |}.

  Definition curry (n : nat) : curried := {| arity := Z.of_nat n; chain := [] |}.

  (* apply a curried object to successive argument chunks *)
  Fixpoint run (c : curried) (chunks : list (list A)) : result :=
    match chunks with
    | [] => Fn c
    | ch :: rest =>
        match call c ch with
        | Fn c' => run c' rest
        | Val r => match rest with [] => Val r | _ => NotCallable end
        | NotCallable => NotCallable
        end
    end.
End Curry.

Arguments Val {A R}. Arguments Fn {A R}. Arguments NotCallable {A R}.
Arguments arity {A}. Arguments chain {A}.
