(* L1: column comparison as the implementation performs it.
   compare  = BaseColumn.__eq__ ... __ge__ / IntColumn.__eq__, __ne__ -> _compare -> _compare_* helpers,
              composed from the kernels regenerated from the source (Gen/KSelect.v, Gen/KCheck.v);
   l_select = DataMatrix._selectrowid applied to the row ids the helper collected
              (every column is re-read by row id, as _getrowidkey does).
   No proofs here. *)
From Coq Require Import ZArith NArith List Bool String.
From DM Require Import Base.PyVal Spec.Nf Spec.Table Spec.Select Gen.KCheck Model.SelectRef Gen.KSelect.
Import ListNotations.
Open Scope Z_scope.

(* column._checktype *)
Definition checktype_of (k : kind) : pyv -> res pyv :=
  match k with
  | KMixed => k_base_checktype
  | KFloat => k_numeric_checktype (PFloat nan)
  | KInt => k_int_checktype
  end.

(* column._tosequence(other) for a list / tuple: all three classes end in BaseColumn._tosequence,
   which type-checks every element *)
Definition tosequence (k : kind) (n : nat) (vs : list pyv) : res (list pyv) :=
  base_tosequence (checktype_of k) n vs.

Definition plen (cells : list val) : pyv := PInt (Z.of_nat (List.length cells)).

(* BaseColumn._compare, with the helper overridden by NumericColumn where it is *)
Definition base_compare (k : kind) (cells : list val) (op : mop) (other : mref) : res (list nat) :=
  let n := List.length cells in
  bind (k_compare_dispatch (plen cells) other op) (fun b =>
  match b with
  | BNan => bind (k_compare_nan op) (fun test => keep_where k test 0 cells)
  | BType => bind (k_compare_type (r_type other) op) (fun test => keep_where k test 0 cells)
  | BSet => bind (k_compare_set (r_items other) op) (fun test => keep_where k test 0 cells)
  | BFun => bind (k_compare_function other op) (fun test => keep_where k test 0 cells)
  | BSeq =>
      match k with
      | KMixed => bind (tosequence k n (r_items other))
                       (fun refs => keep_where2 k (k_compare_sequence_cell op) 0 cells refs)
      | _ => k_numeric_compare_sequence k (tosequence k n) cells (r_items other) op
      end
  | BVal =>
      match k with
      | KMixed => keep_where k (fun val => k_compare_value_cell op val (r_val other)) 0 cells
      | _ => k_numeric_compare_value k (checktype_of k) cells (r_val other) op
      end
  end).

(* column OP other: the positions of the selected rows *)
Definition compare (k : kind) (cells : list val) (op : cmpop) (other : mref) : res (list nat) :=
  let all := seq 0 (List.length cells) in
  let self_compare_value := fun v o => k_numeric_compare_value k (checktype_of k) cells v o in
  match k, op with
  | KInt, CEq => k_int_eq all [] (k_issequence (plen cells)) (base_compare k cells) self_compare_value other
  | KInt, CNe => k_int_ne all [] (k_issequence (plen cells)) (base_compare k cells) self_compare_value other
  | _, _ => base_compare k cells (OpCmp op) other
  end.

(* ---------- DataMatrix._selectrowid: a new table holding the rows with the given ids,
   every column re-read by id (BaseColumn / NumericColumn._getrowidkey) *)
Definition getrowidkey (rowid : list N) (cells : list val) (key : list N) : option (list val) :=
  all_some (map (fun r => match pos_of r rowid with Some p => nth_error cells p | None => None end) key).

Definition selectrowid (t : table) (key : list N) : option table :=
  derive t (fun s => match getrowidkey (ids t) (scells s) key with
                     | Some cs => Some {| skind := skind s; scells := cs |}
                     | None => None end) key.

Definition l_select (t : table) (c : string) (op : cmpop) (other : mref) : res (option table) :=
  match slot_of t c with
  | None => Raise AttributeError
  | Some s =>
      bind (compare (skind s) (scells s) op other) (fun ps =>
      match take_pos ps (ids t) with
      | Some key => Ok (selectrowid t key)
      | None => Ok None
      end)
  end.

(* ---------- injection of an L0 reference into the objects the implementation receives *)
Definition inj_ref (r : ref) : mref :=
  match r with
  | RScalar v => MVal (pyv_of_val v)
  | RSeq vs => MSeq (map pyv_of_val vs)
  | RSet vs => MSet (map pyv_of_val vs)
  | RPred f => MFun 1 (fun o => match val_of_pyv (match o with
                                                     | PNpFloat _ x => PFloat x
                                                     | PNpInt z => PInt z
                                                     | x => x end) with
                                 | Some c => Ok (f c)
                                 | None => Raise TypeError end)
  | RType t => MType t
  end.

(* ---------- boolean premises of the refinement theorems (Props/C02.v), evaluated on every generated case too *)
(* cells of a column are normal forms of its type *)
Definition cell_of (k : kind) (c : val) : bool :=
  match k, c with
  | KMixed, _ => true
  | KFloat, VFlt _ => true
  | KInt, VInt _ => true
  | _, _ => false
  end.
(* the floats of a reference are binary64 values (odd mantissa below 2^53) *)
Definition val_wf (v : val) : bool := match v with VFlt f => fl_wf f | _ => true end.
Definition ref_wf (r : ref) : bool :=
  match r with RScalar v => val_wf v | RSeq vs | RSet vs => forallb val_wf vs | _ => true end.
