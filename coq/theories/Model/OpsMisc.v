(* L1 for property C15: executable models that follow datamatrix/operations.py
   statement by statement (weight, _fullfact, fullfactorial, replace,
   keep_only / dm[name, ...], z).  Index arithmetic, guards and repeat counts
   are the generated kernels of Gen/KOpsMisc.v; cell stores of a MixedColumn
   go through the generated type-checking chain (Model/Store.v).
   No proofs here. *)
From Coq Require Import ZArith QArith List Bool String.
From DM Require Import Base.PyVal Spec.Nf Spec.OpsMisc Gen.KOpsMisc Model.Store.
Import ListNotations.
Open Scope Z_scope.

(* ---------- sequences addressed by Python ints *)
Fixpoint upd {A} (i : nat) (x : A) (l : list A) : list A :=
  match l, i with
  | [], _ => []
  | _ :: r, O => x :: r
  | a :: r, S j => a :: upd j x r
  end.
Definition zset {A} (i : Z) (x : A) (l : list A) : list A := if i <? 0 then l else upd (Z.to_nat i) x l.
Definition znth {A} (i : Z) (l : list A) (d : A) : A := if i <? 0 then d else nth (Z.to_nat i) l d.
Definition zlen {A} (l : list A) : Z := Z.of_nat (List.length l).

(* ---------------------------------------------------------------- weight *)
Definition is_int_cell (v : val) : bool := match v with VInt _ => true | _ => false end.
Definition int_of_cell (v : val) : Z := match v with VInt z => z | _ => 0 end.

(* for weight in col: if <guard>: raise TypeError *)
Fixpoint weight_validate (ws : list val) : res unit :=
  match ws with
  | [] => Ok tt
  | w :: r => if k_weight_bad (is_int_cell w) (int_of_cell w) then Raise TypeError else weight_validate r
  end.
(* int(col.sum): col.sum is NAN when the column has no numeric cell, and int(NAN) raises ValueError.
   After validation every cell is an int, so this only happens for a column without cells. *)
Definition weight_total (ws : list val) : res Z :=
  match ws with
  | [] => Raise ValueError
  | _ => Ok (fold_right (fun w a => int_of_cell w + a) 0 ws)
  end.
(* for c in range(weight): dm2[colname][i2] = dm1[colname][i1]; i2 += 1      (one column) *)
Fixpoint copy_reps (n : nat) (src : list val) (i1 : Z) (st : list val * Z) : list val * Z :=
  match n with
  | O => st
  | S n' =>
      let '(dst, i2) := st in
      copy_reps n' src i1 (zset (k_weight_dst i1 i2) (znth (k_weight_src i1 i2) src VNone) dst, k_weight_next i2)
  end.
(* for i1, weight in enumerate(col): ... *)
Fixpoint copy_rows (ws : list val) (i1 : Z) (src : list val) (st : list val * Z) : list val * Z :=
  match ws with
  | [] => st
  | w :: r => copy_rows r (i1 + 1) src (copy_reps (Z.to_nat (k_weight_reps (int_of_cell w))) src i1 st)
  end.
(* the loops write every column independently; the model runs them column by column *)
Definition weight_col (ws : list val) (n : nat) (c : col) : col :=
  (cname c, ckind c, fst (copy_rows ws 0 (cells c) (repeat (default_cell (ckind c)) n, 0))).
Definition weight_model (t : tbl) (wcells : list val) : res tbl :=
  bind (weight_validate wcells) (fun _ =>
  bind (weight_total wcells) (fun total =>
  let n := Z.to_nat (k_weight_len total) in
  Ok {| tlen := n; tcols := map (weight_col wcells n) (tcols t) |})).

(* ---------------------------------------------------------------- _fullfact *)
Definition zprod (l : list Z) : Z := fold_right Z.mul 1 l.
Definition zrange (n : Z) : list Z := map Z.of_nat (seq 0 (Z.to_nat n)).
(* the columns H[:, i], i = 0 .. n-1, built by the loop over the factors *)
Fixpoint ff_cols (levels : list Z) (level_repeat range_repeat : Z) : list (list Z) :=
  match levels with
  | [] => []
  | level :: rest =>
      let range_repeat' := k_ff_range_step range_repeat level in
      let lvl := flat_map (fun j => repeat (k_ff_lvl_elem j) (Z.to_nat (k_ff_lvl_times level_repeat)))
                          (zrange (k_ff_lvl_count level)) in
      let rng := List.concat (repeat lvl (Z.to_nat (k_ff_rng_times range_repeat'))) in
      rng :: ff_cols rest (k_ff_level_step level_repeat level) range_repeat'
  end.
(* H as a list of rows (nb_lines = np.prod(levels) rows) *)
Definition fullfact (levels : list Z) : list (list Z) :=
  let nb := zprod levels in
  let cols := ff_cols levels (k_ff_level_repeat_init nb) (k_ff_range_repeat_init nb) in
  map (fun i => map (fun c => nth i c 0) cols) (seq 0 (Z.to_nat nb)).

(* ---------------------------------------------------------------- fullfactorial *)
Definition kept (ig : val) (cs : list val) : list val := filter (fun c => negb (ignored ig c)) cs.
(* dm[colname][:len(col)] = col ; dm[colname][len(col):] = ignore *)
Definition pack (ig : val) (cs : list val) : list val :=
  kept ig cs ++ repeat ig (List.length cs - List.length (kept ig cs)).
(* for i in range(n): dst[DST i] = v i *)
Definition fill_loop (n : nat) (dsti : nat -> Z) (v : nat -> val) (dst : list val) : list val :=
  fold_left (fun d i => zset (dsti i) (v i) d) (seq 0 n) dst.
Definition all_mixed (t : tbl) : bool :=
  forallb (fun c => match ckind c with KMixed => true | _ => false end) (tcols t).
Definition fullfactorial_model (ig : val) (t : tbl) : res tbl :=
  match tcols t with
  | [] => Ok {| tlen := 0; tcols := [] |}
  | _ =>
      if negb (all_mixed t) then Raise TypeError else
      let packed := map (fun c => pack ig (cells c)) (tcols t) in
      let design := map (fun cs => zlen (kept ig cs)) packed in
      let a := fullfact design in
      let n := List.length a in
      Ok {| tlen := n;
            tcols := map (fun '(rownr, c) =>
                            let pc := pack ig (cells c) in
                            (cname c, KMixed,
                             fill_loop n (fun i => k_ffl_dst (Z.of_nat i) (nth rownr (nth i a []) 0))
                                       (fun i => znth (k_ffl_src (Z.of_nat i) (nth rownr (nth i a []) 0)) pc VNone)
                                       (repeat (VStr EmptyString) n)))
                         (combine (seq 0 (List.length (tcols t))) (tcols t)) |}
  end.

(* ---------------------------------------------------------------- replace *)
Definition is_number (v : pyv) : bool := match pyv_num v with Some _ => true | None => false end.
(* numpy:  int64/float64 array[index array] = new   (new is converted whether or not the index array is empty) *)
Definition np_store (kd : kind) (v : pyv) : res val :=
  match kd with
  | KFloat =>
      match v with
      | PInt z | PNpInt z => Ok (VFlt (round53 z))
      | PBool b => Ok (VFlt (if b then FFin false 1 0 else FZero false))
      | PFloat f | PNpFloat _ f => Ok (VFlt f)
      | PNone => Ok (VFlt nan)
      | PStr _ _ (Some f) => Ok (VFlt f)
      | _ => Raise ValueError
      end
  | _ =>
      match v with
      | PInt z | PNpInt z => Ok (VInt z)
      | PBool b => Ok (VInt (if b then 1 else 0))
      | PFloat f | PNpFloat _ f =>
          match f with FNan => Raise ValueError | FInf _ => Raise OverflowError | _ => Ok (VInt (fl_trunc f)) end
      | PStr _ (Some z) _ => Ok (VInt z)
      | PStr _ None _ => Raise ValueError
      | _ => Raise TypeError
      end
  end.
(* MixedColumn: for i, val in enumerate(col): if old == val: col[i] = new *)
Definition pass_mixed (old new : pyv) (cs : list val) : res (list val) :=
  map_res (fun c => if k_replace_hit old (pyv_of_val c) then store_cell KMixed new else Ok c) cs.
(* numeric: if isinstance(old, float) and old != old: b = isnan(seq) else: b = seq == old ; seq[where(b)] = new.
   A key that is no number is compared like any other (nothing equals it): no exception. *)
Definition pass_numeric (kd : kind) (old new : pyv) (cs : list val) : res (list val) :=
  bind (np_store kd new) (fun x =>
    Ok (map (fun c => if k_replace_mask (k_replace_nan_key (is_float old) (pyv_is_nan old))
                                        (is_nan_val c) (py_eq old (pyv_of_val c)) then x else c) cs)).
Definition pass (kd : kind) (old new : pyv) (cs : list val) : res (list val) :=
  match kd with KMixed => pass_mixed old new cs | _ => pass_numeric kd old new cs end.
Fixpoint replace_model (kd : kind) (m : list (pyv * pyv)) (cs : list val) : res (list val) :=
  match m with
  | [] => Ok cs
  | (old, new) :: r => bind (pass kd old new cs) (replace_model kd r)
  end.

(* ---------------------------------------------------------------- keep_only, dm[name, ...] *)
(* an argument: a str, a column object (with the names it has in its own DataMatrix), anything else *)
Inductive karg := AName (s : string) | AObj (names : list string) | AOther.
Inductive cn := CNone | CStr (s : string) | CList (l : list string).
(* _colname, with BaseColumn.name *)
Definition colname (a : karg) : res cn :=
  match a with
  | AName s => Ok (CStr s)
  | AObj [] => Ok CNone
  | AObj (n :: r) => Ok (if k_name_single (zlen (n :: r)) then CStr n else CList (n :: r))
  | AOther => Raise ValueError
  end.
Definition is_clist (c : cn) : bool := match c with CList _ => true | _ => false end.
Fixpoint mem_cn (n : string) (l : list cn) : bool :=
  match l with
  | [] => false
  | CStr m :: r => String.eqb n m || mem_cn n r
  | _ :: r => mem_cn n r
  end.
(* wrapped: the call was keep_only(dm, [a, b, ...]) with one list argument.
   The skeleton is shared by the two argument representations: cnf is _colname, other an object that is no column *)
Definition keep_gen {A} (cnf : A -> res cn) (other : A) (t : tbl) (wrapped : bool) (args : list A) : res tbl :=
  let args' := if wrapped then (if k_keep_unwrap 1 true then args else [other])
               else (if k_keep_unwrap (zlen args) false then [] else args) in
  bind (map_res cnf args') (fun colnames =>
  if existsb is_clist colnames then Raise TypeError else
  Ok {| tlen := tlen t;
        tcols := filter (fun c => negb (k_keep_delete (mem_cn (cname c) colnames))) (tcols t) |}).
Definition keep_model (t : tbl) (wrapped : bool) (args : list karg) : res tbl := keep_gen colname AOther t wrapped args.

(* The same with column OBJECTS resolved inside the model (Spec.oarg): BaseColumn.name walks the columns of the
   object's own DataMatrix and keeps the names held by this very object; _colname dispatches on str / column. *)
Definition names_of (self : nat) (owner : list (string * nat)) : list string :=
  map fst (filter (fun nc => k_name_keep (Nat.eqb (snd nc) self)) owner).
Definition name_prop (self : nat) (owner : list (string * nat)) : cn :=
  let l := names_of self owner in
  if k_name_none (zlen l) then CNone
  else if k_name_single (zlen l) then CStr (hd EmptyString l) else CList l.
Definition colname_obj (a : oarg) : res cn :=
  k_colname (match a with OStr _ => true | _ => false end)
            (match a with OColumn _ _ => true | _ => false end)
            (match a with OStr s => CStr s | _ => CNone end)
            (match a with OColumn self owner => name_prop self owner | _ => CNone end).
Definition keep_model_obj (t : tbl) (wrapped : bool) (args : list oarg) : res tbl := keep_gen colname_obj OOther t wrapped args.

(* ---------------------------------------------------------------- z *)
(* over the numeric cells xs, with s standing for col.std (the square root is not computed here) *)
Definition z_mean (xs : list Q) : Q := k_mean (qsum xs) (zlen xs).
Definition z_var (xs : list Q) : Q := k_var (qsum (map (fun x => k_sqdev x (z_mean xs)) xs)) (zlen xs).
Definition z_model (xs : list Q) (s : Q) : list Q := map (fun x => k_z_cell x (z_mean xs) s) xs.
