(* C20: the history theorems of Proofs/MemoFacts.v instantiated with the modelled key derivation
   (Model/MemoKey.v): arguments = argument lists of the alphabet (call_okb), key = md5 of the hashed text,
   body = any function of the argument list that does not tell equivalent argument lists apart. *)
From Coq Require Import ZArith NArith List Bool String Ascii Lia.
From DM Require Import Base.PyVal Gen.KMemo Spec.Memo Model.Memo Proofs.MemoFacts
                       Spec.MemoKey Model.MemoKey Proofs.MemoKeyFacts.
Import ListNotations.
Open Scope Z_scope.

Section Keyed.
  Variables V F K : Type.
  Variable float_repr : fl -> text.
  Hypothesis float_repr_inj : forall f g,
    float_okb f = true -> float_okb g = true -> float_repr f = float_repr g -> f = g.
  Hypothesis float_repr_shape : forall f, float_okb f = true -> float_textb (float_repr f) = true.
  Variable md5 : text -> K.
  Hypothesis md5_injective : forall a b, md5 a = md5 b -> a = b.
  Variable name : string.                         (* fnc.__name__ *)
  Variable body : call -> V.
  (* "tuples and lists of equal content count as the same argument", keyword order is not an argument *)
  Hypothesis body_respects : forall c c', call_eqvb c c' = true -> body c = body c'.
  Variable nthunks : call -> nat.
  Variable size : V -> Z.
  Variables (keqb : K -> K -> bool) (feqb : F -> F -> bool).
  Hypothesis keqb_spec : forall a b, keqb a b = true <-> a = b.
  Hypothesis feqb_spec : forall a b, feqb a b = true <-> a = b.

  (* argument lists of the alphabet *)
  Definition okcall : Type := { c : call | call_okb name c = true }.
  Definition kf (a : okcall) : V := body (proj1_sig a).
  Definition kkey (a : okcall) : K := memkey_md5 float_repr md5 name (proj1_sig a).
  Definition kthunks (a : okcall) : nat := nthunks (proj1_sig a).

  Lemma kkey_sep : forall a b, kkey a = kkey b -> kf a = kf b.
  Proof.
    intros [c Hc] [c' Hc'] E. unfold kkey, kf in *. simpl in *.
    apply body_respects.
    apply (key_injective float_repr float_repr_inj float_repr_shape K md5 md5_injective name name c c' Hc Hc' E).
  Qed.
  Lemma kkey_eqv : forall a b, keqb (kkey a) (kkey b) = call_eqvb (proj1_sig a) (proj1_sig b).
  Proof.
    intros [c Hc] [c' Hc']. unfold kkey. simpl. apply Bool.eq_true_iff_eq. rewrite keqb_spec. split.
    - intros E. apply (key_injective float_repr float_repr_inj float_repr_shape K md5 md5_injective name name c c' Hc Hc' E).
    - intros E. apply (key_complete float_repr K md5 name c c' Hc Hc' E).
  Qed.

  Lemma keyed_transparent : forall ops : list (op okcall K F),
    Forall (fun p => match p with ONew o => opts_ok okcall K F kkey o | _ => True end) ops ->
    tr_ok okcall K V F (EV_tr okcall K V F kf) [] (snd (wrun okcall K V F kf kkey kthunks size keqb feqb w0 ops)).
  Proof.
    exact (memo_transparent_w0 okcall K V F kf kkey kthunks size keqb feqb keqb_spec feqb_spec kkey_sep).
  Qed.

  (* executions of the body on argument lists equivalent to c0 *)
  Definition ran_eqv (c0 : okcall) (p : okcall * event K V) : bool :=
    e_ran (snd p) && call_eqvb (proj1_sig (fst p)) (proj1_sig c0).
  Definition runs_eqv (c0 : okcall) (evs : list (okcall * event K V)) : nat :=
    List.length (filter (ran_eqv c0) evs).

  Lemma runs_eqv_runs : forall o c0 evs, xkey o = None ->
    runs_eqv c0 evs = runs okcall K V F kkey keqb o (kkey c0) evs.
  Proof.
    intros o c0 evs X. unfold runs_eqv, runs. f_equal. apply filter_ext. intros [a ev].
    unfold ran_eqv, ran_key, Spec.Memo.key. rewrite X. simpl. rewrite kkey_eqv. reflexivity.
  Qed.

  Lemma keyed_at_most_once : forall (o : opts K F) (st : inst K V) (d : list (F * K * V)) (ops : list (iop okcall)) (c0 : okcall),
    xkey o = None ->
    clear_free okcall ops -> evict_free okcall K V F kf kkey kthunks size keqb feqb o st d ops ->
    (runs_eqv c0 (fst (fst (irun okcall K V F kf kkey kthunks size keqb feqb o st d ops))) <= 1)%nat.
  Proof.
    intros o st d ops c0 X Hc He. rewrite (runs_eqv_runs o c0 _ X).
    exact (memo_at_most_once okcall K V F kf kkey kthunks size keqb feqb keqb_spec feqb_spec o st d ops (kkey c0) Hc He).
  Qed.
End Keyed.
