(* C02 proofs, part 4: the whole L1 operation (Model.Select.l_select: compare, then DataMatrix._selectrowid
   re-reading every column BY ROW ID as _getrowidkey does) is the L0 operation (Spec.Select.select: take the
   selected POSITIONS from the row ids and from every column) -- on tables whose row ids are duplicate-free.
   The NoDup premise is what a resize that hands out an id twice destroys. *)
From Coq Require Import ZArith NArith List Bool String Lia.
From DM Require Import Base.PyVal Spec.Nf Spec.Table Spec.Select Gen.KCheck Model.SelectRef Gen.KSelect Model.Select.
From DM Require Import Proofs.SelectFacts Proofs.SelectRefine.
Import ListNotations.

Lemma pos_of_nth_nodup l : NoDup l -> forall p x, nth_error l p = Some x -> pos_of x l = Some p.
Proof.
  induction l as [|y l IH]; intros Hnd p x Hn; [destruct p; discriminate|].
  inversion Hnd as [|? ? Hnotin Hnd']; subst. destruct p as [|q]; cbn [nth_error pos_of] in *.
  - injection Hn as ->. rewrite N.eqb_refl. reflexivity.
  - assert (Hne : N.eqb x y = false).
    { apply N.eqb_neq. intros ->. apply Hnotin. eapply nth_error_In. exact Hn. }
    rewrite Hne, (IH Hnd' q x Hn). reflexivity.
Qed.

(* looking the selected row ids up again finds the selected positions *)
Lemma getrowidkey_pick rowid (cells : list val) ps :
  NoDup rowid -> (forall p, In p ps -> (p < List.length rowid)%nat) ->
  getrowidkey rowid cells (pick ps rowid) = take_pos ps cells.
Proof.
  intros Hnd. unfold getrowidkey, take_pos. induction ps as [|p ps IH]; intros Hlt; [reflexivity|].
  assert (Hp : (p < List.length rowid)%nat) by (apply Hlt; left; reflexivity).
  rewrite pick_cons. destruct (nth_error rowid p) as [x|] eqn:E; [|apply nth_error_None in E; lia].
  cbn [app map all_some]. rewrite (pos_of_nth_nodup rowid Hnd p x E).
  rewrite IH by (intros q Hq; apply Hlt; right; exact Hq). reflexivity.
Qed.

Lemma mem_N_In x l : mem_N x l = true <-> In x l.
Proof.
  induction l as [|y l IH]; cbn [mem_N In]; [split; [discriminate|tauto]|].
  rewrite orb_true_iff, IH, N.eqb_eq. split; intros [H|H]; auto.
Qed.
Lemma nodup_N_NoDup l : nodup_N l = true -> NoDup l.
Proof.
  induction l as [|x l IH]; cbn [nodup_N]; intros H; [constructor|].
  apply andb_prop in H as [H1 H2]. constructor; [|apply IH; exact H2].
  intros Hin. apply mem_N_In in Hin. rewrite Hin in H1. discriminate H1.
Qed.

Theorem l_select_refines_nodup t c op r s :
  wf_table t = true -> NoDup (ids t) -> slot_of t c = Some s ->
  forallb (cell_of (skind s)) (scells s) = true -> ref_wf r = true -> in_domain (skind s) op r (scells s) = true ->
  l_select t c op (inj_ref r) = Ok (select t c op r).
Proof.
  intros Hwf Hnd Hs Hc Hw Hd. unfold l_select, select. rewrite Hs.
  rewrite (compare_refines (skind s) (scells s) op r Hc Hw Hd). cbn [bind].
  set (ps := sel_positions op r (scells s)).
  assert (Hps : forall p, In p ps -> (p < List.length (ids t))%nat).
  { intros p Hp. apply positions_sat_lt in Hp. rewrite (slot_len t c s Hwf Hs) in Hp. unfold nrows in Hp. lia. }
  unfold take. rewrite (take_pos_pick ps (ids t) Hps). f_equal.
  unfold selectrowid, derive.
  erewrite map_ext; [reflexivity|].
  intros [n i]. destruct (nth_error (slots t) i) as [s'|]; [|reflexivity].
  rewrite (getrowidkey_pick (ids t) (scells s') ps Hnd Hps). reflexivity.
Qed.

(* the same with the boolean test that the harness evaluates on dumped tables *)
Theorem l_select_refines t c op r s :
  wf_table t = true -> nodup_N (ids t) = true -> slot_of t c = Some s ->
  forallb (cell_of (skind s)) (scells s) = true -> ref_wf r = true -> in_domain (skind s) op r (scells s) = true ->
  l_select t c op (inj_ref r) = Ok (select t c op r).
Proof. intros Hwf Hnd. apply l_select_refines_nodup; [exact Hwf|apply nodup_N_NoDup; exact Hnd]. Qed.
