(* L1 refines L0 along whole histories over the FULL alphabet.
   One step: lstep_all (Proofs/CoreInv.v: lstep + ONew through lnew, OConcat through concat_l, OSetCol on a missing
   name through create_default) is sound for Spec.Ops.step on every pool that satisfies the representation invariant
   -- assembled from the per-operation refinement theorems of CoreRefine / SetColRefine / WriteRefine / ConcatRefine
   (lstep_all_sound_res), plus: an L1 error is never an L0 success (the id-based derivations succeed exactly when the
   positional ones do: slice_table_take, selectrowid_take, merge_tables_total) -- together lstep_all_sound.
   Histories: as long as every step stays inside the model and both sides produce a result of the same shape
   (sim_ok, executable), the L1 pool denotes (map abs) exactly the L0 pool, and the family counters agree
   (lrun_simulates_world, lrun_simulates, lrun_simulates_from_empty). *)
From Coq Require Import ZArith NArith List Bool String Lia.
From DM Require Import Base.PyVal Spec.Nf Spec.Table Spec.Ops Model.LTable Gen.KCore Model.Core.
From DM Require Import Proofs.ListX Proofs.TableFacts Proofs.MergeFacts Proofs.CoreRefine Proofs.SetColRefine
  Proofs.WriteRefine Proofs.ConcatRefine Proofs.CoreInv.
Import ListNotations.
Open Scope nat_scope.

(* ---------- L0: an operation that raises leaves the world as it was, except the three assignments that raise
   after a partial effect (dm[name] = value creates a missing column before the coercion fails; col[[i, j, ...]] = v
   stops at the first out-of-range index; dm[i].name = v creates a missing column before the coercion fails) ---------- *)
Ltac split_scrutinee H :=
  match type of H with context [match ?x with _ => _ end] => destruct x end.

Lemma step_err_unchanged (w : world) o e :
  match o with OSetCol _ _ _ | OSetCell _ _ _ _ => False | _ => True end ->
  snd (step w o) = Err e -> fst (step w o) = w.
Proof.
  intros Hno H. destruct o; try contradiction; cbn [step] in *; unfold push_opt in *.
  all: repeat (first [discriminate H | reflexivity | split_scrutinee H]; cbn [fst snd] in * ).
Qed.

(* ---------- glue: pools ---------- *)
Lemma pool_put_abs (w : world) p i r : pool w = map abs p -> pool (put w i (abs r)) = map abs (set_nth i r p).
Proof. intros Hp. unfold put. cbn [pool]. rewrite Hp, map_set_nth. reflexivity. Qed.

Lemma pool_push_abs (w : world) p r : pool w = map abs p -> pool (push w (abs r)) = map abs (p ++ [r]).
Proof. intros Hp. unfold push. cbn [pool]. rewrite Hp, map_app. reflexivity. Qed.

Lemma get_put_hit (w : world) i t t0 : get w i = Some t0 -> get (put w i t) i = Some t.
Proof.
  unfold get, put. cbn [pool]. intros H. apply set_nth_same. apply nth_error_Some. congruence.
Qed.

(* ---------- glue: the table DataMatrix(length=n) creates ---------- *)
Lemma abs_lnew nf n :
  abs (lnew nf n) = {| fam := nf; ids := iotaN 0 n; names := []; slots := []; tsorted := true; dflt := KMixed |}.
Proof. reflexivity. Qed.

(* ---------- glue: dm[name] = value on a missing name ---------- *)
Lemma abs_create_default t name : abs (create_default t name) = fresh_col (abs t) name (dflt (abs t)).
Proof. unfold create_default. apply abs_fresh_col. Qed.

Lemma has_name_fresh_col t name k : has_name t name = false -> has_name (fresh_col t name k) name = true.
Proof.
  intros H. unfold fresh_col, add_slot, bind_name. unfold has_name in *. cbn [names].
  destruct (lookup name (names t)) as [i|] eqn:El; [discriminate|].
  rewrite (lookup_app_new name (List.length (slots t)) (names t) El). reflexivity.
Qed.

(* L0: assigning to a missing name is assigning to the name after the default column was created *)
Lemma setcol_missing_step (w : world) ti t name r :
  get w ti = Some t -> has_name t name = false ->
  step w (OSetCol ti name r) = step (put w ti (fresh_col t name (dflt t))) (OSetCol ti name r).
Proof.
  intros Hg Hn. cbn [step]. rewrite Hg, (get_put_hit w ti _ t Hg), Hn, (has_name_fresh_col t name (dflt t) Hn).
  set (t1 := fresh_col t name (dflt t)).
  assert (El : lookup name (names t1) = Some (List.length (slots t))).
  { unfold t1, fresh_col, add_slot, bind_name, has_name in *. cbn [names].
    destruct (lookup name (names t)) as [i|] eqn:E; [discriminate|]. apply lookup_app_new. exact E. }
  assert (Es : nth_error (slots t1) (List.length (slots t))
               = Some {| skind := dflt t; scells := repeat (default_cell (dflt t)) (nrows t) |}).
  { unfold t1, fresh_col, add_slot, bind_name. cbn [slots]. apply nth_error_app_new. }
  rewrite El, Es.
  destruct (rhs_cells _ (nrows t1) r) as [xs|e]; rewrite put_put; reflexivity.
Qed.

Lemma lstep_setcol_target p ti name r :
  match lstep p (OSetCol ti name r) with
  | LUpd i _ | LErrUpd i _ => i = ti
  | _ => True
  end.
Proof.
  cbn [lstep]. destruct (nth_error p ti) as [t|]; [|exact I].
  destruct (lookup name (l_names t)) as [ci|]; [|exact I].
  destruct (nth_error (l_cols t) ci) as [c|]; [|exact I].
  destruct (rhs_cells_k (lc_kind c) (nrows_l t) r); reflexivity.
Qed.

(* ---------- col[[i, j, ...]] = value: when the L1 step raises without an effect, so does the L0 step ---------- *)
Lemma setcell_list_err_unchanged (w : world) p ti name l r :
  pool w = map abs p ->
  lstep p (OSetCell ti name (AList l) r) = LErr -> fst (step w (OSetCell ti name (AList l) r)) = w.
Proof.
  intros Hp. cbn [lstep]. destruct (nth_error p ti) as [t|] eqn:Et; [|discriminate].
  cbn [step]. rewrite (get_abs w p ti t Hp Et). unfold set_cells. change (names (abs t)) with (l_names t).
  destruct (lookup name (l_names t)) as [ci|] eqn:El; [|reflexivity].
  change (slots (abs t)) with (map slot_of_col (l_cols t)). rewrite nth_error_map.
  destruct (nth_error (l_cols t) ci) as [c|] eqn:Ec; cbn [option_map]; [|discriminate].
  cbn [address]. change (skind (slot_of_col c)) with (lc_kind c). rewrite rhs_cells_k_spec.
  destruct (rhs_cells (lc_kind c) (List.length l) r) as [xs|e]; [|reflexivity].
  destruct (write_list_k _ l xs (lc_cells c)) as [cells ok]. destruct ok; discriminate.
Qed.

(* ---------- which results an L1 step can have ---------- *)
Ltac lstep_never Hl :=
  exfalso; cbn [lstep] in Hl; repeat split_scrutinee Hl; discriminate Hl.

(* ---------- the L0 world after a step that appended a table: the two operations that create a family advance
   the family counter ---------- *)
Definition spec_push (w : world) (o : op) (t : table) : world :=
  match o with
  | ONew _ | OConcat _ _ => push {| pool := pool w; nextfam := S (nextfam w) |} t
  | _ => push w t
  end.

(* operations for which an L1 error IS an L0 error (the per-operation theorems say so).  For the others -- the
   derivations OSelect OMerge OSlice OGetRows OSort OShuffle OSample and the resizes OSetLength ODelRows -- an L1 error
   is an L0 error or OutOfModel, never a success (lstep_all_lerr_not_ok below) *)
Definition lerr_exact (o : op) : bool :=
  match o with
  | OSelect _ _ _ _ | OMerge _ _ _ | OSlice _ _ _ | OGetRows _ _ | OSort _ _ _ | OShuffle _ _ | OSample _ _ _
  | OSetLength _ _ | ODelRows _ _ => false
  | _ => true
  end.

Definition sound_res (w : world) (o : op) (x : lres) : Prop :=
  match x with
  | LNew r => snd (step w o) = OkNew -> fst (step w o) = spec_push w o (abs r)
  | LUpd i r => snd (step w o) = OkUnit -> fst (step w o) = put w i (abs r)
  | LErrUpd i r => (exists e, snd (step w o) = Err e) /\ fst (step w o) = put w i (abs r)
  | LErr => (forall e, snd (step w o) = Err e -> fst (step w o) = w)
            /\ (lerr_exact o = true -> exists e, snd (step w o) = Err e)
  | LSkip => True
  end.

Ltac lerr_frame w :=
  split; [intros e0 He0;
          match type of He0 with snd (step _ ?o) = _ => exact (step_err_unchanged w o e0 I He0) end
         | cbn [lerr_exact]; discriminate].

(* ---------- one step of the complete L1 model is sound for the L0 step ---------- *)
Theorem lstep_all_sound_res (w : world) p o :
  pool w = map abs p -> winv p -> sound_res w o (lstep_all p (nextfam w) o).
Proof.
  intros Hp Hw. destruct o.
  - (* ONew *)
    cbn [lstep_all sound_res]. intros _. reflexivity.
  - (* OSetColKind *)
    cbn [lstep_all]. pose proof (setcolkind_refines w p t name k Hp) as H.
    destruct (lstep p (OSetColKind t name k)) as [r|i r| |i r|]; cbn [sound_res]; try contradiction; [|exact I].
    intros _. rewrite H. reflexivity.
  - (* OSetCol *)
    cbn [lstep_all]. destruct (nth_error p t) as [tb|] eqn:Et; [|exact I].
    destruct (lookup name (l_names tb)) as [ci|] eqn:El.
    + pose proof (setcol_existing_refines w p t name r Hp Hw) as H.
      destruct (lstep p (OSetCol t name r)) as [r'|i r'| |i r'|]; cbn [sound_res]; try contradiction; try exact I.
      * intros _. rewrite H. reflexivity.
      * destruct H as [e H]. rewrite H. split; [exists e; reflexivity|reflexivity].
    + set (t1 := create_default tb name). set (p' := set_nth t t1 p).
      assert (Hg : get w t = Some (abs tb)) by exact (get_abs w p t tb Hp Et).
      assert (Hn : has_name (abs tb) name = false) by (rewrite has_name_abs, El; reflexivity).
      assert (Hp' : pool (put w t (abs t1)) = map abs p') by exact (pool_put_abs w p t t1 Hp).
      assert (Hw' : winv p').
      { unfold winv, p'. apply Forall_set_nth; [|exact Hw]. apply fresh_col_inv. exact (winv_nth _ _ _ Hw Et). }
      assert (Hstep : step w (OSetCol t name r) = step (put w t (abs t1)) (OSetCol t name r)).
      { rewrite (setcol_missing_step w t (abs tb) name r Hg Hn). unfold t1. rewrite abs_create_default. reflexivity. }
      pose proof (setcol_existing_refines (put w t (abs t1)) p' t name r Hp' Hw') as H.
      pose proof (lstep_setcol_target p' t name r) as Hi.
      destruct (lstep p' (OSetCol t name r)) as [r'|i r'| |i r'|]; cbn [sound_res]; try contradiction; try exact I.
      * subst i. intros _. rewrite Hstep, H. cbn [fst]. apply put_put.
      * subst i. destruct H as [e H]. rewrite Hstep, H. split; [exists e; reflexivity|apply put_put].
  - (* OSetColFromCol *)
    cbn [lstep_all]. pose proof (setcolfromcol_refines w p t name t2 name2 Hp Hw) as H.
    destruct (lstep p (OSetColFromCol t name t2 name2)) as [r|i r| |i r|]; cbn [sound_res]; try contradiction; try exact I.
    + intros _. rewrite H. reflexivity.
    + destruct H as [e [H1 H2]]. split; [intros _ _; exact H2|intros _; exists e; exact H1].
  - (* OSetCell *)
    cbn [lstep_all]. destruct a as [z|x y|l|k|z].
    + (* col[i] = v *)
      destruct r as [v|vs]; [|exact I].
      pose proof (setcell_int_refines w p t name z v Hp Hw) as H.
      destruct (lstep p (OSetCell t name (AInt z) (RScalar v))) as [r|i r| |i r|]; cbn [sound_res];
        try contradiction; try exact I.
      * intros _. rewrite H. reflexivity.
      * destruct H as [e [H1 H2]]. split; [intros _ _; exact H2|intros _; exists e; exact H1].
    + (* col[a:b] = v *)
      pose proof (setcell_slice_refines w p t name x y r Hp Hw) as H.
      destruct (lstep p (OSetCell t name (ASlice x y) r)) as [r'|i r'| |i r'|]; cbn [sound_res];
        try contradiction; try exact I.
      * intros _. rewrite H. reflexivity.
      * destruct H as [e [H1 H2]]. split; [intros _ _; exact H2|intros _; exists e; exact H1].
    + (* col[[i, j, ...]] = v *)
      pose proof (setcell_list_refines w p t name l r Hp Hw) as H.
      pose proof (setcell_list_err_unchanged w p t name l r Hp) as Hu.
      destruct (lstep p (OSetCell t name (AList l) r)) as [r'|i r'| |i r'|]; cbn [sound_res];
        try contradiction; try exact I.
      * intros _. rewrite H. reflexivity.
      * destruct H as [e H1]. split; [intros _ _; exact (Hu eq_refl)|intros _; exists e; exact H1].
      * rewrite H. split; [exists PlainException; reflexivity|reflexivity].
    + (* col[selection] = v *)
      pose proof (setcell_sel_refines w p t name k r Hp Hw) as H.
      destruct (lstep p (OSetCell t name (ASel k) r)) as [r'|i r'| |i r'|]; cbn [sound_res];
        try contradiction; try exact I.
      * intros _. rewrite H. reflexivity.
      * destruct H as [e [H1 H2]]. split; [intros _ _; exact H2|intros _; exists e; exact H1].
    + (* dm[i].name = v *)
      destruct r as [v|vs]; [|exact I].
      pose proof (setcell_row_refines w p t name z v Hp Hw) as H.
      destruct (lstep p (OSetCell t name (ARow z) (RScalar v))) as [r|i r| |i r|]; cbn [sound_res];
        try contradiction; try exact I.
      * intros _. rewrite H. reflexivity.
      * rewrite H. split; [intros _ _; reflexivity|intros _; exists IndexError; reflexivity].
      * destruct H as [e H]. rewrite H. split; [exists e; reflexivity|reflexivity].
  - (* OSelect *)
    cbn [lstep_all]. destruct (lstep p (OSelect t name c ref)) as [r|i r| |i r|] eqn:Hl; cbn [sound_res].
    + intros Hs. exact (lstep_new_refines w p (OSelect t name c ref) r Hp Hw I Hl Hs).
    + lstep_never Hl.
    + lerr_frame w.
    + lstep_never Hl.
    + exact I.
  - (* OMerge *)
    cbn [lstep_all lstep].
    destruct (nth_error p t) as [a|] eqn:Ea; [|exact I]. destruct (nth_error p t2) as [b|] eqn:Eb; [|exact I].
    destruct (negb (Nat.eqb (l_fam a) (l_fam b))); [cbn [sound_res]; lerr_frame w|].
    match goal with |- context [if ?c then LSkip else _] => destruct c; [exact I|] end.
    destruct (merge_tables o a b) as [r|] eqn:Em; cbn [sound_res]; [|lerr_frame w].
    intros Hs. exact (merge_refines w o t t2 a b r (winv_nth _ _ _ Hw Ea) (winv_nth _ _ _ Hw Eb)
                                    (get_abs w p t a Hp Ea) (get_abs w p t2 b Hp Eb) Em Hs).
  - (* OSlice *)
    cbn [lstep_all]. destruct (lstep p (OSlice t a b)) as [r|i r| |i r|] eqn:Hl; cbn [sound_res].
    + intros Hs. exact (lstep_new_refines w p (OSlice t a b) r Hp Hw I Hl Hs).
    + lstep_never Hl.
    + lerr_frame w.
    + lstep_never Hl.
    + exact I.
  - (* OGetRows *)
    cbn [lstep_all]. destruct (lstep p (OGetRows t l)) as [r|i r| |i r|] eqn:Hl; cbn [sound_res].
    + intros Hs. exact (lstep_new_refines w p (OGetRows t l) r Hp Hw I Hl Hs).
    + lstep_never Hl.
    + lerr_frame w.
    + lstep_never Hl.
    + exact I.
  - (* OSort *)
    cbn [lstep_all]. destruct (lstep p (OSort t name perm)) as [r|i r| |i r|] eqn:Hl; cbn [sound_res].
    + intros Hs. exact (lstep_new_refines w p (OSort t name perm) r Hp Hw I Hl Hs).
    + lstep_never Hl.
    + lerr_frame w.
    + lstep_never Hl.
    + exact I.
  - (* OShuffle *)
    cbn [lstep_all]. destruct (lstep p (OShuffle t perm)) as [r|i r| |i r|] eqn:Hl; cbn [sound_res].
    + intros Hs. exact (lstep_new_refines w p (OShuffle t perm) r Hp Hw I Hl Hs).
    + lstep_never Hl.
    + lerr_frame w.
    + lstep_never Hl.
    + exact I.
  - (* OSample *)
    cbn [lstep_all]. destruct (lstep p (OSample t k choice)) as [r|i r| |i r|] eqn:Hl; cbn [sound_res].
    + intros Hs. exact (lstep_new_refines w p (OSample t k choice) r Hp Hw I Hl Hs).
    + lstep_never Hl.
    + lerr_frame w.
    + lstep_never Hl.
    + exact I.
  - (* OSetLength *)
    cbn [lstep_all]. destruct (lstep p (OSetLength t n)) as [r|i r| |i r|] eqn:Hl; cbn [sound_res].
    + lstep_never Hl.
    + intros Hs. exact (lstep_upd_refines w p (OSetLength t n) i r Hp Hw I Hl Hs).
    + lerr_frame w.
    + lstep_never Hl.
    + exact I.
  - (* ODelRows *)
    cbn [lstep_all]. destruct (lstep p (ODelRows t l)) as [r|i r| |i r|] eqn:Hl; cbn [sound_res].
    + lstep_never Hl.
    + intros Hs. exact (lstep_upd_refines w p (ODelRows t l) i r Hp Hw I Hl Hs).
    + lerr_frame w.
    + lstep_never Hl.
    + exact I.
  - (* ODelCol *)
    cbn [lstep_all]. pose proof (delcol_refines w p t name Hp) as H.
    destruct (lstep p (ODelCol t name)) as [r|i r| |i r|]; cbn [sound_res]; try contradiction; try exact I.
    + intros _. rewrite H. reflexivity.
    + rewrite H. split; [intros _ _; reflexivity|intros _; exists ValueError; reflexivity].
  - (* ORename *)
    cbn [lstep_all]. pose proof (rename_refines w p t old new new_is_identifier Hp) as H.
    destruct (lstep p (ORename t old new new_is_identifier)) as [r|i r| |i r|]; cbn [sound_res];
      try contradiction; try exact I.
    + intros _. rewrite H. reflexivity.
    + destruct H as [H1 H2]. split; [intros _ _; exact H2|intros _; exists ValueError; exact H1].
  - (* OConcat *)
    cbn [lstep_all]. destruct (nth_error p t) as [a|] eqn:Ea; [|exact I]. destruct (nth_error p t2) as [b|] eqn:Eb; [|exact I].
    pose proof (concat_refines a b (nextfam w) (winv_nth _ _ _ Hw Ea) (winv_nth _ _ _ Hw Eb)) as Hc.
    destruct (concat_l a b (nextfam w)) as [r|e]; cbn [sound_res step];
      rewrite (get_abs w p t a Hp Ea), (get_abs w p t2 b Hp Eb), Hc; cbn [fst snd spec_push lerr_exact].
    + intros _. reflexivity.
    + split; [intros _ _; reflexivity|intros _; exists e; reflexivity].
  - (* OSetSorted *)
    cbn [lstep_all]. pose proof (setsorted_refines w p t b Hp) as H.
    destruct (lstep p (OSetSorted t b)) as [r|i r| |i r|]; cbn [sound_res]; try contradiction; [|exact I].
    intros _. rewrite H. reflexivity.
  - (* OSetColFromSlice *)
    cbn [lstep_all]. pose proof (setcolfromslice_refines w p t name name2 l Hp Hw) as H.
    destruct (lstep p (OSetColFromSlice t name name2 l)) as [r|i r| |i r|]; cbn [sound_res]; try contradiction; try exact I.
    + intros _. rewrite H. reflexivity.
    + destruct H as [e [H1 H2]]. split; [intros _ _; exact H2|intros _; exists e; exact H1].
Qed.


(* ---------- the derivations as equations: the id-based algorithm succeeds exactly when the positional one does ---------- *)
Lemma slice_table_take t ps : inv_b t = true -> take ps (abs t) = option_map abs (slice_table t ps).
Proof.
  intros Hinv. destruct (inv_b_facts t Hinv) as (_ & _ & _ & Hcols & _).
  unfold slice_table, take. change (Table.ids (abs t)) with (ia (l_rowid t)).
  destruct (take_pos ps (ia (l_rowid t))) as [rid|] eqn:Er; [|reflexivity].
  unfold derive. change (names (abs t)) with (l_names t).
  change (slots (abs t)) with (map slot_of_col (l_cols t)). change (fam (abs t)) with (l_fam t).
  erewrite all_some_map_option_map with (mk := slot_of_col)
    (h := fun ni : string * nat => let '(_, i) := ni in
                                   match nth_error (l_cols t) i with Some c => slice_col c ps | None => None end).
  - destruct (all_some (map _ (l_names t))) as [cols|]; reflexivity.
  - intros [n i] Hni. rewrite nth_error_map.
    destruct (nth_error (l_cols t) i) as [c|] eqn:Ec; cbn [option_map]; [|reflexivity].
    assert (Hci : col_inv (ia (l_rowid t)) c) by (rewrite Forall_forall in Hcols; apply Hcols; eapply nth_error_In; eassumption).
    destruct Hci as [Hi _ _]. unfold slice_col. rewrite Hi, Er. cbn [slot_of_col scells skind].
    destruct (take_pos ps (lc_cells c)); reflexivity.
Qed.

Lemma selectrowid_take t key ps :
  inv_b t = true -> (forall k, In k (ia key) -> In k (ia (l_rowid t))) ->
  all_some (map (fun k => pos_of k (ia (l_rowid t))) (ia key)) = Some ps ->
  take ps (abs t) = option_map abs (selectrowid t key).
Proof.
  intros Hinv Hin Hps. destruct (inv_b_facts t Hinv) as (Hnd & _ & _ & Hcols & Hnames).
  set (tids := ia (l_rowid t)) in *.
  unfold selectrowid, take. change (Table.ids (abs t)) with tids. rewrite (take_pos_pos_of tids (ia key) ps Hps).
  unfold derive. change (names (abs t)) with (l_names t).
  change (slots (abs t)) with (map slot_of_col (l_cols t)). change (fam (abs t)) with (l_fam t).
  erewrite all_some_map_option_map with (mk := slot_of_col)
    (h := fun ni : string * nat => let '(_, i) := ni in
                                   match nth_error (l_cols t) i with Some c => getrowidkey c key | None => None end).
  - destruct (all_some (map _ (l_names t))) as [cols|]; reflexivity.
  - intros [n i] Hni. rewrite nth_error_map.
    destruct (nth_error (l_cols t) i) as [c|] eqn:Ec; cbn [option_map]; [|reflexivity].
    assert (Hci : col_inv tids c) by (rewrite Forall_forall in Hcols; apply Hcols; eapply nth_error_In; eassumption).
    destruct (getrowidkey_slot c tids key ps Hnd Hci Hin Hps) as [-> _]. reflexivity.
Qed.

Lemma by_position_take t perm rid :
  inv_b t = true -> take_pos perm (ia (l_rowid t)) = Some rid ->
  take perm (abs t) = option_map abs (selectrowid t (idx_of_list rid)).
Proof.
  intros Hinv Hrid. destruct (inv_b_facts t Hinv) as (Hnd & _).
  apply selectrowid_take; [exact Hinv| |].
  - intros k Hk. cbn [ia idx_of_list] in Hk. eapply take_pos_In; eassumption.
  - cbn [ia idx_of_list]. exact (pos_of_take_pos _ _ _ Hnd Hrid).
Qed.

Lemma select_take t c op ref :
  inv_b t = true -> In c (l_cols t) ->
  take (positions_where (fun cell => py_cmp op cell ref) (lc_cells c) 0) (abs t)
  = option_map abs (selectrowid t (compare_ids c op ref)).
Proof.
  intros Hinv Hc. destruct (inv_b_facts t Hinv) as (Hnd & _ & _ & Hcols & _).
  rewrite Forall_forall in Hcols. destruct (Hcols c Hc) as [Hi Hl _].
  assert (Htk := compare_ids_take c op ref ltac:(rewrite Hi; congruence)). rewrite Hi in Htk.
  apply selectrowid_take; [exact Hinv| |].
  - intros k Hk. eapply take_pos_In; eassumption.
  - exact (pos_of_take_pos _ _ _ Hnd Htk).
Qed.

Lemma take_ids_none ps (t : table) : take_pos ps (ids t) = None -> take ps t = None.
Proof. intros H. unfold take. rewrite H. reflexivity. Qed.

Lemma norm_index_lt n i p : norm_index n i = Some p -> p < n.
Proof.
  unfold norm_index.
  destruct ((0 <=? i)%Z && (i <? Z.of_nat n)%Z) eqn:E1.
  - intros H. injection H as <-. apply andb_true_iff in E1. destruct E1 as [Ha Hb].
    apply Z.leb_le in Ha. apply Z.ltb_lt in Hb. lia.
  - destruct ((i <? 0)%Z && (- Z.of_nat n <=? i)%Z) eqn:E2; [|discriminate].
    intros H. injection H as <-. apply andb_true_iff in E2. destruct E2 as [Ha Hb].
    apply Z.ltb_lt in Ha. apply Z.leb_le in Hb. lia.
Qed.

Lemma norm_indices_lt n l : forall ps, all_some (map (norm_index n) l) = Some ps -> Forall (fun p => p < n) ps.
Proof.
  induction l as [|i l IH]; intros ps H; cbn [map all_some] in H.
  - injection H as <-. constructor.
  - destruct (norm_index n i) as [p|] eqn:Ep; [|discriminate].
    destruct (all_some (map (norm_index n) l)) as [ps'|]; [|discriminate]. injection H as <-.
    constructor; [exact (norm_index_lt n i p Ep)|apply IH; reflexivity].
Qed.

Definition is_ok (x : outcome) : bool := match x with OkNew | OkUnit => true | _ => false end.

(* an L1 error of a derivation / resize is never an L0 success *)
Lemma lerr_not_ok (w : world) p o :
  pool w = map abs p -> winv p ->
  match o with
  | OSelect _ _ _ _ | OSlice _ _ _ | OGetRows _ _ | OSort _ _ _ | OShuffle _ _ | OSample _ _ _
  | OSetLength _ _ | ODelRows _ _ => True
  | _ => False
  end ->
  lstep p o = LErr -> is_ok (snd (step w o)) = false.
Proof.
  intros Hp Hw Hno Hl. destruct o; try contradiction; cbn [lstep] in Hl; cbn [step].
  - (* OSelect *)
    destruct (nth_error p t) as [tb|] eqn:Et; [|discriminate Hl]. pose proof (winv_nth _ _ _ Hw Et) as Hinv.
    rewrite (get_abs w p t tb Hp Et), slot_of_abs.
    destruct (lcol_of tb name) as [col|] eqn:Ec; cbn [option_map]; [|reflexivity].
    change (skind (slot_of_col col)) with (lc_kind col). change (scells (slot_of_col col)) with (lc_cells col).
    destruct (negb (ref_ok (lc_kind col) ref)); [reflexivity|].
    rewrite (select_take tb col c ref Hinv (lcol_of_In _ _ _ Ec)).
    destruct (selectrowid tb (compare_ids col c ref)); [discriminate Hl|reflexivity].
  - (* OSlice *)
    destruct (nth_error p t) as [tb|] eqn:Et; [|discriminate Hl]. pose proof (winv_nth _ _ _ Hw Et) as Hinv.
    rewrite (get_abs w p t tb Hp Et). change (nrows (abs tb)) with (nrows_l tb).
    rewrite (slice_table_take tb _ Hinv). destruct (slice_table tb _); [discriminate Hl|reflexivity].
  - (* OGetRows *)
    destruct (nth_error p t) as [tb|] eqn:Et; [|discriminate Hl]. pose proof (winv_nth _ _ _ Hw Et) as Hinv.
    rewrite (get_abs w p t tb Hp Et). change (nrows (abs tb)) with (nrows_l tb).
    destruct l as [|z l]; [reflexivity|].
    destruct (all_some (map (norm_index (nrows_l tb)) (z :: l))) as [ps|]; [|reflexivity].
    destruct (nodup_nat ps); [|reflexivity].
    rewrite (slice_table_take tb ps Hinv). destruct (slice_table tb ps); [discriminate Hl|reflexivity].
  - (* OSort *)
    destruct (nth_error p t) as [tb|] eqn:Et; [|discriminate Hl]. pose proof (winv_nth _ _ _ Hw Et) as Hinv.
    rewrite (get_abs w p t tb Hp Et). destruct (slot_of (abs tb) name) as [s|]; [|reflexivity].
    match goal with |- context [if ?c then _ else _] => destruct c; [|reflexivity] end.
    destruct (take_pos perm (ia (l_rowid tb))) as [rid|] eqn:Er.
    + rewrite (by_position_take tb perm rid Hinv Er).
      destruct (selectrowid tb (idx_of_list rid)); [discriminate Hl|reflexivity].
    + rewrite (take_ids_none perm (abs tb) Er). reflexivity.
  - (* OShuffle *)
    destruct (nth_error p t) as [tb|] eqn:Et; [|discriminate Hl]. pose proof (winv_nth _ _ _ Hw Et) as Hinv.
    rewrite (get_abs w p t tb Hp Et).
    destruct (is_perm_of_range perm (nrows (abs tb))); [|reflexivity].
    destruct (take_pos perm (ia (l_rowid tb))) as [rid|] eqn:Er.
    + rewrite (by_position_take tb perm rid Hinv Er).
      destruct (selectrowid tb (idx_of_list rid)); [discriminate Hl|reflexivity].
    + rewrite (take_ids_none perm (abs tb) Er). reflexivity.
  - (* OSample *)
    destruct (nth_error p t) as [tb|] eqn:Et; [|discriminate Hl]. pose proof (winv_nth _ _ _ Hw Et) as Hinv.
    rewrite (get_abs w p t tb Hp Et). change (nrows (abs tb)) with (nrows_l tb).
    destruct (k <? 0)%Z; [reflexivity|]. destruct (Z.of_nat (nrows_l tb) <? k)%Z; [reflexivity|]. cbn [orb] in Hl.
    match goal with |- context [if ?c then _ else _] => destruct c; [|reflexivity] end.
    destruct (take_pos choice (ia (l_rowid tb))) as [rid|] eqn:Er.
    + rewrite (by_position_take tb choice rid Hinv Er).
      destruct (selectrowid tb (idx_of_list rid)); [discriminate Hl|reflexivity].
    + rewrite (take_ids_none choice (abs tb) Er). reflexivity.
  - (* OSetLength *)
    destruct (nth_error p t) as [tb|] eqn:Et; [|discriminate Hl]. pose proof (winv_nth _ _ _ Hw Et) as Hinv.
    rewrite (get_abs w p t tb Hp Et). change (nrows (abs tb)) with (nrows_l tb).
    destruct (n <? 0)%Z eqn:En; [reflexivity|]. apply Z.ltb_ge in En.
    unfold setlength, k_setlength_shrinks in Hl.
    destruct (n <? Z.of_nat (nrows_l tb))%Z eqn:Es.
    + apply Z.ltb_lt in Es. assert (El : Nat.ltb (Z.to_nat n) (nrows_l tb) = true) by (apply Nat.ltb_lt; lia).
      rewrite El, (slice_table_take tb _ Hinv).
      destruct (slice_table tb (seq 0 (Z.to_nat n))); [discriminate Hl|reflexivity].
    + discriminate Hl.
  - (* ODelRows *)
    destruct (nth_error p t) as [tb|] eqn:Et; [|discriminate Hl]. pose proof (winv_nth _ _ _ Hw Et) as Hinv.
    destruct (inv_b_facts tb Hinv) as (Hnd & _).
    rewrite (get_abs w p t tb Hp Et). change (nrows (abs tb)) with (nrows_l tb).
    destruct (all_some (map (norm_index (nrows_l tb)) l)) as [dead|] eqn:Ed; [|reflexivity].
    destruct (take_pos_total dead (ia (l_rowid tb)) (norm_indices_lt _ l dead Ed)) as [dead_ids Edi].
    unfold delrows in Hl. rewrite Edi in Hl.
    set (keep := filter (fun r => negb (mem_N r dead_ids)) (ia (l_rowid tb))) in *.
    assert (Hk : take_pos (filter (fun q => negb (mem_nat q dead)) (seq 0 (nrows_l tb))) (ia (l_rowid tb)) = Some keep).
    { apply take_pos_spec. pose proof (keep_ids_positions (ia (l_rowid tb)) dead dead_ids 0 Hnd Edi) as Hq.
      cbn [skipn] in Hq. rewrite Nat.sub_0_r in Hq. unfold nrows_l. symmetry. exact Hq. }
    rewrite (by_position_take tb _ keep Hinv Hk).
    destruct (selectrowid tb (idx_of_list keep)); [discriminate Hl|reflexivity].
Qed.

(* ---------- merging: under the invariant both column algorithms find a cell for every id held by either operand ---------- *)
Lemma all_some_exists {A B} (f : A -> option B) l :
  (forall x, In x l -> exists v, f x = Some v) -> exists r, all_some (map f l) = Some r.
Proof.
  induction l as [|a l IH]; intros H; [exists []; reflexivity|].
  destruct (H a (or_introl eq_refl)) as [v Hv]. destruct IH as [r Hr]; [intros x Hx; apply H; right; exact Hx|].
  exists (v :: r). cbn [map all_some]. rewrite Hv, Hr. reflexivity.
Qed.

Lemma merged_cell_some ida idb (ca cb : list val) r :
  List.length ca = List.length ida -> List.length cb = List.length idb ->
  In r ida \/ In r idb -> exists v, merged_cell ida idb ca cb r = Some v.
Proof.
  intros Hla Hlb Hcov. unfold merged_cell, cell_by_id.
  destruct (pos_of r ida) as [p|] eqn:Ep.
  - pose proof (pos_of_nth _ _ _ Ep) as Hp.
    destruct (nth_error ca p) as [v|] eqn:Ev; [exists v; reflexivity|].
    apply nth_error_None in Ev. assert (p < List.length ida) by (apply nth_error_Some; congruence). lia.
  - assert (Hna : ~ In r ida) by (intros Hin; destruct (pos_of_In r ida Hin) as [q Hq]; congruence).
    destruct Hcov as [Hin|Hin]; [contradiction|].
    destruct (pos_of_In r idb Hin) as [q Hq]. rewrite Hq. pose proof (pos_of_nth _ _ _ Hq) as Hqn.
    destruct (nth_error cb q) as [v|] eqn:Ev; [exists v; reflexivity|].
    apply nth_error_None in Ev. assert (q < List.length idb) by (apply nth_error_Some; congruence). lia.
Qed.

Lemma merge_col_total a b rid ida idb :
  NoDup ida -> NoDup idb -> col_inv ida a -> col_inv idb b ->
  (forall r, In r (ia rid) -> In r ida \/ In r idb) ->
  exists c', merge_col a b rid = Some c'.
Proof.
  intros Hnda Hndb [Hia Hla Hma] [Hib Hlb Hmb] Hcov. subst ida idb. unfold merge_col.
  destruct (is_mixed a) eqn:Emix.
  - (* dict lookups *)
    match goal with |- context [all_some (map ?g (ia rid))] =>
      assert (Eg : forall r, g r = merged_cell (ia (lc_rowid a)) (ia (lc_rowid b)) (lc_cells a) (lc_cells b) r) end.
    { intros r. unfold merged_cell, cell_by_id.
      rewrite !idx_index_pos by assumption.
      destruct (mem_N r (ia (lc_rowid a))) eqn:Em.
      - apply mem_N_In in Em. destruct (pos_of_In r _ Em) as [p ->]. reflexivity.
      - apply mem_N_false in Em. rewrite (pos_of_notin r _ Em). reflexivity. }
    rewrite (map_ext _ _ Eg).
    destruct (all_some_exists (merged_cell (ia (lc_rowid a)) (ia (lc_rowid b)) (lc_cells a) (lc_cells b)) (ia rid))
      as [cells Hc].
    { intros r Hr. apply merged_cell_some; [exact Hla|exact Hlb|exact (Hcov r Hr)]. }
    rewrite Hc. eexists. reflexivity.
  - (* masks + concatenate + argsort/searchsorted *)
    set (keep_a := filter (fun '(r, _) => mem_N r (ia rid)) (combine (ia (lc_rowid a)) (lc_cells a))).
    set (keep_b := filter (fun '(r, _) => negb (mem_N r (ia (lc_rowid a))) && mem_N r (ia rid))
                          (combine (ia (lc_rowid b)) (lc_cells b))).
    set (cat := keep_a ++ keep_b).
    set (ida := ia (lc_rowid a)) in *. set (idb := ia (lc_rowid b)) in *.
    assert (Hfa : map fst keep_a = filter (fun r => mem_N r (ia rid)) ida)
      by (apply map_fst_filter_combine; congruence).
    assert (Hfb : map fst keep_b = filter (fun r => negb (mem_N r ida) && mem_N r (ia rid)) idb)
      by (apply map_fst_filter_combine; congruence).
    assert (Hndc : NoDup (map fst cat)).
    { unfold cat. rewrite map_app, Hfa, Hfb. apply NoDup_app_disj; [apply NoDup_filter; assumption .. |].
      intros x. rewrite !filter_In, andb_true_iff, negb_true_iff, mem_N_false, mem_N_In. tauto. }
    assert (Hin : forall k, In k (ia rid) -> In k (map fst cat)).
    { intros k Hk. unfold cat. rewrite map_app, Hfa, Hfb. apply in_or_app.
      destruct (mem_N k ida) eqn:Em.
      - left. apply filter_In. split; [apply mem_N_In; exact Em|apply mem_N_In; exact Hk].
      - right. apply mem_N_false in Em. destruct (Hcov k Hk) as [H|H]; [contradiction|].
        apply filter_In. split; [exact H|]. apply andb_true_iff.
        split; [apply negb_true_iff, mem_N_false; exact Em|apply mem_N_In; exact Hk]. }
    set (cc := {| lc_kind := lc_kind a; lc_rowid := idx_of_list (map fst cat); lc_cells := map snd cat;
                  lc_owner := true; lc_tc := true |}).
    assert (Hcc : col_inv (map fst cat) cc)
      by (constructor; [reflexivity|cbn [cc lc_cells]; rewrite !map_length; reflexivity|reflexivity]).
    unfold getrowidkey. rewrite (positions_by_id_spec cc (map fst cat) (ia rid) Hndc Hcc Hin).
    destruct (all_some_exists (fun r => pos_of r (map fst cat)) (ia rid)) as [ps Hps].
    { intros r Hr. exact (pos_of_In r _ (Hin r Hr)). }
    rewrite Hps. change (lc_cells cc) with (map snd cat). change (ia (lc_rowid cc)) with (map fst cat).
    assert (Hlt : Forall (fun q => q < List.length cat) ps).
    { apply Forall_forall. intros q Hq. apply all_some_spec in Hps.
      assert (Hq' : In (Some q) (map Some ps)) by (apply in_map; exact Hq).
      rewrite <- Hps in Hq'. apply in_map_iff in Hq'. destruct Hq' as [r [Hr _]].
      apply pos_of_nth in Hr. rewrite <- (map_length fst cat). apply nth_error_Some. congruence. }
    destruct (take_pos_total ps (map snd cat)) as [cells Hcells]; [rewrite map_length; exact Hlt|].
    destruct (take_pos_total ps (map fst cat)) as [rid' Hrid']; [rewrite map_length; exact Hlt|].
    rewrite Hcells, Hrid'. eexists. reflexivity.
Qed.

Lemma lookup_Some_In {A} n (l : list (string * A)) a : lookup n l = Some a -> In (n, a) l.
Proof.
  induction l as [|[m x] l IH]; cbn [lookup]; [discriminate|].
  destruct (String.eqb n m) eqn:E.
  - apply String.eqb_eq in E. subst m. intros H. injection H as ->. left. reflexivity.
  - intros H. right. apply IH. exact H.
Qed.

Lemma merge_tables_total o a b :
  inv_b a = true -> inv_b b = true ->
  (forall n i, In (n, i) (l_names a) -> has_name (abs b) n = true) ->
  exists r, merge_tables o a b = Some r.
Proof.
  intros Ha Hb Hhas.
  destruct (inv_b_facts a Ha) as (Hnda & _ & _ & Hca & Hna).
  destruct (inv_b_facts b Hb) as (Hndb & _ & _ & Hcb & Hnb).
  unfold merge_tables. set (rid := idx_sorted (idx_of_list _)).
  assert (Erid : ia rid = merge_ids o (ia (l_rowid a)) (ia (l_rowid b))) by (destruct o; reflexivity).
  match goal with |- context [all_some (map ?g (l_names a))] =>
    destruct (all_some_exists g (l_names a)) as [cols Hcols] end.
  - intros [n i] Hni.
    rewrite Forall_forall in Hna, Hnb, Hca, Hcb. pose proof (Hna (n, i) Hni) as Hi. cbn [snd] in Hi.
    destruct (nth_error (l_cols a) i) as [ca|] eqn:Eca; [|apply nth_error_None in Eca; lia].
    pose proof (Hhas n i Hni) as Hh. rewrite has_name_abs in Hh. unfold lcol_of.
    destruct (lookup n (l_names b)) as [j|] eqn:Ej; [|discriminate].
    pose proof (Hnb (n, j) (lookup_Some_In n _ j Ej)) as Hj. cbn [snd] in Hj.
    destruct (nth_error (l_cols b) j) as [cb|] eqn:Ecb; [|apply nth_error_None in Ecb; lia].
    apply (merge_col_total ca cb rid (ia (l_rowid a)) (ia (l_rowid b)) Hnda Hndb).
    + apply Hca. eapply nth_error_In; eassumption.
    + apply Hcb. eapply nth_error_In; eassumption.
    + intros x Hx. rewrite Erid in Hx. apply merge_ids_cover in Hx. exact Hx.
  - rewrite Hcols. eexists. reflexivity.
Qed.

Lemma merge_lerr_not_ok (w : world) p mo ti t2i :
  pool w = map abs p -> winv p ->
  lstep p (OMerge mo ti t2i) = LErr -> is_ok (snd (step w (OMerge mo ti t2i))) = false.
Proof.
  intros Hp Hw Hl. cbn [lstep] in Hl.
  destruct (nth_error p ti) as [a|] eqn:Ea; [|discriminate Hl].
  destruct (nth_error p t2i) as [b|] eqn:Eb; [|discriminate Hl].
  cbn [step]. rewrite (get_abs w p ti a Hp Ea), (get_abs w p t2i b Hp Eb).
  change (fam (abs a)) with (l_fam a). change (fam (abs b)) with (l_fam b).
  destruct (negb (Nat.eqb (l_fam a) (l_fam b))); [reflexivity|].
  destruct (negb (forallb _ (view (abs a)))); [reflexivity|].
  destruct (negb (forallb _ (names (abs a)))) eqn:Ehas; [reflexivity|].
  exfalso. apply negb_false_iff in Ehas. rewrite forallb_forall in Ehas.
  destruct (negb (forallb _ (l_names a))); [discriminate Hl|].
  destruct (merge_tables_total mo a b (winv_nth _ _ _ Hw Ea) (winv_nth _ _ _ Hw Eb)) as [r Hr].
  - intros n i Hni. exact (Ehas (n, i) Hni).
  - rewrite Hr in Hl. discriminate Hl.
Qed.

(* ---------- every operation: an L1 error is never an L0 success ---------- *)
Lemma lstep_all_lerr_not_ok (w : world) p o :
  pool w = map abs p -> winv p -> lstep_all p (nextfam w) o = LErr -> is_ok (snd (step w o)) = false.
Proof.
  intros Hp Hw Hl. pose proof (lstep_all_sound_res w p o Hp Hw) as H. rewrite Hl in H. cbn [sound_res] in H.
  destruct H as [_ H]. destruct (lerr_exact o) eqn:Ex.
  - destruct (H eq_refl) as [e He]. rewrite He. reflexivity.
  - destruct o; try discriminate Ex; cbn [lstep_all] in Hl.
    + exact (lerr_not_ok w p (OSelect t name c ref) Hp Hw I Hl).
    + exact (merge_lerr_not_ok w p o t t2 Hp Hw Hl).
    + exact (lerr_not_ok w p (OSlice t a b) Hp Hw I Hl).
    + exact (lerr_not_ok w p (OGetRows t l) Hp Hw I Hl).
    + exact (lerr_not_ok w p (OSort t name perm) Hp Hw I Hl).
    + exact (lerr_not_ok w p (OShuffle t perm) Hp Hw I Hl).
    + exact (lerr_not_ok w p (OSample t k choice) Hp Hw I Hl).
    + exact (lerr_not_ok w p (OSetLength t n) Hp Hw I Hl).
    + exact (lerr_not_ok w p (ODelRows t l) Hp Hw I Hl).
Qed.

(* ---------- the one-step theorem, with the cases spelled out (quoted by Props/C01.v) ----------
   LErr: L0 never succeeds; when it raises, its world is unchanged; it can answer OutOfModel only for the nine
   derivations and resizes (e.g. a sort order that is not a permutation of the rows but passes no L0 check either) *)
Theorem lstep_all_sound (w : world) p o :
  pool w = map abs p -> winv p ->
  match lstep_all p (nextfam w) o with
  | LNew r => snd (step w o) = OkNew -> fst (step w o) = spec_push w o (abs r)
  | LUpd i r => snd (step w o) = OkUnit -> fst (step w o) = put w i (abs r)
  | LErrUpd i r => (exists e, snd (step w o) = Err e) /\ fst (step w o) = put w i (abs r)
  | LErr => match snd (step w o) with
            | Err _ => fst (step w o) = w
            | OutOfModel => lerr_exact o = false
            | OkNew | OkUnit => False
            end
  | LSkip => True
  end.
Proof.
  intros Hp Hw. pose proof (lstep_all_sound_res w p o Hp Hw) as H.
  pose proof (lstep_all_lerr_not_ok w p o Hp Hw) as Hn.
  destruct (lstep_all p (nextfam w) o) as [r|i r| |i r|]; cbn [sound_res] in H; try exact H.
  destruct H as [H1 H2]. specialize (Hn eq_refl).
  destruct (snd (step w o)) as [| |e|]; cbn [is_ok] in Hn; try discriminate Hn.
  - exact (H1 e eq_refl).
  - destruct (lerr_exact o); [|reflexivity]. destruct (H2 eq_refl) as [e He]. discriminate He.
Qed.

(* ---------- histories: sim_step, sim_ok and lfam_from are defined in Model/CoreRun.v ---------- *)
Lemma next_fam_spec p nf o :
  next_fam nf o (lstep_all p nf o)
  = match lstep_all p nf o with
    | LNew _ => match o with ONew _ | OConcat _ _ => S nf | _ => nf end
    | _ => nf
    end.
Proof.
  destruct o; cbn [lstep_all next_fam]; try (destruct (lstep p _); reflexivity).
  - reflexivity.
  - destruct (nth_error p t) as [tb|]; [|reflexivity].
    destruct (lookup name (l_names tb)); destruct (lstep _ _); reflexivity.
  - destruct (nth_error p t) as [a|]; [|reflexivity]. destruct (nth_error p t2) as [b|]; [|reflexivity].
    destruct (concat_l a b nf); reflexivity.
Qed.

Lemma pool_spec_push w o t : pool (spec_push w o t) = pool w ++ [t].
Proof. destruct o; reflexivity. Qed.
Lemma nextfam_spec_push w o t :
  nextfam (spec_push w o t) = match o with ONew _ | OConcat _ _ => S (nextfam w) | _ => nextfam w end.
Proof. destruct o; reflexivity. Qed.

(* one simulated step re-establishes the simulation relation: pool and family counter *)
Lemma sim_step_next (w : world) p o :
  pool w = map abs p -> winv p -> sim_step w p o = true ->
  pool (fst (step w o)) = map abs (lapply p (lstep_all p (nextfam w) o))
  /\ nextfam (fst (step w o)) = next_fam (nextfam w) o (lstep_all p (nextfam w) o).
Proof.
  intros Hp Hw Hs. pose proof (lstep_all_sound_res w p o Hp Hw) as H.
  rewrite next_fam_spec. unfold sim_step in Hs.
  destruct (lstep_all p (nextfam w) o) as [r|i r| |i r|]; cbn [sound_res lapply] in *;
    destruct (snd (step w o)) as [| |e|] eqn:Es; try discriminate Hs.
  - rewrite (H eq_refl). split; [|apply nextfam_spec_push].
    rewrite pool_spec_push, Hp, map_app. reflexivity.
  - rewrite (H eq_refl). split; [exact (pool_put_abs w p i r Hp)|reflexivity].
  - destruct H as [H1 _]. rewrite (H1 e eq_refl). split; [exact Hp|reflexivity].
  - destruct H as [_ H2]. rewrite H2. split; [exact (pool_put_abs w p i r Hp)|reflexivity].
Qed.

(* along ANY history over the whole alphabet whose steps stay inside the model, the L1 run denotes the L0 run:
   same pool (through abs), same family counter *)
Theorem lrun_simulates_world ops : forall (w : world) p,
  pool w = map abs p -> winv p -> hist_fits_from ops p (nextfam w) = true -> sim_ok w p ops = true ->
  run ops w = {| pool := map abs (lrun_from ops p (nextfam w)); nextfam := lfam_from ops p (nextfam w) |}.
Proof.
  induction ops as [|o ops IH]; intros w p Hp Hw Hf Hs.
  - cbn [lrun_from lfam_from]. unfold run. cbn [fold_left]. destruct w as [pl nf]. cbn [pool nextfam] in *.
    rewrite Hp. reflexivity.
  - change (run (o :: ops) w) with (run ops (fst (step w o))).
    cbn [lrun_from lfam_from hist_fits_from sim_ok] in *.
    apply andb_true_iff in Hf. destruct Hf as [Hf1 Hf2]. apply andb_true_iff in Hs. destruct Hs as [Hs1 Hs2].
    destruct (sim_step_next w p o Hp Hw Hs1) as [Hp' Hn'].
    rewrite <- Hn' in *. apply IH; [exact Hp'| |exact Hf2|exact Hs2].
    apply winv_lapply; [exact Hw|]. apply lstep_all_keeps_inv; assumption.
Qed.

Theorem lrun_simulates ops : forall (w : world) p,
  pool w = map abs p -> winv p -> hist_fits_from ops p (nextfam w) = true -> sim_ok w p ops = true ->
  pool (run ops w) = map abs (lrun_from ops p (nextfam w)).
Proof. intros w p Hp Hw Hf Hs. rewrite (lrun_simulates_world ops w p Hp Hw Hf Hs). reflexivity. Qed.

(* from the empty world and the empty pool *)
Corollary lrun_simulates_from_empty ops :
  hist_fits ops = true -> sim_ok w0 [] ops = true -> pool (run ops w0) = map abs (lrun ops).
Proof. intros Hf Hs. exact (lrun_simulates ops w0 [] eq_refl (Forall_nil _) Hf Hs). Qed.
