(* Proofs for C17: OrderedState round trip for all dictionaries, substring vs
   equality on the actual attribute names, unpickling restores the table and
   its invariant, fresh family. (JSON and pandas: Proofs/PersistJsonFacts.v) *)
From Coq Require Import ZArith NArith List Bool String Ascii Permutation Lia.
From DM Require Import Base.PyVal Base.PersistPy Spec.Nf Spec.Table Model.LTable Spec.Persist Gen.KPersist Model.Persist.
Import ListNotations.
Open Scope string_scope.

(* ---------- sorting by key is a permutation *)
Lemma ins_key_perm {A} (x : string * A) l : Permutation (ins_key x l) (x :: l).
Proof.
  induction l as [|y r IH]; simpl; auto.
  destruct (str_leb (fst x) (fst y)); auto.
  eapply perm_trans; [apply perm_skip, IH | apply perm_swap].
Qed.
Lemma sort_key_perm {A} (l : list (string * A)) : Permutation (sort_key l) l.
Proof.
  induction l; simpl; auto.
  eapply perm_trans; [apply ins_key_perm | auto].
Qed.

(* ---------- lookup *)
Lemma lookup_notin {A} k (l : list (string * A)) : ~ In k (map fst l) -> lookup k l = None.
Proof.
  induction l as [|[m a] r IH]; simpl; intros H; auto.
  destruct (String.eqb k m) eqn:E.
  - apply String.eqb_eq in E. subst. exfalso. auto.
  - apply IH. intro. auto.
Qed.
Lemma lookup_perm {A} k (l l' : list (string * A)) :
  Permutation l l' -> NoDup (map fst l) -> lookup k l = lookup k l'.
Proof.
  intros p. induction p; intros nd.
  - reflexivity.
  - destruct x as [m a]. simpl. inversion nd; subst. rewrite IHp; auto.
  - destruct x as [k1 a1], y as [k2 a2]. simpl.
    destruct (String.eqb k k2) eqn:E2, (String.eqb k k1) eqn:E1; auto.
    apply String.eqb_eq in E1, E2. subst. simpl in nd. inversion nd; subst. exfalso. apply H1. left. reflexivity.
  - rewrite IHp1, IHp2; auto.
    eapply Permutation_NoDup; [apply Permutation_map, p1 | exact nd].
Qed.
Lemma lookup_filter {A} (f : string -> bool) k (l : list (string * A)) :
  lookup k (filter (fun kv => f (fst kv)) l) = if f k then lookup k l else None.
Proof.
  induction l as [|[m a] r IH]; simpl.
  - destruct (f k); reflexivity.
  - destruct (f m) eqn:Fm; simpl; destruct (String.eqb k m) eqn:E.
    + apply String.eqb_eq in E. subst. rewrite Fm. reflexivity.
    + exact IH.
    + apply String.eqb_eq in E. subst. rewrite IH, Fm. reflexivity.
    + exact IH.
Qed.
Lemma lookup_dict_set {A} k k' (a : A) d :
  lookup k (dict_set k' a d) = if String.eqb k k' then Some a else lookup k d.
Proof.
  induction d as [|[m x] r IH]; simpl.
  - destruct (String.eqb k k'); reflexivity.
  - destruct (String.eqb k' m) eqn:E; simpl.
    + apply String.eqb_eq in E. subst m. destruct (String.eqb k k'); reflexivity.
    + destruct (String.eqb k m) eqn:E2.
      * destruct (String.eqb k k') eqn:E3; auto.
        apply String.eqb_eq in E2, E3. subst. rewrite String.eqb_refl in E. discriminate.
      * exact IH.
Qed.
Lemma lookup_dict_update {A} k (kvs : list (string * A)) : forall d,
  NoDup (map fst kvs) ->
  lookup k (dict_update d kvs) = match lookup k kvs with Some a => Some a | None => lookup k d end.
Proof.
  induction kvs as [|[k1 a1] r IH]; intros d nd; simpl; auto.
  inversion nd; subst. unfold dict_update in *. simpl. rewrite IH by assumption. rewrite lookup_dict_set.
  destruct (String.eqb k k1) eqn:E.
  - apply String.eqb_eq in E. subst. rewrite lookup_notin by assumption. reflexivity.
  - reflexivity.
Qed.
Lemma combine_split_id {A B} (l : list (A * B)) : combine (fst (split l)) (snd (split l)) = l.
Proof. pose proof (split_combine l) as H. destruct (split l). exact (H _ _ eq_refl). Qed.
Lemma nodup_fst_filter {A} (p : string * A -> bool) l : NoDup (map fst l) -> NoDup (map fst (filter p l)).
Proof.
  induction l as [|x r IH]; simpl; intros nd; auto.
  inversion nd; subst. destruct (p x); simpl; auto.
  constructor; auto. intro Hin. apply H1.
  apply in_map_iff in Hin. destruct Hin as [y [Hy Hin]]. apply filter_In in Hin. apply in_map_iff. exists y. tauto.
Qed.
Lemma nodup_fst_sort {A} (d : list (string * A)) : NoDup (map fst d) -> NoDup (map fst (sort_key d)).
Proof.
  intro nd. eapply Permutation_NoDup; [apply Permutation_map, Permutation_sym, sort_key_perm | exact nd].
Qed.
Lemma lookup_sort {A} k (d : list (string * A)) : NoDup (map fst d) -> lookup k (sort_key d) = lookup k d.
Proof. intro nd. symmetry. apply lookup_perm; auto. apply Permutation_sym, sort_key_perm. Qed.

(* ---------- OrderedState: __setstate__ after __getstate__ gives back every
   attribute that is not skipped, for every __dict__ *)
Theorem os_roundtrip {A} (ignore : ign) (d : dict A) k :
  NoDup (map fst d) ->
  lookup k (setstate (getstate ignore d)) = if k_skip k ignore then None else lookup k d.
Proof.
  intro nd. unfold setstate, getstate. rewrite combine_split_id.
  rewrite lookup_dict_update by (apply nodup_fst_filter, nodup_fst_sort, nd).
  rewrite (lookup_filter (fun k => negb (k_skip k ignore))). simpl.
  destruct (k_skip k ignore); simpl; auto.
  rewrite lookup_sort by assumption. destruct (lookup k d); reflexivity.
Qed.

(* the substring test and the intended equality test drop the same attributes
   whenever they agree on the attribute names that are present *)
Theorem getstate_coincide {A} (ignore : ign) (name : string) (d : dict A) :
  (forall k, In k (map fst d) -> k_skip k ignore = String.eqb k name) ->
  getstate ignore d = getstate_eq name d.
Proof.
  intro H. unfold getstate, getstate_eq. f_equal. apply filter_ext_in. intros [k a] Hin. simpl.
  rewrite H; auto. apply in_map_iff. exists (k, a). split; auto.
  eapply Permutation_in; [apply sort_key_perm | exact Hin].
Qed.

(* ... and on the attribute names the three classes really have, they do *)
Lemma index_names_coincide : forall k, In k index_attr_names -> k_skip k k_ignore_index = String.eqb k "_metaindex".
Proof. simpl. intros k H. repeat (destruct H as [H|H]; [subst; reflexivity|]). destruct H. Qed.
Lemma col_names_coincide : forall kd k, In k (col_attr_names kd) -> k_skip k k_ignore_col = String.eqb k "_datamatrix".
Proof. intros kd k H. destruct kd; simpl in H; repeat (destruct H as [H|H]; [subst; reflexivity|]); destruct H. Qed.
Lemma dm_names_coincide : forall k, In k dm_attr_names -> k_skip k k_ignore_dm = String.eqb k "_id".
Proof. simpl. intros k H. repeat (destruct H as [H|H]; [subst; reflexivity|]). destruct H. Qed.
Lemma index_dict_names i : map fst (index_dict i) = index_attr_names.
Proof. reflexivity. Qed.
Lemma col_dict_names c : map fst (col_dict c) = col_attr_names (lc_kind c).
Proof. unfold col_dict. destruct (lc_kind c); reflexivity. Qed.
Lemma dm_dict_names t : map fst (dm_dict t) = dm_attr_names.
Proof. reflexivity. Qed.

Theorem getstate_drops_exactly :
  (forall i, index_getstate i = getstate_eq "_metaindex" (index_dict i))
  /\ (forall c, cs_state (col_getstate c) = getstate_eq "_datamatrix" (col_dict c))
  /\ (forall t, dm_getstate t = getstate_eq "_id" (dm_dict t)).
Proof.
  split; [|split]; intros x.
  - apply getstate_coincide. rewrite index_dict_names. apply index_names_coincide.
  - apply getstate_coincide. rewrite col_dict_names. apply col_names_coincide.
  - apply getstate_coincide. rewrite dm_dict_names. apply dm_names_coincide.
Qed.

(* ---------- the concrete objects *)
Lemma index_roundtrip i : index_setstate (index_getstate i) = Some (drop_meta i).
Proof. destruct i. reflexivity. Qed.
Lemma col_roundtrip c : col_setstate (col_getstate c) = Some (restore_col false c).
Proof. destruct c as [k r cells o tc]. destruct r. destruct k; reflexivity. Qed.

Lemma all_some_map {A B} (f : A -> option B) (g : A -> B) l :
  (forall x, f x = Some (g x)) -> all_some (map f l) = Some (map g l).
Proof. intro H. induction l; simpl; auto. rewrite H, IHl. reflexivity. Qed.

Lemma mem_nat_In x l : mem_nat x l = true <-> In x l.
Proof.
  induction l; simpl. split; [discriminate | tauto].
  rewrite orb_true_iff, IHl, Nat.eqb_eq. split; intros [H|H]; auto.
Qed.
Lemma mem_nat_perm x l l' : Permutation l l' -> mem_nat x l = mem_nat x l'.
Proof.
  intro p. destruct (mem_nat x l) eqn:E, (mem_nat x l') eqn:E'; auto.
  - apply mem_nat_In in E. apply (Permutation_in _ p) in E. apply mem_nat_In in E. congruence.
  - apply mem_nat_In in E'. apply (Permutation_in _ (Permutation_sym p)) in E'. apply mem_nat_In in E'. congruence.
Qed.
Lemma to_list_perm {A} b (l : list (string * A)) : Permutation (to_list b l) l.
Proof. unfold to_list. destruct (k_to_list_sorts b); [apply sort_key_perm | apply Permutation_refl]. Qed.

Lemma combine_map_r {A B C} (f : B -> C) (l1 : list A) (l2 : list B) :
  combine l1 (map f l2) = map (fun p => (fst p, f (snd p))) (combine l1 l2).
Proof. revert l2. induction l1; destruct l2; simpl; auto. rewrite IHl1. reflexivity. Qed.
Lemma map_snd_combine {A B} (l1 : list A) (l2 : list B) :
  List.length l1 = List.length l2 -> map snd (combine l1 l2) = l2.
Proof. revert l2. induction l1; destruct l2; simpl; intros H; try discriminate; auto. rewrite IHl1; auto. Qed.
Lemma map_fst_combine {A B} (l1 : list A) (l2 : list B) :
  List.length l1 = List.length l2 -> map fst (combine l1 l2) = l1.
Proof. revert l2. induction l1; destruct l2; simpl; intros H; try discriminate; auto. rewrite IHl1; auto. Qed.

Lemma reattach_closed listed names cols :
  Permutation listed names ->
  reattach listed (map (restore_col false) cols)
  = map (fun ic => restore_col (mem_nat (fst ic) (map snd names)) (snd ic)) (combine (seq 0 (List.length cols)) cols).
Proof.
  intro p. unfold reattach. rewrite map_length, combine_map_r, map_map. apply map_ext. intros [i c]. simpl.
  rewrite (mem_nat_perm i _ _ (Permutation_map snd p)).
  destruct (mem_nat i (map snd names)); reflexivity.
Qed.

Lemma dm_lookup t n :
  let d := dict_set "_id" (DvId n) (setstate (dm_getstate t)) in
  lookup "_cols" d = Some (DvCols (l_names t) (map col_getstate (l_cols t)))
  /\ lookup "_rowid" d = Some (DvRowid (index_getstate (l_rowid t)))
  /\ lookup "_default_col_type" d = Some (DvDflt (l_dflt t))
  /\ lookup "_id" d = Some (DvId n)
  /\ lookup "_sorted" d = Some (DvSorted (l_sorted t)).
Proof. cbv zeta. repeat split; reflexivity. Qed.

(* the characterising lemmas of the id kernels: the object gets the counter value (its own id for _mutate) and the
   counter moves beyond it.  Everything the proofs know about the three kernels. *)
Lemma setstate_ids_spec n : fst (setstate_ids n) = n /\ (n < snd (setstate_ids n))%nat.
Proof. unfold setstate_ids, to_nat2, k_setstate_ids. cbv zeta. cbn [fst snd]. split; lia. Qed.
Lemma init_ids_spec n : fst (init_ids n) = n /\ (n < snd (init_ids n))%nat.
Proof. unfold init_ids, to_nat2, k_init_ids. cbv zeta. cbn [fst snd]. split; lia. Qed.
Lemma mutate_ids_spec own n : fst (mutate_ids own n) = own /\ (n <= snd (mutate_ids own n))%nat.
Proof. unfold mutate_ids, to_nat2, k_mutate_ids. cbv zeta. cbn [fst snd]. split; lia. Qed.

(* unpickling computes the closed form `restore` *)
Theorem unpickle_eq n t : exists n', unpickle n t = Some (restore n t, n') /\ (n < n')%nat.
Proof.
  destruct (setstate_ids_spec n) as [Hf Hlt].
  exists (snd (setstate_ids n)). split; [|exact Hlt].
  unfold unpickle, dm_setstate. cbv zeta. rewrite Hf.
  destruct (dm_lookup t n) as (H1 & H2 & H3 & H4 & H5). cbv zeta in H1, H2, H3, H4, H5.
  rewrite H1, H2, H3, H4, H5.
  rewrite map_map. rewrite (all_some_map _ (restore_col false)) by (intro; apply col_roundtrip).
  rewrite index_roundtrip.
  rewrite (reattach_closed _ (l_names t)) by apply to_list_perm.
  reflexivity.
Qed.

(* unpickling is the EvRestore event of the counter machine *)
Lemma unpickle_counter n t r n' : unpickle n t = Some (r, n') -> l_fam r = fst (setstate_ids n) /\ n' = snd (setstate_ids n).
Proof.
  intro H. destruct (setstate_ids_spec n) as [Hf _].
  unfold unpickle, dm_setstate in H. cbv zeta in H.
  destruct (dm_lookup t (fst (setstate_ids n))) as (H1 & H2 & H3 & H4 & H5). cbv zeta in H1, H2, H3, H4, H5.
  rewrite H1, H2, H3, H4, H5 in H.
  destruct (all_some _); [|discriminate]. destruct (index_setstate _); [|discriminate].
  inversion H; subst. split; reflexivity.
Qed.

(* ---------- same names, kinds, order, cells *)
Lemma abs_restore n t : abs (restore n t) = with_fam n (abs t).
Proof.
  unfold abs, with_fam, restore. simpl. f_equal.
  rewrite map_map.
  transitivity (map (fun c => {| skind := lc_kind c; scells := lc_cells c |})
                    (map snd (combine (seq 0 (List.length (l_cols t))) (l_cols t)))).
  - rewrite map_map. apply map_ext. intros [i c]. reflexivity.
  - rewrite map_snd_combine by apply seq_length. reflexivity.
Qed.

Theorem unpickle_abs n t :
  exists r n', unpickle n t = Some (r, n') /\ abs r = with_fam n (abs t).
Proof.
  destruct (unpickle_eq n t) as [n' [H _]]. exists (restore n t), n'. split; auto. apply abs_restore.
Qed.

(* ---------- the representation invariant holds for the restored object *)
Lemma index_ok_drop_meta i : index_ok i = true -> index_ok (drop_meta i) = true.
Proof. unfold index_ok, meta_ok, max_ok. simpl. rewrite andb_true_iff. tauto. Qed.

Lemma col_ok_restore n t c :
  col_ok t c = true -> col_ok (restore n t) (restore_col true c) = true.
Proof.
  unfold col_ok. simpl. rewrite !andb_true_iff. intros (((((H1 & H2) & H3) & H4) & H5) & H6).
  destruct (lc_kind c) eqn:K; simpl; rewrite ?K; repeat split; auto using index_ok_drop_meta.
Qed.

Theorem unpickle_inv n t :
  inv_b t = true -> cols_referenced t = true ->
  exists r n', unpickle n t = Some (r, n') /\ inv_b r = true.
Proof.
  intros Hinv Href. destruct (unpickle_eq n t) as [n' [H _]]. exists (restore n t), n'. split; auto.
  unfold inv_b in *. rewrite !andb_true_iff in Hinv. destruct Hinv as ((((I1 & I2) & I3) & I4) & I5).
  rewrite !andb_true_iff. repeat split.
  - exact I1.
  - apply index_ok_drop_meta, I2.
  - exact I3.
  - simpl. rewrite map_length, combine_length, seq_length, Nat.min_id. exact I4.
  - apply forallb_forall. intros x Hx. simpl in Hx. apply in_map_iff in Hx. destruct Hx as [[i c] [Hx Hin]]. subst x. simpl.
    assert (Hc : In c (l_cols t)) by (eapply in_combine_r; eauto).
    assert (Hi : In i (seq 0 (List.length (l_cols t)))) by (eapply in_combine_l; eauto).
    unfold cols_referenced in Href. rewrite forallb_forall in Href. rewrite (Href i Hi).
    apply col_ok_restore. rewrite forallb_forall in I5. apply I5, Hc.
Qed.

(* ---------- fresh family *)
Theorem unpickle_fresh n t r n' :
  unpickle n t = Some (r, n') -> l_fam r = n /\ (n < n')%nat.
Proof.
  intro H. destruct (unpickle_eq n t) as [m [H' Hlt]]. rewrite H' in H. inversion H; subst. split; auto.
Qed.

(* ---------- L1 refines L0: the restored table is the original in everything but its family *)
Lemma list_eqb_refl {A} (e : A -> A -> bool) l : (forall x, e x x = true) -> list_eqb e l l = true.
Proof. intro H. induction l; simpl; auto. rewrite H, IHl. reflexivity. Qed.
Lemma dy_cmp_refl m e : dy_cmp (m, e) (m, e) = Eq.
Proof. unfold dy_cmp. apply Z.compare_refl. Qed.
Lemma fl_eqv_refl f : fl_eqv f f = true.
Proof.
  destruct f as [|b|b|b m e]; try (simpl; auto using Bool.eqb_reflx; fail).
  unfold fl_eqv. rewrite Bool.eqb_reflx, dy_cmp_refl. reflexivity.
Qed.
Lemma val_eqv_refl v : val_eqv v v = true.
Proof. destruct v; simpl; auto using Z.eqb_refl, fl_eqv_refl. apply String.eqb_refl. Qed.
Lemma kind_eqb_refl k : kind_eqb k k = true.
Proof. destruct k; reflexivity. Qed.
Lemma view_eqb_refl v : view_eqb v v = true.
Proof.
  apply list_eqb_refl. intros [[n k] c]. rewrite String.eqb_refl, kind_eqb_refl. simpl.
  apply list_eqb_refl, val_eqv_refl.
Qed.
Lemma table_eqb_refl t : table_eqb t t = true.
Proof.
  unfold table_eqb. rewrite Nat.eqb_refl, view_eqb_refl, Bool.eqb_reflx, kind_eqb_refl. simpl.
  unfold ids_eqb. rewrite !list_eqb_refl; auto using N.eqb_refl, Nat.eqb_refl.
Qed.

Lemma with_fam_back x n : with_fam (fam x) (with_fam n x) = x.
Proof. destruct x. reflexivity. Qed.

Theorem unpickle_refines_spec n t used :
  (forall f, In f used -> (f < n)%nat) ->
  exists r n', unpickle n t = Some (r, n')
               /\ restored_like (abs t) (abs r) = true /\ fresh_fam used (abs r) = true.
Proof.
  intro Hu. destruct (unpickle_eq n t) as [n' [H _]]. exists (restore n t), n'. split; auto.
  rewrite abs_restore. split.
  - unfold restored_like. rewrite with_fam_back. apply table_eqb_refl.
  - unfold fresh_fam. simpl. destruct (mem_nat n used) eqn:E; auto.
    apply mem_nat_In in E. apply Hu in E. lia.
Qed.
