(* Proofs for C18, part 2: the L1 models of normalize_time, interpolate, baseline and z (Model/Series.v, on the
   kernels regenerated from series.py) refine the L0 formulas of Spec/Series.v for all inputs -- any number of rows,
   any depth -- and the L0 z-transform has mean 0 and standard deviation 1. *)
From Coq Require Import ZArith QArith List Bool Lia Field.
From DM Require Import Spec.Series Gen.KSeries Model.Series Proofs.SeriesFacts.
Import ListNotations.
Local Open Scope nat_scope.

(* ---------- normalize_time: L1 refines L0 --------------------------------- *)
Section NormTimeFacts.
  Variable V : Type.
  Notation sample := (option V).
  Notation row := (list (option V)).

  Definition somes (ts : list (option Z)) : list Z :=
    flat_map (fun t => match t with Some z => [z] | None => [] end) ts.

  (* the characterising lemma of the kernel: the depth is the largest timestamp plus one *)
  Lemma k_nt_depth_spec : forall m, k_nt_depth m = (m + 1)%Z.
  Proof. intros. unfold k_nt_depth. lia. Qed.

  (* value scattered to index j by the pairs (t, v), `dflt` when no t equals j *)
  Fixpoint pick (nd : list Z) (vs : row) (j : Z) (dflt : sample) : sample :=
    match nd, vs with
    | t :: nd', v :: vs' => if (t =? j)%Z then v else pick nd' vs' j dflt
    | _, _ => dflt
    end.

  Fixpoint inc_from (prev : Z) (nd : list Z) : Prop :=
    match nd with [] => True | t :: r => (prev < t)%Z /\ inc_from t r end.

  Lemma inc_from_lt : forall nd prev t, inc_from prev nd -> In t nd -> (prev < t)%Z.
  Proof.
    induction nd as [|a nd IH]; simpl; intros prev t H Hin; [contradiction|].
    destruct H as [H1 H2]. destruct Hin as [->|Hin]; [assumption|]. specialize (IH a t H2 Hin). lia.
  Qed.

  Lemma pick_notin : forall nd vs j dflt, ~ In j nd -> pick nd vs j dflt = dflt.
  Proof.
    induction nd as [|t nd IH]; intros vs j dflt Hn; [reflexivity|]. destruct vs as [|v vs]; [reflexivity|].
    simpl. destruct (Z.eqb_spec t j) as [E|E]; [exfalso; apply Hn; now left|]. apply IH. intro; apply Hn; now right.
  Qed.

  Lemma strictly_inc_of_inc_from : forall nd prev, inc_from prev nd -> strictly_inc nd = true.
  Proof.
    induction nd as [|a nd IH]; intros prev H; [reflexivity|]. destruct H as [_ H]. destruct nd as [|b nd]; [reflexivity|].
    simpl in *. destruct H as [H1 H2]. apply andb_true_iff. split; [now apply Z.ltb_lt|]. apply (IH a). now split.
  Qed.

  Lemma nth_set_nth_same : forall {X} i (v d : X) l, i < length l -> nth i (set_nth i v l) d = v.
  Proof. induction i; intros v d [|x l] H; simpl in *; try lia; [reflexivity|]. apply IHi. lia. Qed.
  Lemma nth_set_nth_other : forall {X} i j (v d : X) l, i <> j -> nth j (set_nth i v l) d = nth j l d.
  Proof.
    induction i; intros j v d [|x l] H; simpl; try reflexivity.
    - destruct j; [congruence|reflexivity].
    - destruct j; [reflexivity|]. apply IHi. lia.
  Qed.
  Lemma set_nth_length : forall {X} i (v : X) l, length (set_nth i v l) = length l.
  Proof. induction i; intros v [|x l]; simpl; try reflexivity. now rewrite IHi. Qed.

  Lemma list_as_nth_map : forall {X} (d : X) l, l = map (fun j => nth j l d) (seq 0 (length l)).
  Proof.
    induction l as [|x l IH]; [reflexivity|]. simpl. f_equal. rewrite <- seq_shift, map_map. exact IH.
  Qed.

  (* the loop body `series._seq[row, indices] = values` for increasing in-range indices *)
  Lemma scatter_spec : forall D nd (vs acc : row) prev,
    length nd = length vs -> length acc = D -> inc_from prev nd -> (-1 <= prev)%Z ->
    (forall t, In t nd -> (t < Z.of_nat D)%Z) ->
    scatter D nd vs acc = Some (map (fun j => pick nd vs (Z.of_nat j) (nth j acc None)) (seq 0 D)).
  Proof.
    intros D nd. induction nd as [|t nd IH]; intros vs acc prev Hl Ha Hinc Hp Hb.
    - destruct vs; [|discriminate]. simpl. f_equal. rewrite <- Ha. clear.
      apply list_as_nth_map.
    - destruct vs as [|v vs]; [discriminate|]. destruct Hinc as [Hlt Hinc]. simpl scatter.
      destruct (Z.ltb_spec t 0); [lia|].
      assert (Ht : (t < Z.of_nat D)%Z) by (apply Hb; now left).
      replace (Nat.min (Z.to_nat t) D) with (Z.to_nat t) by lia.
      destruct (Nat.ltb_spec (Z.to_nat t) D); [|lia].
      rewrite (IH vs (set_nth (Z.to_nat t) v acc) t); try assumption; try lia.
      + f_equal. apply map_ext_in. intros j Hj. apply in_seq in Hj. simpl pick.
        destruct (Z.eqb_spec t (Z.of_nat j)) as [E|E].
        * rewrite pick_notin.
          -- replace j with (Z.to_nat t) by lia. apply nth_set_nth_same. lia.
          -- intro Hin. pose proof (inc_from_lt _ _ _ Hinc Hin). lia.
        * f_equal. apply nth_set_nth_other. lia.
      + simpl in Hl. lia.
      + now rewrite set_nth_length.
      + intros; apply Hb; now right.
  Qed.

  Lemma forallb_none_repeat : forall r : list (option Z),
    forallb (fun t => match t with None => true | _ => false end) r = true -> r = repeat None (length r).
  Proof.
    induction r as [|[z|] r IH]; simpl; intros H; [reflexivity|discriminate|]. f_equal. now apply IH.
  Qed.

  (* timestamps the property quantifies over: an increasing run of integers, then NaN only *)
  Lemma times_decomp : forall ts prev, increasing prev ts = true ->
    exists nd k, ts = map Some nd ++ repeat None k /\ inc_from prev nd.
  Proof.
    induction ts as [|[t|] ts IH]; intros prev H.
    - exists [], 0. now split.
    - simpl in H. apply andb_true_iff in H. destruct H as [H1 H2]. apply Z.ltb_lt in H1.
      destruct (IH t H2) as (nd & k & E & Hi). exists (t :: nd), k. split; [simpl; now rewrite <- E|now split].
    - simpl in H. exists [], (S (length ts)). split; [|exact I]. simpl. f_equal. now apply forallb_none_repeat.
  Qed.

  Lemma leading_repeat_app : forall k (l : list (option Z)),
    leading (@isnone Z) (repeat None k ++ l) = k + leading (@isnone Z) l.
  Proof. induction k; intros; simpl; [reflexivity|]. now rewrite IHk. Qed.

  Lemma leading_rev_somes : forall nd : list Z, leading (@isnone Z) (rev (map Some nd)) = 0.
  Proof.
    intros nd. rewrite <- map_rev. destruct (rev nd); reflexivity.
  Qed.

  Lemma trailing_nones : forall (nd : list Z) k,
    leading (@isnone Z) (rev (map Some nd ++ repeat None k)) = k.
  Proof.
    intros. rewrite rev_app_distr, rev_repeat_eq, leading_repeat_app, leading_rev_somes. lia.
  Qed.

  Lemma all_some_somes : forall {X} (l : list X), all_some (map Some l) = Some l.
  Proof. induction l; simpl; [reflexivity|]. now rewrite IHl. Qed.

  Lemma at_time_pick : forall nd k (vs : row) j, length nd <= length vs ->
    at_time (map Some nd ++ repeat None k) vs j = pick nd (firstn (length nd) vs) j None.
  Proof.
    induction nd as [|t nd IH]; intros k vs j Hl.
    - simpl. destruct k; simpl; [reflexivity|]. reflexivity.
    - destruct vs as [|v vs]; [simpl in Hl; lia|]. simpl. destruct (Z.eqb_spec t j); [reflexivity|].
      apply IH. simpl in Hl. lia.
  Qed.

  Lemma nth_nans : forall j D, nth j (nans D : row) None = None.
  Proof. intros. unfold nans. revert j. induction D; intros [|j]; simpl; auto. Qed.

  (* one row: timestamps inside the property and below the depth *)
  Lemma nt_row_spec : forall D ts (vs : row),
    times_ok ts = true -> length ts = length vs ->
    (forall t, In (Some t) ts -> (t < Z.of_nat D)%Z) ->
    nt_row1 D ts vs = Some (normalize_time_row D ts vs).
  Proof.
    intros D ts vs Hok Hl Hb. unfold times_ok in Hok. destruct (times_decomp _ _ Hok) as (nd & k & E & Hinc).
    subst ts. unfold nt_row1, normalize_time_row.
    change (@Model.Series.isnone Z) with (@isnone Z).
    rewrite trailing_nones. rewrite app_length, map_length, repeat_length in *.
    replace (length nd + k - k) with (length nd) by lia.
    rewrite <- (map_length Some nd) at 1. rewrite firstn_app_exact, all_some_somes.
    rewrite (strictly_inc_of_inc_from nd (-1)%Z Hinc).
    rewrite <- Hl. replace (length nd + k - k) with (length nd) by lia.
    rewrite (scatter_spec D nd (firstn (length nd) vs) (nans D) (-1)%Z); try assumption; try lia.
    - f_equal. apply map_ext. intros j. rewrite nth_nans. symmetry. apply at_time_pick. lia.
    - rewrite firstn_length. lia.
    - unfold nans. now rewrite repeat_length.
    - intros t Hin. apply Hb. apply in_or_app. left. now apply in_map.
  Qed.

  Lemma fold_max_ge_init : forall l a, (a <= fold_left Z.max l a)%Z.
  Proof. induction l; intros; simpl; [lia|]. specialize (IHl (Z.max a0 a)). lia. Qed.
  Lemma fold_max_ge : forall l a t, In t l -> (t <= fold_left Z.max l a)%Z.
  Proof.
    induction l as [|x l IH]; intros a t H; [contradiction|]. simpl. destruct H as [->|H].
    - pose proof (fold_max_ge_init l (Z.max a t)). lia.
    - now apply IH.
  Qed.

  Lemma in_somes : forall ts t, In t (somes ts) <-> In (Some t) ts.
  Proof.
    intros ts t. unfold somes. rewrite in_flat_map. split.
    - intros ([z|] & H1 & H2); simpl in H2; [|contradiction]. destruct H2 as [->|[]]. assumption.
    - intros H. exists (Some t). split; [assumption|now left].
  Qed.

  Lemma times_ok_nonneg : forall ts t, times_ok ts = true -> In (Some t) ts -> (0 <= t)%Z.
  Proof.
    intros ts t Hok Hin. destruct (times_decomp _ _ Hok) as (nd & k & E & Hinc). subst ts.
    apply in_app_or in Hin. destruct Hin as [Hin|Hin].
    - apply in_map_iff in Hin. destruct Hin as (x & Ex & Hx). inversion Ex; subst x.
      pose proof (inc_from_lt _ _ _ Hinc Hx). lia.
    - apply repeat_spec in Hin. discriminate.
  Qed.

  Theorem normalize_time_spec_L1 : forall d (s : list row) tss,
    forallb times_ok tss = true -> wf_series d s = true -> wf_series d tss = true ->
    has_time tss = true ->
    normalize_time1 d s tss = Some (normalize_time s tss).
  Proof.
    intros d s tss Hok Hs Ht Hex. unfold normalize_time1, normalize_time, tmax.
    change (flat_map (fun ts => flat_map (fun t => match t with Some z => [z] | None => [] end) ts) tss)
      with (flat_map somes tss).
    set (all := flat_map somes tss).
    rewrite forallb_forall in Hok. unfold wf_series in *. rewrite forallb_forall in Hs, Ht.
    assert (Hall : forall t, In t all -> exists ts, In ts tss /\ In (Some t) ts).
    { intros t H. apply in_flat_map in H. destruct H as (ts & H1 & H2). exists ts. split; [assumption|now apply in_somes]. }
    assert (Hnn : forall t, In t all -> (0 <= t)%Z).
    { intros t H. destruct (Hall t H) as (ts & H1 & H2). apply (times_ok_nonneg ts); [now apply Hok|assumption]. }
    assert (Hneg : existsb (fun t => (t <? 0)%Z) all = false).
    { apply not_true_is_false. intro H. apply existsb_exists in H. destruct H as (t & H1 & H2).
      apply Z.ltb_lt in H2. specialize (Hnn t H1). lia. }
    rewrite Hneg.
    assert (Hne : all <> []).
    { apply existsb_exists in Hex. destruct Hex as (ts & H1 & H2). apply existsb_exists in H2.
      destruct H2 as ([t|] & H2 & H3); [|discriminate]. intro E.
      assert (In t all) by (apply in_flat_map; exists ts; split; [assumption|now apply in_somes]).
      rewrite E in H. contradiction. }
    destruct all as [|x r] eqn:Eall; [congruence|]. simpl py_max. cbv iota.
    assert (Hx : (0 <= x)%Z) by (apply Hnn; now left).
    simpl fold_left. replace (Z.max 0 x) with x by lia. rewrite k_nt_depth_spec.
    set (mx := fold_left Z.max r x).
    apply all_some_map_Some. intros [vs ts] Hin. simpl.
    pose proof (in_combine_l _ _ _ _ Hin) as Hvs. pose proof (in_combine_r _ _ _ _ Hin) as Hts.
    apply nt_row_spec.
    - now apply Hok.
    - apply Hs in Hvs. apply Ht in Hts. apply Nat.eqb_eq in Hvs, Hts. congruence.
    - intros t Hin'. assert (Ha : In t (x :: r)).
      { rewrite <- Eall. apply in_flat_map. exists ts. split; [assumption|now apply in_somes]. }
      assert ((t <= mx)%Z).
      { unfold mx. destruct Ha as [->|Ha]; [apply fold_max_ge_init|now apply fold_max_ge]. }
      assert ((0 <= mx)%Z) by (unfold mx; pose proof (fold_max_ge_init r x); lia). lia.
  Qed.
End NormTimeFacts.

(* ---------- interpolate: L1 refines L0 ------------------------------------ *)
Lemma sample_equiv_refl : forall a, sample_equiv a a.
Proof. intros [x|]; simpl; [reflexivity|exact I]. Qed.
Lemma row_equiv_refl : forall r, row_equiv r r.
Proof. induction r; constructor; [apply sample_equiv_refl|assumption]. Qed.

(* the characterising lemma of the kernel (a = number of NaN samples, b = depth); any equivalent test proves it *)
Lemma k_ip_allnan_spec : forall a b, (0 <= a <= b)%Z -> (k_ip_allnan a b = true <-> a = b).
Proof.
  intros a b H. unfold k_ip_allnan.
  rewrite ?Z.eqb_eq, ?Z.geb_le, ?Z.leb_le, ?Z.gtb_lt, ?Z.ltb_lt, ?negb_true_iff, ?Z.leb_gt, ?Z.ltb_ge. lia.
Qed.

(* valid samples with their positions (positions as naturals) *)
Fixpoint vp (i : nat) (r : qrow) : list (nat * Q) :=
  match r with
  | [] => []
  | Some q :: r' => (i, q) :: vp (S i) r'
  | None :: r' => vp (S i) r'
  end.
Definition zq (p : nat * Q) : Z * Q := (Z.of_nat (fst p), snd p).
Definition lastp {X} (acc : option X) (l : list X) : option X := fold_left (fun _ p => Some p) l acc.

Lemma valid_points_vp : forall r i, valid_points (Z.of_nat i) r = map zq (vp i r).
Proof.
  induction r as [|[q|] r IH]; intros i; simpl; [reflexivity| |];
    replace (Z.of_nat i + 1)%Z with (Z.of_nat (S i)) by lia; now rewrite IH.
Qed.

Lemma vp_app : forall A B i, vp i (A ++ B) = vp i A ++ vp (i + length A) B.
Proof.
  induction A as [|[q|] A IH]; intros B i; simpl.
  - now rewrite Nat.add_0_r.
  - rewrite IH. do 3 f_equal. lia.
  - rewrite IH. do 2 f_equal. lia.
Qed.

Lemma vp_bounds : forall r i p, In p (vp i r) -> i <= fst p < i + length r.
Proof.
  induction r as [|[q|] r IH]; intros i p H; simpl in *; [contradiction| |].
  - destruct H as [<-|H]; [simpl; lia|]. apply IH in H. lia.
  - apply IH in H. lia.
Qed.

Lemma lastp_cons_indep : forall {X} (p : X) l a b, lastp a (p :: l) = lastp b (p :: l).
Proof. reflexivity. Qed.

Lemma lastp_in : forall {X} (l : list X) p, lastp None l = Some p -> In p l.
Proof.
  intros X l. induction l as [|x l IH] using rev_ind; intros p H; [discriminate|].
  unfold lastp in H. rewrite fold_left_app in H. simpl in H. inversion H; subst. apply in_or_app. right. now left.
Qed.

Lemma lastp_none : forall {X} (l : list X), lastp None l = None -> l = [].
Proof.
  intros X l. destruct l as [|x l] using rev_ind; [reflexivity|]. intros H. unfold lastp in H.
  rewrite fold_left_app in H. discriminate.
Qed.

Lemma lastp_map : forall {X Y} (f : X -> Y) l acc, lastp (option_map f acc) (map f l) = option_map f (lastp acc l).
Proof. induction l; intros acc; simpl; [reflexivity|]. apply (IHl (Some a)). Qed.

Lemma prev_valid_vp : forall stop r i acc, prev_valid i acc r stop = lastp acc (vp i (firstn stop r)).
Proof.
  induction stop as [|stop IH]; intros r i acc; [destruct r; reflexivity|].
  destruct r as [|[q|] r]; simpl; [reflexivity| |]; apply IH.
Qed.

Lemma next_valid_vp : forall r i, next_valid i r = hd_error (vp i r).
Proof. induction r as [|[q|] r IH]; intros i; simpl; [reflexivity|reflexivity|apply IH]. Qed.

Lemma np_interp_cons2 : forall x0 y0 x1 y1 r x,
  np_interp ((x0, y0) :: (x1, y1) :: r) x =
  if (x <=? x0)%Z then y0 else
  if (x <? x1)%Z then ((y1 - y0) / inject_Z (x1 - x0) * inject_Z (x - x0) + y0)%Q else np_interp ((x1, y1) :: r) x.
Proof. reflexivity. Qed.

(* np.interp on increasing sample points, at a position x that lies strictly between the points of P and of N *)
Lemma np_interp_split : forall P N x,
  (forall p, In p P -> (fst p < x)%Z) -> (forall n, hd_error N = Some n -> (x < fst n)%Z) ->
  np_interp (P ++ N) x =
    match lastp None P, N with
    | Some (p, a), (q, b) :: _ => ((b - a) / inject_Z (q - p) * inject_Z (x - p) + a)%Q
    | Some (_, a), [] => a
    | None, (_, b) :: _ => b
    | None, [] => 0%Q
    end.
Proof.
  induction P as [|[x0 y0] P IH]; intros N x HP HN.
  - simpl. destruct N as [|[q b] N]; [reflexivity|]. simpl. specialize (HN (q, b) eq_refl). simpl in HN.
    destruct (Z.leb_spec x q); [reflexivity|lia].
  - assert (H0 : (x0 < x)%Z) by (apply (HP (x0, y0)); now left).
    destruct P as [|[x1 y1] P].
    + simpl. destruct (Z.leb_spec x x0); [lia|].
      destruct N as [|[q b] N]; [reflexivity|]. specialize (HN (q, b) eq_refl). simpl in HN.
      destruct (Z.ltb_spec x q); [reflexivity|lia].
    + assert (H1 : (x1 < x)%Z) by (apply (HP (x1, y1)); right; now left).
      change (((x0, y0) :: (x1, y1) :: P) ++ N) with ((x0, y0) :: (x1, y1) :: (P ++ N)).
      rewrite np_interp_cons2. destruct (Z.leb_spec x x0); [lia|]. destruct (Z.ltb_spec x x1); [lia|].
      change ((x1, y1) :: P ++ N) with (((x1, y1) :: P) ++ N). rewrite IH; [reflexivity| |assumption].
      intros p Hp. apply HP. now right.
Qed.

Lemma inject_Z_nonzero : forall z, z <> 0%Z -> ~ inject_Z z == 0.
Proof. intros z Hz H. unfold Qeq, inject_Z in H. simpl in H. lia. Qed.

(* the samples from position |A| on *)
Lemma fill_nans_spec : forall B A,
  vp 0 (A ++ B) <> [] ->
  row_equiv (fill_nans (valid_points 0 (A ++ B)) (Z.of_nat (length A)) B)
            (map (interp_at (A ++ B)) (seq (length A) (length B))).
Proof.
  induction B as [|x B IH]; intros A Hne; [constructor|].
  assert (Etail : forall x' : unit, row_equiv (fill_nans (valid_points 0 (A ++ x :: B)) (Z.of_nat (length A) + 1) B)
                                  (map (interp_at (A ++ x :: B)) (seq (S (length A)) (length B)))).
  { intros _. specialize (IH (A ++ [x])). rewrite <- app_assoc in IH. simpl in IH.
    rewrite app_length in IH. simpl in IH. rewrite Nat.add_1_r in IH.
    replace (Z.of_nat (length A) + 1)%Z with (Z.of_nat (S (length A))) by lia. now apply IH. }
  assert (Hnth : nth (length A) (A ++ x :: B) None = x) by (rewrite app_nth2 by lia; now rewrite Nat.sub_diag).
  destruct x as [q|]; simpl; constructor; try apply (Etail tt).
  - unfold interp_at. rewrite Hnth. simpl. reflexivity.
  - unfold interp_at. rewrite Hnth.
    rewrite prev_valid_vp, firstn_app_exact.
    rewrite next_valid_vp. rewrite skipn_app_exact. simpl vp.
    change 0%Z with (Z.of_nat 0). rewrite valid_points_vp, vp_app, map_app. simpl vp. rewrite ?Nat.add_0_l.
    rewrite vp_app in Hne. simpl vp in Hne. rewrite ?Nat.add_0_l in Hne.
    rewrite np_interp_split.
    + change (@None (Z * Q)) with (option_map zq None). rewrite lastp_map.
      destruct (lastp None (vp 0 A)) as [[p a]|] eqn:EP; destruct (vp (S (length A)) B) as [|[q' b] N] eqn:EN; simpl.
      * reflexivity.
      * apply lastp_in in EP. apply vp_bounds in EP. simpl in EP.
        assert (HN : In (q', b) (vp (S (length A)) B)) by (rewrite EN; now left). apply vp_bounds in HN. simpl in HN.
        assert (Hd : ~ inject_Z (Z.of_nat q' - Z.of_nat p) == 0) by (apply inject_Z_nonzero; lia).
        field. exact Hd.
      * apply lastp_none in EP. rewrite EP in Hne. simpl in Hne. congruence.
      * reflexivity.
    + intros p Hp. apply in_map_iff in Hp. destruct Hp as (p' & <- & Hp). apply vp_bounds in Hp. simpl. lia.
    + intros n Hn. destruct (vp (S (length A)) B) as [|p' N] eqn:EN; [discriminate|]. simpl in Hn. inversion Hn; subst n.
      assert (HN : In p' (vp (S (length A)) B)) by (rewrite EN; now left). apply vp_bounds in HN. simpl. lia.
Qed.

Lemma filter_isnan_length_le : forall r : qrow, length (filter (@isnan Q) r) <= length r.
Proof. induction r as [|[q|] r IH]; simpl; lia. Qed.

Lemma all_nan_repeat : forall r : qrow, length (filter (@isnan Q) r) = length r -> r = repeat None (length r).
Proof.
  induction r as [|[q|] r IH]; simpl; intros H; [reflexivity| |].
  - pose proof (filter_isnan_length_le r). lia.
  - f_equal. apply IH. lia.
Qed.

Lemma vp_nil_all_nan : forall r i, vp i r = [] -> length (filter (@isnan Q) r) = length r.
Proof. induction r as [|[q|] r IH]; intros i H; simpl in *; [reflexivity|discriminate|]. f_equal. now apply (IH (S i)). Qed.

Lemma prev_valid_nones : forall n stop i acc, prev_valid i acc (repeat None n) stop = acc.
Proof. induction n; intros [|stop] i acc; simpl; try reflexivity. apply IHn. Qed.
Lemma next_valid_nones : forall n i, next_valid i (repeat None n) = None.
Proof. induction n; intros i; simpl; [reflexivity|apply IHn]. Qed.
Lemma skipn_repeat : forall {X} (a : X) n i, skipn i (repeat a n) = repeat a (n - i).
Proof. induction n; intros [|i]; simpl; try reflexivity. apply IHn. Qed.
Lemma nth_repeat_none : forall n i, nth i (repeat (@None Q) n) None = None.
Proof. induction n; intros [|i]; simpl; auto. Qed.

Lemma interp_at_nones : forall n i, interp_at (repeat None n) i = None.
Proof.
  intros. unfold interp_at. rewrite nth_repeat_none, prev_valid_nones, skipn_repeat, next_valid_nones. reflexivity.
Qed.

(* _interpolate on one row *)
Theorem interpolate_row_spec : forall y : qrow, row_equiv (interpolate_row1 y) (interpolate_row y).
Proof.
  intros y. unfold interpolate_row1, interpolate_row.
  destruct (k_ip_allnan (lenZ (filter isnan y)) (lenZ y)) eqn:E.
  - apply k_ip_allnan_spec in E; [|unfold lenZ; pose proof (filter_isnan_length_le y); lia].
    unfold lenZ in E. apply Nat2Z.inj in E. apply all_nan_repeat in E.
    remember (length y) as n eqn:En. clear En. subst y. rewrite ?repeat_length.
    rewrite (map_ext_in _ (fun _ => None)) by (intros; apply interp_at_nones).
    clear. generalize 0. induction n; intros k; simpl; [constructor|]. constructor; [exact I|apply IHn].
  - assert (Hne : vp 0 y <> []).
    { intro H. apply vp_nil_all_nan in H. assert (k_ip_allnan (lenZ (filter isnan y)) (lenZ y) = true)
        by (apply k_ip_allnan_spec; unfold lenZ; rewrite ?H; lia). congruence. }
    exact (fill_nans_spec y [] Hne).
Qed.

Lemma Forall2_len : forall {X Y} (R : X -> Y -> Prop) a b, Forall2 R a b -> length a = length b.
Proof. induction 1; simpl; congruence. Qed.

Lemma interpolate_row1_length : forall y : qrow, length (interpolate_row1 y) = length y.
Proof.
  intros y. pose proof (interpolate_row_spec y) as H. apply Forall2_len in H. rewrite H.
  unfold interpolate_row. now rewrite map_length, seq_length.
Qed.

(* interpolate: through _SeriesColumn._map; equal to the L0 formula up to equality of rationals *)
Theorem interpolate_spec_L1 : forall (s : list qrow) d,
  s <> [] -> wf_series d s = true ->
  exists out, interpolate1 s = Some out /\ rows_equiv out (interpolate s).
Proof.
  intros s d Hne Hwf. exists (rowwise interpolate_row1 s). split.
  - unfold interpolate1. apply (smap_spec Q interpolate_row1 d); [assumption|].
    intros c Hc. rewrite interpolate_row1_length. unfold wf_series in Hwf. rewrite forallb_forall in Hwf.
    now apply Nat.eqb_eq, Hwf.
  - unfold interpolate, rowwise, rows_equiv. clear. induction s; simpl; constructor; [apply interpolate_row_spec|assumption].
Qed.

(* ---------- baseline: L1 refines L0 --------------------------------------- *)
Lemma broadcast_row : forall (op : Q -> Q -> Q) (r : qrow) x d, length r = d ->
  map (fun xy => lift2 op (fst xy) (snd xy)) (combine r (repeat x d)) = map (fun v => lift2 op v x) r.
Proof.
  intros op r x d <-. induction r as [|v r IH]; simpl; [reflexivity|]. now rewrite IH.
Qed.

Lemma combine_map_r : forall {X Y Z} (f : Y -> Z) (a : list X) (b : list Y),
  combine a (map f b) = map (fun p => (fst p, f (snd p))) (combine a b).
Proof. induction a; intros [|y b]; simpl; try reflexivity. now rewrite IHa. Qed.

Theorem baseline_spec_L1 : forall d dbl divisive red lo hi (s bl : list qrow),
  Nat.eqb (length s) (length bl) = true -> wf_series d s = true -> wf_series dbl bl = true ->
  baseline1 d dbl divisive red lo hi s bl = Some (baseline divisive red lo hi s bl).
Proof.
  intros d dbl divisive red lo hi s bl Hl Hs Hb. apply Nat.eqb_eq in Hl.
  unfold wf_series in *. rewrite forallb_forall in Hs, Hb.
  unfold baseline1, reduce1. rewrite (window_spec_L1 Q dbl lo hi bl) by (intros r Hr; now apply Nat.eqb_eq, Hb).
  unfold window, rowwise. rewrite !map_length, Hl, Nat.eqb_refl. simpl. f_equal.
  unfold baseline. rewrite !map_map, combine_map_r, map_map. apply map_ext_in. intros [r b] Hin. simpl.
  unfold baseline_row, window_row. apply broadcast_row.
  apply in_combine_l in Hin. now apply Nat.eqb_eq, Hs.
Qed.

(* the formula, per sample: x - b (or x / b) where b is the reduced baseline window; NaN stays NaN *)
Theorem baseline_row_nth : forall divisive red lo hi (r bl : qrow) i, i < length r ->
  nth i (baseline_row divisive red lo hi r bl) None
  = lift2 (if divisive then Qdiv else Qminus) (nth i r None) (red (pyslice (Some lo) hi bl)).
Proof.
  intros. unfold baseline_row.
  rewrite nth_indep with (d' := lift2 (if divisive then Qdiv else Qminus) None (red (pyslice (Some lo) hi bl)))
    by now rewrite map_length.
  apply (map_nth (fun x => lift2 (if divisive then Qdiv else Qminus) x (red (pyslice (Some lo) hi bl)))).
Qed.

(* ---------- z: L1 refines L0; the L0 formula gives mean 0 and standard deviation 1 ---------- *)
Lemma z_row1_spec : forall nanstd sd (a : qrow), nanstd a = Some sd -> z_row1 nanstd a = z_row sd a.
Proof.
  intros nanstd sd a H. unfold z_row1, z_row. rewrite H, map_map. apply map_ext. intros [x|]; [|reflexivity].
  destruct (nanmean a); reflexivity.
Qed.

Theorem z_spec_L1 : forall (nanstd : qrow -> option Q) (sdf : qrow -> Q) (s : list qrow) d,
  s <> [] -> wf_series d s = true -> (forall r, In r s -> nanstd r = Some (sdf r)) ->
  z1 nanstd s = Some (map (fun r => z_row (sdf r) r) s).
Proof.
  intros nanstd sdf s d Hne Hwf Hsd. unfold z1.
  rewrite (smap_spec Q (z_row1 nanstd) d); [| assumption |].
  - f_equal. unfold rowwise. apply map_ext_in. intros r Hr. apply z_row1_spec. now apply Hsd.
  - intros c Hc. unfold z_row1. rewrite !map_length. unfold wf_series in Hwf. rewrite forallb_forall in Hwf.
    now apply Nat.eqb_eq, Hwf.
Qed.

Local Open Scope Q_scope.

Lemma qsum_ext : forall (f g : Q -> Q) l, (forall a, f a == g a) -> qsum (map f l) == qsum (map g l).
Proof. intros f g l H. induction l; simpl; [reflexivity|]. now rewrite IHl, H. Qed.

Lemma qsum_affine : forall (m c : Q) l, ~ c == 0 ->
  qsum (map (fun a => (a - m) / c) l) == (qsum l - qlen l * m) / c.
Proof.
  intros m c l Hc. unfold qlen. induction l as [|x l IH].
  - simpl. field. exact Hc.
  - simpl qsum. rewrite IH. simpl length. rewrite Nat2Z.inj_succ, <- Z.add_1_r, inject_Z_plus. field. exact Hc.
Qed.

Lemma qsum_scale : forall (f : Q -> Q) (c : Q) l, ~ c == 0 ->
  qsum (map (fun a => f a / c) l) == qsum (map f l) / c.
Proof.
  intros f c l Hc. induction l as [|x l IH]; simpl.
  - field. exact Hc.
  - rewrite IH. field. exact Hc.
Qed.

Definition olift (f : Q -> Q) (x : option Q) : option Q := match x with Some q => Some (f q) | None => None end.
Lemma valid_lift : forall (f : Q -> Q) (r : qrow), valid (map (olift f) r) = map f (valid r).
Proof.
  induction r as [|[q|] r IH]; simpl; [reflexivity| |assumption]. unfold valid in *. simpl. now rewrite IH.
Qed.

Lemma nanmean_valid : forall r : qrow, valid r <> [] -> nanmean r = Some (qsum (valid r) / qlen (valid r)).
Proof. intros r H. unfold nanmean. destruct (valid r); [congruence|reflexivity]. Qed.

Lemma qlen_nonzero : forall l : list Q, l <> [] -> ~ qlen l == 0.
Proof.
  intros l H. unfold qlen. destruct l; [congruence|]. intro E. unfold Qeq, inject_Z in E. simpl in E. lia.
Qed.

Lemma qlen_map : forall (f : Q -> Q) l, qlen (map f l) = qlen l.
Proof. intros. unfold qlen. now rewrite map_length. Qed.

(* "z gives every row mean 0 and standard deviation 1": for every row with a non-zero standard deviation sd *)
Theorem z_mean0_sd1 : forall (r : qrow) sd, is_std sd r = true ->
  exists m v, nanmean (z_row sd r) = Some m /\ m == 0 /\ nanvar (z_row sd r) = Some v /\ v == 1.
Proof.
  intros r sd H. unfold is_std in H. destruct (nanvar r) as [v0|] eqn:Ev; [|discriminate].
  apply andb_true_iff in H. destruct H as [H Hnz]. apply andb_true_iff in H. destruct H as [Hsq _].
  apply Qeq_bool_iff in Hsq. apply negb_true_iff in Hnz.
  assert (Hsd : ~ sd == 0) by (intro E; apply Qeq_bool_iff in E; congruence).
  unfold nanvar in Ev. destruct (nanmean r) as [m|] eqn:Em; [|discriminate].
  assert (Hv : valid r <> []) by (intro E; unfold nanmean in Em; rewrite E in Em; discriminate).
  rewrite (nanmean_valid r Hv) in Em. inversion Em as [Em']. clear Em.
  set (vs := valid r) in *. pose proof (qlen_nonzero vs Hv) as Hn.
  (* the variance of r *)
  change (map (fun x => match x with Some q => Some ((q - m) * (q - m)) | None => None end) r)
    with (map (olift (fun q => (q - m) * (q - m))) r) in Ev.
  assert (Hv2 : valid (map (olift (fun q => (q - m) * (q - m))) r) <> []).
  { rewrite valid_lift. fold vs. destruct vs; [congruence|discriminate]. }
  rewrite (nanmean_valid _ Hv2), valid_lift in Ev. fold vs in Ev. rewrite qlen_map in Ev. inversion Ev as [Ev']. clear Ev Hv2.
  set (S := qsum (map (fun q => (q - m) * (q - m)) vs)) in *.
  (* the z-scores *)
  assert (Ez : z_row sd r = map (olift (fun a => (a - m) / sd)) r).
  { unfold z_row. rewrite (nanmean_valid r Hv). fold vs. rewrite Em'. apply map_ext. intros [x|]; reflexivity. }
  assert (Hvz : valid (z_row sd r) = map (fun a => (a - m) / sd) vs) by (rewrite Ez; apply valid_lift).
  assert (Hvzne : valid (z_row sd r) <> []) by (rewrite Hvz; destruct vs; [congruence|discriminate]).
  set (m' := qsum (valid (z_row sd r)) / qlen (valid (z_row sd r))).
  assert (Hm' : m' == 0).
  { unfold m'. rewrite Hvz, qlen_map, qsum_affine by exact Hsd. rewrite <- Em'. field. split; assumption. }
  exists m'. unfold nanvar. rewrite (nanmean_valid _ Hvzne). fold m'.
  change (map (fun x => match x with Some q => Some ((q - m') * (q - m')) | None => None end) (z_row sd r))
    with (map (olift (fun q => (q - m') * (q - m'))) (z_row sd r)).
  assert (Hv3 : valid (map (olift (fun q => (q - m') * (q - m'))) (z_row sd r)) <> []).
  { rewrite valid_lift, Hvz. destruct vs; [congruence|discriminate]. }
  eexists. split; [reflexivity|]. split; [exact Hm'|]. split; [apply (nanmean_valid _ Hv3)|].
  rewrite valid_lift, Hvz, qlen_map, qlen_map, map_map.
  rewrite (qsum_ext _ (fun a => (a - m) * (a - m) / (sd * sd))).
  - rewrite (qsum_scale (fun a => (a - m) * (a - m)) (sd * sd)).
    + fold S. assert (HS : S == sd * sd * qlen vs) by (rewrite Hsq, <- Ev'; field; exact Hn).
      rewrite HS. field. split; assumption.
    + intro E. apply Hsd. destruct (Qmult_integral _ _ E); assumption.
  - intros a. rewrite Hm'. field. exact Hsd.
Qed.

Local Close Scope Q_scope.
Local Open Scope nat_scope.

(* ---------- concatenate: L1 refines L0 ------------------------------------ *)
Section ConcatRefine.
  Variable V : Type.
  Notation row := (list (option V)).
  Notation series := (list (list (option V))).

  (* characterising lemmas of the kernels *)
  Lemma k_cat_spec : forall i d, k_cat_lo i d = i /\ k_cat_hi i d = (i + d)%Z /\ k_cat_next i d = (i + d)%Z.
  Proof. intros. unfold k_cat_lo, k_cat_hi, k_cat_next. lia. Qed.
  Lemma k_cat_start_spec : k_cat_start = 0%Z.
  Proof. reflexivity. Qed.

  Definition zipapp (a b : series) : series := map (fun p => fst p ++ snd p) (combine a b).
  Fixpoint joinrows (n : nat) (ss : list series) : series :=
    match ss with [] => repeat [] n | s :: rest => zipapp s (joinrows n rest) end.
  Definition sumd (ss : list (nat * series)) : nat := fold_right Nat.add 0 (map fst ss).

  Lemma zipapp_length : forall a b, length a = length b -> length (zipapp a b) = length a.
  Proof. intros. unfold zipapp. rewrite map_length, combine_length. lia. Qed.

  Lemma joinrows_length : forall n ss, (forall s, In s ss -> length s = n) -> length (joinrows n ss) = n.
  Proof.
    induction ss as [|s ss IH]; intros H; simpl; [apply repeat_length|].
    rewrite zipapp_length; [apply H; now left|]. rewrite IH; [apply H; now left|]. intros; apply H; now right.
  Qed.

  Lemma zipapp_nth : forall a b i, length a = length b -> i < length a ->
    nth i (zipapp a b) [] = nth i a [] ++ nth i b [].
  Proof.
    induction a as [|x a IH]; intros [|y b] i Hl Hi; simpl in *; try lia.
    destruct i; [reflexivity|]. apply IH; lia.
  Qed.

  Lemma nth_repeat_nil : forall {X} n i, nth i (repeat (@nil X) n) [] = [].
  Proof. induction n; intros [|i]; simpl; auto. Qed.

  Lemma concatenate_joinrows : forall n (ss : list series),
    (forall s, In s ss -> length s = n) -> concatenate n ss = joinrows n ss.
  Proof.
    intros n ss H. apply nth_ext with (d := []) (d' := []).
    - unfold concatenate. rewrite map_length, seq_length. symmetry. now apply joinrows_length.
    - intros i Hi. unfold concatenate in Hi. rewrite map_length, seq_length in Hi.
      rewrite concatenate_nth by exact Hi. clear - H Hi. induction ss as [|s ss IH]; simpl.
      + unfold Series.row, sample. now rewrite nth_repeat_nil.
      + rewrite zipapp_nth.
        * f_equal. apply IH. intros; apply H; now right.
        * rewrite joinrows_length; [apply H; now left|intros; apply H; now right].
        * rewrite (H s) by now left. exact Hi.
  Qed.

  Lemma zipapp_assoc : forall a b c, zipapp (zipapp a b) c = zipapp a (zipapp b c).
  Proof.
    induction a as [|x a IH]; intros [|y b] [|z c]; simpl; try reflexivity.
    unfold zipapp in *. simpl. rewrite <- app_assoc. f_equal. apply IH.
  Qed.

  Lemma zipapp_nil_l : forall b, zipapp (repeat [] (length b)) b = b.
  Proof. induction b; simpl; [reflexivity|]. unfold zipapp in *. simpl. now rewrite IHb. Qed.

  Lemma zipapp_nil_l' : forall n b, length b = n -> zipapp (repeat [] n) b = b.
  Proof. intros n b <-. apply zipapp_nil_l. Qed.

  Lemma zipapp_nil_r : forall a, zipapp a (repeat [] (length a)) = a.
  Proof. induction a; simpl; [reflexivity|]. unfold zipapp in *. simpl. now rewrite IHa, app_nil_r. Qed.

  (* newseries[:, i:i+s.depth] = s, all rows at once *)
  Lemma set_cols_step : forall off d r (pre s : series),
    length pre = length s -> (forall p, In p pre -> length p = off) -> (forall x, In x s -> length x = d) ->
    all_some (map (fun pr => np_set (Some (Z.of_nat off)) (Some (Z.of_nat off + Z.of_nat d)%Z) (fst pr) (snd pr))
                  (combine (zipapp pre (repeat (nans (d + r)) (length pre))) s))
    = Some (zipapp (zipapp pre s) (repeat (nans r) (length pre))).
  Proof.
    intros off d r. induction pre as [|p pre IH]; intros [|x s] Hl Hp Hs; simpl in *; try lia; [reflexivity|].
    unfold zipapp in *. simpl.
    assert (Ep : length p = off) by (apply Hp; now left). assert (Ex : length x = d) by (apply Hs; now left).
    assert (Hhead : np_set (Some (Z.of_nat off)) (Some (Z.of_nat off + Z.of_nat d)%Z) (p ++ nans (d + r)) x
                    = Some ((p ++ x) ++ nans r)).
    { replace (nans (d + r)) with (nans d ++ nans r : row) by (unfold nans; now rewrite repeat_app).
      rewrite (np_set_mid p (nans d) (nans r) x).
      - now rewrite <- app_assoc.
      - now rewrite Ep.
      - rewrite Ep. unfold nans. rewrite repeat_length. lia.
      - unfold nans. now rewrite repeat_length. }
    rewrite Hhead. rewrite IH; [reflexivity| lia | intros; apply Hp; now right | intros; apply Hs; now right].
  Qed.

  Lemma cat_loop_spec : forall (ss : list (nat * series)) off (pre : series),
    (forall p, In p pre -> length p = off) ->
    (forall ds, In ds ss -> length (snd ds) = length pre /\ (forall x, In x (snd ds) -> length x = fst ds)) ->
    cat_loop ss (Z.of_nat off) (zipapp pre (repeat (nans (sumd ss)) (length pre)))
    = Some (zipapp pre (joinrows (length pre) (map snd ss))).
  Proof.
    induction ss as [|[d s] ss IH]; intros off pre Hp Hs.
    - simpl. reflexivity.
    - simpl cat_loop. destruct (k_cat_spec (Z.of_nat off) (Z.of_nat d)) as (E1 & E2 & E3). rewrite E1, E2, E3.
      destruct (Hs (d, s) (or_introl eq_refl)) as [Hl Hd]. simpl in Hl, Hd.
      unfold set_cols. rewrite zipapp_length by now rewrite repeat_length. rewrite Hl, Nat.eqb_refl. simpl negb. cbv iota.
      change (sumd ((d, s) :: ss)) with (d + sumd ss).
      rewrite (set_cols_step off d (sumd ss) pre s) by (try assumption; lia).
      assert (Hz : length (zipapp pre s) = length pre) by (apply zipapp_length; lia).
      rewrite <- Hz. replace (Z.of_nat off + Z.of_nat d)%Z with (Z.of_nat (off + d)) by lia.
      rewrite IH.
      + rewrite Hz. simpl map. simpl joinrows. now rewrite zipapp_assoc.
      + intros q Hq. unfold zipapp in Hq. apply in_map_iff in Hq. destruct Hq as ([a b] & <- & Hab). simpl.
        rewrite app_length. rewrite (Hp a) by (eapply in_combine_l; eassumption).
        now rewrite (Hd b) by (eapply in_combine_r; eassumption).
      + intros ds Hds. rewrite Hz. apply Hs. now right.
  Qed.

  Theorem concatenate_spec_L1 : forall n (ss : list (nat * series)),
    ss <> [] -> forallb (fun ds => Nat.eqb (length (snd ds)) n && wf_series (fst ds) (snd ds)) ss = true ->
    concatenate1 n ss = Some (concatenate n (map snd ss)).
  Proof.
    intros n ss Hne H. rewrite forallb_forall in H.
    assert (Hs : forall ds, In ds ss -> length (snd ds) = n /\ (forall x, In x (snd ds) -> length x = fst ds)).
    { intros ds Hds. specialize (H ds Hds). apply andb_true_iff in H. destruct H as [H1 H2]. split; [now apply Nat.eqb_eq|].
      unfold wf_series in H2. rewrite forallb_forall in H2. intros x Hx. now apply Nat.eqb_eq, H2. }
    unfold concatenate1. destruct ss as [|ds0 ss0] eqn:E; [congruence|]. rewrite <- E in *. rewrite k_cat_start_spec.
    change (fold_right Nat.add 0 (map fst ss)) with (sumd ss).
    pose proof (cat_loop_spec ss 0 (repeat [] n)) as L. rewrite repeat_length in L.
    rewrite (zipapp_nil_l' n (repeat (nans (sumd ss)) n)) in L by apply repeat_length.
    change (Z.of_nat 0) with 0%Z in L. rewrite L.
    - f_equal. rewrite concatenate_joinrows.
      + apply zipapp_nil_l'. apply joinrows_length.
        intros s Hin. apply in_map_iff in Hin. destruct Hin as (ds & <- & Hds). now apply Hs.
      + intros s Hin. apply in_map_iff in Hin. destruct Hin as (ds & <- & Hds). now apply Hs.
    - intros p Hp. apply repeat_spec in Hp. now subst.
    - exact Hs.
  Qed.
End ConcatRefine.

(* ---------- reduce: the L1 model is the L0 definition ---------------------- *)
Lemma reduce_spec_L1 : forall (op : qrow -> option Q) (s : list qrow), reduce1 op s = reduce op s.
Proof. reflexivity. Qed.
